import Sozu.Trie.Model
/-
Helper lemmas for the pattern trie (regex-free part): a structural
well-formedness invariant `WF`, the exact-descent view `get`, and the
characterisation of `insertRec` / `modifyMut` / `removeRec` / `lookup` in terms
of `get` for proper keys (dotted literal labels, then one undotted label that
may be `*`).
-/
set_option linter.unusedSimpArgs false
set_option linter.unusedVariables false
namespace Sozu.Trie
open Sozu

variable {V : Type}

inductive WF : Node V → Prop
  | mk (n : Node V) :
      n.regexps = [] →
      (∀ seg c, KMap.get? n.children seg = some c → WF c) →
      (∀ l c, KMap.get? n.children (false, l) = some c →
          l ≠ [STAR] ∧ ∃ kv, c = Node.mk (some kv) none [] []) →
      WF n

def keySteps (ds : List Bytes) (l : Bytes) : List Step :=
  ds.map (fun d => Step.lit (true, d)) ++ [Step.lit (false, l)]

def get (t : Node V) (k : List Step) : Option (Bytes × V) := lookupMut (fun _ _ => false) false t k

theorem WF.regexps {n : Node V} (h : WF n) : n.regexps = [] := by cases h; assumption
theorem WF.child {n : Node V} (h : WF n) {seg c} (hc : KMap.get? n.children seg = some c) : WF c := by
  cases h with | mk _ _ h2 _ => exact h2 seg c hc
theorem WF.leafChild {n : Node V} (h : WF n) {l c} (hc : KMap.get? n.children (false, l) = some c) :
    l ≠ [STAR] ∧ ∃ kv, c = Node.mk (some kv) none [] [] := by
  cases h with | mk _ _ _ h3 => exact h3 l c hc

theorem wf_root : WF (Node.root : Node V) := by
  refine WF.mk _ rfl ?_ ?_ <;> intro a c h <;> simp [Node.root, Node.children] at h

@[simp] theorem kv_setChildren (n : Node V) c : (n.setChildren c).kv = n.kv := by cases n; rfl
@[simp] theorem wc_setChildren (n : Node V) c : (n.setChildren c).wc = n.wc := by cases n; rfl
@[simp] theorem children_setChildren (n : Node V) c : (n.setChildren c).children = c := by cases n; rfl
@[simp] theorem regexps_setChildren (n : Node V) c : (n.setChildren c).regexps = n.regexps := by cases n; rfl
@[simp] theorem kv_setWc (n : Node V) c : (n.setWc c).kv = n.kv := by cases n; rfl
@[simp] theorem wc_setWc (n : Node V) c : (n.setWc c).wc = c := by cases n; rfl
@[simp] theorem children_setWc (n : Node V) c : (n.setWc c).children = n.children := by cases n; rfl
@[simp] theorem regexps_setWc (n : Node V) c : (n.setWc c).regexps = n.regexps := by cases n; rfl
@[simp] theorem kv_setKv (n : Node V) c : (n.setKv c).kv = c := by cases n; rfl
@[simp] theorem wc_setKv (n : Node V) c : (n.setKv c).wc = n.wc := by cases n; rfl
@[simp] theorem children_setKv (n : Node V) c : (n.setKv c).children = n.children := by cases n; rfl
@[simp] theorem regexps_setKv (n : Node V) c : (n.setKv c).regexps = n.regexps := by cases n; rfl

theorem matchRe_false (rs : List (Bytes × Node V)) (l : Bytes) : matchRe (fun _ _ => false) rs l = none := by
  simp [matchRe]

theorem get_cons (t : Node V) (d : Bytes) (rest : List Step) :
    get t (Step.lit (true, d) :: rest) =
      match KMap.get? t.children (true, d) with
      | some c => get c rest
      | none => none := by
  simp only [get, lookupMut, matchRe_false]
  have hne : ((true, d) : Seg) ≠ (false, [STAR]) := by simp
  simp [hne]; cases KMap.get? t.children (true, d) <;> simp

theorem get_leafKey' (t : Node V) (l : Bytes) :
    get t [Step.lit (false, l)] =
      if l = [STAR] then t.wc else (KMap.get? t.children (false, l)).bind Node.kv := by
  simp only [get, lookupMut, matchRe_false]
  by_cases h : l = [STAR]
  · simp [h]
  · simp [h]; cases KMap.get? t.children (false, l) <;> simp

structure InsSpec (t : Node V) (ds : List Bytes) (l : Bytes) (key : Bytes) (v : V) (r : InsertResult × Node V) : Prop where
  code : r.1 = if (get t (keySteps ds l)).isSome then InsertResult.existing else InsertResult.ok
  self : get r.2 (keySteps ds l) = (get t (keySteps ds l)).orElse (fun _ => some (key, v))
  other : ∀ ds' l', (ds', l') ≠ (ds, l) → get r.2 (keySteps ds' l') = get t (keySteps ds' l')
  wf : WF r.2

theorem keySteps_nil (l : Bytes) : keySteps [] l = [Step.lit (false, l)] := rfl
theorem keySteps_cons (d : Bytes) (ds : List Bytes) (l : Bytes) :
    keySteps (d :: ds) l = Step.lit (true, d) :: keySteps ds l := rfl

theorem insertRec_spec (key : Bytes) (v : V) (ds : List Bytes) (l : Bytes) :
    ∀ (t : Node V), WF t → InsSpec t ds l key v (insertRec t (keySteps ds l) key v) := by
  induction ds with
  | nil =>
    intro t h
    rw [keySteps_nil]
    simp only [insertRec]
    cases hc : KMap.get? t.children (false, l) with
    | some c =>
      obtain ⟨hl, kv, rfl⟩ := h.leafChild hc
      simp only [Option.isSome_some, ↓reduceIte]
      refine ⟨?_, ?_, ?_, h⟩
      · simp [keySteps_nil, get_leafKey', hl, hc, Node.kv]
      · simp [keySteps_nil, get_leafKey', hl, hc, Node.kv]
      · intros; rfl
    | none =>
      simp only [Option.isSome_none, Bool.false_eq_true, ↓reduceIte]
      by_cases hl : l = [STAR]
      · subst hl
        simp only [↓reduceIte]
        cases hw : t.wc with
        | some w =>
          simp only [Option.isSome_some, ↓reduceIte]
          refine ⟨?_, ?_, ?_, h⟩
          · simp [keySteps_nil, get_leafKey', hw]
          · simp [keySteps_nil, get_leafKey', hw]
          · intros; rfl
        | none =>
          simp only [Option.isSome_none, Bool.false_eq_true, ↓reduceIte]
          refine ⟨?_, ?_, ?_, ?_⟩
          · simp [keySteps_nil, get_leafKey', hw]
          · simp [keySteps_nil, get_leafKey', hw]
          · intro ds' l' hne
            cases ds' with
            | nil =>
              have : l' ≠ [STAR] := by intro e; apply hne; simp [e]
              simp [keySteps_nil, get_leafKey', this]
            | cons d' ds'' => simp [keySteps_cons, get_cons]
          · refine WF.mk _ (by simpa using h.regexps) ?_ ?_
            · intro seg c hc'; exact h.child (by simpa using hc')
            · intro l' c hc'; exact h.leafChild (by simpa using hc')
      · simp only [hl, ↓reduceIte]
        refine ⟨?_, ?_, ?_, ?_⟩
        · simp [keySteps_nil, get_leafKey', hl, hc]
        · simp [keySteps_nil, get_leafKey', hl, hc, Node.leaf, Node.kv]
        · intro ds' l' hne
          cases ds' with
          | nil =>
            have hne' : l' ≠ l := by intro e; apply hne; simp [e]
            have hk : ((false, l') : Seg) ≠ (false, l) := by simp [hne']
            simp [keySteps_nil, get_leafKey', KMap.get?_set_ne _ _ hk]
          | cons d' ds'' =>
            have hk : ((true, d') : Seg) ≠ (false, l) := by simp
            simp [keySteps_cons, get_cons, KMap.get?_set_ne _ _ hk]
        · refine WF.mk _ (by simpa using h.regexps) ?_ ?_
          · intro seg c hc'
            simp only [children_setChildren, KMap.get?_set] at hc'
            split at hc'
            · cases hc'
              refine WF.mk _ rfl ?_ ?_ <;> intro a c h' <;> simp [Node.leaf, Node.children] at h'
            · exact h.child hc'
          · intro l' c hc'
            simp only [children_setChildren, KMap.get?_set] at hc'
            split at hc'
            · next e =>
              cases hc'
              simp only [Prod.mk.injEq, true_and] at e
              subst e
              exact ⟨hl, _, rfl⟩
            · exact h.leafChild hc'
  | cons d ds ih =>
    intro t h
    rw [keySteps_cons]
    simp only [insertRec]
    have hself : ∀ (t' : Node V), get t' (keySteps (d :: ds) l) =
        match KMap.get? t'.children (true, d) with
        | some c => get c (keySteps ds l)
        | none => none := fun t' => by rw [keySteps_cons, get_cons]
    cases hc : KMap.get? t.children (true, d) with
    | some c =>
      have ihc := ih c (h.child hc)
      simp only [Bool.true_eq_false, ↓reduceIte]
      refine ⟨?_, ?_, ?_, ?_⟩
      · rw [ihc.code, hself, hc]
      · rw [hself, hself, hc]; simp [ihc.self]
      · intro ds' l' hne
        cases ds' with
        | nil =>
          have hk : ((false, l') : Seg) ≠ (true, d) := by simp
          simp [keySteps_nil, get_leafKey', KMap.get?_set_ne _ _ hk]
        | cons d' ds'' =>
          simp only [keySteps_cons, get_cons, children_setChildren, KMap.get?_set]
          by_cases hd : d' = d
          · subst hd
            simp only [↓reduceIte, hc]
            exact ihc.other ds'' l' (by intro e; apply hne; simp_all)
          · have : ((true, d') : Seg) ≠ (true, d) := by simp [hd]
            simp [this]
      · refine WF.mk _ (by simpa using h.regexps) ?_ ?_
        · intro seg c' hc'
          simp only [children_setChildren, KMap.get?_set] at hc'
          split at hc'
          · cases hc'; exact ihc.wf
          · exact h.child hc'
        · intro l' c' hc'
          have hk : ((false, l') : Seg) ≠ (true, d) := by simp
          simp only [children_setChildren, KMap.get?_set_ne _ _ hk] at hc'
          exact h.leafChild hc'
    | none =>
      have ihc := ih (Node.root : Node V) wf_root
      simp only [Bool.true_eq_false, ↓reduceIte]
      have hroot : get (Node.root : Node V) (keySteps ds l) = none := by
        cases ds <;> simp [keySteps_nil, keySteps_cons, get_leafKey', get_cons, Node.root, Node.wc, Node.children]
      have hcode : (insertRec (Node.root : Node V) (keySteps ds l) key v).1 = InsertResult.ok := by
        rw [ihc.code, hroot]; rfl
      simp only [hcode, ↓reduceIte]
      refine ⟨?_, ?_, ?_, ?_⟩
      · rw [hself, hc]; rfl
      · rw [hself, hself, hc]; simp [ihc.self, hroot]
      · intro ds' l' hne
        cases ds' with
        | nil =>
          have hk : ((false, l') : Seg) ≠ (true, d) := by simp
          simp [keySteps_nil, get_leafKey', KMap.get?_set_ne _ _ hk]
        | cons d' ds'' =>
          simp only [keySteps_cons, get_cons, children_setChildren, KMap.get?_set]
          by_cases hd : d' = d
          · subst hd
            simp only [↓reduceIte, hc]
            rw [ihc.other ds'' l' (by intro e; apply hne; simp_all)]
            cases ds'' <;> simp [keySteps_nil, keySteps_cons, get_leafKey', get_cons, Node.root, Node.wc, Node.children]
          · have : ((true, d') : Seg) ≠ (true, d) := by simp [hd]
            simp [this]
      · refine WF.mk _ (by simpa using h.regexps) ?_ ?_
        · intro seg c' hc'
          simp only [children_setChildren, KMap.get?_set] at hc'
          split at hc'
          · cases hc'; exact ihc.wf
          · exact h.child hc'
        · intro l' c' hc'
          have hk : ((false, l') : Seg) ≠ (true, d) := by simp
          simp only [children_setChildren, KMap.get?_set_ne _ _ hk] at hc'
          exact h.leafChild hc'

theorem get_of_isEmpty (n : Node V) (h : n.isEmpty = true) (ds : List Bytes) (l : Bytes) :
    get n (keySteps ds l) = none := by
  cases n with
  | mk kv wc ch rs =>
    simp only [Node.isEmpty, Node.kv, Node.wc, Node.regexps, Node.children, Bool.and_eq_true,
      Option.isNone_iff_eq_none, List.isEmpty_iff] at h
    obtain ⟨⟨⟨h1, h2⟩, h3⟩, h4⟩ := h
    subst h1 h2 h3 h4
    cases ds <;> simp [keySteps_nil, keySteps_cons, get_leafKey', get_cons, Node.wc, Node.children]

theorem lookupMut_eq_get (re : Bytes → Bytes → Bool) (ds : List Bytes) (l : Bytes) :
    ∀ (t : Node V), WF t → lookupMut re false t (keySteps ds l) = get t (keySteps ds l) := by
  induction ds with
  | nil =>
    intro t h
    simp only [keySteps_nil, get, lookupMut, matchRe, h.regexps, List.find?_nil]
  | cons d ds ih =>
    intro t h
    simp only [keySteps_cons, get, lookupMut, matchRe, h.regexps, List.find?_nil]
    have hne : ((true, d) : Seg) ≠ (false, [STAR]) := by simp
    simp only [hne, ↓reduceIte]
    cases hc : KMap.get? t.children (true, d) with
    | some c => simpa [get] using ih c (h.child hc)
    | none => simp

structure ModSpec (f : V → V) (t : Node V) (ds : List Bytes) (l : Bytes) (r : Node V) : Prop where
  self : get r (keySteps ds l) = (get t (keySteps ds l)).map (fun p => (p.1, f p.2))
  other : ∀ ds' l', (ds', l') ≠ (ds, l) → get r (keySteps ds' l') = get t (keySteps ds' l')
  wf : WF r

theorem modifyMut_spec (re : Bytes → Bytes → Bool) (f : V → V) (ds : List Bytes) (l : Bytes) :
    ∀ (t : Node V), WF t → ModSpec f t ds l (modifyMut re false f t (keySteps ds l)) := by
  induction ds with
  | nil =>
    intro t h
    rw [keySteps_nil]
    simp only [modifyMut, matchRe, h.regexps, List.find?_nil]
    by_cases hl : l = [STAR]
    · subst hl
      simp only [↓reduceIte]
      refine ⟨?_, ?_, ?_⟩
      · simp [keySteps_nil, get_leafKey', mapSnd]
      · intro ds' l' hne
        cases ds' with
        | nil =>
          have : l' ≠ [STAR] := by intro e; apply hne; simp [e]
          simp [keySteps_nil, get_leafKey', this]
        | cons d' ds'' => simp [keySteps_cons, get_cons]
      · refine WF.mk _ (by simpa using h.regexps) ?_ ?_
        · intro seg c hc'; exact h.child (by simpa using hc')
        · intro l' c hc'; exact h.leafChild (by simpa using hc')
    · have hne : ((false, l) : Seg) ≠ (false, [STAR]) := by simp [hl]
      simp only [hne, ↓reduceIte]
      cases hc : KMap.get? t.children (false, l) with
      | none =>
        simp only [Bool.and_false, Bool.false_eq_true, ↓reduceIte]
        refine ⟨?_, ?_, h⟩
        · simp [keySteps_nil, get_leafKey', hl, hc]
        · intros; rfl
      | some c =>
        obtain ⟨_, kv, rfl⟩ := h.leafChild hc
        refine ⟨?_, ?_, ?_⟩
        · simp [modifyMut, keySteps_nil, get_leafKey', hl, hc, Node.kv, mapSnd, Node.setKv]
        · intro ds' l' hne'
          cases ds' with
          | nil =>
            have hne'' : l' ≠ l := by intro e; apply hne'; simp [e]
            have hk : ((false, l') : Seg) ≠ (false, l) := by simp [hne'']
            simp [keySteps_nil, get_leafKey', KMap.get?_set_ne _ _ hk]
          | cons d' ds'' =>
            have hk : ((true, d') : Seg) ≠ (false, l) := by simp
            simp [keySteps_cons, get_cons, KMap.get?_set_ne _ _ hk]
        · refine WF.mk _ (by simpa using h.regexps) ?_ ?_
          · intro seg c hc'
            simp only [children_setChildren, KMap.get?_set] at hc'
            split at hc'
            · cases hc'
              refine WF.mk _ rfl ?_ ?_ <;> intro a c h' <;>
                simp [Node.setKv, Node.children, Node.kv, Node.wc, Node.regexps] at h'
            · exact h.child hc'
          · intro l' c hc'
            simp only [children_setChildren, KMap.get?_set] at hc'
            split at hc'
            · next e =>
              cases hc'
              simp only [Prod.mk.injEq, true_and] at e
              subst e
              exact ⟨hl, (kv.1, f kv.2), by simp [Node.setKv, mapSnd, Node.kv, Node.wc, Node.children, Node.regexps]⟩
            · exact h.leafChild hc'
  | cons d ds ih =>
    intro t h
    rw [keySteps_cons]
    simp only [modifyMut, matchRe, h.regexps, List.find?_nil]
    have hne : ((true, d) : Seg) ≠ (false, [STAR]) := by simp
    simp only [hne, ↓reduceIte]
    cases hc : KMap.get? t.children (true, d) with
    | none =>
      have : (keySteps ds l).isEmpty = false := by cases ds <;> rfl
      simp only [this, Bool.false_and, Bool.false_eq_true, ↓reduceIte]
      refine ⟨?_, ?_, h⟩
      · simp [keySteps_cons, get_cons, hc]
      · intros; rfl
    | some c =>
      have ihc := ih c (h.child hc)
      simp only []
      refine ⟨?_, ?_, ?_⟩
      · simp [keySteps_cons, get_cons, hc, ihc.self]
      · intro ds' l' hne'
        cases ds' with
        | nil =>
          have hk : ((false, l') : Seg) ≠ (true, d) := by simp
          simp [keySteps_nil, get_leafKey', KMap.get?_set_ne _ _ hk]
        | cons d' ds'' =>
          simp only [keySteps_cons, get_cons, children_setChildren, KMap.get?_set]
          by_cases hd : d' = d
          · subst hd
            simp only [↓reduceIte, hc]
            exact ihc.other ds'' l' (by intro e; apply hne'; simp_all)
          · have : ((true, d') : Seg) ≠ (true, d) := by simp [hd]
            simp [this]
      · refine WF.mk _ (by simpa using h.regexps) ?_ ?_
        · intro seg c' hc'
          simp only [children_setChildren, KMap.get?_set] at hc'
          split at hc'
          · cases hc'; exact ihc.wf
          · exact h.child hc'
        · intro l' c' hc'
          have hk : ((false, l') : Seg) ≠ (true, d) := by simp
          simp only [children_setChildren, KMap.get?_set_ne _ _ hk] at hc'
          exact h.leafChild hc'

structure RemSpec (t : Node V) (ds : List Bytes) (l : Bytes) (r : RemoveResult × Node V) : Prop where
  code : r.1 = if (get t (keySteps ds l)).isSome then RemoveResult.ok else RemoveResult.notFound
  self : get r.2 (keySteps ds l) = none
  other : ∀ ds' l', (ds', l') ≠ (ds, l) → get r.2 (keySteps ds' l') = get t (keySteps ds' l')
  wf : WF r.2

theorem removeRec_spec (ds : List Bytes) (l : Bytes) :
    ∀ (t : Node V), WF t → RemSpec t ds l (removeRec t (keySteps ds l)) := by
  induction ds with
  | nil =>
    intro t h
    rw [keySteps_nil]
    simp only [removeRec]
    by_cases hl : l = [STAR]
    · subst hl
      simp only [↓reduceIte]
      cases hw : t.wc with
      | none =>
        simp only [Option.isSome_none, Bool.false_eq_true, ↓reduceIte]
        refine ⟨?_, ?_, ?_, h⟩
        · simp [keySteps_nil, get_leafKey', hw]
        · simp [keySteps_nil, get_leafKey', hw]
        · intros; rfl
      | some w =>
        simp only [Option.isSome_some, ↓reduceIte]
        refine ⟨?_, ?_, ?_, ?_⟩
        · simp [keySteps_nil, get_leafKey', hw]
        · simp [keySteps_nil, get_leafKey']
        · intro ds' l' hne
          cases ds' with
          | nil =>
            have : l' ≠ [STAR] := by intro e; apply hne; simp [e]
            simp [keySteps_nil, get_leafKey', this]
          | cons d' ds'' => simp [keySteps_cons, get_cons]
        · refine WF.mk _ (by simpa using h.regexps) ?_ ?_
          · intro seg c hc'; exact h.child (by simpa using hc')
          · intro l' c hc'; exact h.leafChild (by simpa using hc')
    · have hne : ((false, l) : Seg) ≠ (false, [STAR]) := by simp [hl]
      simp only [hne, ↓reduceIte]
      cases hc : KMap.get? t.children (false, l) with
      | none =>
        refine ⟨?_, ?_, ?_, h⟩
        · simp [keySteps_nil, get_leafKey', hl, hc]
        · simp [keySteps_nil, get_leafKey', hl, hc]
        · intros; rfl
      | some c =>
        obtain ⟨_, kv, rfl⟩ := h.leafChild hc
        have hkv : (Node.mk (some kv) none [] [] : Node V).kv = some kv := rfl
        have hset : (Node.mk (some kv) none [] [] : Node V).setKv none = Node.mk none none [] [] := rfl
        have hemp : (Node.mk none none [] [] : Node V).isEmpty = true := by
          simp [Node.isEmpty, Node.kv, Node.wc, Node.children, Node.regexps]
        simp only [hkv, hset, hemp, Option.isSome_some, ↓reduceIte]
        refine ⟨?_, ?_, ?_, ?_⟩
        · simp [keySteps_nil, get_leafKey', hl, hc, Node.kv]
        · simp [keySteps_nil, get_leafKey', hl]
        · intro ds' l' hne'
          cases ds' with
          | nil =>
            have hne'' : l' ≠ l := by intro e; apply hne'; simp [e]
            have hk : ((false, l') : Seg) ≠ (false, l) := by simp [hne'']
            simp [keySteps_nil, get_leafKey', KMap.get?_erase_ne _ hk]
          | cons d' ds'' =>
            have hk : ((true, d') : Seg) ≠ (false, l) := by simp
            simp [keySteps_cons, get_cons, KMap.get?_erase_ne _ hk]
        · refine WF.mk _ (by simpa using h.regexps) ?_ ?_
          · intro seg c hc'
            simp only [children_setChildren, KMap.get?_erase] at hc'
            split at hc'
            · cases hc'
            · exact h.child hc'
          · intro l' c hc'
            simp only [children_setChildren, KMap.get?_erase] at hc'
            split at hc'
            · cases hc'
            · exact h.leafChild hc'
  | cons d ds ih =>
    intro t h
    rw [keySteps_cons]
    simp only [removeRec]
    have hne : ((true, d) : Seg) ≠ (false, [STAR]) := by simp
    simp only [hne, ↓reduceIte]
    cases hc : KMap.get? t.children (true, d) with
    | none =>
      refine ⟨?_, ?_, ?_, h⟩
      · simp [keySteps_cons, get_cons, hc]
      · simp [keySteps_cons, get_cons, hc]
      · intros; rfl
    | some c =>
      have ihc := ih c (h.child hc)
      simp only []
      by_cases hs : (get c (keySteps ds l)).isSome
      · have hok : (removeRec c (keySteps ds l)).1 = RemoveResult.ok := by rw [ihc.code]; simp [hs]
        simp only [hok, ↓reduceIte]
        by_cases he : (removeRec c (keySteps ds l)).2.isEmpty = true
        · simp only [he, ↓reduceIte]
          refine ⟨?_, ?_, ?_, ?_⟩
          · simp [keySteps_cons, get_cons, hc, hs]
          · simp [keySteps_cons, get_cons]
          · intro ds' l' hne'
            cases ds' with
            | nil =>
              have hk : ((false, l') : Seg) ≠ (true, d) := by simp
              simp [keySteps_nil, get_leafKey', KMap.get?_erase_ne _ hk]
            | cons d' ds'' =>
              simp only [keySteps_cons, get_cons, children_setChildren, KMap.get?_erase]
              by_cases hd : d' = d
              · subst hd
                simp only [↓reduceIte, hc]
                rw [← ihc.other ds'' l' (by intro e; apply hne'; simp_all)]
                exact (get_of_isEmpty _ he ds'' l').symm
              · have : ((true, d') : Seg) ≠ (true, d) := by simp [hd]
                simp [this]
          · refine WF.mk _ (by simpa using h.regexps) ?_ ?_
            · intro seg c' hc'
              simp only [children_setChildren, KMap.get?_erase] at hc'
              split at hc'
              · cases hc'
              · exact h.child hc'
            · intro l' c' hc'
              simp only [children_setChildren, KMap.get?_erase] at hc'
              split at hc'
              · cases hc'
              · exact h.leafChild hc'
        · simp only [he, Bool.false_eq_true, ↓reduceIte]
          refine ⟨?_, ?_, ?_, ?_⟩
          · simp [keySteps_cons, get_cons, hc, hs]
          · simp [keySteps_cons, get_cons, ihc.self]
          · intro ds' l' hne'
            cases ds' with
            | nil =>
              have hk : ((false, l') : Seg) ≠ (true, d) := by simp
              simp [keySteps_nil, get_leafKey', KMap.get?_set_ne _ _ hk]
            | cons d' ds'' =>
              simp only [keySteps_cons, get_cons, children_setChildren, KMap.get?_set]
              by_cases hd : d' = d
              · subst hd
                simp only [↓reduceIte, hc]
                exact ihc.other ds'' l' (by intro e; apply hne'; simp_all)
              · have : ((true, d') : Seg) ≠ (true, d) := by simp [hd]
                simp [this]
          · refine WF.mk _ (by simpa using h.regexps) ?_ ?_
            · intro seg c' hc'
              simp only [children_setChildren, KMap.get?_set] at hc'
              split at hc'
              · cases hc'; exact ihc.wf
              · exact h.child hc'
            · intro l' c' hc'
              have hk : ((false, l') : Seg) ≠ (true, d) := by simp
              simp only [children_setChildren, KMap.get?_set_ne _ _ hk] at hc'
              exact h.leafChild hc'
      · have hnf : (removeRec c (keySteps ds l)).1 ≠ RemoveResult.ok := by rw [ihc.code]; simp [hs]
        simp only [hnf, ↓reduceIte]
        have hn : get c (keySteps ds l) = none := by simpa using hs
        refine ⟨?_, ?_, ?_, h⟩
        · simp [keySteps_cons, get_cons, hc, hn]
        · simp [keySteps_cons, get_cons, hc, hn]
        · intros; rfl

def qSegs (ds : List Bytes) (l : Bytes) : List Seg :=
  ds.map (fun d => ((true, d) : Seg)) ++ [(false, l)]

theorem lookup_eq (re : Bytes → Bytes → Bool) (ds : List Bytes) (l : Bytes) :
    ∀ (t : Node V), WF t →
    lookup re true t (qSegs ds l) = (get t (keySteps ds l)).orElse (fun _ => get t (keySteps ds [STAR])) := by
  induction ds with
  | nil =>
    intro t h
    simp only [qSegs, keySteps, List.map_nil, List.nil_append, lookup, get, lookupMut, matchRe, h.regexps]
    cases hc : KMap.get? t.children (false, l) with
    | some c =>
      obtain ⟨hl, kv, rfl⟩ := h.leafChild hc
      simp [hl, Node.kv]
    | none =>
      by_cases hl : l = [STAR]
      · subst hl; simp; cases t.wc <;> simp
      · simp [hl]; cases t.wc <;> simp
  | cons d ds ih =>
    intro t h
    simp only [qSegs, keySteps, List.map_cons, List.cons_append, lookup, get, lookupMut, matchRe, h.regexps]
    have hne : ((true, d) : Seg) ≠ (false, [STAR]) := by simp
    cases hc : KMap.get? t.children (true, d) with
    | some c =>
      have := ih c (h.child hc)
      simp only [qSegs, keySteps, get] at this
      simp [this, hne]
    | none => simp [hne]

end Sozu.Trie
