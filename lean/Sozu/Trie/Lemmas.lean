import Sozu.Trie.Model
/-
Helper lemmas for the pattern trie (regex-free part): a structural
well-formedness invariant `WF`, the exact-descent view `get`, and the
characterisation of `insertRec` / `modifyMut` / `removeRec` / `lookup` in terms
of `get` for proper keys (dotted literal labels, then one undotted label that
may be `*`).
-/
set_option linter.unusedSimpArgs false
set_option linter.unusedVariables false
namespace Sozu.Trie
open Sozu

variable {V : Type}

inductive WF : Node V → Prop
  | mk (n : Node V) :
      n.regexps = [] →
      (∀ seg c, KMap.get? n.children seg = some c → WF c) →
      (∀ l c, KMap.get? n.children (false, l) = some c →
          l ≠ [STAR] ∧ ∃ kv, c = Node.mk (some kv) none [] []) →
      WF n

def keySteps (ds : List Bytes) (l : Bytes) : List Step :=
  ds.map (fun d => Step.lit (true, d)) ++ [Step.lit (false, l)]

def get (t : Node V) (k : List Step) : Option (Bytes × V) := lookupMut (fun _ _ => false) false t k

theorem WF.regexps {n : Node V} (h : WF n) : n.regexps = [] := by cases h; assumption
theorem WF.child {n : Node V} (h : WF n) {seg c} (hc : KMap.get? n.children seg = some c) : WF c := by
  cases h with | mk _ _ h2 _ => exact h2 seg c hc
theorem WF.leafChild {n : Node V} (h : WF n) {l c} (hc : KMap.get? n.children (false, l) = some c) :
    l ≠ [STAR] ∧ ∃ kv, c = Node.mk (some kv) none [] [] := by
  cases h with | mk _ _ _ h3 => exact h3 l c hc

theorem wf_root : WF (Node.root : Node V) := by
  refine WF.mk _ rfl ?_ ?_ <;> intro a c h <;> simp [Node.root, Node.children] at h

@[simp] theorem kv_setChildren (n : Node V) c : (n.setChildren c).kv = n.kv := by cases n; rfl
@[simp] theorem wc_setChildren (n : Node V) c : (n.setChildren c).wc = n.wc := by cases n; rfl
@[simp] theorem children_setChildren (n : Node V) c : (n.setChildren c).children = c := by cases n; rfl
@[simp] theorem regexps_setChildren (n : Node V) c : (n.setChildren c).regexps = n.regexps := by cases n; rfl
@[simp] theorem kv_setWc (n : Node V) c : (n.setWc c).kv = n.kv := by cases n; rfl
@[simp] theorem wc_setWc (n : Node V) c : (n.setWc c).wc = c := by cases n; rfl
@[simp] theorem children_setWc (n : Node V) c : (n.setWc c).children = n.children := by cases n; rfl
@[simp] theorem regexps_setWc (n : Node V) c : (n.setWc c).regexps = n.regexps := by cases n; rfl
@[simp] theorem kv_setKv (n : Node V) c : (n.setKv c).kv = c := by cases n; rfl
@[simp] theorem wc_setKv (n : Node V) c : (n.setKv c).wc = n.wc := by cases n; rfl
@[simp] theorem children_setKv (n : Node V) c : (n.setKv c).children = n.children := by cases n; rfl
@[simp] theorem regexps_setKv (n : Node V) c : (n.setKv c).regexps = n.regexps := by cases n; rfl

theorem matchRe_false (rs : List (Bytes × Node V)) (l : Bytes) : matchRe (fun _ _ => false) rs l = none := by
  simp [matchRe]

theorem get_cons (t : Node V) (d : Bytes) (rest : List Step) :
    get t (Step.lit (true, d) :: rest) =
      match KMap.get? t.children (true, d) with
      | some c => get c rest
      | none => none := by
  simp only [get, lookupMut, matchRe_false]
  have hne : ((true, d) : Seg) ≠ (false, [STAR]) := by simp
  simp [hne]; cases KMap.get? t.children (true, d) <;> simp

theorem get_leafKey' (t : Node V) (l : Bytes) :
    get t [Step.lit (false, l)] =
      if l = [STAR] then t.wc else (KMap.get? t.children (false, l)).bind Node.kv := by
  simp only [get, lookupMut, matchRe_false]
  by_cases h : l = [STAR]
  · simp [h]
  · simp [h]; cases KMap.get? t.children (false, l) <;> simp

structure InsSpec (t : Node V) (ds : List Bytes) (l : Bytes) (key : Bytes) (v : V) (r : InsertResult × Node V) : Prop where
  code : r.1 = if (get t (keySteps ds l)).isSome then InsertResult.existing else InsertResult.ok
  self : get r.2 (keySteps ds l) = (get t (keySteps ds l)).orElse (fun _ => some (key, v))
  other : ∀ ds' l', (ds', l') ≠ (ds, l) → get r.2 (keySteps ds' l') = get t (keySteps ds' l')
  wf : WF r.2

theorem keySteps_nil (l : Bytes) : keySteps [] l = [Step.lit (false, l)] := rfl
theorem keySteps_cons (d : Bytes) (ds : List Bytes) (l : Bytes) :
    keySteps (d :: ds) l = Step.lit (true, d) :: keySteps ds l := rfl

theorem insertRec_spec (key : Bytes) (v : V) (ds : List Bytes) (l : Bytes) :
    ∀ (t : Node V), WF t → InsSpec t ds l key v (insertRec t (keySteps ds l) key v) := by
  induction ds with
  | nil =>
    intro t h
    rw [keySteps_nil]
    simp only [insertRec]
    cases hc : KMap.get? t.children (false, l) with
    | some c =>
      obtain ⟨hl, kv, rfl⟩ := h.leafChild hc
      simp only [Option.isSome_some, ↓reduceIte]
      refine ⟨?_, ?_, ?_, h⟩
      · simp [keySteps_nil, get_leafKey', hl, hc, Node.kv]
      · simp [keySteps_nil, get_leafKey', hl, hc, Node.kv]
      · intros; rfl
    | none =>
      simp only [Option.isSome_none, Bool.false_eq_true, ↓reduceIte]
      by_cases hl : l = [STAR]
      · subst hl
        simp only [↓reduceIte]
        cases hw : t.wc with
        | some w =>
          simp only [Option.isSome_some, ↓reduceIte]
          refine ⟨?_, ?_, ?_, h⟩
          · simp [keySteps_nil, get_leafKey', hw]
          · simp [keySteps_nil, get_leafKey', hw]
          · intros; rfl
        | none =>
          simp only [Option.isSome_none, Bool.false_eq_true, ↓reduceIte]
          refine ⟨?_, ?_, ?_, ?_⟩
          · simp [keySteps_nil, get_leafKey', hw]
          · simp [keySteps_nil, get_leafKey', hw]
          · intro ds' l' hne
            cases ds' with
            | nil =>
              have : l' ≠ [STAR] := by intro e; apply hne; simp [e]
              simp [keySteps_nil, get_leafKey', this]
            | cons d' ds'' => simp [keySteps_cons, get_cons]
          · refine WF.mk _ (by simpa using h.regexps) ?_ ?_
            · intro seg c hc'; exact h.child (by simpa using hc')
            · intro l' c hc'; exact h.leafChild (by simpa using hc')
      · simp only [hl, ↓reduceIte]
        refine ⟨?_, ?_, ?_, ?_⟩
        · simp [keySteps_nil, get_leafKey', hl, hc]
        · simp [keySteps_nil, get_leafKey', hl, hc, Node.leaf, Node.kv]
        · intro ds' l' hne
          cases ds' with
          | nil =>
            have hne' : l' ≠ l := by intro e; apply hne; simp [e]
            have hk : ((false, l') : Seg) ≠ (false, l) := by simp [hne']
            simp [keySteps_nil, get_leafKey', KMap.get?_set_ne _ _ hk]
          | cons d' ds'' =>
            have hk : ((true, d') : Seg) ≠ (false, l) := by simp
            simp [keySteps_cons, get_cons, KMap.get?_set_ne _ _ hk]
        · refine WF.mk _ (by simpa using h.regexps) ?_ ?_
          · intro seg c hc'
            simp only [children_setChildren, KMap.get?_set] at hc'
            split at hc'
            · cases hc'
              refine WF.mk _ rfl ?_ ?_ <;> intro a c h' <;> simp [Node.leaf, Node.children] at h'
            · exact h.child hc'
          · intro l' c hc'
            simp only [children_setChildren, KMap.get?_set] at hc'
            split at hc'
            · next e =>
              cases hc'
              simp only [Prod.mk.injEq, true_and] at e
              subst e
              exact ⟨hl, _, rfl⟩
            · exact h.leafChild hc'
  | cons d ds ih =>
    intro t h
    rw [keySteps_cons]
    simp only [insertRec]
    have hself : ∀ (t' : Node V), get t' (keySteps (d :: ds) l) =
        match KMap.get? t'.children (true, d) with
        | some c => get c (keySteps ds l)
        | none => none := fun t' => by rw [keySteps_cons, get_cons]
    cases hc : KMap.get? t.children (true, d) with
    | some c =>
      have ihc := ih c (h.child hc)
      simp only [Bool.true_eq_false, ↓reduceIte]
      refine ⟨?_, ?_, ?_, ?_⟩
      · rw [ihc.code, hself, hc]
      · rw [hself, hself, hc]; simp [ihc.self]
      · intro ds' l' hne
        cases ds' with
        | nil =>
          have hk : ((false, l') : Seg) ≠ (true, d) := by simp
          simp [keySteps_nil, get_leafKey', KMap.get?_set_ne _ _ hk]
        | cons d' ds'' =>
          simp only [keySteps_cons, get_cons, children_setChildren, KMap.get?_set]
          by_cases hd : d' = d
          · subst hd
            simp only [↓reduceIte, hc]
            exact ihc.other ds'' l' (by intro e; apply hne; simp_all)
          · have : ((true, d') : Seg) ≠ (true, d) := by simp [hd]
            simp [this]
      · refine WF.mk _ (by simpa using h.regexps) ?_ ?_
        · intro seg c' hc'
          simp only [children_setChildren, KMap.get?_set] at hc'
          split at hc'
          · cases hc'; exact ihc.wf
          · exact h.child hc'
        · intro l' c' hc'
          have hk : ((false, l') : Seg) ≠ (true, d) := by simp
          simp only [children_setChildren, KMap.get?_set_ne _ _ hk] at hc'
          exact h.leafChild hc'
    | none =>
      have ihc := ih (Node.root : Node V) wf_root
      simp only [Bool.true_eq_false, ↓reduceIte]
      have hroot : get (Node.root : Node V) (keySteps ds l) = none := by
        cases ds <;> simp [keySteps_nil, keySteps_cons, get_leafKey', get_cons, Node.root, Node.wc, Node.children]
      have hcode : (insertRec (Node.root : Node V) (keySteps ds l) key v).1 = InsertResult.ok := by
        rw [ihc.code, hroot]; rfl
      simp only [hcode, ↓reduceIte]
      refine ⟨?_, ?_, ?_, ?_⟩
      · rw [hself, hc]; rfl
      · rw [hself, hself, hc]; simp [ihc.self, hroot]
      · intro ds' l' hne
        cases ds' with
        | nil =>
          have hk : ((false, l') : Seg) ≠ (true, d) := by simp
          simp [keySteps_nil, get_leafKey', KMap.get?_set_ne _ _ hk]
        | cons d' ds'' =>
          simp only [keySteps_cons, get_cons, children_setChildren, KMap.get?_set]
          by_cases hd : d' = d
          · subst hd
            simp only [↓reduceIte, hc]
            rw [ihc.other ds'' l' (by intro e; apply hne; simp_all)]
            cases ds'' <;> simp [keySteps_nil, keySteps_cons, get_leafKey', get_cons, Node.root, Node.wc, Node.children]
          · have : ((true, d') : Seg) ≠ (true, d) := by simp [hd]
            simp [this]
      · refine WF.mk _ (by simpa using h.regexps) ?_ ?_
        · intro seg c' hc'
          simp only [children_setChildren, KMap.get?_set] at hc'
          split at hc'
          · cases hc'; exact ihc.wf
          · exact h.child hc'
        · intro l' c' hc'
          have hk : ((false, l') : Seg) ≠ (true, d) := by simp
          simp only [children_setChildren, KMap.get?_set_ne _ _ hk] at hc'
          exact h.leafChild hc'

theorem get_of_isEmpty (n : Node V) (h : n.isEmpty = true) (ds : List Bytes) (l : Bytes) :
    get n (keySteps ds l) = none := by
  cases n with
  | mk kv wc ch rs =>
    simp only [Node.isEmpty, Node.kv, Node.wc, Node.regexps, Node.children, Bool.and_eq_true,
      Option.isNone_iff_eq_none, List.isEmpty_iff] at h
    obtain ⟨⟨⟨h1, h2⟩, h3⟩, h4⟩ := h
    subst h1 h2 h3 h4
    cases ds <;> simp [keySteps_nil, keySteps_cons, get_leafKey', get_cons, Node.wc, Node.children]

theorem lookupMut_eq_get (re : Bytes → Bytes → Bool) (ds : List Bytes) (l : Bytes) :
    ∀ (t : Node V), WF t → lookupMut re false t (keySteps ds l) = get t (keySteps ds l) := by
  induction ds with
  | nil =>
    intro t h
    simp only [keySteps_nil, get, lookupMut, matchRe, h.regexps, List.find?_nil]
  | cons d ds ih =>
    intro t h
    simp only [keySteps_cons, get, lookupMut, matchRe, h.regexps, List.find?_nil]
    have hne : ((true, d) : Seg) ≠ (false, [STAR]) := by simp
    simp only [hne, ↓reduceIte]
    cases hc : KMap.get? t.children (true, d) with
    | some c => simpa [get] using ih c (h.child hc)
    | none => simp

structure ModSpec (f : V → V) (t : Node V) (ds : List Bytes) (l : Bytes) (r : Node V) : Prop where
  self : get r (keySteps ds l) = (get t (keySteps ds l)).map (fun p => (p.1, f p.2))
  other : ∀ ds' l', (ds', l') ≠ (ds, l) → get r (keySteps ds' l') = get t (keySteps ds' l')
  wf : WF r

theorem modifyMut_spec (re : Bytes → Bytes → Bool) (f : V → V) (ds : List Bytes) (l : Bytes) :
    ∀ (t : Node V), WF t → ModSpec f t ds l (modifyMut re false f t (keySteps ds l)) := by
  induction ds with
  | nil =>
    intro t h
    rw [keySteps_nil]
    simp only [modifyMut, matchRe, h.regexps, List.find?_nil]
    by_cases hl : l = [STAR]
    · subst hl
      simp only [↓reduceIte]
      refine ⟨?_, ?_, ?_⟩
      · simp [keySteps_nil, get_leafKey', mapSnd]
      · intro ds' l' hne
        cases ds' with
        | nil =>
          have : l' ≠ [STAR] := by intro e; apply hne; simp [e]
          simp [keySteps_nil, get_leafKey', this]
        | cons d' ds'' => simp [keySteps_cons, get_cons]
      · refine WF.mk _ (by simpa using h.regexps) ?_ ?_
        · intro seg c hc'; exact h.child (by simpa using hc')
        · intro l' c hc'; exact h.leafChild (by simpa using hc')
    · have hne : ((false, l) : Seg) ≠ (false, [STAR]) := by simp [hl]
      simp only [hne, ↓reduceIte]
      cases hc : KMap.get? t.children (false, l) with
      | none =>
        simp only [Bool.and_false, Bool.false_eq_true, ↓reduceIte]
        refine ⟨?_, ?_, h⟩
        · simp [keySteps_nil, get_leafKey', hl, hc]
        · intros; rfl
      | some c =>
        obtain ⟨_, kv, rfl⟩ := h.leafChild hc
        refine ⟨?_, ?_, ?_⟩
        · simp [modifyMut, keySteps_nil, get_leafKey', hl, hc, Node.kv, mapSnd, Node.setKv]
        · intro ds' l' hne'
          cases ds' with
          | nil =>
            have hne'' : l' ≠ l := by intro e; apply hne'; simp [e]
            have hk : ((false, l') : Seg) ≠ (false, l) := by simp [hne'']
            simp [keySteps_nil, get_leafKey', KMap.get?_set_ne _ _ hk]
          | cons d' ds'' =>
            have hk : ((true, d') : Seg) ≠ (false, l) := by simp
            simp [keySteps_cons, get_cons, KMap.get?_set_ne _ _ hk]
        · refine WF.mk _ (by simpa using h.regexps) ?_ ?_
          · intro seg c hc'
            simp only [children_setChildren, KMap.get?_set] at hc'
            split at hc'
            · cases hc'
              refine WF.mk _ rfl ?_ ?_ <;> intro a c h' <;>
                simp [Node.setKv, Node.children, Node.kv, Node.wc, Node.regexps] at h'
            · exact h.child hc'
          · intro l' c hc'
            simp only [children_setChildren, KMap.get?_set] at hc'
            split at hc'
            · next e =>
              cases hc'
              simp only [Prod.mk.injEq, true_and] at e
              subst e
              exact ⟨hl, (kv.1, f kv.2), by simp [Node.setKv, mapSnd, Node.kv, Node.wc, Node.children, Node.regexps]⟩
            · exact h.leafChild hc'
  | cons d ds ih =>
    intro t h
    rw [keySteps_cons]
    simp only [modifyMut, matchRe, h.regexps, List.find?_nil]
    have hne : ((true, d) : Seg) ≠ (false, [STAR]) := by simp
    simp only [hne, ↓reduceIte]
    cases hc : KMap.get? t.children (true, d) with
    | none =>
      have : (keySteps ds l).isEmpty = false := by cases ds <;> rfl
      simp only [this, Bool.false_and, Bool.false_eq_true, ↓reduceIte]
      refine ⟨?_, ?_, h⟩
      · simp [keySteps_cons, get_cons, hc]
      · intros; rfl
    | some c =>
      have ihc := ih c (h.child hc)
      simp only []
      refine ⟨?_, ?_, ?_⟩
      · simp [keySteps_cons, get_cons, hc, ihc.self]
      · intro ds' l' hne'
        cases ds' with
        | nil =>
          have hk : ((false, l') : Seg) ≠ (true, d) := by simp
          simp [keySteps_nil, get_leafKey', KMap.get?_set_ne _ _ hk]
        | cons d' ds'' =>
          simp only [keySteps_cons, get_cons, children_setChildren, KMap.get?_set]
          by_cases hd : d' = d
          · subst hd
            simp only [↓reduceIte, hc]
            exact ihc.other ds'' l' (by intro e; apply hne'; simp_all)
          · have : ((true, d') : Seg) ≠ (true, d) := by simp [hd]
            simp [this]
      · refine WF.mk _ (by simpa using h.regexps) ?_ ?_
        · intro seg c' hc'
          simp only [children_setChildren, KMap.get?_set] at hc'
          split at hc'
          · cases hc'; exact ihc.wf
          · exact h.child hc'
        · intro l' c' hc'
          have hk : ((false, l') : Seg) ≠ (true, d) := by simp
          simp only [children_setChildren, KMap.get?_set_ne _ _ hk] at hc'
          exact h.leafChild hc'

structure RemSpec (t : Node V) (ds : List Bytes) (l : Bytes) (r : RemoveResult × Node V) : Prop where
  code : r.1 = if (get t (keySteps ds l)).isSome then RemoveResult.ok else RemoveResult.notFound
  self : get r.2 (keySteps ds l) = none
  other : ∀ ds' l', (ds', l') ≠ (ds, l) → get r.2 (keySteps ds' l') = get t (keySteps ds' l')
  wf : WF r.2

theorem removeRec_spec (ds : List Bytes) (l : Bytes) :
    ∀ (t : Node V), WF t → RemSpec t ds l (removeRec t (keySteps ds l)) := by
  induction ds with
  | nil =>
    intro t h
    rw [keySteps_nil]
    simp only [removeRec]
    by_cases hl : l = [STAR]
    · subst hl
      simp only [↓reduceIte]
      cases hw : t.wc with
      | none =>
        simp only [Option.isSome_none, Bool.false_eq_true, ↓reduceIte]
        refine ⟨?_, ?_, ?_, h⟩
        · simp [keySteps_nil, get_leafKey', hw]
        · simp [keySteps_nil, get_leafKey', hw]
        · intros; rfl
      | some w =>
        simp only [Option.isSome_some, ↓reduceIte]
        refine ⟨?_, ?_, ?_, ?_⟩
        · simp [keySteps_nil, get_leafKey', hw]
        · simp [keySteps_nil, get_leafKey']
        · intro ds' l' hne
          cases ds' with
          | nil =>
            have : l' ≠ [STAR] := by intro e; apply hne; simp [e]
            simp [keySteps_nil, get_leafKey', this]
          | cons d' ds'' => simp [keySteps_cons, get_cons]
        · refine WF.mk _ (by simpa using h.regexps) ?_ ?_
          · intro seg c hc'; exact h.child (by simpa using hc')
          · intro l' c hc'; exact h.leafChild (by simpa using hc')
    · have hne : ((false, l) : Seg) ≠ (false, [STAR]) := by simp [hl]
      simp only [hne, ↓reduceIte]
      cases hc : KMap.get? t.children (false, l) with
      | none =>
        refine ⟨?_, ?_, ?_, h⟩
        · simp [keySteps_nil, get_leafKey', hl, hc]
        · simp [keySteps_nil, get_leafKey', hl, hc]
        · intros; rfl
      | some c =>
        obtain ⟨_, kv, rfl⟩ := h.leafChild hc
        have hkv : (Node.mk (some kv) none [] [] : Node V).kv = some kv := rfl
        have hset : (Node.mk (some kv) none [] [] : Node V).setKv none = Node.mk none none [] [] := rfl
        have hemp : (Node.mk none none [] [] : Node V).isEmpty = true := by
          simp [Node.isEmpty, Node.kv, Node.wc, Node.children, Node.regexps]
        simp only [hkv, hset, hemp, Option.isSome_some, ↓reduceIte]
        refine ⟨?_, ?_, ?_, ?_⟩
        · simp [keySteps_nil, get_leafKey', hl, hc, Node.kv]
        · simp [keySteps_nil, get_leafKey', hl]
        · intro ds' l' hne'
          cases ds' with
          | nil =>
            have hne'' : l' ≠ l := by intro e; apply hne'; simp [e]
            have hk : ((false, l') : Seg) ≠ (false, l) := by simp [hne'']
            simp [keySteps_nil, get_leafKey', KMap.get?_erase_ne _ hk]
          | cons d' ds'' =>
            have hk : ((true, d') : Seg) ≠ (false, l) := by simp
            simp [keySteps_cons, get_cons, KMap.get?_erase_ne _ hk]
        · refine WF.mk _ (by simpa using h.regexps) ?_ ?_
          · intro seg c hc'
            simp only [children_setChildren, KMap.get?_erase] at hc'
            split at hc'
            · cases hc'
            · exact h.child hc'
          · intro l' c hc'
            simp only [children_setChildren, KMap.get?_erase] at hc'
            split at hc'
            · cases hc'
            · exact h.leafChild hc'
  | cons d ds ih =>
    intro t h
    rw [keySteps_cons]
    simp only [removeRec]
    have hne : ((true, d) : Seg) ≠ (false, [STAR]) := by simp
    simp only [hne, ↓reduceIte]
    cases hc : KMap.get? t.children (true, d) with
    | none =>
      refine ⟨?_, ?_, ?_, h⟩
      · simp [keySteps_cons, get_cons, hc]
      · simp [keySteps_cons, get_cons, hc]
      · intros; rfl
    | some c =>
      have ihc := ih c (h.child hc)
      simp only []
      by_cases hs : (get c (keySteps ds l)).isSome
      · have hok : (removeRec c (keySteps ds l)).1 = RemoveResult.ok := by rw [ihc.code]; simp [hs]
        simp only [hok, ↓reduceIte]
        by_cases he : (removeRec c (keySteps ds l)).2.isEmpty = true
        · simp only [he, ↓reduceIte]
          refine ⟨?_, ?_, ?_, ?_⟩
          · simp [keySteps_cons, get_cons, hc, hs]
          · simp [keySteps_cons, get_cons]
          · intro ds' l' hne'
            cases ds' with
            | nil =>
              have hk : ((false, l') : Seg) ≠ (true, d) := by simp
              simp [keySteps_nil, get_leafKey', KMap.get?_erase_ne _ hk]
            | cons d' ds'' =>
              simp only [keySteps_cons, get_cons, children_setChildren, KMap.get?_erase]
              by_cases hd : d' = d
              · subst hd
                simp only [↓reduceIte, hc]
                rw [← ihc.other ds'' l' (by intro e; apply hne'; simp_all)]
                exact (get_of_isEmpty _ he ds'' l').symm
              · have : ((true, d') : Seg) ≠ (true, d) := by simp [hd]
                simp [this]
          · refine WF.mk _ (by simpa using h.regexps) ?_ ?_
            · intro seg c' hc'
              simp only [children_setChildren, KMap.get?_erase] at hc'
              split at hc'
              · cases hc'
              · exact h.child hc'
            · intro l' c' hc'
              simp only [children_setChildren, KMap.get?_erase] at hc'
              split at hc'
              · cases hc'
              · exact h.leafChild hc'
        · simp only [he, Bool.false_eq_true, ↓reduceIte]
          refine ⟨?_, ?_, ?_, ?_⟩
          · simp [keySteps_cons, get_cons, hc, hs]
          · simp [keySteps_cons, get_cons, ihc.self]
          · intro ds' l' hne'
            cases ds' with
            | nil =>
              have hk : ((false, l') : Seg) ≠ (true, d) := by simp
              simp [keySteps_nil, get_leafKey', KMap.get?_set_ne _ _ hk]
            | cons d' ds'' =>
              simp only [keySteps_cons, get_cons, children_setChildren, KMap.get?_set]
              by_cases hd : d' = d
              · subst hd
                simp only [↓reduceIte, hc]
                exact ihc.other ds'' l' (by intro e; apply hne'; simp_all)
              · have : ((true, d') : Seg) ≠ (true, d) := by simp [hd]
                simp [this]
          · refine WF.mk _ (by simpa using h.regexps) ?_ ?_
            · intro seg c' hc'
              simp only [children_setChildren, KMap.get?_set] at hc'
              split at hc'
              · cases hc'; exact ihc.wf
              · exact h.child hc'
            · intro l' c' hc'
              have hk : ((false, l') : Seg) ≠ (true, d) := by simp
              simp only [children_setChildren, KMap.get?_set_ne _ _ hk] at hc'
              exact h.leafChild hc'
      · have hnf : (removeRec c (keySteps ds l)).1 ≠ RemoveResult.ok := by rw [ihc.code]; simp [hs]
        simp only [hnf, ↓reduceIte]
        have hn : get c (keySteps ds l) = none := by simpa using hs
        refine ⟨?_, ?_, ?_, h⟩
        · simp [keySteps_cons, get_cons, hc, hn]
        · simp [keySteps_cons, get_cons, hc, hn]
        · intros; rfl

def qSegs (ds : List Bytes) (l : Bytes) : List Seg :=
  ds.map (fun d => ((true, d) : Seg)) ++ [(false, l)]

theorem lookup_eq (re : Bytes → Bytes → Bool) (ds : List Bytes) (l : Bytes) :
    ∀ (t : Node V), WF t →
    lookup re true t (qSegs ds l) = (get t (keySteps ds l)).orElse (fun _ => get t (keySteps ds [STAR])) := by
  induction ds with
  | nil =>
    intro t h
    simp only [qSegs, keySteps, List.map_nil, List.nil_append, lookup, get, lookupMut, matchRe, h.regexps]
    cases hc : KMap.get? t.children (false, l) with
    | some c =>
      obtain ⟨hl, kv, rfl⟩ := h.leafChild hc
      simp [hl, Node.kv]
    | none =>
      by_cases hl : l = [STAR]
      · subst hl; simp; cases t.wc <;> simp
      · simp [hl]; cases t.wc <;> simp
  | cons d ds ih =>
    intro t h
    simp only [qSegs, keySteps, List.map_cons, List.cons_append, lookup, get, lookupMut, matchRe, h.regexps]
    have hne : ((true, d) : Seg) ≠ (false, [STAR]) := by simp
    cases hc : KMap.get? t.children (true, d) with
    | some c =>
      have := ih c (h.child hc)
      simp only [qSegs, keySteps, get] at this
      simp [this, hne]
    | none => simp [hne]

-- byte strings vs abstract keys (moved here from Sozu/Tls/Lemmas.lean: generic in the value type)

/-- `joinRev ["org","example"] "www" = "www.example.org"` -/
def joinRev : List Bytes → Bytes → Bytes
  | [], l => l
  | d :: ds, l => joinRev ds l ++ DOT :: d

theorem joinRev_cons_left (x : Nat) (ds : List Bytes) (l : Bytes) :
    joinRev ds (x :: l) = x :: joinRev ds l := by
  induction ds with
  | nil => rfl
  | cons d ds ih => simp [joinRev, ih]

theorem joinRev_eq_append (ds : List Bytes) (l : Bytes) : joinRev ds l = l ++ joinRev ds [] := by
  induction l with
  | nil => simp
  | cons x l ih => rw [joinRev_cons_left, ih]; rfl

theorem joinRev_snoc (ds : List Bytes) (m l : Bytes) :
    joinRev (ds ++ [m]) l = l ++ DOT :: joinRev ds m := by
  induction ds with
  | nil => simp [joinRev]
  | cons d ds ih => simp [joinRev, ih]

/-- every byte string is a dotted sequence of dot-free labels -/
theorem exists_joinRev (n : Bytes) :
    ∃ ds l, n = joinRev ds l ∧ DOT ∉ l ∧ ∀ d ∈ ds, DOT ∉ d := by
  induction n with
  | nil => exact ⟨[], [], rfl, by simp, by simp⟩
  | cons x n ih =>
    obtain ⟨ds, l, rfl, hl, hds⟩ := ih
    by_cases hx : x = DOT
    · subst hx
      refine ⟨ds ++ [l], [], ?_, by simp, ?_⟩
      · rw [joinRev_snoc]; rfl
      · intro d hd
        rcases List.mem_append.mp hd with h | h
        · exact hds d h
        · simp at h; subst h; exact hl
    · refine ⟨ds, x :: l, (joinRev_cons_left x ds l).symm, ?_, hds⟩
      intro h
      rcases List.mem_cons.mp h with h | h
      · exact hx h.symm
      · exact hl h

theorem joinRev_nil_head (ds : List Bytes) (h : ds ≠ []) : (joinRev ds []).head? = some DOT := by
  induction ds with
  | nil => exact absurd rfl h
  | cons d ds ih =>
    cases ds with
    | nil => simp [joinRev]
    | cons d' ds' =>
      have := ih (by simp)
      simp only [joinRev] at this ⊢
      cases hj : joinRev ds' [] ++ DOT :: d' with
      | nil => simp at hj
      | cons y ys => rw [hj] at this; simpa using this

/-- the left-most label of a name that is non-empty and does not start with a dot -/
theorem leftmost_ne_nil {ds : List Bytes} {l : Bytes}
    (h1 : joinRev ds l ≠ []) (h2 : (joinRev ds l).head? ≠ some DOT) : l ≠ [] := by
  intro hl
  subst hl
  by_cases hd : ds = []
  · subst hd; exact h1 rfl
  · exact h2 (joinRev_nil_head ds hd)

-- ---- findLast

theorem find?_getD_append (s : Bytes) (x b : Nat) (l : List Nat) (h : ∀ i ∈ l, i < s.length) :
    l.find? (fun i => (s ++ [x]).getD i 0 = b) = l.find? (fun i => s.getD i 0 = b) := by
  induction l with
  | nil => rfl
  | cons i l ih =>
    have hi : i < s.length := h i (by simp)
    have : (s ++ [x]).getD i 0 = s.getD i 0 := by
      simp [List.getD_eq_getElem?_getD, List.getElem?_append_left hi]
    simp only [List.find?_cons, this]
    rw [ih (fun j hj => h j (List.mem_cons_of_mem _ hj))]

theorem findLast_snoc (s : Bytes) (x b : Nat) :
    findLast (s ++ [x]) b = if x = b then some s.length else findLast s b := by
  unfold findLast
  simp only [List.length_append, List.length_singleton, List.range_succ, List.reverse_append,
    List.reverse_singleton, List.singleton_append, List.find?_cons]
  have hx : (s ++ [x]).getD s.length 0 = x := by
    simp [List.getD_eq_getElem?_getD]
  rw [hx]
  by_cases h : x = b
  · simp [h]
  · simp only [h, decide_false, if_false]
    exact find?_getD_append s x b _ (by intro i hi; simpa using hi)

theorem rev_induction {P : Bytes → Prop} (h0 : P []) (h1 : ∀ l x, P l → P (l ++ [x])) : ∀ l, P l := by
  intro l
  have : ∀ r : Bytes, P r.reverse := by
    intro r
    induction r with
    | nil => exact h0
    | cons x r ih => simpa using h1 _ x ih
  simpa using this l.reverse

theorem findLast_none (l : Bytes) (b : Nat) : b ∉ l → findLast l b = none := by
  refine rev_induction (P := fun l => b ∉ l → findLast l b = none) (fun _ => rfl) ?_ l
  intro l x ih h
  rw [findLast_snoc]
  have hx : x ≠ b := by intro e; apply h; simp [e]
  simp only [hx, if_false]
  exact ih (by intro hb; apply h; simp [hb])

theorem findLast_join (p d : Bytes) (b : Nat) : b ∉ d → findLast (p ++ b :: d) b = some p.length := by
  refine rev_induction (P := fun d => b ∉ d → findLast (p ++ b :: d) b = some p.length) ?_ ?_ d
  · intro _
    have : p ++ [b] = p ++ [b] := rfl
    rw [findLast_snoc]; simp
  · intro d x ih h
    have hx : x ≠ b := by intro e; apply h; simp [e]
    have : p ++ b :: (d ++ [x]) = (p ++ b :: d) ++ [x] := by simp
    rw [this, findLast_snoc]
    simp only [hx, if_false]
    exact ih (by intro hb; apply h; simp [hb])

-- ---- splitKey

theorem getLast?_ne_of_not_mem (pk : Bytes) (b : Nat) (h : b ∉ pk) : pk.getLast? ≠ some b := by
  intro e
  exact h (List.mem_of_getLast? e)

theorem splitKeyAux_join (ds : List Bytes) (l : Bytes) (hl : l ≠ [])
    (hdl : DOT ∉ l) (hds : ∀ d ∈ ds, DOT ∉ d) (hs : SLASH ∉ joinRev ds l) :
    ∀ fuel, ds.length < fuel → splitKeyAux fuel (joinRev ds l) = some (keySteps ds l) := by
  induction ds with
  | nil =>
    intro fuel hf
    cases fuel with
    | zero => omega
    | succ f =>
      simp only [joinRev] at hs ⊢
      simp only [splitKeyAux, hl, if_false, getLast?_ne_of_not_mem l SLASH hs,
        findLast_none l DOT hdl, keySteps_nil]
  | cons d ds ih =>
    intro fuel hf
    cases fuel with
    | zero => omega
    | succ f =>
      have hs' : SLASH ∉ joinRev ds l := by
        intro h; apply hs; simp [joinRev, h]
      have hd : DOT ∉ d := hds d (by simp)
      have hne : joinRev (d :: ds) l ≠ [] := by simp [joinRev]
      have ih' := ih (fun d' h' => hds d' (List.mem_cons_of_mem _ h')) hs' f (by simp at hf; omega)
      simp only [splitKeyAux, hne, if_false, getLast?_ne_of_not_mem _ SLASH hs]
      simp only [joinRev, findLast_join (joinRev ds l) d DOT hd]
      have ht : (joinRev ds l ++ DOT :: d).take (joinRev ds l).length = joinRev ds l := by simp
      have hdr : (joinRev ds l ++ DOT :: d).drop ((joinRev ds l).length + 1) = d := by
        rw [List.drop_append]; simp
      rw [ht, hdr, ih']
      rfl

theorem joinRev_length (ds : List Bytes) (l : Bytes) (hl : l ≠ []) : ds.length < (joinRev ds l).length := by
  induction ds with
  | nil => simp [joinRev]; exact List.length_pos_iff.mpr hl
  | cons d ds ih => simp [joinRev]; omega

theorem splitKey_join (ds : List Bytes) (l : Bytes) (hl : l ≠ [])
    (hdl : DOT ∉ l) (hds : ∀ d ∈ ds, DOT ∉ d) (hs : SLASH ∉ joinRev ds l) :
    splitKey (joinRev ds l) = some (keySteps ds l) :=
  splitKeyAux_join ds l hl hdl hds hs _ (joinRev_length ds l hl)

-- ---- splitHost

def lstep (acc : List Bytes × Bytes) (b : Nat) : List Bytes × Bytes :=
  if b = DOT then (acc.2.reverse :: acc.1, []) else (acc.1, b :: acc.2)

theorem labelsRev_eq (s : Bytes) :
    labelsRev s = (s.foldl lstep ([], [])).2.reverse :: (s.foldl lstep ([], [])).1 := rfl

theorem foldl_lstep_nodot (d : Bytes) (h : DOT ∉ d) (a : List Bytes) (c : Bytes) :
    d.foldl lstep (a, c) = (a, d.reverse ++ c) := by
  induction d generalizing c with
  | nil => rfl
  | cons x d ih =>
    have hx : x ≠ DOT := by intro e; apply h; simp [e]
    simp only [List.foldl_cons, lstep, hx, if_false]
    rw [ih (by intro hd; apply h; simp [hd])]
    simp

theorem labelsRev_join (ds : List Bytes) (l : Bytes)
    (hdl : DOT ∉ l) (hds : ∀ d ∈ ds, DOT ∉ d) : labelsRev (joinRev ds l) = ds ++ [l] := by
  induction ds with
  | nil =>
    rw [labelsRev_eq]
    simp only [joinRev, foldl_lstep_nodot l hdl]
    simp
  | cons d ds ih =>
    have ih' := ih (fun d' h' => hds d' (List.mem_cons_of_mem _ h'))
    have hd : DOT ∉ d := hds d (by simp)
    rw [labelsRev_eq] at ih' ⊢
    simp only [joinRev, List.foldl_append, List.foldl_cons]
    generalize (joinRev ds l).foldl lstep ([], []) = r at ih' ⊢
    obtain ⟨a, c⟩ := r
    simp only [lstep, if_true] at ih' ⊢
    rw [foldl_lstep_nodot d hd]
    simp [ih']

theorem segsOfLabels_snoc (ds : List Bytes) (l : Bytes) (hl : l ≠ []) :
    segsOfLabels (ds ++ [l]) = qSegs ds l := by
  induction ds with
  | nil => simp [segsOfLabels, qSegs, hl]
  | cons d ds ih =>
    cases hds : ds ++ [l] with
    | nil => simp at hds
    | cons y ys =>
      simp only [List.cons_append, hds, segsOfLabels]
      rw [← hds, ih]
      simp [qSegs]

theorem splitHost_join (ds : List Bytes) (l : Bytes) (hl : l ≠ [])
    (hdl : DOT ∉ l) (hds : ∀ d ∈ ds, DOT ∉ d) : splitHost (joinRev ds l) = qSegs ds l := by
  unfold splitHost
  rw [labelsRev_join ds l hdl hds, segsOfLabels_snoc ds l hl]


-- =============================================================== part 2 ==

/-- names the trie can hold as literal keys: not empty, not starting with a dot
    (`TrieNode::insert` panics on those), free of `/` (the trie's regex syntax).
    `CertifiedKeyWrapper::try_from` refuses every other name (`validCertName_iff`). -/
def GoodName (n : Bytes) : Prop := n ≠ [] ∧ n.head? ≠ some DOT ∧ SLASH ∉ n

/-- server names the theorems speak about: not empty, not starting with a dot -/
def GoodHost (n : Bytes) : Prop := n ≠ [] ∧ n.head? ≠ some DOT

instance (n : Bytes) : Decidable (GoodName n) := by unfold GoodName; exact inferInstance
instance (n : Bytes) : Decidable (GoodHost n) := by unfold GoodHost; exact inferInstance

/-- the wildcard name that covers `n`: `*` in place of the left-most label -/
def wildOf (n : Bytes) : Bytes := STAR :: n.dropWhile (· ≠ DOT)

/-- the abstract trie key (labels right-to-left, left-most label) of a byte string -/
def keyOf (n : Bytes) : List Bytes × Bytes :=
  ((labelsRev n).dropLast, (labelsRev n).getLast?.getD [])

theorem keyOf_join (ds : List Bytes) (l : Bytes) (hdl : DOT ∉ l) (hds : ∀ d ∈ ds, DOT ∉ d) :
    keyOf (joinRev ds l) = (ds, l) := by
  simp [keyOf, labelsRev_join ds l hdl hds]

theorem keyOf_inj {n m : Bytes} (h : keyOf n = keyOf m) : n = m := by
  obtain ⟨ds, l, rfl, h1, h2⟩ := exists_joinRev n
  obtain ⟨ds', l', rfl, h1', h2'⟩ := exists_joinRev m
  rw [keyOf_join ds l h1 h2, keyOf_join ds' l' h1' h2'] at h
  cases h; rfl

theorem T_ne {n m : Bytes} (h : m ≠ n) : ((keyOf m).1, (keyOf m).2) ≠ ((keyOf n).1, (keyOf n).2) := by
  intro e
  apply h
  apply keyOf_inj
  exact Prod.ext (by simpa using congrArg Prod.fst e) (by simpa using congrArg Prod.snd e)

theorem good_split {n : Bytes} (h : GoodName n) :
    ∃ ds l, n = joinRev ds l ∧ l ≠ [] ∧ keyOf n = (ds, l) ∧ splitKey n = some (keySteps ds l) := by
  obtain ⟨ds, l, rfl, h1, h2⟩ := exists_joinRev n
  have hl : l ≠ [] := leftmost_ne_nil h.1 h.2.1
  exact ⟨ds, l, rfl, hl, keyOf_join ds l h1 h2, splitKey_join ds l hl h1 h2 h.2.2⟩

theorem dropWhile_nodot (l r : Bytes) (hl : DOT ∉ l) (hr : r = [] ∨ r.head? = some DOT) :
    (l ++ r).dropWhile (· ≠ DOT) = r := by
  induction l with
  | nil =>
    rcases hr with rfl | hr
    · rfl
    · cases r with
      | nil => simp at hr
      | cons y ys => simp at hr; subst hr; simp [List.dropWhile]
  | cons x l ih =>
    have hx : x ≠ DOT := by intro e; apply hl; simp [e]
    simp only [List.cons_append, List.dropWhile_cons, hx, ne_eq, not_false_eq_true, decide_true, if_true]
    exact ih (by intro h; apply hl; simp [h])

theorem wildOf_join (ds : List Bytes) (l : Bytes) (hdl : DOT ∉ l) :
    wildOf (joinRev ds l) = joinRev ds [STAR] := by
  unfold wildOf
  rw [joinRev_eq_append ds l, joinRev_eq_append ds [STAR]]
  have hr : joinRev ds [] = [] ∨ (joinRev ds []).head? = some DOT := by
    by_cases h : ds = []
    · subst h; left; rfl
    · right; exact joinRev_nil_head ds h
  rw [dropWhile_nodot l _ hdl hr]
  rfl

theorem host_split {n : Bytes} (h : GoodHost n) :
    ∃ ds l, l ≠ [] ∧ keyOf n = (ds, l) ∧ keyOf (wildOf n) = (ds, [STAR]) ∧ splitHost n = qSegs ds l := by
  obtain ⟨ds, l, rfl, h1, h2⟩ := exists_joinRev n
  have hl : l ≠ [] := leftmost_ne_nil h.1 h.2
  refine ⟨ds, l, hl, keyOf_join ds l h1 h2, ?_, splitHost_join ds l hl h1 h2⟩
  rw [wildOf_join ds l h1]
  exact keyOf_join ds [STAR] (by decide) h2


-- for_each_value_mut (`Node.mapV`) commutes with lookup
@[simp] theorem mapV_kv (f : V → V) (n : Node V) : (n.mapV f).kv = mapSnd f n.kv := by
  cases n; simp [Node.mapV, Node.kv]
@[simp] theorem mapV_wc (f : V → V) (n : Node V) : (n.mapV f).wc = mapSnd f n.wc := by
  cases n; simp [Node.mapV, Node.wc]
@[simp] theorem mapV_children (f : V → V) (n : Node V) : (n.mapV f).children = mapChildrenV f n.children := by
  cases n; simp [Node.mapV, Node.children]
@[simp] theorem mapV_regexps (f : V → V) (n : Node V) : (n.mapV f).regexps = mapRegexpsV f n.regexps := by
  cases n; simp [Node.mapV, Node.regexps]

theorem get?_mapChildrenV (f : V → V) (ch : List (Seg × Node V)) (seg : Seg) :
    KMap.get? (mapChildrenV f ch) seg = (KMap.get? ch seg).map (Node.mapV f) := by
  induction ch with
  | nil => rfl
  | cons a t ih =>
    obtain ⟨s, n⟩ := a
    simp only [mapChildrenV, KMap.get?, List.find?_cons] at ih ⊢
    by_cases e : s = seg
    · simp [e]
    · simp only [e, decide_false]; exact ih

theorem matchRe_mapRegexpsV (re : Bytes → Bytes → Bool) (f : V → V) (rs : List (Bytes × Node V)) (label : Bytes) :
    matchRe re (mapRegexpsV f rs) label = (matchRe re rs label).map (fun p => (p.1, Node.mapV f p.2)) := by
  induction rs with
  | nil => rfl
  | cons a t ih =>
    obtain ⟨p, n⟩ := a
    simp only [mapRegexpsV, matchRe, List.find?_cons] at ih ⊢
    by_cases e : re p label = true
    · simp [e]
    · simp only [e]; exact ih

theorem mapSnd_isSome (f : V → V) (x : Option (Bytes × V)) : (mapSnd f x).isSome = x.isSome := by
  cases x <;> rfl

/-- `for_each_value_mut` commutes with lookup: the same leaf is found, its value mapped -/
theorem lookup_mapV (re : Bytes → Bytes → Bool) (acc : Bool) (f : V → V) (q : List Seg) :
    ∀ (t : Node V), lookup re acc (t.mapV f) q = mapSnd f (lookup re acc t q) := by
  induction q with
  | nil => intro t; simp [lookup]
  | cons seg rest ih =>
    intro t
    simp only [lookup, mapV_children, get?_mapChildrenV, mapV_wc, mapV_regexps, matchRe_mapRegexpsV, mapSnd_isSome]
    cases hc : KMap.get? t.children seg with
    | some c => simp [ih c]
    | none =>
      simp only [Option.map_none]
      split
      · rfl
      · cases hm : matchRe re t.regexps seg.2 with
        | none => simp [mapSnd]
        | some pc => obtain ⟨p, c⟩ := pc; simp [ih c]


end Sozu.Trie
