import Sozu.Common.KMap
/-
Model of `sozu_lib::router::pattern_trie::TrieNode<V>` (lib/src/router/pattern_trie.rs).

The Rust code splits the key (a hostname or hostname pattern, bytes) on the fly
with `find_last_dot` / `find_last_slash` while it descends. The split does not
depend on the trie, so the model splits first (`splitHost` for request
hostnames, `splitKey` for pattern keys) and then descends over the list of
segments. A child key is `(dotted, label)`: `".io"` is `(true, "io")`, the
leftmost label `"www"` is `(false, "www")` — they are different `HashMap` keys
in the Rust code and stay different here.

The `regex` crate is a parameter: `re pat seg` says whether the (anchored)
segment regex with source `pat` matches the label `seg`. Regex identity is the
source string, as in the code (`t.0.as_str() == anchored_s`).

Generic in the value type `V` (the router stores `List (PathRule × MethodRule ×
Route)`, the TLS resolver will store fingerprints).
-/
namespace Sozu.Trie

abbrev Bytes := List Nat

def DOT : Nat := 46
def SLASH : Nat := 47
def STAR : Nat := 42

/-- a `children` key: `(true, l)` is the byte string `"." ++ l`, `(false, l)` is `l`. -/
abbrev Seg := Bool × Bytes

/-- one step of a pattern key, rightmost first -/
inductive Step where
  /-- literal child key -/
  | lit (seg : Seg)
  /-- regex segment `/pat/`; `leftmost` is the `pos == 0` case of the code -/
  | re (pat : Bytes) (leftmost : Bool)
deriving DecidableEq, Repr

inductive Node (V : Type) where
  | mk (kv : Option (Bytes × V)) (wc : Option (Bytes × V))
       (children : List (Seg × Node V)) (regexps : List (Bytes × Node V)) : Node V

namespace Node
variable {V : Type}

def kv : Node V → Option (Bytes × V) | mk a _ _ _ => a
def wc : Node V → Option (Bytes × V) | mk _ b _ _ => b
def children : Node V → List (Seg × Node V) | mk _ _ c _ => c
def regexps : Node V → List (Bytes × Node V) | mk _ _ _ r => r

/-- `TrieNode::root()` -/
def root : Node V := mk none none [] []
/-- `TrieNode::new(key, value)` -/
def leaf (key : Bytes) (v : V) : Node V := mk (some (key, v)) none [] []

/-- `is_empty` -/
def isEmpty (n : Node V) : Bool :=
  n.kv.isNone && n.wc.isNone && n.regexps.isEmpty && n.children.isEmpty

def setKv (n : Node V) (x : Option (Bytes × V)) : Node V := mk x n.wc n.children n.regexps
def setWc (n : Node V) (x : Option (Bytes × V)) : Node V := mk n.kv x n.children n.regexps
def setChildren (n : Node V) (c : List (Seg × Node V)) : Node V := mk n.kv n.wc c n.regexps
def setRegexps (n : Node V) (r : List (Bytes × Node V)) : Node V := mk n.kv n.wc n.children r

end Node

inductive InsertResult | ok | existing | failed
deriving DecidableEq, Repr

inductive RemoveResult | ok | notFound
deriving DecidableEq, Repr

/-- replace the subtree of the first regex entry whose source is `pat` -/
def setRe {V : Type} (rs : List (Bytes × Node V)) (pat : Bytes) (c : Node V) : List (Bytes × Node V) :=
  match rs with
  | [] => []
  | (p, n) :: t => if p = pat then (p, c) :: t else (p, n) :: setRe t pat c

def findRe {V : Type} (rs : List (Bytes × Node V)) (pat : Bytes) : Option (Node V) :=
  match rs.find? (fun p => p.1 = pat) with
  | some p => some p.2
  | none => none

/-- first regex entry (in `Vec` order) that matches the label -/
def matchRe {V : Type} (re : Bytes → Bytes → Bool) (rs : List (Bytes × Node V)) (label : Bytes) :
    Option (Bytes × Node V) :=
  rs.find? (fun p => re p.1 label)

/-- `insert_recursive`. `[]` is the `assert_ne!(partial_key, b"")` panic. -/
def insertRec {V : Type} (n : Node V) (steps : List Step) (key : Bytes) (v : V) :
    InsertResult × Node V :=
  match steps with
  | [] => (.failed, n)
  | .re pat leftmost :: rest =>
    match findRe n.regexps pat with
    | some child =>
      if leftmost then (.existing, n)
      else
        let r := insertRec child rest key v
        (r.1, n.setRegexps (setRe n.regexps pat r.2))
    | none =>
      if leftmost then (.ok, n.setRegexps (n.regexps ++ [(pat, Node.leaf key v)]))
      else
        let r := insertRec Node.root rest key v
        if r.1 = .ok then (.ok, n.setRegexps (n.regexps ++ [(pat, r.2)])) else (r.1, n)
  | .lit seg :: rest =>
    if seg.1 = false then
      -- `find_last_dot` found nothing: this is the leftmost label
      if (KMap.get? n.children seg).isSome then (.existing, n)
      else if seg.2 = [STAR] then
        if n.wc.isSome then (.existing, n) else (.ok, n.setWc (some (key, v)))
      else (.ok, n.setChildren (KMap.set n.children seg (Node.leaf key v)))
    else
      match KMap.get? n.children seg with
      | some child =>
        let r := insertRec child rest key v
        (r.1, n.setChildren (KMap.set n.children seg r.2))
      | none =>
        let r := insertRec Node.root rest key v
        if r.1 = .ok then (.ok, n.setChildren (KMap.set n.children seg r.2)) else (r.1, n)

/-- the regex branch of `remove_recursive` with `pos > 0`: every entry with the
    same source is visited -/
def removeInRe {V : Type} (f : Node V → RemoveResult × Node V) (pat : Bytes) :
    List (Bytes × Node V) → RemoveResult × List (Bytes × Node V)
  | [] => (.notFound, [])
  | (p, c) :: t =>
    let rt := removeInRe f pat t
    if p = pat then
      let r := f c
      if r.1 = .ok then (.ok, (p, r.2) :: rt.2) else (rt.1, (p, c) :: rt.2)
    else (rt.1, (p, c) :: rt.2)

/-- `remove_recursive` -/
def removeRec {V : Type} (n : Node V) (steps : List Step) : RemoveResult × Node V :=
  match steps with
  | [] => if n.kv.isSome then (.ok, n.setKv none) else (.notFound, n)
  | .re pat leftmost :: rest =>
    if leftmost then
      let rs := n.regexps.filter (fun p => p.1 ≠ pat)
      if rs.length < n.regexps.length then (.ok, n.setRegexps rs) else (.notFound, n)
    else
      let r := removeInRe (fun c => removeRec c rest) pat n.regexps
      (r.1, n.setRegexps r.2)
  | .lit seg :: rest =>
    if seg = (false, [STAR]) then
      if n.wc.isSome then (.ok, n.setWc none) else (.notFound, n)
    else
      match KMap.get? n.children seg with
      | none => (.notFound, n)
      | some child =>
        let r := removeRec child rest
        if r.1 = .ok then
          if r.2.isEmpty then (.ok, n.setChildren (KMap.erase n.children seg))
          else (.ok, n.setChildren (KMap.set n.children seg r.2))
        else (.notFound, n)

/-- `lookup` / `lookup_with_path` on a request hostname (already split) -/
def lookup {V : Type} (re : Bytes → Bytes → Bool) (acceptWc : Bool) (n : Node V) (q : List Seg) :
    Option (Bytes × V) :=
  match q with
  | [] => n.kv
  | seg :: rest =>
    match KMap.get? n.children seg with
    | some child => lookup re acceptWc child rest
    | none =>
      if rest.isEmpty && n.wc.isSome && acceptWc then n.wc
      else
        match matchRe re n.regexps seg.2 with
        | some (_, child) => lookup re acceptWc child rest
        | none => none

/-- `lookup_mut` on a pattern key: `*` and `/re/` are resolved by identity,
    literal labels as in `lookup` (including the fall-through to the regex
    entries, which are *matched* against the literal label). -/
def lookupMut {V : Type} (re : Bytes → Bytes → Bool) (acceptWc : Bool) (n : Node V) (steps : List Step) :
    Option (Bytes × V) :=
  match steps with
  | [] => n.kv
  | .re pat _ :: rest =>
    match findRe n.regexps pat with
    | some child => lookupMut re acceptWc child rest
    | none => none
  | .lit seg :: rest =>
    if seg = (false, [STAR]) then n.wc
    else
      match KMap.get? n.children seg with
      | some child => lookupMut re acceptWc child rest
      | none =>
        if rest.isEmpty && n.wc.isSome && acceptWc then n.wc
        else
          match matchRe re n.regexps seg.2 with
          | some (_, child) => lookupMut re acceptWc child rest
          | none => none

def mapSnd {V : Type} (f : V → V) (x : Option (Bytes × V)) : Option (Bytes × V) :=
  x.map fun p => (p.1, f p.2)

/-- apply `f` to the value `lookup_mut` resolves to (same descent) -/
def modifyMut {V : Type} (re : Bytes → Bytes → Bool) (acceptWc : Bool) (f : V → V) (n : Node V)
    (steps : List Step) : Node V :=
  match steps with
  | [] => n.setKv (mapSnd f n.kv)
  | .re pat _ :: rest =>
    match findRe n.regexps pat with
    | some child => n.setRegexps (setRe n.regexps pat (modifyMut re acceptWc f child rest))
    | none => n
  | .lit seg :: rest =>
    if seg = (false, [STAR]) then n.setWc (mapSnd f n.wc)
    else
      match KMap.get? n.children seg with
      | some child => n.setChildren (KMap.set n.children seg (modifyMut re acceptWc f child rest))
      | none =>
        if rest.isEmpty && n.wc.isSome && acceptWc then n.setWc (mapSnd f n.wc)
        else
          match matchRe re n.regexps seg.2 with
          | some (p, child) => n.setRegexps (setRe n.regexps p (modifyMut re acceptWc f child rest))
          | none => n


-- ------------------------------------------------------- for_each_value --

mutual
/-- `for_each_value_mut`: apply `f` to every stored value -/
def Node.mapV {V : Type} (f : V → V) : Node V → Node V
  | .mk kv wc ch rs => .mk (mapSnd f kv) (mapSnd f wc) (mapChildrenV f ch) (mapRegexpsV f rs)
def mapChildrenV {V : Type} (f : V → V) : List (Seg × Node V) → List (Seg × Node V)
  | [] => []
  | (s, n) :: t => (s, Node.mapV f n) :: mapChildrenV f t
def mapRegexpsV {V : Type} (f : V → V) : List (Bytes × Node V) → List (Bytes × Node V)
  | [] => []
  | (p, n) :: t => (p, Node.mapV f n) :: mapRegexpsV f t
end

-- ------------------------------------------------------------ splitting --

/-- labels of a byte string split at `.`, rightmost label first
    (`"b.a.io"` ↦ `["io","a","b"]`, `""` ↦ `[""]`). -/
def labelsRev (s : Bytes) : List Bytes :=
  let r := s.foldl (fun (acc : List Bytes × Bytes) b =>
      if b = DOT then (acc.2.reverse :: acc.1, []) else (acc.1, b :: acc.2)) ([], [])
  r.2.reverse :: r.1

/-- child keys visited by `lookup` for a request hostname: every label found by
    `find_last_dot` keeps its dot; the remaining leftmost label has none; an
    empty remainder ends the descent. -/
def segsOfLabels : List Bytes → List Seg
  | [] => []
  | [l] => if l = [] then [] else [(false, l)]
  | l :: rest => (true, l) :: segsOfLabels rest

def splitHost (s : Bytes) : List Seg := segsOfLabels (labelsRev s)

def findLast (s : Bytes) (b : Nat) : Option Nat :=
  (List.range s.length).reverse.find? (fun i => s.getD i 0 = b)

/-- pattern-key splitting as done by `insert_recursive` / `lookup_mut` /
    `remove_recursive`: a trailing `/` opens a regex segment, otherwise
    `find_last_dot`. `none` = the key is rejected (`Failed` / `None` /
    `NotFound` in the code). -/
def splitKeyAux : Nat → Bytes → Option (List Step)
  | 0, _ => some []
  | fuel + 1, pk =>
    if pk = [] then some []
    else if pk.getLast? = some SLASH then
      let body := pk.dropLast
      match findLast body SLASH with
      | none => none
      | some pos =>
        if pos > 0 && pk.getD (pos - 1) 0 ≠ DOT then none
        else
          let pat := body.drop (pos + 1)
          if pos > 0 then (splitKeyAux fuel (pk.take (pos - 1))).map (Step.re pat false :: ·)
          else some [Step.re pat true]
    else
      match findLast pk DOT with
      | none => some [Step.lit (false, pk)]
      | some pos => (splitKeyAux fuel (pk.take pos)).map (Step.lit (true, pk.drop (pos + 1)) :: ·)

def splitKey (pk : Bytes) : Option (List Step) := splitKeyAux pk.length pk

-- ------------------------------------------------------------- top level --

/-- `insert` (= `domain_insert`); `.failed` is the `assert_ne!` panic -/
def insert {V : Type} (n : Node V) (key : Bytes) (v : V) : InsertResult × Node V :=
  if key = [] || key = [DOT] then (.failed, n)
  else match splitKey key with
    | none => (.failed, n)
    | some steps => insertRec n steps key v

/-- `remove` (= `domain_remove`) -/
def remove {V : Type} (n : Node V) (key : Bytes) : RemoveResult × Node V :=
  match splitKey key with
  | none => (.notFound, n)
  | some steps => removeRec n steps

/-- `domain_lookup` on a request hostname -/
def domainLookup {V : Type} (re : Bytes → Bytes → Bool) (n : Node V) (host : Bytes) (acceptWc : Bool) :
    Option (Bytes × V) :=
  lookup re acceptWc n (splitHost host)

/-- `domain_lookup_mut` on a pattern key -/
def domainLookupMut {V : Type} (re : Bytes → Bytes → Bool) (n : Node V) (key : Bytes) (acceptWc : Bool) :
    Option (Bytes × V) :=
  match splitKey key with
  | none => none
  | some steps => lookupMut re acceptWc n steps

def domainModifyMut {V : Type} (re : Bytes → Bytes → Bool) (n : Node V) (key : Bytes) (acceptWc : Bool)
    (f : V → V) : Node V :=
  match splitKey key with
  | none => n
  | some steps => modifyMut re acceptWc f n steps

end Sozu.Trie
