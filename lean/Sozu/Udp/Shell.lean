import Sozu.Udp.Model
/-
Model of the part of the I/O shell `UdpListenerSession` (lib/src/udp.rs) that
decides on which connected upstream socket a `SendToBackend` is written:
`in_flight_client`, `in_flight_flow`, the shadow table `client_key_to_flow`,
`flow_endpoints` (whose keys are the flows that own an upstream socket:
`flow_to_upstream` is inserted / removed together with it), as driven by
`ingest_client` / `drain_outputs` / `on_open_upstream` / `on_send_to_backend` /
`on_close_flow`. Sockets themselves, write queues, metrics, the timer wheel and
the access log are not modelled. Import-free apart from the manager model so
the driver links as an executable.
-/
namespace Sozu.Udp
open Sozu

structure Shell where
  /-- `client_key_to_flow` -/
  shadow : KMap Addr Nat
  /-- `flow_endpoints` (client side); its keys = flows with an upstream socket -/
  endpoints : KMap Nat Addr
  /-- `in_flight_flow` -/
  inFlight : Option Nat
  /-- the listener's own address (`self.address`, the fallback client) -/
  listener : Addr
deriving Repr

def Shell.new (listener : Addr) : Shell :=
  { shadow := [], endpoints := [], inFlight := none, listener }

/-- `client_key`: the source normalised under the manager's *current* affinity mode -/
def shellKey (src : Addr) (wp : Bool) : Addr := if wp then src else { src with port := 0 }

/-- `on_send_to_backend`: the flow whose socket the datagram is written to
    (`None`: no socket resolved, the datagram is dropped) -/
def Shell.route (sh : Shell) (wp : Bool) (cur : Option Addr) : Option Nat :=
  let flow := match sh.inFlight with
    | some f => some f
    | none => match cur with
      | some src => KMap.get? sh.shadow (shellKey src wp)
      | none => none
  match flow with
  | some f => if (KMap.get? sh.endpoints f).isSome then some f else none
  | none => none

/-- one output handled by `drain_outputs`; for a `SendToBackend` also
    (owning flow according to the manager, flow whose socket is used) -/
def Shell.onOut (wp : Bool) (cur : Option Addr) (sh : Shell) : Out → Shell × Option (Nat × Option Nat)
  | .openUpstream id _ =>
    let sh1 := { sh with endpoints := KMap.set sh.endpoints id (cur.getD sh.listener) }
    let sh2 := match cur with
      | some src => { sh1 with shadow := KMap.set sh1.shadow (shellKey src wp) id }
      | none => sh1
    ({ sh2 with inFlight := some id }, none)
  | .sendToBackend id _ _ => (sh, some (id, sh.route wp cur))
  | .closeFlow id =>
    let key := shellKey ((KMap.get? sh.endpoints id).getD sh.listener) wp
    let shadow := if KMap.get? sh.shadow key = some id then KMap.erase sh.shadow key else sh.shadow
    ({ sh with shadow := shadow, endpoints := KMap.erase sh.endpoints id }, none)
  | _ => (sh, none)

/-- `drain_outputs` over the outputs of one manager call -/
def Shell.drain (wp : Bool) (cur : Option Addr) : Shell → List Out → Shell × List (Nat × Option Nat)
  | sh, [] => (sh, [])
  | sh, o :: os =>
    let r := sh.onOut wp cur o
    let rest := Shell.drain wp cur r.1 os
    (rest.1, r.2.toList ++ rest.2)

/-- manager + shell + `in_flight_client` -/
structure Sys where
  s : State
  sh : Shell
  cur : Option Addr

/-- One manager call as the shell makes it. A client datagram starts a drain
    pass (`in_flight_client = Some(src)`, and — unless `reset = false`, the
    seeded defect — `in_flight_flow = None`); the resolution that the shell
    feeds back while handling `SelectBackend` belongs to the same pass; every
    other call runs with `in_flight_client = None`. -/
def Sys.step (reset : Bool) (y : Sys) (op : Op) : Sys × List Out × List (Nat × Option Nat) :=
  let cur := match op with
    | .client src _ _ => some src
    | .resolved _ _ _ _ => y.cur
    | _ => none
  let sh0 := match op with
    | .client _ _ _ => if reset then { y.sh with inFlight := none } else y.sh
    | _ => y.sh
  let r := Sozu.Udp.step y.s op
  let d := Shell.drain y.s.cluster.withPort cur sh0 r.2
  ({ s := r.1, sh := d.1, cur := cur }, r.2, d.2)

/-- all routing decisions of a run: (owning flow, flow whose socket was used) -/
def Sys.routes (reset : Bool) : Sys → List Op → List (Nat × Option Nat)
  | _, [] => []
  | y, op :: ops => (Sys.step reset y op).2.2 ++ Sys.routes reset (Sys.step reset y op).1 ops

/-! ### listener glue: which cap / datagram size the shell hands to the manager -/

/-- `effective_max_flows(configured, slab_headroom)` with the soft RLIMIT_NOFILE
    as a parameter (`rlimit = 0`: could not be read): an explicit cap is honoured
    as it is; `0` means auto = 70 % of the fd limit (at least 1; 1024 when the
    limit is unknown), clamped to `max_connections` when that is set -/
def effectiveMaxFlows (configured rlimit headroom : Nat) : Nat :=
  if configured ≠ 0 then configured
  else
    let auto := if rlimit > 0 then max (rlimit * 7 / 10) 1 else 1024
    if headroom = 0 then auto else max (min auto headroom) 1

/-- `clamp_max_rx(configured, buffer_size)` -/
def clampMaxRx (configured bufferSize : Nat) : Nat :=
  if bufferSize = 0 then configured else min configured bufferSize

/-! ### listener life cycle (UdpProxy::{add,activate,give_back,remove}_listener + the server's slab glue) -/

/-- what decides whether a datagram arriving at the listener address reaches the manager -/
structure Lst where
  /-- `UdpProxy.listeners` holds the listener -/
  inMap : Bool
  /-- `UdpListener.socket` is `Some` and registered READABLE -/
  socket : Bool
  /-- the server's session slab holds an entry at the listener token -/
  slabToken : Bool
  /-- that entry is the `UdpListenerSession` (whose `update_readiness` runs `ingest_client`) -/
  session : Bool
deriving DecidableEq, Repr

inductive LOp | add | activate | deactivate | remove
deriving DecidableEq, Repr

def Lst.none : Lst := { inMap := false, socket := false, slabToken := false, session := false }

/-- One worker request. `keepToken`: `DeactivateListener` leaves a placeholder at the
    listener token (the repair that is *not* applied: the real code removes the
    slab entry, `keepToken = false`). `RemoveListener` takes and deregisters the
    socket (commit 10f5475). -/
def Lst.step (keepToken : Bool) (l : Lst) : LOp → Lst
  | .add => if l.inMap then l else { inMap := true, socket := false, slabToken := true, session := false }
  | .activate =>
    -- `activate_listener` needs the map entry; `build_session` is installed only where the slab holds the token
    if l.inMap then { l with socket := true, session := l.slabToken } else l
  | .deactivate =>
    -- `give_back_listener` needs an activated listener; the server then removes `slab[token]`
    if l.inMap && l.socket then { l with socket := false, slabToken := keepToken, session := false } else l
  | .remove => if l.inMap then { l with inMap := false, socket := false } else l

def Lst.run (keepToken : Bool) (l : Lst) (ops : List LOp) : Lst := ops.foldl (Lst.step keepToken) l

/-- a datagram sent to the listener address is handed to the manager -/
def Lst.ingests (l : Lst) : Bool := l.socket && l.session

end Sozu.Udp
