import Sozu.Common.KMap
/-
Model of the sans-io UDP core `sozu_lib::protocol::udp::{manager,flow,proxy_protocol}`
(lib/src/protocol/udp/manager.rs, flow.rs, mod.rs, proxy_protocol.rs), transcribed
branch for branch.

* `Instant`s are `Nat` (milliseconds after a base instant), `Duration`s are `Nat` ms.
* `HashMap<FlowKey, FlowId>` is a `KMap FKey Nat` (only `get`/`insert`/`remove`
  are used by the code, so iteration order is never observable).
* `slab::Slab<UdpFlow>` is `slots` (index ↦ flow), `nslots` (`entries.len()`),
  `free` (the LIFO vacant list: head = `next`) and `len`; `iter()` visits the
  occupied indices in increasing order (`liveIds`).
* The affinity hash `hash(seed, ip[, port])` is opaque: `SelectBackend` carries
  the hash *input* (`AKey`); the driver prints it by order of first appearance.
* `SendToBackend` / `SendToClient` carry the owning flow id as a ghost field
  (never printed by the driver; the real `Transmit` has no such field).
* `CloseReason` is not observable (`close_flow` ignores it) and is not modelled.
* `u32` counters saturate (`saturating_add`), `timer_gen` wraps at 2^64.
Import-free apart from `KMap` so the driver links as an executable.
-/
namespace Sozu.Udp
open Sozu

abbrev Bytes := List Nat

/-- `SocketAddr` (flowinfo / scope_id of V6 are assumed 0). -/
structure Addr where
  v6 : Bool
  ip : List Nat
  port : Nat
deriving DecidableEq, Repr

/-- `FlowKey`: the source address (port normalised to 0 for source-IP affinity)
    plus the `ip_only` flag that keeps the two affinity modes' keys apart -/
structure FKey where
  src : Addr
  ipOnly : Bool
deriving DecidableEq, Repr

/-- `ClusterConfig` -/
structure Cfg where
  cluster : String
  withPort : Bool
  responses : Nat
  requests : Nat
  frontTo : Nat
  backTo : Nat
  sendPP : Bool
  ppEvery : Bool
deriving DecidableEq, Repr

inductive Phase | awaiting | established | closing
deriving DecidableEq, Repr

/-- `UdpFlow` -/
structure Flow where
  client : Addr
  backendId : Option String
  backend : Option Addr
  phase : Phase
  cfg : Cfg
  req : Nat
  resp : Nat
  deadline : Nat
  gen : Nat
  firstPending : Bool
  pending : Option Bytes
deriving DecidableEq, Repr

inductive DropReason | invalid | truncated | noBackend | shed | unknownFlow
deriving DecidableEq, Repr

inductive Metric
  | flowCreated | flowEvicted | flowShed
  | dgramIn (n : Nat) | dgramOut (n : Nat) | dropped (r : DropReason)
deriving DecidableEq, Repr

/-- input of the opaque affinity hash: the client ip and, in 4-tuple mode, the port -/
structure AKey where
  v6 : Bool
  ip : List Nat
  port : Option Nat
deriving DecidableEq, Repr

inductive Out
  | selectBackend (flow : Nat) (cluster : String) (key : AKey)
  | openUpstream (flow : Nat) (backend : Addr)
  | sendToBackend (flow : Nat) (dst : Addr) (payload : Bytes)
  | sendToClient (flow : Nat) (dst : Addr) (payload : Bytes)
  | armTimer (t : Nat)
  | metric (m : Metric)
  | closeFlow (flow : Nat)
  | drop (r : DropReason)
deriving DecidableEq, Repr

/-- `UdpManager` -/
structure State where
  table : KMap FKey Nat
  slots : KMap Nat Flow
  nslots : Nat
  free : List Nat
  len : Nat
  maxFlows : Nat
  maxRx : Nat
  cluster : Cfg
  draining : Bool
  outs : List Out
  armed : Option Nat
deriving Repr

inductive Op
  | client (src : Addr) (payload : Bytes) (now : Nat)
  | backend (flow : Nat) (payload : Bytes) (now : Nat)
  | resolved (flow : Nat) (bid : String) (addr : Addr) (now : Nat)
  | setCluster (cfg : Cfg)
  | setMaxFlows (n : Nat)
  | setMaxRx (n : Nat)
  | drain
  | timeout (now : Nat)
  | abort (flow : Nat)
  | closeAll
deriving Repr

def u32Max : Nat := 4294967295
def u64Mod : Nat := 18446744073709551616

/-- `UdpManager::new` -/
def State.new (cluster : Cfg) (maxFlows maxRx : Nat) : State :=
  { table := [], slots := [], nslots := 0, free := [], len := 0, maxFlows, maxRx,
    cluster, draining := false, outs := [], armed := none }

/-- `FlowKey::from_src` -/
def flowKey (a : Addr) (withPort : Bool) : FKey :=
  if withPort then { src := a, ipOnly := false } else { src := { a with port := 0 }, ipOnly := true }

/-- what `affinity_hash` feeds the hasher -/
def affKey (a : Addr) (withPort : Bool) : AKey :=
  { v6 := a.v6, ip := a.ip, port := if withPort then some a.port else none }

/-! ### PROXY protocol v2 DGRAM header (proxy_protocol.rs) -/

def ppSignature : Bytes := [0x0D, 0x0A, 0x0D, 0x0A, 0x00, 0x0D, 0x0A, 0x51, 0x55, 0x49, 0x54, 0x0A]
def be16 (n : Nat) : Bytes := [n / 256 % 256, n % 256]

/-- `dgram_header` -/
def ppHeader (client backend : Addr) : Bytes :=
  if !client.v6 && !backend.v6 then
    ppSignature ++ [0x21, 0x12] ++ be16 12 ++ client.ip ++ backend.ip ++ be16 client.port ++ be16 backend.port
  else if client.v6 && backend.v6 then
    ppSignature ++ [0x21, 0x22] ++ be16 36 ++ client.ip ++ backend.ip ++ be16 client.port ++ be16 backend.port
  else
    ppSignature ++ [0x21, 0x00] ++ be16 0

/-! ### UdpFlow (flow.rs) -/

/-- `UdpFlow::new` (the manager then sets `pending_payload`) -/
def Flow.new (client : Addr) (cfg : Cfg) (now : Nat) : Flow :=
  { client, backendId := none, backend := none, phase := .awaiting, cfg,
    req := 0, resp := 0, deadline := now + cfg.frontTo, gen := 0,
    firstPending := cfg.sendPP, pending := none }

/-- `touch` -/
def Flow.touch (f : Flow) (timeout now : Nat) : Flow :=
  { f with deadline := now + timeout, gen := (f.gen + 1) % u64Mod }

def satInc (n : Nat) : Nat := if n + 1 > u32Max then u32Max else n + 1

/-- `on_client_datagram` -/
def Flow.onClient (f : Flow) (now : Nat) : Flow :=
  Flow.touch { f with req := satInc f.req } f.cfg.frontTo now

/-- `on_backend_datagram` -/
def Flow.onBackend (f : Flow) (now : Nat) : Flow :=
  Flow.touch { f with resp := satInc f.resp } f.cfg.backTo now

def Flow.reqExhausted (f : Flow) : Bool := f.cfg.requests != 0 && decide (f.req ≥ f.cfg.requests)
def Flow.respExhausted (f : Flow) : Bool := f.cfg.responses != 0 && decide (f.resp ≥ f.cfg.responses)

/-- `teardown_reason().is_some()` -/
def Flow.teardownDue (f : Flow) : Bool := f.respExhausted || f.reqExhausted

/-- `take_proxy_protocol`: whether to prefix, and the flow afterwards -/
def Flow.takePP (f : Flow) : Bool × Flow :=
  if !f.cfg.sendPP then (false, f)
  else if f.cfg.ppEvery then (true, f)
  else if f.firstPending then (true, { f with firstPending := false })
  else (false, f)

/-! ### slab -/

def getFlow (s : State) (id : Nat) : Option Flow := KMap.get? s.slots id

/-- occupied indices in increasing order (`Slab::iter`) -/
def liveIds (s : State) : List Nat :=
  (List.range s.nslots).filter fun i => (getFlow s i).isSome

/-- `Slab::insert` -/
def slabInsert (s : State) (f : Flow) : State × Nat :=
  match s.free with
  | k :: rest => ({ s with slots := KMap.set s.slots k f, free := rest, len := s.len + 1 }, k)
  | [] => ({ s with slots := KMap.set s.slots s.nslots f, nslots := s.nslots + 1, len := s.len + 1 }, s.nslots)

/-- `Slab::remove` of an occupied key -/
def slabRemove (s : State) (k : Nat) : State :=
  { s with slots := KMap.erase s.slots k, free := k :: s.free, len := s.len - 1 }

/-- write a flow back through `get_mut` -/
def setFlow (s : State) (id : Nat) (f : Flow) : State :=
  { s with slots := KMap.set s.slots id f }

/-! ### manager internals -/

def push (s : State) (o : Out) : State := { s with outs := s.outs ++ [o] }

/-- `drop_datagram` -/
def dropDatagram (s : State) (r : DropReason) : State :=
  push (push s (.metric (.dropped r))) (.drop r)

def optMin (a : Option Nat) (d : Nat) : Option Nat :=
  match a with
  | none => some d
  | some x => some (min x d)

/-- earliest idle deadline over the non-`Closing` slab flows -/
def minDeadline (s : State) : Option Nat :=
  (liveIds s).foldl (fun acc id =>
    match getFlow s id with
    | some f => if f.phase ≠ .closing then optMin acc f.deadline else acc
    | none => acc) none

/-- `reschedule` -/
def reschedule (s : State) : State :=
  let next := minDeadline s
  if next ≠ s.armed then
    match next with
    | some d => push { s with armed := next } (.armTimer d)
    | none => { s with armed := next }
  else s

/-- the table after `close_flow`'s conditional removal -/
def closeTable (s : State) (id : Nat) (f : Flow) : KMap FKey Nat :=
  let key := flowKey f.client s.cluster.withPort
  if KMap.get? s.table key = some id then KMap.erase s.table key
  else
    let own := flowKey f.client f.cfg.withPort
    if KMap.get? s.table own = some id then KMap.erase s.table own else s.table

/-- `close_flow` -/
def closeFlow (s : State) (id : Nat) : State :=
  match getFlow s id with
  | none => s
  | some f =>
    if f.phase = .closing then s
    else
      let s1 := slabRemove { s with table := closeTable s id f } id
      reschedule (push (push s1 (.metric .flowEvicted)) (.closeFlow id))

/-- tail shared by every forward site: close when a cap is exhausted, else re-arm -/
def finishForward (s : State) (id : Nat) (f : Flow) : State :=
  if f.teardownDue then closeFlow s id else reschedule s

/-- `forward_on_existing_flow` -/
def forwardExisting (s : State) (id : Nat) (payload : Bytes) (now : Nat) : State :=
  match getFlow s id with
  | none => dropDatagram s .unknownFlow
  | some f =>
    match f.phase with
    | .awaiting =>
      let f1 := Flow.touch { f with pending := some payload } f.cfg.frontTo now
      reschedule (setFlow s id f1)
    | .established =>
      let f1 := f.onClient now
      match f1.backend with
      | none => s    -- `expect("Established flow always has a backend address")`: unreachable
      | some backend =>
        let (pp, f2) := f1.takePP
        let out := if pp then ppHeader f2.client backend ++ payload else payload
        let s1 := setFlow s id f2
        let s2 := push (push s1 (.metric (.dgramIn payload.length))) (.sendToBackend id backend out)
        finishForward s2 id f2
    | .closing => dropDatagram s .shed

/-- the flow parked at admission: `UdpFlow::new` + the buffered first datagram -/
def newFlow (src : Addr) (cfg : Cfg) (payload : Bytes) (now : Nat) : Flow :=
  { Flow.new src cfg now with pending := some payload }

/-- the admission path of `on_client_datagram` -/
def admitFlow (s : State) (src : Addr) (payload : Bytes) (now : Nat) : State :=
  let f := newFlow src s.cluster payload now
  let r := slabInsert s f
  let s2 := { r.1 with table := KMap.set r.1.table (flowKey src s.cluster.withPort) r.2 }
  let s3 := push (push s2 (.metric .flowCreated))
              (.selectBackend r.2 s.cluster.cluster (affKey f.client f.cfg.withPort))
  reschedule s3

/-- `on_client_datagram` -/
def onClient (s : State) (src : Addr) (payload : Bytes) (now : Nat) : State :=
  if payload.length > s.maxRx then dropDatagram s .truncated
  else if s.cluster.cluster.isEmpty then dropDatagram s .noBackend
  else if payload.isEmpty then dropDatagram s .invalid
  else
    let key := flowKey src s.cluster.withPort
    match KMap.get? s.table key with
    | some id => forwardExisting s id payload now
    | none =>
      if s.draining then dropDatagram s .shed
      else if s.len ≥ s.maxFlows then dropDatagram (push s (.metric .flowShed)) .shed
      else admitFlow s src payload now

/-- `on_backend_resolved` -/
def onResolved (s : State) (id : Nat) (bid : String) (addr : Addr) (now : Nat) : State :=
  match getFlow s id with
  | none => dropDatagram s .unknownFlow
  | some f =>
    if f.phase ≠ .awaiting then s
    else
      let f1 := { f with backendId := some bid, backend := some addr, phase := .established }
      let s1 := push (setFlow s id f1) (.openUpstream id addr)
      match f1.pending with
      | some payload =>
        let f2 := Flow.onClient { f1 with pending := none } now
        let (pp, f3) := f2.takePP
        let out := if pp then ppHeader f3.client addr ++ payload else payload
        let s2 := setFlow s1 id f3
        let s3 := push (push s2 (.metric (.dgramIn payload.length))) (.sendToBackend id addr out)
        finishForward s3 id f3
      | none =>
        reschedule (setFlow s1 id (Flow.touch f1 s.cluster.frontTo now))

/-- `on_backend_datagram` -/
def onBackend (s : State) (id : Nat) (payload : Bytes) (now : Nat) : State :=
  if payload.length > s.maxRx then dropDatagram s .truncated
  else
    match getFlow s id with
    | none => dropDatagram s .unknownFlow
    | some f =>
      if f.phase ≠ .established then dropDatagram s .unknownFlow
      else
        let f1 := f.onBackend now
        let s1 := setFlow s id f1
        let s2 := push (push s1 (.metric (.dgramOut payload.length))) (.sendToClient id f1.client payload)
        finishForward s2 id f1

/-- one iteration of the `for flow_id in due` loop of `handle_timeout` -/
def timeoutOne (now : Nat) (s : State) (id : Nat) : State :=
  match getFlow s id with
  | some f => if f.deadline ≤ now ∧ f.phase ≠ .closing then closeFlow s id else s
  | none => s

def isDue (s : State) (now : Nat) (id : Nat) : Bool :=
  match getFlow s id with
  | some f => decide (f.deadline ≤ now)
  | none => false

/-- `handle_timeout` -/
def handleTimeout (s : State) (now : Nat) : State :=
  reschedule (((liveIds s).filter (isDue s now)).foldl (timeoutOne now) s)

/-- `close_all` -/
def closeAll (s : State) : State := (liveIds s).foldl closeFlow s

/-- dispatch (`handle_input` / `abort_flow` / `close_all` / `handle_timeout`) -/
def handle (s : State) : Op → State
  | .client src p now => onClient s src p now
  | .backend id p now => onBackend s id p now
  | .resolved id bid addr now => onResolved s id bid addr now
  | .setCluster cfg => { s with cluster := cfg }
  | .setMaxFlows n => { s with maxFlows := n }
  | .setMaxRx n => { s with maxRx := n }
  | .drain => { s with draining := true }
  | .timeout now => handleTimeout s now
  | .abort id => closeFlow s id
  | .closeAll => closeAll s

/-- one input followed by draining `poll_output` to `None` -/
def step (s : State) (op : Op) : State × List Out :=
  let s' := handle { s with outs := [] } op
  ({ s' with outs := [] }, s'.outs)

def run (s : State) (ops : List Op) : State := ops.foldl (fun s op => (step s op).1) s

/-- the outputs of every step of a run, in order -/
def trace (s : State) : List Op → List (List Out)
  | [] => []
  | op :: ops => (step s op).2 :: trace (step s op).1 ops

end Sozu.Udp
