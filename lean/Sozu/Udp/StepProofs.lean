import Sozu.Udp.Lemmas
/-
Proofs of the per-input / accounting property theorems of C19 (stated in
`Sozu/Udp/Props.lean` under the property id; here they are called `c19_*`), with the
notions their statements use (`Reachable`, `capHigh`, `admissionsIn`, `closesIn`).
-/
set_option linter.unusedSimpArgs false
set_option linter.unusedVariables false
namespace Sozu.Udp
open Sozu KMap

/-- reachable from a fresh manager by any sequence of inputs (client / backend
    datagrams, resolutions incl. stale ones, config / cap / drain events,
    timeouts, aborts, mass teardown) -/
def Reachable (s : State) : Prop := ∃ c mf mr ops, s = run (State.new c mf mr) ops

theorem reachable_inv {s : State} (h : Reachable s) : Inv s := by
  obtain ⟨c, mf, mr, ops, rfl⟩ := h
  exact inv_run ops (inv_new c mf mr)

theorem reachable_step {s : State} (h : Reachable s) (op : Op) : Reachable (step s op).1 := by
  obtain ⟨c, mf, mr, ops, rfl⟩ := h
  refine ⟨c, mf, mr, ops ++ [op], ?_⟩
  simp [run, List.foldl_append]

/-- The reachable-state invariant: table ↔ slab consistency (every table entry
    points at a live flow admitted under exactly that key, every live flow is
    in the table under its own key), no `Closing` flow persists,
    `Established ↔ backend set`, an awaiting flow holds its buffered datagram,
    the slab free list is sound, `len` is the number of live flows, no live
    flow has an exhausted cap, and `first_upstream_pending` means "PROXY
    header still owed". -/
theorem c19_invariant {s : State} (h : Reachable s) : Inv s := reachable_inv h

/-- at most one live flow per flow key -/
theorem c19_one_flow_per_key {s : State} (h : Reachable s) (i j : Nat) (f g : Flow)
    (hf : getFlow s i = some f) (hg : getFlow s j = some g) (hk : ownKey f = ownKey g) : i = j := by
  have hs := (reachable_inv h).str
  have h1 := hs.tableComplete i f hf
  have h2 := hs.tableComplete j g hg
  rw [hk, h2] at h1
  cases h1; rfl

/-! ### sticky -/

/-- Every `SendToBackend` goes to the backend address fixed for its flow:
    either the flow was already established with exactly that address (and the
    datagram's source key is the key that flow is filed under), or this very
    input is the resolution that fixes the address (`OpenUpstream` to the same
    address precedes the datagram). -/
theorem c19_sticky {s : State} (h : Reachable s) (op : Op) (id : Nat) (dst : Addr) (pl : Bytes)
    (hout : Out.sendToBackend id dst pl ∈ (step s op).2) :
    (∃ f src p now, op = .client src p now ∧ getFlow s id = some f ∧ f.backend = some dst ∧
        get? s.table (flowKey src s.cluster.withPort) = some id) ∨
    (∃ f bid now, op = .resolved id bid dst now ∧ getFlow s id = some f ∧ f.backend = none ∧
        Out.openUpstream id dst ∈ (step s op).2) := by
  have hi := reachable_inv h
  obtain ⟨_, k⟩ := step_kind hi op
  have hmem := fun o (ho : Out.noise o = false) => @mem_outs_iff_sig o (handle s op).outs ho
  rw [step_snd s op hi.drained] at hout ⊢
  rw [hmem _ rfl] at hout
  cases k with
  | quiet core sg =>
    obtain ⟨l, hl, hd⟩ := sg
    rw [hl, hi.drained] at hout
    obtain ⟨r, hr⟩ := hd _ (by simpa using hout); cases hr
  | buffer src p now id' f hop hvalid hk hf hph hsig slots len table =>
    rw [hsig, hi.drained] at hout; simp at hout
  | forward src p now id' f b hop hvalid hk hf hph hb res =>
    rw [fwdRes_mem res hi.drained] at hout
    rcases hout with hout | ⟨_, hout⟩
    · simp at hout
      obtain ⟨rfl, rfl, rfl⟩ := hout
      exact Or.inl ⟨f, src, p, now, hop, hf, hb, hk⟩
    · cases hout
  | reply id' p now f hop hlen hf hph res =>
    rw [fwdRes_mem res hi.drained] at hout
    rcases hout with hout | ⟨_, hout⟩
    · simp at hout
    · cases hout
  | resolve id' bid addr now f q hop hf hph hq res =>
    rw [fwdRes_mem res hi.drained] at hout
    rcases hout with hout | ⟨_, hout⟩
    · simp at hout
      obtain ⟨rfl, rfl, rfl⟩ := hout
      refine Or.inr ⟨f, bid, now, hop, hf, ?_, ?_⟩
      · have hp := (hi.str.phaseOk _ f hf)
        cases hb : f.backend with
        | none => rfl
        | some b => have := hp.estab.mpr (by simp [hb]); rw [hph] at this; cases this
      · rw [hmem _ rfl, fwdRes_mem res hi.drained]; simp
    · cases hout
  | admission src p now hop hvalid hnone hroom hnd hvac hsig slots table len =>
    rw [hsig, hi.drained] at hout; simp at hout
  | closes ids hnodup hlive hop hsig slots len hle =>
    rw [hsig, hi.drained] at hout; simp at hout

/-- A live flow incarnation keeps its client, its captured config and — once
    set — its backend address for as long as it lives; it disappears from the
    slab only together with a `CloseFlow` for it. -/
theorem c19_sticky_backend_fixed {s : State} (h : Reachable s) (op : Op) (id : Nat) (f : Flow)
    (hf : getFlow s id = some f) :
    (∃ f', getFlow (step s op).1 id = some f' ∧ f'.client = f.client ∧ f'.cfg = f.cfg ∧
        (∀ b, f.backend = some b → f'.backend = some b) ∧ Out.closeFlow id ∉ (step s op).2) ∨
    (getFlow (step s op).1 id = none ∧ Out.closeFlow id ∈ (step s op).2) := by
  have hi := reachable_inv h
  obtain ⟨_, k⟩ := step_kind hi op
  have hmem := fun o (ho : Out.noise o = false) => @mem_outs_iff_sig o (handle s op).outs ho
  simp only [getFlow_def] at hf ⊢
  rw [step_snd s op hi.drained, step_slots s op hi.drained, hmem _ rfl]
  cases k with
  | quiet core sg =>
    obtain ⟨l, hl, hd⟩ := sg
    left
    refine ⟨f, by rw [core.slots]; exact hf, rfl, rfl, fun b hb => hb, ?_⟩
    rw [hl, hi.drained]
    intro hc
    obtain ⟨r, hr⟩ := hd _ (by simpa using hc); cases hr
  | buffer src p now id' f0 hop hvalid hk hf0 hph hsig slots len table =>
    left
    rw [slots, hsig, hi.drained]
    by_cases e : id = id'
    · subst e; rw [hf] at hf0; cases hf0
      exact ⟨Flow.touch { f with pending := some p } f.cfg.frontTo now, by simp, rfl, rfl,
        fun b hb => hb, by simp⟩
    · exact ⟨f, by simp [e, hf], rfl, rfl, fun b hb => hb, by simp⟩
  | forward src p now id' f0 b hop hvalid hk hf0 hph hb res =>
    rw [res.slots, fwdRes_mem res hi.drained]
    by_cases e : id = id'
    · subst e; rw [hf] at hf0; cases hf0
      cases ht : (f.onClient now).takePP.2.teardownDue
      · left; refine ⟨(f.onClient now).takePP.2, by simp, ?_, ?_, ?_, by simp⟩
        · rw [takePP_snd]; rfl
        · rw [takePP_snd]; rfl
        · intro b' hb'; rw [takePP_snd]; exact hb'
      · right; simp
    · left
      exact ⟨f, by simp [e, hf], rfl, rfl, fun b hb => hb, by simp [e]⟩
  | reply id' p now f0 hop hlen hf0 hph res =>
    rw [res.slots, fwdRes_mem res hi.drained]
    by_cases e : id = id'
    · subst e; rw [hf] at hf0; cases hf0
      cases ht : (f.onBackend now).teardownDue
      · left; exact ⟨f.onBackend now, by simp, rfl, rfl, fun b hb => hb, by simp⟩
      · right; simp
    · left
      exact ⟨f, by simp [e, hf], rfl, rfl, fun b hb => hb, by simp [e]⟩
  | resolve id' bid addr now f0 q hop hf0 hph hq res =>
    rw [res.slots, fwdRes_mem res hi.drained]
    by_cases e : id = id'
    · subst e; rw [hf] at hf0; cases hf0
      have hnb : f.backend = none := by
        have hp := (hi.str.phaseOk _ f hf)
        cases hb : f.backend with
        | none => rfl
        | some b => have := hp.estab.mpr (by simp [hb]); rw [hph] at this; cases this
      cases ht : (resolvedFlow f bid addr now).teardownDue
      · left; refine ⟨resolvedFlow f bid addr now, by simp, ?_, ?_, ?_, by simp⟩
        · unfold resolvedFlow; rw [takePP_snd]; rfl
        · unfold resolvedFlow; rw [takePP_snd]; rfl
        · intro b' hb'; rw [hnb] at hb'; cases hb'
      · right; simp
    · left
      exact ⟨f, by simp [e, hf], rfl, rfl, fun b hb => hb, by simp [e]⟩
  | admission src p now hop hvalid hnone hroom hnd hvac hsig slots table len =>
    left
    rw [slots, hsig, hi.drained]
    have e : id ≠ nextId s := by intro e; rw [e, hvac] at hf; cases hf
    exact ⟨f, by simp [e, hf], rfl, rfl, fun b hb => hb, by simp⟩
  | closes ids hnodup hlive hop hsig slots len hle =>
    rw [slots, hsig, hi.drained]
    by_cases e : id ∈ ids
    · right; simp [e]
    · left; exact ⟨f, by simp [e, hf], rfl, rfl, fun b hb => hb, by simp [e]⟩

/-- flow-key equality of two sources filed under possibly different affinity
    modes is affinity-key equality (the `ip_only` flag keeps the modes apart) -/
theorem flowKey_eq_affKey {a b : Addr} {wa wb : Bool}
    (h : flowKey a wa = flowKey b wb) : wa = wb ∧ affKey a wa = affKey b wb := by
  rcases a with ⟨av, aip, ap⟩
  rcases b with ⟨bv, bip, bp⟩
  cases wa <;> cases wb <;> simp_all [flowKey, affKey]

/-- A client datagram is only ever forwarded on a flow that was admitted under
    the *same* affinity mode for the *same* affinity key (source ip, plus source
    port in 4-tuple mode) — for every source, port 0 included (full statement
    since the `FlowKey.ip_only` repair; before it this needed `port ≠ 0`). -/
theorem c19_sticky_affinity {s : State} (h : Reachable s) (src : Addr) (p : Bytes) (now id : Nat)
    (dst : Addr) (pl : Bytes) (f : Flow)
    (hout : Out.sendToBackend id dst pl ∈ (step s (.client src p now)).2)
    (hf : getFlow s id = some f) :
    f.cfg.withPort = s.cluster.withPort ∧
      affKey f.client f.cfg.withPort = affKey src s.cluster.withPort := by
  rcases c19_sticky h _ id dst pl hout with ⟨f', src', p', now', hop, hf', _, hk⟩ | ⟨_, _, _, hop, _⟩
  · cases hop
    rw [hf] at hf'; cases hf'
    obtain ⟨g, hg, hkey⟩ := (reachable_inv h).str.tableSound _ _ hk
    simp only [getFlow_def] at hf
    rw [hf] at hg; cases hg
    exact flowKey_eq_affKey hkey.symm
  · cases hop

/-! ### isolated -/

/-- Every `SendToClient` is caused by a backend datagram that arrived on an
    established flow, carries exactly that datagram's bytes, and is addressed
    to the client of that very flow (the source of the datagram that created
    the flow — `c19_sticky_backend_fixed` shows it never changes). -/
theorem c19_isolated {s : State} (h : Reachable s) (op : Op) (id : Nat) (dst : Addr) (pl : Bytes)
    (hout : Out.sendToClient id dst pl ∈ (step s op).2) :
    ∃ f now, op = .backend id pl now ∧ getFlow s id = some f ∧ f.phase = .established ∧
      dst = f.client := by
  have hi := reachable_inv h
  obtain ⟨_, k⟩ := step_kind hi op
  rw [step_snd s op hi.drained, mem_outs_iff_sig rfl] at hout
  cases k with
  | quiet core sg =>
    obtain ⟨l, hl, hd⟩ := sg
    rw [hl, hi.drained] at hout
    obtain ⟨r, hr⟩ := hd _ (by simpa using hout); cases hr
  | buffer src p now id' f hop hvalid hk hf hph hsig slots len table =>
    rw [hsig, hi.drained] at hout; simp at hout
  | forward src p now id' f b hop hvalid hk hf hph hb res =>
    rw [fwdRes_mem res hi.drained] at hout
    rcases hout with hout | ⟨_, hout⟩
    · simp at hout
    · cases hout
  | reply id' p now f hop hlen hf hph res =>
    rw [fwdRes_mem res hi.drained] at hout
    rcases hout with hout | ⟨_, hout⟩
    · simp at hout
      obtain ⟨rfl, rfl, rfl⟩ := hout
      exact ⟨f, now, hop, hf, hph, rfl⟩
    · cases hout
  | resolve id' bid addr now f q hop hf hph hq res =>
    rw [fwdRes_mem res hi.drained] at hout
    rcases hout with hout | ⟨_, hout⟩
    · simp at hout
    · cases hout
  | admission src p now hop hvalid hnone hroom hnd hvac hsig slots table len =>
    rw [hsig, hi.drained] at hout; simp at hout
  | closes ids hnodup hlive hop hsig slots len hle =>
    rw [hsig, hi.drained] at hout; simp at hout

/-! ### no duplication, merging, truncation, reordering -/

theorem toBackend_closeIf (c : Bool) (id : Nat) :
    (if c = true then [Out.closeFlow id] else []).filter isToBackend = [] := by
  cases c <;> rfl


/-- One input causes at most one upstream datagram, and that datagram is
    byte-identical to a single accepted client datagram: either the datagram
    of this very input (established flow), or the one datagram buffered for the
    flow while it awaited its backend (flushed by the resolution, before any
    later datagram can be forwarded) — prefixed by exactly the PROXY v2 header
    of (flow client, flow backend) iff the flow's captured config asks for it:
    on every datagram, or only while nothing was forwarded yet (`req = 0`). -/
theorem c19_no_dup_merge_trunc_reorder {s : State} (h : Reachable s) (op : Op) :
    ((step s op).2.filter isToBackend).length ≤ 1 ∧
    ∀ id dst pl, Out.sendToBackend id dst pl ∈ (step s op).2 →
      ∃ f orig, getFlow s id = some f ∧
        ((∃ src now, op = .client src orig now ∧ f.phase = .established) ∨
         (∃ bid now, op = .resolved id bid dst now ∧ f.phase = .awaiting ∧ f.pending = some orig)) ∧
        pl = (if f.cfg.sendPP && (f.cfg.ppEvery || f.firstPending) then ppHeader f.client dst ++ orig
              else orig) ∧
        (f.cfg.ppEvery = false → f.firstPending = (f.cfg.sendPP && f.req == 0)) := by
  have hi := reachable_inv h
  obtain ⟨_, k⟩ := step_kind hi op
  rw [step_snd s op hi.drained, ← toBackend_sig]
  have hmem := fun o (ho : Out.noise o = false) => @mem_outs_iff_sig o (handle s op).outs ho
  cases k with
  | quiet core sg =>
    obtain ⟨l, hl, hd⟩ := sg
    rw [hl, hi.drained]
    refine ⟨?_, ?_⟩
    · have : l.filter isToBackend = [] := by
        apply List.filter_eq_nil_iff.mpr
        intro o ho; obtain ⟨r, hr⟩ := hd o ho; subst hr; simp [isToBackend]
      simp [this]
    · intro id dst pl hout
      rw [hmem _ rfl, hl, hi.drained] at hout
      obtain ⟨r, hr⟩ := hd _ (by simpa using hout); cases hr
  | buffer src p now id' f hop hvalid hk hf hph hsig slots len table =>
    rw [hsig, hi.drained]
    refine ⟨by simp, ?_⟩
    intro id dst pl hout
    rw [hmem _ rfl, hsig, hi.drained] at hout; simp at hout
  | forward src p now id' f b hop hvalid hk hf hph hb res =>
    refine ⟨?_, ?_⟩
    · rw [res.sig, hi.drained]; simp [List.filter_append, toBackend_closeIf, isToBackend, List.filter_cons]
    · intro id dst pl hout
      rw [hmem _ rfl, fwdRes_mem res hi.drained] at hout
      rcases hout with hout | ⟨_, hout⟩
      · simp at hout
        obtain ⟨rfl, rfl, rfl⟩ := hout
        refine ⟨f, p, hf, Or.inl ⟨src, now, hop, hph⟩, ?_, (hi.caps _ f hf).pp⟩
        rw [takePP_fst]; rfl
      · cases hout
  | reply id' p now f hop hlen hf hph res =>
    refine ⟨?_, ?_⟩
    · rw [res.sig, hi.drained]; simp [List.filter_append, toBackend_closeIf, isToBackend, List.filter_cons]
    · intro id dst pl hout
      rw [hmem _ rfl, fwdRes_mem res hi.drained] at hout
      rcases hout with hout | ⟨_, hout⟩
      · simp at hout
      · cases hout
  | resolve id' bid addr now f q hop hf hph hq res =>
    refine ⟨?_, ?_⟩
    · rw [res.sig, hi.drained]; simp [List.filter_append, toBackend_closeIf, isToBackend, List.filter_cons]
    · intro id dst pl hout
      rw [hmem _ rfl, fwdRes_mem res hi.drained] at hout
      rcases hout with hout | ⟨_, hout⟩
      · simp at hout
        obtain ⟨rfl, rfl, rfl⟩ := hout
        refine ⟨f, q, hf, Or.inr ⟨bid, now, hop, hph, hq⟩, ?_, (hi.caps _ f hf).pp⟩
        unfold resolvedPP; rw [takePP_fst]; rfl
      · cases hout
  | admission src p now hop hvalid hnone hroom hnd hvac hsig slots table len =>
    rw [hsig, hi.drained]
    refine ⟨by simp [isToBackend], ?_⟩
    intro id dst pl hout
    rw [hmem _ rfl, hsig, hi.drained] at hout; simp at hout
  | closes ids hnodup hlive hop hsig slots len hle =>
    rw [hsig, hi.drained]
    refine ⟨?_, ?_⟩
    · have : (ids.map Out.closeFlow).filter isToBackend = [] := by
        apply List.filter_eq_nil_iff.mpr
        intro o ho; obtain ⟨i, _, rfl⟩ := List.mem_map.mp ho; simp [isToBackend]
      simp [this]
    · intro id dst pl hout
      rw [hmem _ rfl, hsig, hi.drained] at hout; simp at hout

/-- The one-slot buffer of an awaiting flow is newest-wins: while the flow
    keeps awaiting its backend, its buffered datagram is either unchanged or
    replaced by the payload of a valid client datagram of this input whose key
    is filed under this flow. -/
theorem c19_buffer_newest_wins {s : State} (h : Reachable s) (op : Op) (id : Nat) (f f' : Flow)
    (hf : getFlow s id = some f) (hph : f.phase = .awaiting)
    (hf' : getFlow (step s op).1 id = some f') (hph' : f'.phase = .awaiting) :
    f'.pending = f.pending ∨
    (∃ src p now, op = .client src p now ∧ ClientValid s p ∧
      get? s.table (flowKey src s.cluster.withPort) = some id ∧ f'.pending = some p) := by
  have hi := reachable_inv h
  obtain ⟨_, k⟩ := step_kind hi op
  simp only [getFlow_def] at hf hf'
  rw [step_slots s op hi.drained] at hf'
  cases k with
  | quiet core sg => rw [core.slots, hf] at hf'; cases hf'; exact Or.inl rfl
  | buffer src p now id' f0 hop hvalid hk hf0 hph0 hsig slots len table =>
    rw [slots] at hf'
    by_cases e : id = id'
    · subst e; simp at hf'; subst hf'
      exact Or.inr ⟨src, p, now, hop, hvalid, hk, rfl⟩
    · simp [e, hf] at hf'; subst hf'; exact Or.inl rfl
  | forward src p now id' f0 b hop hvalid hk hf0 hph0 hb res =>
    rw [res.slots] at hf'
    by_cases e : id = id'
    · subst e; rw [hf] at hf0; cases hf0; rw [hph] at hph0; cases hph0
    · simp [e, hf] at hf'; subst hf'; exact Or.inl rfl
  | reply id' p now f0 hop hlen hf0 hph0 res =>
    rw [res.slots] at hf'
    by_cases e : id = id'
    · subst e; rw [hf] at hf0; cases hf0; rw [hph] at hph0; cases hph0
    · simp [e, hf] at hf'; subst hf'; exact Or.inl rfl
  | resolve id' bid addr now f0 q hop hf0 hph0 hq res =>
    rw [res.slots] at hf'
    by_cases e : id = id'
    · subst e; simp at hf'
      obtain ⟨_, rfl⟩ := hf'
      have : (resolvedFlow f0 bid addr now).phase = .established := by
        unfold resolvedFlow; rw [takePP_snd]; rfl
      rw [this] at hph'; cases hph'
    · simp [e, hf] at hf'; subst hf'; exact Or.inl rfl
  | admission src p now hop hvalid hnone hroom hnd hvac hsig slots table len =>
    rw [slots] at hf'
    have e : id ≠ nextId s := by intro e; rw [e, hvac] at hf; cases hf
    simp [e, hf] at hf'; subst hf'; exact Or.inl rfl
  | closes ids hnodup hlive hop hsig slots len hle =>
    rw [slots] at hf'
    by_cases e : id ∈ ids
    · simp [e] at hf'
    · simp [e, hf] at hf'; subst hf'; exact Or.inl rfl

/-! ### admission / bounded -/

/-- A flow is created (`SelectBackend`) only by a client datagram, only when
    `len < max_flows` and the listener is not draining, only for a key with no
    live flow and in a vacant slab slot; the new flow is parked with exactly
    that datagram buffered, and `len` grows by one. -/
theorem c19_admission {s : State} (h : Reachable s) (op : Op) (id : Nat) (cl : String) (k : AKey)
    (hout : Out.selectBackend id cl k ∈ (step s op).2) :
    ∃ src p now, op = .client src p now ∧ s.len < s.maxFlows ∧ s.draining = false ∧
      getFlow s id = none ∧ get? s.table (flowKey src s.cluster.withPort) = none ∧
      k = affKey src s.cluster.withPort ∧
      getFlow (step s op).1 id = some (newFlow src s.cluster p now) ∧
      (step s op).1.len = s.len + 1 := by
  have hi := reachable_inv h
  obtain ⟨_, kd⟩ := step_kind hi op
  rw [step_snd s op hi.drained, mem_outs_iff_sig rfl] at hout
  simp only [getFlow_def]
  rw [step_slots s op hi.drained, step_len s op hi.drained]
  cases kd with
  | quiet core sg =>
    obtain ⟨l, hl, hd⟩ := sg
    rw [hl, hi.drained] at hout
    obtain ⟨r, hr⟩ := hd _ (by simpa using hout); cases hr
  | buffer src p now id' f hop hvalid hk hf hph hsig slots len table =>
    rw [hsig, hi.drained] at hout; simp at hout
  | forward src p now id' f b hop hvalid hk hf hph hb res =>
    rw [fwdRes_mem res hi.drained] at hout
    rcases hout with hout | ⟨_, hout⟩
    · simp at hout
    · cases hout
  | reply id' p now f hop hlen hf hph res =>
    rw [fwdRes_mem res hi.drained] at hout
    rcases hout with hout | ⟨_, hout⟩
    · simp at hout
    · cases hout
  | resolve id' bid addr now f q hop hf hph hq res =>
    rw [fwdRes_mem res hi.drained] at hout
    rcases hout with hout | ⟨_, hout⟩
    · simp at hout
    · cases hout
  | admission src p now hop hvalid hnone hroom hnd hvac hsig slots table len =>
    rw [hsig, hi.drained] at hout
    simp at hout
    obtain ⟨rfl, rfl, rfl⟩ := hout
    exact ⟨src, p, now, hop, hroom, hnd, hvac, hnone, rfl, by rw [slots]; simp, len⟩
  | closes ids hnodup hlive hop hsig slots len hle =>
    rw [hsig, hi.drained] at hout; simp at hout

/-- `len` (what admission compares with the cap) is the number of live flows -/
theorem c19_admission_len_is_live_count {s : State} (h : Reachable s) :
    s.len = (liveIds s).length ∧ ∀ id, id ∈ liveIds s ↔ (getFlow s id).isSome :=
  ⟨(reachable_inv h).str.lenEq, fun id => mem_liveIds (reachable_inv h).str id⟩

/-- the live-flow count grows only through an admission, by exactly one -/
theorem c19_admission_only_growth {s : State} (h : Reachable s) (op : Op) :
    (step s op).1.len ≤ s.len ∨
    ((step s op).1.len = s.len + 1 ∧ s.len < s.maxFlows ∧ s.draining = false ∧
      ∃ id cl k, Out.selectBackend id cl k ∈ (step s op).2) := by
  have hi := reachable_inv h
  obtain ⟨_, kd⟩ := step_kind hi op
  rw [step_snd s op hi.drained, step_len s op hi.drained]
  cases kd with
  | quiet core sg => left; rw [core.len]; exact Nat.le_refl _
  | buffer src p now id' f hop hvalid hk hf hph hsig slots len table => left; rw [len]; exact Nat.le_refl _
  | forward src p now id' f b hop hvalid hk hf hph hb res => left; rw [res.len]; split <;> omega
  | reply id' p now f hop hlen hf hph res => left; rw [res.len]; split <;> omega
  | resolve id' bid addr now f q hop hf hph hq res => left; rw [res.len]; split <;> omega
  | admission src p now hop hvalid hnone hroom hnd hvac hsig slots table len =>
    right
    refine ⟨len, hroom, hnd, nextId s, s.cluster.cluster, affKey src s.cluster.withPort, ?_⟩
    rw [mem_outs_iff_sig rfl, hsig]; simp
  | closes ids hnodup hlive hop hsig slots len hle => left; rw [len]; omega

/-- Existing flows keep forwarding whatever the cap and the drain flag are
    (e.g. after `SetMaxFlows` below the live count, or `Drain`): a valid
    datagram whose key is filed under an established flow is forwarded to that
    flow's backend. -/
theorem c19_admission_existing_flows_continue {s : State} (h : Reachable s) (src : Addr) (p : Bytes)
    (now id : Nat) (f : Flow) (b : Addr) (hvalid : ClientValid s p)
    (hk : get? s.table (flowKey src s.cluster.withPort) = some id)
    (hf : getFlow s id = some f) (hb : f.backend = some b) :
    ∃ pl, Out.sendToBackend id b pl ∈ (step s (.client src p now)).2 := by
  have hi := reachable_inv h
  simp only [getFlow_def] at hf
  have hph : f.phase = .established := (hi.str.phaseOk id f hf).estab.mpr (by simp [hb])
  rw [step_snd s _ hi.drained]
  show ∃ pl, Out.sendToBackend id b pl ∈ (onClient s src p now).outs
  rw [onClient_valid src now hvalid, hk]
  simp only
  obtain ⟨_, _, kd⟩ := forwardExisting_kind hi.str hi.caps src id p now hvalid hk
  rw [forwardExisting_est p now hf hph hb] at kd ⊢
  have hpk : PhaseOk (f.onClient now).takePP.2 := by
    have hp := hi.str.phaseOk id f hf
    rw [takePP_snd]; exact ⟨hp.notClosing, hp.estab, hp.await⟩
  have hown : ownKey (f.onClient now).takePP.2 = ownKey f := by rw [takePP_snd]; rfl
  have res := fwd_generic hi.str hi.caps hf hown hpk (fwdFlow_pp (hi.caps id f hf).pp now)
    [.metric (.dgramIn p.length), .sendToBackend id b
      (if (f.onClient now).takePP.1 then ppHeader f.client b ++ p else p)]
  refine ⟨_, (mem_outs_iff_sig (o := Out.sendToBackend id b
    (if (f.onClient now).takePP.1 then ppHeader f.client b ++ p else p)) rfl).mpr ?_⟩
  rw [fwdRes_mem res hi.drained]
  left; simp [sig, Out.noise]

/-- the highest cap ever in force along an input sequence -/
def capHigh (h : Nat) (ops : List Op) : Nat :=
  ops.foldl (fun acc op => match op with
    | .setMaxFlows n => max acc n
    | _ => acc) h

theorem capHigh_ge (ops : List Op) : ∀ h, h ≤ capHigh h ops := by
  induction ops with
  | nil => intro h; exact Nat.le_refl _
  | cons op ops ih =>
    intro h
    simp only [capHigh, List.foldl_cons]
    cases op <;> first
      | exact ih h
      | (rename_i n; exact Nat.le_trans (Nat.le_max_left h n) (ih (max h n)))

theorem step_maxFlows (s : State) (op : Op) (hs : Str s) (hc : Caps s) (hd : s.outs = []) :
    (step s op).1.maxFlows = match op with
      | .setMaxFlows n => n
      | _ => s.maxFlows := by
  rw [step_fst s op hd]
  cases op with
  | client src p now =>
    obtain ⟨_, _, k⟩ := onClient_kind hs hc src p now
    show (onClient s src p now).maxFlows = s.maxFlows
    cases k with
    | quiet core sg =>
      -- knobs of the quiet client paths: all are drops
      by_cases hv : ClientValid s p
      · rw [onClient_valid src now hv]
        cases hk : get? s.table (flowKey src s.cluster.withPort) with
        | some id =>
          simp only
          cases hf : get? s.slots id with
          | none => rw [forwardExisting_none p now hf]; rfl
          | some f =>
            have hp := hs.phaseOk id f hf
            cases hph : f.phase with
            | closing => exact absurd hph hp.notClosing
            | awaiting => rw [forwardExisting_await p now hf hph]; exact (sameKnobs_reschedule _).maxFlows
            | established =>
              obtain ⟨b, hb⟩ := Option.isSome_iff_exists.mp (hp.estab.mp hph)
              rw [forwardExisting_est p now hf hph hb]
              have hpk : PhaseOk (f.onClient now).takePP.2 := by
                rw [takePP_snd]; exact ⟨hp.notClosing, hp.estab, hp.await⟩
              have hown : ownKey (f.onClient now).takePP.2 = ownKey f := by rw [takePP_snd]; rfl
              exact (fwd_generic hs hc hf hown hpk (fwdFlow_pp (hc id f hf).pp now) _).knobs.maxFlows
        | none =>
          simp only
          by_cases h4 : s.draining = true
          · simp [h4]; rfl
          · by_cases h5 : s.len ≥ s.maxFlows
            · simp [h4, h5]; rfl
            · simp [h4, h5]; rw [admitFlow_eq]
              exact ((sameKnobs_reschedule _).maxFlows).trans (admitted_knobs s (flowKey src s.cluster.withPort) (newFlow src s.cluster p now)).maxFlows
      · obtain ⟨r, hr⟩ := onClient_invalid src now hv; rw [hr]; rfl
    | buffer src' p' now' id f hop hvalid hk hf hph hsig slots len table =>
      cases hop
      rw [onClient_valid src now hvalid, hk]; simp only
      rw [forwardExisting_await p now hf hph]; exact (sameKnobs_reschedule _).maxFlows
    | forward src' p' now' id f b hop hvalid hk hf hph hb res => exact res.knobs.maxFlows
    | reply id p' now' f hop hlen hf hph res => exact res.knobs.maxFlows
    | resolve id bid addr now' f q hop hf hph hq res => exact res.knobs.maxFlows
    | admission src' p' now' hop hvalid hnone hroom hnd hvac hsig slots table len =>
      cases hop
      rw [onClient_valid src now hvalid, hnone]
      have h5 : ¬ s.len ≥ s.maxFlows := by omega
      simp [hnd, h5]; rw [admitFlow_eq]
      exact ((sameKnobs_reschedule _).maxFlows).trans (admitted_knobs s (flowKey src s.cluster.withPort) (newFlow src s.cluster p now)).maxFlows
    | closes ids hnodup hlive hop hsig slots len hle =>
      rcases hop with ⟨_, h, _⟩ | ⟨h, _⟩ | ⟨_, h, _⟩ <;> cases h
  | backend id p now =>
    obtain ⟨_, _, k⟩ := onBackend_kind hs hc id p now
    show (onBackend s id p now).maxFlows = s.maxFlows
    unfold onBackend
    by_cases hlen : p.length > s.maxRx
    · simp [hlen]; rfl
    · simp only [hlen, if_false, getFlow_def]
      cases hf : get? s.slots id with
      | none => rfl
      | some f =>
        by_cases hph : f.phase = .established
        · simp only [hph, ne_eq, not_true_eq_false, if_false, push_push_eq]
          have hp := hs.phaseOk id f hf
          exact (fwd_generic hs hc hf (f' := f.onBackend now) rfl
            ⟨hp.notClosing, hp.estab, hp.await⟩ (hc id f hf).pp _).knobs.maxFlows
        · simp [hph]; rfl
  | resolved id bid addr now =>
    show (onResolved s id bid addr now).maxFlows = s.maxFlows
    obtain ⟨_, _, k⟩ := onResolved_kind hs hc id bid addr now
    cases k with
    | quiet core sg =>
      cases hf : get? s.slots id with
      | none =>
        have : onResolved s id bid addr now = dropDatagram s .unknownFlow := by unfold onResolved; simp [hf]
        rw [this]; rfl
      | some f =>
        by_cases hph : f.phase = .awaiting
        · obtain ⟨q, hq⟩ := Option.isSome_iff_exists.mp ((hs.phaseOk id f hf).await hph)
          rw [onResolved_eq bid addr now hf hph hq]
          have hpk : PhaseOk (resolvedFlow f bid addr now) := by
            unfold resolvedFlow; rw [takePP_snd]
            exact ⟨by simp [Flow.onClient, Flow.touch], by simp [Flow.onClient, Flow.touch],
              by simp [Flow.onClient, Flow.touch]⟩
          have hown : ownKey (resolvedFlow f bid addr now) = ownKey f := by
            unfold resolvedFlow; rw [takePP_snd]; rfl
          have hpp : (resolvedFlow f bid addr now).cfg.ppEvery = false →
              (resolvedFlow f bid addr now).firstPending =
                ((resolvedFlow f bid addr now).cfg.sendPP && (resolvedFlow f bid addr now).req == 0) :=
            fwdFlow_pp (f := Flow.mk f.client (some bid) (some addr) .established f.cfg f.req f.resp f.deadline
              f.gen f.firstPending none) (hc id f hf).pp now
          exact (fwd_generic hs hc hf hown hpk hpp _).knobs.maxFlows
        · have : onResolved s id bid addr now = s := by unfold onResolved; simp [hf, hph]
          rw [this]
    | buffer src' p' now' id' f hop hvalid hk hf hph hsig slots len table => cases hop
    | forward src' p' now' id' f b hop hvalid hk hf hph hb res => exact res.knobs.maxFlows
    | reply id' p' now' f hop hlen hf hph res => exact res.knobs.maxFlows
    | resolve id' bid' addr' now' f q hop hf hph hq res => exact res.knobs.maxFlows
    | admission src' p' now' hop hvalid hnone hroom hnd hvac hsig slots table len => cases hop
    | closes ids hnodup hlive hop hsig slots len hle =>
      rcases hop with ⟨_, h, _⟩ | ⟨h, _⟩ | ⟨_, h, _⟩ <;> cases h
  | setCluster cfg => rfl
  | setMaxFlows n => rfl
  | setMaxRx n => rfl
  | drain => rfl
  | timeout now =>
    show (handleTimeout s now).maxFlows = s.maxFlows
    unfold handleTimeout
    have hnd : ((liveIds s).filter (isDue s now)).Nodup := List.Nodup.sublist List.filter_sublist (liveIds_nodup s)
    rw [timeoutLoop_eq now _ s hs hnd (fun id h => (mem_due hs now id).mp h)]
    obtain ⟨a, b, c, d, e, f⟩ := closeMany_spec ((liveIds s).filter (isDue s now)) s hs hc hnd
    exact ((sameKnobs_reschedule _).maxFlows).trans c.maxFlows
  | abort id => exact (sameKnobs_closeFlow hs id).maxFlows
  | closeAll =>
    show (closeAll s).maxFlows = s.maxFlows
    unfold closeAll
    exact (closeMany_spec (liveIds s) s hs hc (liveIds_nodup s)).2.2.1.maxFlows

/-- **Bounded.** Along any input sequence the number of live flows never
    exceeds the highest cap ever in force (construction + every `SetMaxFlows`);
    in particular without a `SetMaxFlows` it never exceeds the configured cap. -/
theorem c19_admission_bounded (c : Cfg) (mf mr : Nat) (ops : List Op) :
    (run (State.new c mf mr) ops).len ≤ capHigh mf ops := by
  have key : ∀ (ops : List Op) (s : State) (hw : Nat), Inv s → s.len ≤ hw → s.maxFlows ≤ hw →
      (run s ops).len ≤ capHigh hw ops := by
    intro ops
    induction ops with
    | nil => intro s hw _ h1 _; exact h1
    | cons op ops ih =>
      intro s hw hi h1 h2
      have hreach : ∀ s, Inv s → ∀ op, (step s op).1.len ≤ s.len ∨ ((step s op).1.len = s.len + 1 ∧ s.len < s.maxFlows) := by
        intro s hi op
        obtain ⟨_, kd⟩ := step_kind hi op
        rw [step_len s op hi.drained]
        cases kd with
        | quiet core sg => left; rw [core.len]; exact Nat.le_refl _
        | buffer src p now id' f hop hvalid hk hf hph hsig slots len table => left; rw [len]; exact Nat.le_refl _
        | forward src p now id' f b hop hvalid hk hf hph hb res => left; rw [res.len]; split <;> omega
        | reply id' p now f hop hlen hf hph res => left; rw [res.len]; split <;> omega
        | resolve id' bid addr now f q hop hf hph hq res => left; rw [res.len]; split <;> omega
        | admission src p now hop hvalid hnone hroom hnd hvac hsig slots table len => right; exact ⟨len, hroom⟩
        | closes ids hnodup hlive hop hsig slots len hle => left; rw [len]; omega
      have hlen : (step s op).1.len ≤ hw := by
        rcases hreach s hi op with h | ⟨h, h'⟩ <;> omega
      have hmf := step_maxFlows s op hi.str hi.caps hi.drained
      simp only [run, List.foldl_cons, capHigh]
      cases op with
      | setMaxFlows n =>
        simp only at hmf
        exact ih _ (max hw n) (inv_step hi _) (Nat.le_trans hlen (Nat.le_max_left _ _))
          (by rw [hmf]; exact Nat.le_max_right _ _)
      | _ =>
        simp only at hmf
        exact ih _ hw (inv_step hi _) hlen (by rw [hmf]; exact h2)
  exact key ops _ mf (inv_new c mf mr) (by simp [State.new]) (by simp [State.new])

/-! ### torn down exactly once -/

theorem closedIds_closeIf (c : Bool) (id : Nat) :
    closedIds (if c = true then [Out.closeFlow id] else []) = if c = true then [id] else [] := by
  cases c <;> rfl


/-- Within one input no flow id is closed twice, and every `CloseFlow f` hits
    a flow that was live before the input and leaves nothing behind: the slab
    slot is vacant and no table key maps to it. (Conversely a live flow only
    ever disappears together with its `CloseFlow`: `c19_sticky_backend_fixed`.)
    So between two `CloseFlow f` there is always a fresh admission of `f`:
    each incarnation is closed exactly once. -/
theorem c19_close_once {s : State} (h : Reachable s) (op : Op) :
    (closedIds (step s op).2).Nodup ∧
    ∀ id, Out.closeFlow id ∈ (step s op).2 →
      (getFlow s id).isSome ∧ getFlow (step s op).1 id = none ∧
      ∀ k, get? (step s op).1.table k ≠ some id := by
  have hi := reachable_inv h
  obtain ⟨hi', k⟩ := step_kind hi op
  have htab : ∀ id, getFlow (step s op).1 id = none → ∀ k, get? (step s op).1.table k ≠ some id := by
    intro id hnone k hk
    obtain ⟨g, hg, _⟩ := hi'.str.tableSound k id hk
    simp only [getFlow_def] at hnone; rw [hnone] at hg; cases hg
  suffices hmain : (closedIds (step s op).2).Nodup ∧ ∀ id, Out.closeFlow id ∈ (step s op).2 →
      (getFlow s id).isSome ∧ getFlow (step s op).1 id = none from
    ⟨hmain.1, fun id hid => ⟨(hmain.2 id hid).1, (hmain.2 id hid).2, htab id (hmain.2 id hid).2⟩⟩
  simp only [getFlow_def]
  rw [step_snd s op hi.drained, step_slots s op hi.drained, ← closedIds_sig]
  have hmem := fun o (ho : Out.noise o = false) => @mem_outs_iff_sig o (handle s op).outs ho
  cases k with
  | quiet core sg =>
    obtain ⟨l, hl, hd⟩ := sg
    rw [hl, hi.drained]
    have hnil : closedIds (sig [] ++ l) = [] := by
      apply List.filterMap_eq_nil_iff.mpr
      intro o ho; obtain ⟨r, hr⟩ := hd o (by simpa using ho); subst hr; rfl
    refine ⟨by rw [hnil]; exact List.nodup_nil, ?_⟩
    intro id hid
    rw [hmem _ rfl, hl, hi.drained] at hid
    obtain ⟨r, hr⟩ := hd _ (by simpa using hid); cases hr
  | buffer src p now id' f hop hvalid hk hf hph hsig slots len table =>
    rw [hsig, hi.drained]
    refine ⟨List.nodup_nil, ?_⟩
    intro id hid; rw [hmem _ rfl, hsig, hi.drained] at hid; simp at hid
  | forward src p now id' f b hop hvalid hk hf hph hb res =>
    refine ⟨?_, ?_⟩
    · rw [res.sig, hi.drained, closedIds_append, closedIds_append, closedIds_closeIf]
      simp only [closedIds, List.filterMap_cons, List.filterMap_nil, List.nil_append]
      split <;> simp
    · intro id hid
      rw [hmem _ rfl, fwdRes_mem res hi.drained] at hid
      rcases hid with hid | ⟨ht, hid⟩
      · simp at hid
      · cases hid; rw [res.slots]; simp [hf, ht]
  | reply id' p now f hop hlen hf hph res =>
    refine ⟨?_, ?_⟩
    · rw [res.sig, hi.drained, closedIds_append, closedIds_append, closedIds_closeIf]
      simp only [closedIds, List.filterMap_cons, List.filterMap_nil, List.nil_append]
      split <;> simp
    · intro id hid
      rw [hmem _ rfl, fwdRes_mem res hi.drained] at hid
      rcases hid with hid | ⟨ht, hid⟩
      · simp at hid
      · cases hid; rw [res.slots]; simp [hf, ht]
  | resolve id' bid addr now f q hop hf hph hq res =>
    refine ⟨?_, ?_⟩
    · rw [res.sig, hi.drained, closedIds_append, closedIds_append, closedIds_closeIf]
      simp only [closedIds, List.filterMap_cons, List.filterMap_nil, List.nil_append]
      split <;> simp
    · intro id hid
      rw [hmem _ rfl, fwdRes_mem res hi.drained] at hid
      rcases hid with hid | ⟨ht, hid⟩
      · simp at hid
      · cases hid; rw [res.slots]; simp [hf, ht]
  | admission src p now hop hvalid hnone hroom hnd hvac hsig slots table len =>
    rw [hsig, hi.drained]
    refine ⟨by simp [closedIds], ?_⟩
    intro id hid; rw [hmem _ rfl, hsig, hi.drained] at hid; simp at hid
  | closes ids hnodup hlive hop hsig slots len hle =>
    rw [hsig, hi.drained]
    refine ⟨by simpa [closedIds_map] using hnodup, ?_⟩
    intro id hid
    rw [hmem _ rfl, hsig, hi.drained] at hid
    have : id ∈ ids := by simpa using hid
    exact ⟨hlive id this, by rw [slots]; simp [this]⟩

/-- Mass teardown: `close_all` closes every live flow (each exactly once, in
    slab order) and leaves an empty slab, an empty table and `len = 0`. -/
theorem c19_close_all {s : State} (h : Reachable s) :
    closedIds (step s .closeAll).2 = liveIds s ∧
    (∀ id, getFlow (step s .closeAll).1 id = none) ∧
    (∀ k, get? (step s .closeAll).1.table k = none) ∧
    (step s .closeAll).1.len = 0 := by
  have hi := reachable_inv h
  have hi' := inv_step hi .closeAll
  obtain ⟨hsig, hslots⟩ := closeAll_spec hi.str hi.caps
  have hs1 : ∀ id, getFlow (step s .closeAll).1 id = none := by
    intro id; simp only [getFlow_def]; rw [step_slots s _ hi.drained]; exact hslots id
  refine ⟨?_, hs1, ?_, ?_⟩
  · rw [step_snd s _ hi.drained, ← closedIds_sig]
    show closedIds (sig (closeAll s).outs) = liveIds s
    rw [hsig, hi.drained]; simp [closedIds_map]
  · intro k
    cases hk : get? (step s .closeAll).1.table k with
    | none => rfl
    | some id =>
      obtain ⟨g, hg, _⟩ := hi'.str.tableSound k id hk
      have := hs1 id; simp only [getFlow_def] at this; rw [this] at hg; cases hg
  · rw [hi'.str.lenEq]
    have : liveIds (step s .closeAll).1 = [] := by
      apply List.filter_eq_nil_iff.mpr
      intro i _
      have := hs1 i
      simp only [getFlow_def] at this
      simp [this]
    rw [this]; rfl

/-! ### idle flows are reclaimed -/

/-- `handle_timeout now` closes exactly the live flows whose idle deadline has
    passed (`deadline ≤ now`) — none earlier — and afterwards no live flow is
    due: every remaining flow has `deadline > now`. -/
theorem c19_idle_reclaimed {s : State} (h : Reachable s) (now : Nat) :
    (∀ id f, getFlow (step s (.timeout now)).1 id = some f → now < f.deadline) ∧
    (∀ id, Out.closeFlow id ∈ (step s (.timeout now)).2 ↔
      ∃ f, getFlow s id = some f ∧ f.deadline ≤ now) := by
  have hi := reachable_inv h
  obtain ⟨hsig, hslots⟩ := timeout_spec hi.str hi.caps now
  refine ⟨?_, ?_⟩
  · intro id f hf
    simp only [getFlow_def] at hf
    rw [step_slots s _ hi.drained] at hf
    have hf2 : get? (handleTimeout s now).slots id = some f := hf
    rw [hslots] at hf2
    split at hf2
    · cases hf2
    · next hnot =>
      have : ¬ ∃ f, get? s.slots id = some f ∧ f.deadline ≤ now :=
        fun hx => hnot ((mem_due hi.str now id).mpr hx)
      cases hlt : decide (now < f.deadline) with
      | true => simpa using hlt
      | false =>
        exfalso; apply this
        exact ⟨f, hf2, by simp at hlt; exact hlt⟩
  · intro id
    rw [step_snd s _ hi.drained, mem_outs_iff_sig rfl]
    show Out.closeFlow id ∈ sig (handleTimeout s now).outs ↔ _
    rw [hsig, hi.drained]
    simp only [sig_nil, List.nil_append, List.mem_map, getFlow_def]
    constructor
    · rintro ⟨j, hj, hjid⟩
      cases hjid
      exact (mem_due hi.str now id).mp hj
    · intro hx
      exact ⟨id, (mem_due hi.str now id).mpr hx, rfl⟩

/-! ### trace level: admissions − closes = live flows, along every run -/

/-- number of `SelectBackend` (admissions) in a trace -/
def admissionsIn (tr : List (List Out)) : Nat := (tr.flatten.filter isSel).length
/-- number of `CloseFlow` in a trace -/
def closesIn (tr : List (List Out)) : Nat := (closedIds tr.flatten).length

theorem sel_closeIf (c : Bool) (id : Nat) :
    (if c = true then [Out.closeFlow id] else []).filter isSel = [] := by
  cases c <;> rfl

/-- one input: admissions + live before = closes + live after -/
theorem step_accounting {s : State} (hi : Inv s) (op : Op) :
    ((step s op).2.filter isSel).length + s.len =
      (closedIds (step s op).2).length + (step s op).1.len := by
  obtain ⟨_, k⟩ := step_kind hi op
  rw [step_snd s op hi.drained, step_len s op hi.drained, ← sel_sig, ← closedIds_sig]
  cases k with
  | quiet core sg =>
    obtain ⟨l, hl, hd⟩ := sg
    rw [hl, hi.drained, core.len]
    have h1 : (sig [] ++ l).filter isSel = [] := by
      apply List.filter_eq_nil_iff.mpr
      intro o ho; obtain ⟨r, hr⟩ := hd o (by simpa using ho); subst hr; simp [isSel]
    have h2 : closedIds (sig [] ++ l) = [] := by
      apply List.filterMap_eq_nil_iff.mpr
      intro o ho; obtain ⟨r, hr⟩ := hd o (by simpa using ho); subst hr; rfl
    rw [h1, h2]; simp
  | buffer src p now id' f hop hvalid hk hf hph hsig slots len table =>
    rw [hsig, hi.drained, len]; rfl
  | forward src p now id' f b hop hvalid hk hf hph hb res =>
    have hpos := len_pos_of_live hi.str hf
    rw [res.sig, hi.drained, res.len, closedIds_append, closedIds_append, closedIds_closeIf,
      List.filter_append, List.filter_append, sel_closeIf]
    cases (f.onClient now).takePP.2.teardownDue <;> simp [closedIds, isSel, List.filter_cons] <;> omega
  | reply id' p now f hop hlen hf hph res =>
    have hpos := len_pos_of_live hi.str hf
    rw [res.sig, hi.drained, res.len, closedIds_append, closedIds_append, closedIds_closeIf,
      List.filter_append, List.filter_append, sel_closeIf]
    cases (f.onBackend now).teardownDue <;> simp [closedIds, isSel, List.filter_cons] <;> omega
  | resolve id' bid addr now f q hop hf hph hq res =>
    have hpos := len_pos_of_live hi.str hf
    rw [res.sig, hi.drained, res.len, closedIds_append, closedIds_append, closedIds_closeIf,
      List.filter_append, List.filter_append, sel_closeIf]
    cases (resolvedFlow f bid addr now).teardownDue <;> simp [closedIds, isSel, List.filter_cons] <;> omega
  | admission src p now hop hvalid hnone hroom hnd hvac hsig slots table len =>
    rw [hsig, hi.drained, len]
    simp [closedIds, isSel, List.filter_cons]; omega
  | closes ids hnodup hlive hop hsig slots len hle =>
    rw [hsig, hi.drained, len]
    have h1 : (sig [] ++ ids.map Out.closeFlow).filter isSel = [] := by
      apply List.filter_eq_nil_iff.mpr
      intro o ho
      have : o ∈ ids.map Out.closeFlow := by simpa using ho
      obtain ⟨i, _, rfl⟩ := List.mem_map.mp this; simp [isSel]
    rw [h1, closedIds_append, closedIds_map]
    simp [closedIds]
    omega

/-- **Each admitted flow incarnation is closed exactly once (trace level).**
    Along any input sequence, from any reachable-style state: the number of
    admissions (`SelectBackend`) in the trace plus the live flows at the start
    equals the number of `CloseFlow`s plus the live flows at the end. -/
theorem c19_close_once_accounting_from (ops : List Op) : ∀ {s : State}, Inv s →
    admissionsIn (trace s ops) + s.len = closesIn (trace s ops) + (run s ops).len := by
  induction ops with
  | nil => intro s _; simp [admissionsIn, closesIn, trace, run, closedIds]
  | cons op ops ih =>
    intro s hi
    have h1 := step_accounting hi op
    have h2 := ih (inv_step hi op)
    have hrun : run s (op :: ops) = run (step s op).1 ops := rfl
    rw [hrun]
    simp only [admissionsIn, closesIn, trace, List.flatten_cons, List.filter_append, List.length_append,
      closedIds_append] at h2 ⊢
    omega

/-- From a fresh manager: admissions − closes = live flows, after every input
    sequence; in particular once everything is torn down (`len = 0`) every
    admission has been matched by exactly one `CloseFlow`. -/
theorem c19_close_once_accounting (c : Cfg) (mf mr : Nat) (ops : List Op) :
    admissionsIn (trace (State.new c mf mr) ops) =
      closesIn (trace (State.new c mf mr) ops) + (run (State.new c mf mr) ops).len := by
  have := c19_close_once_accounting_from ops (inv_new c mf mr)
  simpa [State.new] using this

end Sozu.Udp

