import Sozu.Udp.StepProofs
import Sozu.Udp.Runs
/-
C19 — UDP flows are sticky, isolated, bounded and torn down once.
Only property statements (`C19_*`) and their non-vacuity examples live here;
every proof is in `StepProofs.lean` (per-input and accounting theorems),
`Runs.lean` (whole runs, timer, I/O shell) and `Lemmas.lean`.
The per-input theorems quantify over every state reachable from
`UdpManager::new` by an arbitrary input sequence (`Reachable`) and over an
arbitrary next input; the run theorems over arbitrary input sequences.
`SendToBackend` / `SendToClient` carry the owning flow id as a ghost field of
the model (the driver does not print it).
-/
set_option linter.unusedSimpArgs false
set_option linter.unusedVariables false
namespace Sozu.Udp
open Sozu KMap

/-- The reachable-state invariant: table ↔ slab consistency (every table entry
    points at a live flow admitted under exactly that key, every live flow is
    in the table under its own key), no `Closing` flow persists,
    `Established ↔ backend set`, an awaiting flow holds its buffered datagram,
    the slab free list is sound, `len` is the number of live flows, no live
    flow has an exhausted cap, and `first_upstream_pending` means "PROXY
    header still owed". -/
theorem C19_invariant {s : State} (h : Reachable s) : Inv s :=
  c19_invariant h

/-- at most one live flow per flow key -/
theorem C19_one_flow_per_key {s : State} (h : Reachable s) (i j : Nat) (f g : Flow)
    (hf : getFlow s i = some f) (hg : getFlow s j = some g) (hk : ownKey f = ownKey g) : i = j :=
  c19_one_flow_per_key h i j f g hf hg hk

/-! ### sticky -/

/-- Every `SendToBackend` goes to the backend address fixed for its flow:
    either the flow was already established with exactly that address (and the
    datagram's source key is the key that flow is filed under), or this very
    input is the resolution that fixes the address (`OpenUpstream` to the same
    address precedes the datagram). -/
theorem C19_sticky {s : State} (h : Reachable s) (op : Op) (id : Nat) (dst : Addr) (pl : Bytes)
    (hout : Out.sendToBackend id dst pl ∈ (step s op).2) :
    (∃ f src p now, op = .client src p now ∧ getFlow s id = some f ∧ f.backend = some dst ∧
        get? s.table (flowKey src s.cluster.withPort) = some id) ∨
    (∃ f bid now, op = .resolved id bid dst now ∧ getFlow s id = some f ∧ f.backend = none ∧
        Out.openUpstream id dst ∈ (step s op).2) :=
  c19_sticky h op id dst pl hout

/-- A live flow incarnation keeps its client, its captured config and — once
    set — its backend address for as long as it lives; it disappears from the
    slab only together with a `CloseFlow` for it. -/
theorem C19_sticky_backend_fixed {s : State} (h : Reachable s) (op : Op) (id : Nat) (f : Flow)
    (hf : getFlow s id = some f) :
    (∃ f', getFlow (step s op).1 id = some f' ∧ f'.client = f.client ∧ f'.cfg = f.cfg ∧
        (∀ b, f.backend = some b → f'.backend = some b) ∧ Out.closeFlow id ∉ (step s op).2) ∨
    (getFlow (step s op).1 id = none ∧ Out.closeFlow id ∈ (step s op).2) :=
  c19_sticky_backend_fixed h op id f hf

/-- A client datagram is only ever forwarded on a flow that was admitted under
    the *same* affinity mode for the *same* affinity key (source ip, plus source
    port in 4-tuple mode) — for every source, port 0 included (full statement
    since the `FlowKey.ip_only` repair; before it this needed `port ≠ 0`). -/
theorem C19_sticky_affinity {s : State} (h : Reachable s) (src : Addr) (p : Bytes) (now id : Nat)
    (dst : Addr) (pl : Bytes) (f : Flow)
    (hout : Out.sendToBackend id dst pl ∈ (step s (.client src p now)).2)
    (hf : getFlow s id = some f) :
    f.cfg.withPort = s.cluster.withPort ∧
      affKey f.client f.cfg.withPort = affKey src s.cluster.withPort :=
  c19_sticky_affinity h src p now id dst pl f hout hf

def cex4 : Addr := { v6 := false, ip := [10, 0, 0, 1], port := 0 }
def cex4' : Addr := { v6 := false, ip := [10, 0, 0, 1], port := 9001 }
def cexB : Addr := { v6 := false, ip := [127, 0, 0, 1], port := 5300 }
def cexCfg (wp : Bool) : Cfg :=
  { cluster := "dns", withPort := wp, responses := 0, requests := 0, frontTo := 400, backTo := 400,
    sendPP := false, ppEvery := false }
/-- 4-tuple mode, source 10.0.0.1:0 is admitted and resolved; then the cluster
    switches to source-ip affinity (the witness of the former port-0 alias) -/
def cexState : State :=
  run (State.new (cexCfg true) 4 64)
    [.client cex4 [1] 0, .resolved 0 "b0" cexB 0, .setCluster (cexCfg false)]

/-- Regression for the former port-0 FlowKey alias: a datagram from
    10.0.0.1:9001 (affinity key "10.0.0.1" under the current mode) is no longer
    forwarded on the flow admitted in 4-tuple mode for 10.0.0.1:0 — it gets a
    flow of its own and the two are kept apart. -/
example :
    (step cexState (.client cex4' [2] 1)).2 =
      [.metric .flowCreated, .selectBackend 1 "dns" (affKey cex4' false)] ∧
    (getFlow cexState 0).map (fun f => (f.client, f.cfg.withPort)) = some (cex4, true) := by
  decide

example : Reachable cexState := ⟨cexCfg true, 4, 64, _, rfl⟩

/-! ### isolated -/

/-- Every `SendToClient` is caused by a backend datagram that arrived on an
    established flow, carries exactly that datagram's bytes, and is addressed
    to the client of that very flow (the source of the datagram that created
    the flow — `C19_sticky_backend_fixed` shows it never changes). -/
theorem C19_isolated {s : State} (h : Reachable s) (op : Op) (id : Nat) (dst : Addr) (pl : Bytes)
    (hout : Out.sendToClient id dst pl ∈ (step s op).2) :
    ∃ f now, op = .backend id pl now ∧ getFlow s id = some f ∧ f.phase = .established ∧
      dst = f.client :=
  c19_isolated h op id dst pl hout

/-! ### no duplication, merging, truncation, reordering -/

/-- One input causes at most one upstream datagram, and that datagram is
    byte-identical to a single accepted client datagram: either the datagram
    of this very input (established flow), or the one datagram buffered for the
    flow while it awaited its backend (flushed by the resolution, before any
    later datagram can be forwarded) — prefixed by exactly the PROXY v2 header
    of (flow client, flow backend) iff the flow's captured config asks for it:
    on every datagram, or only while nothing was forwarded yet (`req = 0`). -/
theorem C19_no_dup_merge_trunc_reorder {s : State} (h : Reachable s) (op : Op) :
    ((step s op).2.filter isToBackend).length ≤ 1 ∧
    ∀ id dst pl, Out.sendToBackend id dst pl ∈ (step s op).2 →
      ∃ f orig, getFlow s id = some f ∧
        ((∃ src now, op = .client src orig now ∧ f.phase = .established) ∨
         (∃ bid now, op = .resolved id bid dst now ∧ f.phase = .awaiting ∧ f.pending = some orig)) ∧
        pl = (if f.cfg.sendPP && (f.cfg.ppEvery || f.firstPending) then ppHeader f.client dst ++ orig
              else orig) ∧
        (f.cfg.ppEvery = false → f.firstPending = (f.cfg.sendPP && f.req == 0)) :=
  c19_no_dup_merge_trunc_reorder h op

/-- The one-slot buffer of an awaiting flow is newest-wins: while the flow
    keeps awaiting its backend, its buffered datagram is either unchanged or
    replaced by the payload of a valid client datagram of this input whose key
    is filed under this flow. -/
theorem C19_buffer_newest_wins {s : State} (h : Reachable s) (op : Op) (id : Nat) (f f' : Flow)
    (hf : getFlow s id = some f) (hph : f.phase = .awaiting)
    (hf' : getFlow (step s op).1 id = some f') (hph' : f'.phase = .awaiting) :
    f'.pending = f.pending ∨
    (∃ src p now, op = .client src p now ∧ ClientValid s p ∧
      get? s.table (flowKey src s.cluster.withPort) = some id ∧ f'.pending = some p) :=
  c19_buffer_newest_wins h op id f f' hf hph hf' hph'

/-! ### admission / bounded -/

/-- A flow is created (`SelectBackend`) only by a client datagram, only when
    `len < max_flows` and the listener is not draining, only for a key with no
    live flow and in a vacant slab slot; the new flow is parked with exactly
    that datagram buffered, and `len` grows by one. -/
theorem C19_admission {s : State} (h : Reachable s) (op : Op) (id : Nat) (cl : String) (k : AKey)
    (hout : Out.selectBackend id cl k ∈ (step s op).2) :
    ∃ src p now, op = .client src p now ∧ s.len < s.maxFlows ∧ s.draining = false ∧
      getFlow s id = none ∧ get? s.table (flowKey src s.cluster.withPort) = none ∧
      k = affKey src s.cluster.withPort ∧
      getFlow (step s op).1 id = some (newFlow src s.cluster p now) ∧
      (step s op).1.len = s.len + 1 :=
  c19_admission h op id cl k hout

/-- `len` (what admission compares with the cap) is the number of live flows -/
theorem C19_admission_len_is_live_count {s : State} (h : Reachable s) :
    s.len = (liveIds s).length ∧ ∀ id, id ∈ liveIds s ↔ (getFlow s id).isSome :=
  c19_admission_len_is_live_count h

/-- the live-flow count grows only through an admission, by exactly one -/
theorem C19_admission_only_growth {s : State} (h : Reachable s) (op : Op) :
    (step s op).1.len ≤ s.len ∨
    ((step s op).1.len = s.len + 1 ∧ s.len < s.maxFlows ∧ s.draining = false ∧
      ∃ id cl k, Out.selectBackend id cl k ∈ (step s op).2) :=
  c19_admission_only_growth h op

/-- Existing flows keep forwarding whatever the cap and the drain flag are
    (e.g. after `SetMaxFlows` below the live count, or `Drain`): a valid
    datagram whose key is filed under an established flow is forwarded to that
    flow's backend. -/
theorem C19_admission_existing_flows_continue {s : State} (h : Reachable s) (src : Addr) (p : Bytes)
    (now id : Nat) (f : Flow) (b : Addr) (hvalid : ClientValid s p)
    (hk : get? s.table (flowKey src s.cluster.withPort) = some id)
    (hf : getFlow s id = some f) (hb : f.backend = some b) :
    ∃ pl, Out.sendToBackend id b pl ∈ (step s (.client src p now)).2 :=
  c19_admission_existing_flows_continue h src p now id f b hvalid hk hf hb

/-- **Bounded.** Along any input sequence the number of live flows never
    exceeds the highest cap ever in force (construction + every `SetMaxFlows`);
    in particular without a `SetMaxFlows` it never exceeds the configured cap. -/
theorem C19_admission_bounded (c : Cfg) (mf mr : Nat) (ops : List Op) :
    (run (State.new c mf mr) ops).len ≤ capHigh mf ops :=
  c19_admission_bounded c mf mr ops

/-! ### torn down exactly once -/

/-- Within one input no flow id is closed twice, and every `CloseFlow f` hits
    a flow that was live before the input and leaves nothing behind: the slab
    slot is vacant and no table key maps to it. (Conversely a live flow only
    ever disappears together with its `CloseFlow`: `C19_sticky_backend_fixed`.)
    So between two `CloseFlow f` there is always a fresh admission of `f`:
    each incarnation is closed exactly once. -/
theorem C19_close_once {s : State} (h : Reachable s) (op : Op) :
    (closedIds (step s op).2).Nodup ∧
    ∀ id, Out.closeFlow id ∈ (step s op).2 →
      (getFlow s id).isSome ∧ getFlow (step s op).1 id = none ∧
      ∀ k, get? (step s op).1.table k ≠ some id :=
  c19_close_once h op

/-- Mass teardown: `close_all` closes every live flow (each exactly once, in
    slab order) and leaves an empty slab, an empty table and `len = 0`. -/
theorem C19_close_all {s : State} (h : Reachable s) :
    closedIds (step s .closeAll).2 = liveIds s ∧
    (∀ id, getFlow (step s .closeAll).1 id = none) ∧
    (∀ k, get? (step s .closeAll).1.table k = none) ∧
    (step s .closeAll).1.len = 0 :=
  c19_close_all h

/-! ### idle flows are reclaimed -/

/-- `handle_timeout now` closes exactly the live flows whose idle deadline has
    passed (`deadline ≤ now`) — none earlier — and afterwards no live flow is
    due: every remaining flow has `deadline > now`. -/
theorem C19_idle_reclaimed {s : State} (h : Reachable s) (now : Nat) :
    (∀ id f, getFlow (step s (.timeout now)).1 id = some f → now < f.deadline) ∧
    (∀ id, Out.closeFlow id ∈ (step s (.timeout now)).2 ↔
      ∃ f, getFlow s id = some f ∧ f.deadline ≤ now) :=
  c19_idle_reclaimed h now

/-! ### trace level: admissions − closes = live flows, along every run -/

/-- **Each admitted flow incarnation is closed exactly once (trace level).**
    Along any input sequence, from any reachable-style state: the number of
    admissions (`SelectBackend`) in the trace plus the live flows at the start
    equals the number of `CloseFlow`s plus the live flows at the end. -/
theorem C19_close_once_accounting_from (ops : List Op) : ∀ {s : State}, Inv s →
    admissionsIn (trace s ops) + s.len = closesIn (trace s ops) + (run s ops).len :=
  c19_close_once_accounting_from ops

/-- From a fresh manager: admissions − closes = live flows, after every input
    sequence; in particular once everything is torn down (`len = 0`) every
    admission has been matched by exactly one `CloseFlow`. -/
theorem C19_close_once_accounting (c : Cfg) (mf mr : Nat) (ops : List Op) :
    admissionsIn (trace (State.new c mf mr) ops) =
      closesIn (trace (State.new c mf mr) ops) + (run (State.new c mf mr) ops).len :=
  c19_close_once_accounting c mf mr ops

/-! ### non-vacuity: a concrete run exercising every branch the theorems talk about -/

def exC1 : Addr := { v6 := false, ip := [10, 0, 0, 1], port := 9000 }
def exC2 : Addr := { v6 := false, ip := [10, 0, 0, 2], port := 9000 }
def exCfg : Cfg :=
  { cluster := "dns", withPort := true, responses := 0, requests := 0, frontTo := 400, backTo := 400,
    sendPP := true, ppEvery := false }
/-- two clients admitted (cap 2), the first resolved (buffered datagram flushed
    with the PROXY header), then the cap lowered to 1 below the live count -/
def exState : State :=
  run (State.new exCfg 2 64)
    [.client exC1 [1] 0, .client exC1 [2] 1, .client exC2 [3] 2, .resolved 0 "b0" cexB 3, .setMaxFlows 1]

example : Reachable exState := ⟨exCfg, 2, 64, _, rfl⟩
/-- sticky / no-dup / existing flows continue although `len = 2 > max_flows = 1` -/
example : exState.len = 2 ∧ exState.maxFlows = 1 ∧
    (step exState (.client exC1 [4] 5)).2 =
      [.metric (.dgramIn 1), .sendToBackend 0 cexB [4]] := by decide
/-- newest-wins buffer + PROXY header exactly once, on the first forwarded datagram -/
example : (step (run (State.new exCfg 2 64) [.client exC1 [1] 0, .client exC1 [2] 1])
      (.resolved 0 "b0" cexB 3)).2 =
    [.openUpstream 0 cexB, .metric (.dgramIn 1),
     .sendToBackend 0 cexB (ppHeader exC1 cexB ++ [2]), .armTimer 403] := by decide
/-- isolation: the reply on flow 0 goes to flow 0's client -/
example : (step exState (.backend 0 [9] 6)).2 =
    [.metric (.dgramOut 1), .sendToClient 0 exC1 [9]] := by decide
/-- admission: a third source is shed at the lowered cap -/
example : (step exState (.client { exC2 with port := 9001 } [5] 6)).2 =
    [.metric .flowShed, .metric (.dropped .shed), .drop .shed] := by decide
/-- idle reclaim closes exactly the due flow; close_all closes the rest once -/
example : closedIds (step exState (.timeout 402)).2 = [1] ∧
    closedIds (step exState .closeAll).2 = [0, 1] := by decide

/-- The contract gap behind finding `idle-flow-not-torn-down` (I/O shell): the
    manager emits `ArmTimer` only when its earliest deadline *changes*. If the
    shell's timer fires before the armed deadline (sozu's wheel rounds to the
    nearest 100 ms tick, so up to 50 ms early), `handle_timeout` reaps nothing,
    the earliest deadline is unchanged and **no** `ArmTimer` comes out: a shell
    that re-arms only on `ArmTimer` now holds no timer and the flow is never
    reaped. (`C19_idle_reclaimed` is about calls at/after the deadline.) -/
theorem C19_timer_early_fire_counterexample :
    (run (State.new exCfg 2 64) [.client exC1 [1] 0]).armed = some 400 ∧
    (step (run (State.new exCfg 2 64) [.client exC1 [1] 0]) (.timeout 399)).2 = [] ∧
    (step (run (State.new exCfg 2 64) [.client exC1 [1] 0]) (.timeout 399)).1.armed = some 400 ∧
    (getFlow (step (run (State.new exCfg 2 64) [.client exC1 [1] 0]) (.timeout 399)).1 0).isSome = true := by
  decide

/-- trace-level accounting on a concrete run: two admissions, one idle close, one mass-teardown close -/
example : admissionsIn (trace (State.new exCfg 2 64)
      [.client exC1 [1] 0, .client exC2 [3] 2, .resolved 0 "b0" cexB 3, .timeout 402, .closeAll]) = 2 ∧
    closesIn (trace (State.new exCfg 2 64)
      [.client exC1 [1] 0, .client exC2 [3] 2, .resolved 0 "b0" cexB 3, .timeout 402, .closeAll]) = 2 := by
  decide

/-! ### whole runs: one flow incarnation from its admission to its close -/

/-- **Sticky along runs.** From any reachable state in which flow `id` is live,
    along any further input sequence: every `SendToBackend` of that incarnation
    (`flowSends`: up to and including the input that closes it) carries one and
    the same address — the flow's backend address if it is already set, else the
    address of the one resolution that establishes it. -/
theorem C19_sticky_run {s : State} (h : Reachable s) (id : Nat) (f : Flow) (hf : getFlow s id = some f)
    (ops : List Op) :
    ∃ b, (∀ b', f.backend = some b' → b' = b) ∧ ∀ x, x ∈ flowSends id s ops → x.1 = b :=
  sticky_run h id f hf ops

/-- **No duplication / merging / truncation / reordering, along runs.** The
    payloads sent upstream on one incarnation are exactly the wire image
    (`expectPayloads`: PROXY v2 header of (client, backend) on the first
    datagram iff `ppFirst`, on every later one iff `send ∧ every`) of a list
    `origs` that is a subsequence, in arrival order, of: the datagram parked in
    the flow, then the datagrams sent during the run from the flow's affinity
    key (same ip, and same port in 4-tuple mode). -/
theorem C19_flow_payload_sequence {s : State} (h : Reachable s) (id : Nat) (f : Flow)
    (hf : getFlow s id = some f) (ops : List Op) :
    ∃ b origs, (flowSends id s ops).map (fun x => x.2) = expectPayloads f b origs ∧
      List.Sublist origs (buffered f ++ keyPayloads f.client f.cfg.withPort ops) :=
  payload_run h id f hf ops

/-- The same from the very admission of an incarnation (`SelectBackend id` caused
    by the datagram `p` of `src`): all its upstream datagrams go to one address,
    and their payloads are the wire image of a subsequence of `p` followed by the
    later datagrams of that affinity key. -/
theorem C19_incarnation_history {s : State} (h : Reachable s) (src : Addr) (p : Bytes) (now id : Nat)
    (cl : String) (k : AKey) (hout : Out.selectBackend id cl k ∈ (step s (.client src p now)).2)
    (ops : List Op) :
    ∃ b origs, (∀ x, x ∈ flowSends id (step s (.client src p now)).1 ops → x.1 = b) ∧
      (flowSends id (step s (.client src p now)).1 ops).map (fun x => x.2) =
        expectPayloads (newFlow src s.cluster p now) b origs ∧
      List.Sublist origs (p :: keyPayloads src s.cluster.withPort ops) :=
  incarnation_history h src p now id cl k hout ops

/-- non-vacuity: flow 0 of `exState` over four more inputs — two datagrams of its
    client (one interleaved with another client's), then its idle close; a later
    datagram of the same client belongs to the next incarnation and is not counted -/
example : flowSends 0 exState
      [.client exC1 [4] 5, .client exC2 [7] 5, .client exC1 [5] 6, .timeout 500, .client exC1 [6] 501] =
    [(cexB, [4]), (cexB, [5])] := by decide
/-- the header goes on the first datagram of the incarnation only (`ppEvery = false`) -/
example : (flowSends 0 (State.new exCfg 2 64)
      [.client exC1 [1] 0, .client exC1 [2] 1, .resolved 0 "b0" cexB 3, .client exC1 [3] 4]).map (fun x => x.2) =
    [ppHeader exC1 cexB ++ [2], [3]] := by decide

/-! ### the idle timer -/

/-- In every reachable state what `poll_timeout()` returns (`armed`) is the
    earliest idle deadline: `none` iff no flow is live, else the least deadline
    of a live flow. -/
theorem C19_timer_armed_is_earliest {s : State} (h : Reachable s) :
    s.armed = minDeadline s ∧ (minDeadline s = none ↔ ∀ id, getFlow s id = none) ∧
    ∀ d, minDeadline s = some d →
      (∃ id f, getFlow s id = some f ∧ f.deadline = d) ∧ ∀ id f, getFlow s id = some f → d ≤ f.deadline :=
  timer_armed_is_earliest h

/-- **Timer re-armed (after the repair of `idle-flow-not-torn-down`).** After any
    call of the shell's `timeout` (`shellTimeout true`: `handle_timeout`, drain,
    then arm for `poll_timeout()`), at whatever instant the wheel fired: either
    no flow is pending, or the wheel holds a timer for the earliest idle
    deadline, which lies in the future. -/
theorem C19_timer_rearmed {s : State} (h : Reachable s) (now : Nat) :
    (∀ id, getFlow (shellTimeout true s now).1 id = none) ∨
    ∃ d, (shellTimeout true s now).2 = some d ∧ now < d ∧
      (∃ id f, getFlow (shellTimeout true s now).1 id = some f ∧ f.deadline = d) ∧
      ∀ id f, getFlow (shellTimeout true s now).1 id = some f → d ≤ f.deadline :=
  timer_rearmed h now

/-- the shell before the repair (`shellTimeout false`: re-arm only on `ArmTimer`):
    an early fire leaves a live flow and an empty wheel; the repaired shell holds 400 -/
theorem C19_timer_unrepaired_counterexample :
    (shellTimeout false (run (State.new exCfg 2 64) [.client exC1 [1] 0]) 399).2 = none ∧
    (getFlow (shellTimeout false (run (State.new exCfg 2 64) [.client exC1 [1] 0]) 399).1 0).isSome = true ∧
    (shellTimeout true (run (State.new exCfg 2 64) [.client exC1 [1] 0]) 399).2 = some 400 := by
  decide

/-! ### the I/O shell's choice of the upstream socket (model `Shell`) -/

/-- **Established flows.** If the shell's shadow table agrees with the manager's
    flow table (`ShadowOk`), then in the drain pass of a client datagram — with
    the per-datagram reset of `in_flight_flow` — every `SendToBackend` is written
    to the socket of the flow that owns it. -/
theorem C19_shell_routes_established {s : State} (h : Reachable s) {sh : Shell} (hok : ShadowOk sh s)
    (src : Addr) (p : Bytes) (now : Nat) :
    ∀ x, x ∈ (Shell.drain s.cluster.withPort (some src) { sh with inFlight := none }
        (step s (.client src p now)).2).2 → x.2 = some x.1 :=
  shell_established h hok src p now

/-- **New flows.** Whatever the shell's state: the datagram flushed by a
    resolution is written to the socket opened by the `OpenUpstream` that
    precedes it in the same manager call. -/
theorem C19_shell_routes_resolution {s : State} (h : Reachable s) (sh : Shell) (wp : Bool)
    (cur : Option Addr) (id : Nat) (bid : String) (addr : Addr) (now : Nat) :
    ∀ x, x ∈ (Shell.drain wp cur sh (step s (.resolved id bid addr now)).2).2 → x.2 = some x.1 :=
  shell_resolution h sh wp cur id bid addr now

def exSys : Sys := { s := State.new exCfg 4 64, sh := Shell.new cexB, cur := none }
/-- two clients, each admitted and resolved in its own drain pass, then one more
    datagram of the first client -/
def exPasses : List Op :=
  [.client exC1 [1] 0, .resolved 0 "b0" cexB 0, .client exC2 [2] 1, .resolved 1 "b0" cexB 1,
   .client exC1 [3] 2]

/-- non-vacuity, and the seeded defect: with the per-datagram reset every
    datagram uses its own flow's socket; without it (`reset = false`, the
    `in_flight_flow = None` hoisted out of the receive loop) the third datagram of
    flow 0 is written to the socket of flow 1, the flow opened last -/
theorem C19_shell_reset_needed :
    Sys.routes true exSys exPasses = [(0, some 0), (1, some 1), (0, some 0)] ∧
    Sys.routes false exSys exPasses = [(0, some 0), (1, some 1), (0, some 1)] := by
  decide

/-- `ShadowOk` is a real hypothesis: the shadow table is keyed by the bare
    normalised source address, without the `ip_only` flag the manager's key got
    with the repair of the port-0 alias. A source with port 0 admitted in
    4-tuple mode, a second source of the same ip admitted in source-ip mode,
    then 4-tuple mode again: the next datagram of the first source belongs to
    flow 0 (manager) but is written to the socket of flow 1 (shell). -/
theorem C19_shell_shadow_port0_alias_counterexample :
    Sys.routes true { s := State.new (cexCfg true) 4 64, sh := Shell.new cexB, cur := none }
      [.client cex4 [1] 0, .resolved 0 "b0" cexB 0, .setCluster (cexCfg false),
       .client cex4' [2] 1, .resolved 1 "b0" cexB 1, .setCluster (cexCfg true),
       .client cex4 [3] 2] = [(0, some 0), (1, some 1), (0, some 1)] := by
  decide

/-! ### listener life cycle and glue reached by the I/O-shell scenarios -/

/-- **Routing removed.** After `RemoveUdpFrontend` / `RemoveCluster` the manager's
    cluster is empty: every client datagram — also one of an established flow —
    is dropped (`Truncated` if oversized, else `NoBackend`) and neither the flow
    table, nor any flow, nor the live count changes (replies on established
    flows are still relayed: `C19_isolated` does not depend on the cluster). -/
theorem C19_routing_removed_drops_all {s : State} (h : Reachable s) (hc : s.cluster.cluster = "")
    (src : Addr) (p : Bytes) (now : Nat) :
    (∃ r, (step s (.client src p now)).2 = [.metric (.dropped r), .drop r] ∧ (r = .truncated ∨ r = .noBackend)) ∧
    (step s (.client src p now)).1.slots = s.slots ∧ (step s (.client src p now)).1.table = s.table ∧
    (step s (.client src p now)).1.len = s.len :=
  routing_removed h hc src p now

/-- `abort_flow` (the shell found no backend, or could not open the upstream
    socket) on a live flow: exactly that flow is closed, its slot is vacant, the
    live count drops by one. -/
theorem C19_abort_closes {s : State} (h : Reachable s) (id : Nat) (f : Flow) (hf : getFlow s id = some f) :
    Out.closeFlow id ∈ (step s (.abort id)).2 ∧ getFlow (step s (.abort id)).1 id = none ∧
    (step s (.abort id)).1.len + 1 = s.len :=
  abort_closes h id f hf

/-- **An aborted admission consumes no cap.** A flow admitted by a client
    datagram and aborted by the shell right away leaves the live count where it
    was, the slab slot vacant and no table key pointing at it. -/
theorem C19_aborted_admission_frees_slot {s : State} (h : Reachable s) (src : Addr) (p : Bytes)
    (now id : Nat) (cl : String) (k : AKey)
    (hout : Out.selectBackend id cl k ∈ (step s (.client src p now)).2) :
    Out.closeFlow id ∈ (step (step s (.client src p now)).1 (.abort id)).2 ∧
    (step (step s (.client src p now)).1 (.abort id)).1.len = s.len ∧
    getFlow (step (step s (.client src p now)).1 (.abort id)).1 id = none ∧
    ∀ key, get? (step (step s (.client src p now)).1 (.abort id)).1.table key ≠ some id :=
  aborted_admission h src p now id cl k hout

/-- the cap the shell hands to the manager (`effective_max_flows`): an explicit
    `max_flows` as it is; `0` = auto, never zero flows, never above
    `max_connections` when that is set, 70 % of the fd limit otherwise -/
theorem C19_cap_glue (configured rlimit headroom : Nat) :
    (configured ≠ 0 → effectiveMaxFlows configured rlimit headroom = configured) ∧
    1 ≤ effectiveMaxFlows 0 rlimit headroom ∧
    (headroom ≠ 0 → effectiveMaxFlows 0 rlimit headroom ≤ headroom) ∧
    (headroom = 0 → 0 < rlimit → effectiveMaxFlows 0 rlimit headroom = max (rlimit * 7 / 10) 1) :=
  cap_glue configured rlimit headroom

/-- the datagram size limit the shell hands to the manager and sizes its receive
    buffer with (`clamp_max_rx`): never above the configured value nor above
    `buffer_size`, and the configured value when it fits -/
theorem C19_rx_glue (configured bufferSize : Nat) :
    clampMaxRx configured bufferSize ≤ configured ∧
    (bufferSize ≠ 0 → clampMaxRx configured bufferSize ≤ bufferSize) ∧
    (configured ≤ bufferSize → clampMaxRx configured bufferSize = configured) :=
  rx_glue configured bufferSize

/-- non-vacuity: routing removed on `exState` (flow 0 established): its client's
    datagram is dropped, the reply on flow 0 is still relayed -/
example : (step (step exState (.setCluster { exCfg with cluster := "" })).1 (.client exC1 [4] 5)).2 =
      [.metric (.dropped .noBackend), .drop .noBackend] ∧
    (step (step exState (.setCluster { exCfg with cluster := "" })).1 (.backend 0 [9] 6)).2 =
      [.metric (.dgramOut 1), .sendToClient 0 exC1 [9]] := by
  decide
/-- an admission aborted at once: cap 1, the slot is free for the next client -/
example : (run (State.new exCfg 1 64) [.client exC1 [1] 0, .abort 0]).len = 0 ∧
    (step (run (State.new exCfg 1 64) [.client exC1 [1] 0, .abort 0]) (.client exC2 [2] 1)).2 =
      [.metric .flowCreated, .selectBackend 0 "dns" (affKey exC2 true), .armTimer 401] := by decide
example : effectiveMaxFlows 0 1024 6 = 6 ∧ effectiveMaxFlows 0 1024 0 = 716 ∧ effectiveMaxFlows 3 1024 6 = 3 ∧
    clampMaxRx 60000 16393 = 16393 ∧ clampMaxRx 1500 16393 = 1500 := by decide

/-! ### listener life cycle (model `Lst`: proxy map, listener socket, the server's slab entry) -/

/-- **A removed listener is silent.** Whatever happened before (`before`: any
    requests from a fresh worker) and whatever follows short of adding the
    listener again: after `RemoveListener` no datagram sent to the listener
    address is handed to the manager any more — for both variants of
    `DeactivateListener` (`k`). Full strength since commit 10f5475
    (`RemoveListener` takes and deregisters the socket; finding
    `forwarded-after-listener-removed`, fixed). -/
theorem C19_removed_listener_silent (k : Bool) (before after : List LOp) (hno : LOp.add ∉ after) :
    (Lst.run k Lst.none (before ++ [.remove] ++ after)).ingests = false :=
  lst_removed_silent k before after hno

/-- **Re-activation resumes service — only if the slab token survives the
    deactivation** (`keepToken = true`, the repair that is not applied because it
    breaks the deactivate + remove accounting): then a listener that is in the
    map ingests again after `DeactivateListener; ActivateListener`. -/
theorem C19_reactivation_resumes_partial (ops : List LOp)
    (hm : (Lst.run true Lst.none ops).inMap = true) :
    (Lst.run true (Lst.run true Lst.none ops) [.deactivate, .activate]).ingests = true :=
  lst_reactivation_partial ops hm

/-- The code as it is (`keepToken = false`, open finding
    `listener-deaf-after-reactivation`): the listener serves after add + activate,
    and is bound but deaf after deactivate + activate — the slab entry at its token
    is gone and `ActivateListener` installs the session only into an existing entry. -/
theorem C19_reactivation_deaf_counterexample :
    (Lst.run false Lst.none [.add, .activate]).ingests = true ∧
    (Lst.run false Lst.none [.add, .activate, .deactivate, .activate]).ingests = false ∧
    (Lst.run false Lst.none [.add, .activate, .deactivate, .activate]).socket = true := by
  decide

/-- non-vacuity of the removed-listener theorem: an active listener, removed, stays silent through a
    deactivate / activate attempt; before the repair (socket left registered) it kept ingesting -/
example : (Lst.run false Lst.none [.add, .activate]).ingests = true ∧
    (Lst.run false Lst.none ([.add, .activate] ++ [.remove] ++ [.activate, .deactivate])).ingests = false ∧
    ({ (Lst.run false Lst.none [.add, .activate]) with inMap := false } : Lst).ingests = true := by decide

end Sozu.Udp
