import Sozu.Udp.Model
/-
Helper lemmas for the Udp area (C19): frame / pointwise characterisations of
the manager's primitive transformations and the reachable-state invariant.
-/
set_option linter.unusedSimpArgs false
set_option linter.unusedVariables false
namespace Sozu.Udp
open Sozu KMap

/-! ### counting occupied slab entries -/

theorem filter_range_flip (p q : Nat → Bool) (n i : Nat) (hi : i < n)
    (hne : ∀ j, j ≠ i → p j = q j) (hp : p i = true) (hq : q i = false) :
    ((List.range n).filter p).length = ((List.range n).filter q).length + 1 := by
  induction n with
  | zero => omega
  | succ n ih =>
    rw [List.range_succ, List.filter_append, List.filter_append, List.length_append, List.length_append]
    by_cases h : i = n
    · subst h
      have hsame : (List.range i).filter p = (List.range i).filter q := by
        apply List.filter_congr
        intro j hj
        have : j < i := List.mem_range.mp hj
        exact hne j (by omega)
      simp [hsame, hp, hq]
    · have hlt : i < n := by omega
      have := ih hlt
      have hn : p n = q n := hne n (by omega)
      simp only [List.filter_cons, List.filter_nil, hn]
      omega

theorem filter_range_same (p q : Nat → Bool) (n : Nat) (h : ∀ j, j < n → p j = q j) :
    (List.range n).filter p = (List.range n).filter q := by
  apply List.filter_congr
  intro j hj
  exact h j (List.mem_range.mp hj)

/-! ### the part of the state the invariant talks about -/

@[simp] theorem getFlow_def (s : State) (id : Nat) : getFlow s id = KMap.get? s.slots id := rfl

/-- two states that differ only in `outs` / `armed` / knobs -/
structure SameCore (s s' : State) : Prop where
  table : s'.table = s.table
  slots : s'.slots = s.slots
  nslots : s'.nslots = s.nslots
  free : s'.free = s.free
  len : s'.len = s.len

theorem SameCore.refl (s : State) : SameCore s s := ⟨rfl, rfl, rfl, rfl, rfl⟩
theorem SameCore.trans {a b c : State} (h1 : SameCore a b) (h2 : SameCore b c) : SameCore a c :=
  ⟨h2.table.trans h1.table, h2.slots.trans h1.slots, h2.nslots.trans h1.nslots,
   h2.free.trans h1.free, h2.len.trans h1.len⟩

/-- knobs: everything `reschedule` / `push` leave alone besides the core -/
structure SameKnobs (s s' : State) : Prop where
  maxFlows : s'.maxFlows = s.maxFlows
  maxRx : s'.maxRx = s.maxRx
  cluster : s'.cluster = s.cluster
  draining : s'.draining = s.draining

theorem sameCore_push (s : State) (o : Out) : SameCore s (push s o) := ⟨rfl, rfl, rfl, rfl, rfl⟩
theorem sameKnobs_push (s : State) (o : Out) : SameKnobs s (push s o) := ⟨rfl, rfl, rfl, rfl⟩
@[simp] theorem push_outs (s : State) (o : Out) : (push s o).outs = s.outs ++ [o] := rfl

theorem sameCore_drop (s : State) (r : DropReason) : SameCore s (dropDatagram s r) := ⟨rfl, rfl, rfl, rfl, rfl⟩
theorem sameKnobs_drop (s : State) (r : DropReason) : SameKnobs s (dropDatagram s r) := ⟨rfl, rfl, rfl, rfl⟩
@[simp] theorem drop_outs (s : State) (r : DropReason) :
    (dropDatagram s r).outs = s.outs ++ [.metric (.dropped r), .drop r] := by
  simp [dropDatagram]

/-- the three shapes of `reschedule` -/
theorem reschedule_cases (s : State) :
    reschedule s = s ∨ (∃ d, reschedule s = push { s with armed := some d } (.armTimer d)) ∨
      reschedule s = { s with armed := none } := by
  by_cases h : minDeadline s ≠ s.armed
  · cases hm : minDeadline s with
    | none => right; right; simp [reschedule, hm] at h ⊢; simp [h]
    | some d => right; left; refine ⟨d, ?_⟩; simp [reschedule, hm] at h ⊢; simp [h]
  · left; simp [reschedule, h]

theorem sameCore_reschedule (s : State) : SameCore s (reschedule s) := by
  rcases reschedule_cases s with h | ⟨d, h⟩ | h <;> rw [h] <;> exact ⟨rfl, rfl, rfl, rfl, rfl⟩

theorem sameKnobs_reschedule (s : State) : SameKnobs s (reschedule s) := by
  rcases reschedule_cases s with h | ⟨d, h⟩ | h <;> rw [h] <;> exact ⟨rfl, rfl, rfl, rfl⟩

/-- `reschedule` only ever appends `ArmTimer`s -/
theorem reschedule_outs (s : State) :
    (reschedule s).outs = s.outs ∨ ∃ d, (reschedule s).outs = s.outs ++ [.armTimer d] := by
  rcases reschedule_cases s with h | ⟨d, h⟩ | h <;> rw [h]
  · exact Or.inl rfl
  · exact Or.inr ⟨d, rfl⟩
  · exact Or.inl rfl

/-! ### the reachable-state invariant -/

/-- the table key a flow was admitted under -/
def ownKey (f : Flow) : FKey := flowKey f.client f.cfg.withPort

structure PhaseOk (f : Flow) : Prop where
  notClosing : f.phase ≠ .closing
  estab : f.phase = .established ↔ f.backend.isSome
  await : f.phase = .awaiting → f.pending.isSome

/-- structural invariant (check_invariants (1)-(5) plus the slab free list) -/
structure Str (s : State) : Prop where
  tableSound : ∀ k id, get? s.table k = some id → ∃ f, get? s.slots id = some f ∧ k = ownKey f
  tableComplete : ∀ id f, get? s.slots id = some f → get? s.table (ownKey f) = some id
  phaseOk : ∀ id f, get? s.slots id = some f → PhaseOk f
  slabBound : ∀ id f, get? s.slots id = some f → id < s.nslots
  freeVacant : ∀ k, k ∈ s.free → k < s.nslots ∧ get? s.slots k = none
  freeNodup : s.free.Nodup
  lenEq : s.len = (liveIds s).length

/-- per-flow semantic invariant: check_invariants (7) (no live flow has an
    exhausted cap) and the meaning of `first_upstream_pending` -/
structure FlowSem (f : Flow) : Prop where
  caps : f.teardownDue = false
  pp : f.cfg.ppEvery = false → f.firstPending = (f.cfg.sendPP && f.req == 0)

def Caps (s : State) : Prop := ∀ id f, get? s.slots id = some f → FlowSem f

theorem liveIds_congr {s s' : State} (hn : s'.nslots = s.nslots) (hs : s'.slots = s.slots) :
    liveIds s' = liveIds s := by
  simp [liveIds, hn, hs]

theorem str_sameCore {s s' : State} (h : SameCore s s') (hs : Str s) : Str s' := by
  obtain ⟨ht, hsl, hn, hf, hl⟩ := h
  refine ⟨?_, ?_, ?_, ?_, ?_, ?_, ?_⟩
  · rw [ht, hsl]; exact hs.tableSound
  · rw [ht, hsl]; exact hs.tableComplete
  · rw [hsl]; exact hs.phaseOk
  · rw [hsl, hn]; exact hs.slabBound
  · rw [hsl, hn, hf]; exact hs.freeVacant
  · rw [hf]; exact hs.freeNodup
  · rw [hl, liveIds_congr hn hsl]; exact hs.lenEq

theorem caps_sameCore {s s' : State} (h : SameCore s s') (hs : Caps s) : Caps s' := by
  intro id f hf; rw [h.slots] at hf; exact hs id f hf

/-- overwriting a live flow by one with the same table key -/
theorem str_setFlow {s : State} (hs : Str s) {id : Nat} {f f' : Flow}
    (hf : get? s.slots id = some f) (hk : ownKey f' = ownKey f) (hp : PhaseOk f') :
    Str (setFlow s id f') := by
  refine ⟨?_, ?_, ?_, ?_, ?_, hs.freeNodup, ?_⟩
  · intro k j hkj
    simp only [setFlow] at hkj ⊢
    obtain ⟨g, hg, hkg⟩ := hs.tableSound k j hkj
    by_cases e : j = id
    · subst e; rw [hf] at hg; cases hg
      exact ⟨f', by simp, by rw [hk]; exact hkg⟩
    · exact ⟨g, by rw [get?_set_ne _ _ e]; exact hg, hkg⟩
  · intro j g hg
    simp only [setFlow] at hg ⊢
    by_cases e : j = id
    · subst e; simp at hg; subst hg; rw [hk]; exact hs.tableComplete j f hf
    · rw [get?_set_ne _ _ e] at hg; exact hs.tableComplete j g hg
  · intro j g hg
    simp only [setFlow] at hg
    by_cases e : j = id
    · subst e; simp at hg; subst hg; exact hp
    · rw [get?_set_ne _ _ e] at hg; exact hs.phaseOk j g hg
  · intro j g hg
    simp only [setFlow] at hg ⊢
    by_cases e : j = id
    · subst e; exact hs.slabBound j f hf
    · rw [get?_set_ne _ _ e] at hg; exact hs.slabBound j g hg
  · intro k hk'
    simp only [setFlow] at hk' ⊢
    have := hs.freeVacant k hk'
    by_cases e : k = id
    · subst e; rw [hf] at this; exact absurd this.2 (by simp)
    · rw [get?_set_ne _ _ e]; exact this
  · have : liveIds (setFlow s id f') = liveIds s := by
      simp only [liveIds, setFlow]
      apply filter_range_same
      intro j _
      by_cases e : j = id
      · subst e; simp [hf]
      · simp [get?_set_ne _ _ e]
    rw [this]; exact hs.lenEq

theorem setFlow_get (s : State) (id j : Nat) (f : Flow) :
    get? (setFlow s id f).slots j = if j = id then some f else get? s.slots j := by
  simp [setFlow, get?_set]

/-- `close_flow`'s conditional removal always removes exactly the flow's own key -/
theorem closeTable_eq {s : State} (hs : Str s) {id : Nat} {f : Flow} (hf : get? s.slots id = some f) :
    closeTable s id f = erase s.table (ownKey f) := by
  unfold closeTable
  dsimp only
  have hown := hs.tableComplete id f hf
  simp only [ownKey] at hown
  split
  · next h =>
    obtain ⟨g, hg, hk⟩ := hs.tableSound _ _ h
    rw [hf] at hg; cases hg
    rw [hk]
  · simp [hown, ownKey]

/-- the state `close_flow` reaches for a live flow, before the outputs are appended -/
def closedCore (s : State) (id : Nat) (f : Flow) : State :=
  { s with table := erase s.table (ownKey f), slots := erase s.slots id, free := id :: s.free, len := s.len - 1 }

theorem closeFlow_live {s : State} (hs : Str s) {id : Nat} {f : Flow} (hf : get? s.slots id = some f) :
    closeFlow s id =
      reschedule (push (push (closedCore s id f) (.metric .flowEvicted)) (.closeFlow id)) := by
  have hp := (hs.phaseOk id f hf).notClosing
  unfold closeFlow
  simp only [getFlow_def, hf, hp, if_false]
  rw [closeTable_eq hs hf]
  rfl

theorem closeFlow_dead {s : State} {id : Nat} (hf : get? s.slots id = none) : closeFlow s id = s := by
  unfold closeFlow; simp [hf]

theorem str_closedCore {s : State} (hs : Str s) {id : Nat} {f : Flow} (hf : get? s.slots id = some f) :
    Str (closedCore s id f) := by
  have hlt := hs.slabBound id f hf
  refine ⟨?_, ?_, ?_, ?_, ?_, ?_, ?_⟩
  · intro k j hkj
    simp only [closedCore] at hkj ⊢
    rw [get?_erase] at hkj
    split at hkj
    · cases hkj
    · next hne =>
      obtain ⟨g, hg, hkg⟩ := hs.tableSound k j hkj
      have : j ≠ id := by
        intro e; subst e; rw [hf] at hg; cases hg; exact hne hkg
      exact ⟨g, by rw [get?_erase_ne _ this]; exact hg, hkg⟩
  · intro j g hg
    simp only [closedCore] at hg ⊢
    rw [get?_erase] at hg
    split at hg
    · cases hg
    · next hne =>
      have h1 := hs.tableComplete j g hg
      have : ownKey g ≠ ownKey f := by
        intro e; rw [e, hs.tableComplete id f hf] at h1; cases h1; exact hne rfl
      rw [get?_erase_ne _ this]; exact h1
  · intro j g hg
    simp only [closedCore] at hg
    rw [get?_erase] at hg
    split at hg
    · cases hg
    · exact hs.phaseOk j g hg
  · intro j g hg
    simp only [closedCore] at hg ⊢
    rw [get?_erase] at hg
    split at hg
    · cases hg
    · exact hs.slabBound j g hg
  · intro k hk
    simp only [closedCore] at hk ⊢
    rw [get?_erase]
    rcases List.mem_cons.mp hk with e | hk'
    · subst e; simp [hlt]
    · have := hs.freeVacant k hk'
      split
      · exact ⟨this.1, rfl⟩
      · exact this
  · simp only [closedCore]
    refine List.nodup_cons.mpr ⟨?_, hs.freeNodup⟩
    intro hmem
    have := (hs.freeVacant id hmem).2
    rw [hf] at this; cases this
  · have hcount := filter_range_flip (fun i => (get? s.slots i).isSome)
      (fun i => (get? (erase s.slots id) i).isSome) s.nslots id hlt
      (by intro j hj; simp [get?_erase_ne _ hj]) (by simp [hf]) (by simp)
    have h0 := hs.lenEq
    simp only [liveIds, getFlow_def] at h0 hcount ⊢
    simp only [closedCore]
    omega

theorem closedCore_get (s : State) (id j : Nat) (f : Flow) :
    get? (closedCore s id f).slots j = if j = id then none else get? s.slots j := by
  simp [closedCore, get?_erase]

theorem str_closeFlow {s : State} (hs : Str s) (id : Nat) : Str (closeFlow s id) := by
  cases hf : get? s.slots id with
  | none => rw [closeFlow_dead hf]; exact hs
  | some f =>
    rw [closeFlow_live hs hf]
    exact str_sameCore (sameCore_reschedule _) (str_sameCore (sameCore_push _ _)
      (str_sameCore (sameCore_push _ _) (str_closedCore hs hf)))

/-- `close_flow` removes exactly the named slot -/
theorem closeFlow_get {s : State} (hs : Str s) (id j : Nat) :
    get? (closeFlow s id).slots j = if j = id then none else get? s.slots j := by
  cases hf : get? s.slots id with
  | none =>
    rw [closeFlow_dead hf]
    split
    · next e => subst e; exact hf
    · rfl
  | some f =>
    rw [closeFlow_live hs hf, (sameCore_reschedule _).slots]
    simp only [push]
    exact closedCore_get s id j f

theorem sameKnobs_closeFlow {s : State} (hs : Str s) (id : Nat) : SameKnobs s (closeFlow s id) := by
  cases hf : get? s.slots id with
  | none => rw [closeFlow_dead hf]; exact ⟨rfl, rfl, rfl, rfl⟩
  | some f =>
    rw [closeFlow_live hs hf]
    have := sameKnobs_reschedule (push (push (closedCore s id f) (.metric .flowEvicted)) (.closeFlow id))
    exact ⟨this.maxFlows, this.maxRx, this.cluster, this.draining⟩

theorem caps_closeFlow {s : State} (hs : Str s) (id : Nat)
    (hc : ∀ j f, j ≠ id → get? s.slots j = some f → FlowSem f) : Caps (closeFlow s id) := by
  intro j f hf
  rw [closeFlow_get hs] at hf
  split at hf
  · cases hf
  · next hne => exact hc j f hne hf

/-! ### outputs without the noise (`ArmTimer`, `Metric`) -/

def Out.noise : Out → Bool
  | .armTimer _ => true
  | .metric _ => true
  | _ => false

def sig (l : List Out) : List Out := l.filter fun o => !o.noise

@[simp] theorem sig_nil : sig [] = [] := rfl
@[simp] theorem sig_append (a b : List Out) : sig (a ++ b) = sig a ++ sig b := by simp [sig]
theorem mem_sig {o : Out} {l : List Out} : o ∈ sig l ↔ o ∈ l ∧ o.noise = false := by
  simp [sig]

theorem sig_push (s : State) (o : Out) :
    sig (push s o).outs = sig s.outs ++ (if o.noise then [] else [o]) := by
  simp only [push_outs, sig_append]
  cases h : o.noise <;> simp [sig, h]

theorem sig_reschedule (s : State) : sig (reschedule s).outs = sig s.outs := by
  rcases reschedule_outs s with h | ⟨d, h⟩ <;> rw [h]
  simp [sig, Out.noise]

theorem sig_drop (s : State) (r : DropReason) : sig (dropDatagram s r).outs = sig s.outs ++ [.drop r] := by
  simp [sig, Out.noise]

theorem sig_closeFlow {s : State} (hs : Str s) (id : Nat) :
    sig (closeFlow s id).outs = sig s.outs ++ (if (get? s.slots id).isSome then [.closeFlow id] else []) := by
  cases hf : get? s.slots id with
  | none => rw [closeFlow_dead hf]; simp
  | some f =>
    rw [closeFlow_live hs hf, sig_reschedule, sig_push, sig_push]
    simp [closedCore, Out.noise]

/-- the common tail of every forward site -/
theorem finishForward_spec {s : State} (hs : Str s) {id : Nat} {f : Flow}
    (hf : get? s.slots id = some f)
    (hc : ∀ j g, j ≠ id → get? s.slots j = some g → FlowSem g)
    (hpp : f.cfg.ppEvery = false → f.firstPending = (f.cfg.sendPP && f.req == 0)) :
    Str (finishForward s id f) ∧ Caps (finishForward s id f) ∧ SameKnobs s (finishForward s id f) ∧
    sig (finishForward s id f).outs = sig s.outs ++ (if f.teardownDue then [.closeFlow id] else []) ∧
    (∀ j, get? (finishForward s id f).slots j =
      if j = id ∧ f.teardownDue = true then none else get? s.slots j) ∧
    (finishForward s id f).len = (if f.teardownDue then s.len - 1 else s.len) := by
  unfold finishForward
  cases ht : f.teardownDue with
  | true =>
    simp only [if_true]
    refine ⟨str_closeFlow hs id, caps_closeFlow hs id hc, sameKnobs_closeFlow hs id, ?_, ?_, ?_⟩
    · rw [sig_closeFlow hs, hf]; simp
    · intro j; rw [closeFlow_get hs]; simp
    · rw [closeFlow_live hs hf, (sameCore_reschedule _).len]; rfl
  | false =>
    simp only [Bool.false_eq_true, if_false]
    refine ⟨str_sameCore (sameCore_reschedule _) hs, ?_, sameKnobs_reschedule s, ?_, ?_, ?_⟩
    · apply caps_sameCore (sameCore_reschedule _)
      intro j g hg
      by_cases e : j = id
      · subst e; rw [hf] at hg; cases hg; exact ⟨ht, hpp⟩
      · exact hc j g e hg
    · rw [sig_reschedule]; simp
    · intro j; rw [(sameCore_reschedule _).slots]; simp
    · exact (sameCore_reschedule _).len

/-! ### mass teardown loops -/

def liveIn (s : State) (id : Nat) : Bool := (get? s.slots id).isSome

theorem closeMany_spec (ids : List Nat) : ∀ (s : State), Str s → Caps s → ids.Nodup →
    Str (ids.foldl closeFlow s) ∧ Caps (ids.foldl closeFlow s) ∧ SameKnobs s (ids.foldl closeFlow s) ∧
    sig (ids.foldl closeFlow s).outs = sig s.outs ++ ((ids.filter (liveIn s)).map Out.closeFlow) ∧
    (∀ j, get? (ids.foldl closeFlow s).slots j = if j ∈ ids then none else get? s.slots j) ∧
    (ids.foldl closeFlow s).len = s.len - (ids.filter (liveIn s)).length := by
  induction ids with
  | nil => intro s hs hc _; exact ⟨hs, hc, ⟨rfl, rfl, rfl, rfl⟩, by simp, by simp, by simp⟩
  | cons id rest ih =>
    intro s hs hc hnd
    have hnd' := List.nodup_cons.mp hnd
    simp only [List.foldl_cons]
    have hs1 := str_closeFlow hs id
    have hc1 := caps_closeFlow hs id (fun j g _ hg => hc j g hg)
    obtain ⟨a, b, c, d, e, f⟩ := ih (closeFlow s id) hs1 hc1 hnd'.2
    have hk1 := sameKnobs_closeFlow hs id
    have hlive : ∀ j, j ∈ rest → liveIn (closeFlow s id) j = liveIn s j := by
      intro j hj
      have : j ≠ id := fun e => hnd'.1 (e ▸ hj)
      simp [liveIn, closeFlow_get hs, this]
    have hfilt : rest.filter (liveIn (closeFlow s id)) = rest.filter (liveIn s) :=
      List.filter_congr (fun j hj => hlive j hj)
    refine ⟨a, b, ⟨c.maxFlows.trans hk1.maxFlows, c.maxRx.trans hk1.maxRx, c.cluster.trans hk1.cluster,
      c.draining.trans hk1.draining⟩, ?_, ?_, ?_⟩
    · rw [d, sig_closeFlow hs, hfilt]
      cases hl : get? s.slots id <;> simp [List.filter_cons, liveIn, hl]
    · intro j
      rw [e, closeFlow_get hs]
      by_cases h1 : j = id <;> by_cases h2 : j ∈ rest <;> simp [h1, h2]
    · rw [f, hfilt]
      cases hl : get? s.slots id with
      | none => rw [closeFlow_dead hl]; simp [List.filter_cons, liveIn, hl]
      | some g =>
        rw [closeFlow_live hs hl, (sameCore_reschedule _).len]
        simp [List.filter_cons, liveIn, hl, push, closedCore]
        omega

/-- every live flow is counted in `len` -/
theorem len_pos_of_live {s : State} (hs : Str s) {id : Nat} {f : Flow} (hf : get? s.slots id = some f) :
    1 ≤ s.len := by
  rw [hs.lenEq]
  have hmem : id ∈ liveIds s := by
    simp only [liveIds, List.mem_filter, List.mem_range, getFlow_def]
    exact ⟨hs.slabBound id f hf, by simp [hf]⟩
  exact List.length_pos_of_mem hmem

/-- a close loop lowers `len` by exactly the number of flows it closes -/
theorem closeMany_len_add (ids : List Nat) : ∀ (s : State), Str s → ids.Nodup →
    (ids.foldl closeFlow s).len + (ids.filter (liveIn s)).length = s.len := by
  induction ids with
  | nil => intro s _ _; simp
  | cons id rest ih =>
    intro s hs hnd
    have hnd' := List.nodup_cons.mp hnd
    simp only [List.foldl_cons]
    have hlive : ∀ j, j ∈ rest → liveIn (closeFlow s id) j = liveIn s j := by
      intro j hj
      have : j ≠ id := fun e => hnd'.1 (e ▸ hj)
      simp [liveIn, closeFlow_get hs, this]
    have hfilt : rest.filter (liveIn (closeFlow s id)) = rest.filter (liveIn s) :=
      List.filter_congr (fun j hj => hlive j hj)
    have := ih (closeFlow s id) (str_closeFlow hs id) hnd'.2
    rw [hfilt] at this
    cases hl : get? s.slots id with
    | none =>
      have hd := closeFlow_dead hl
      rw [hd] at this ⊢
      simp [List.filter_cons, liveIn, hl]; exact this
    | some g =>
      have hpos := len_pos_of_live hs hl
      have hlen : (closeFlow s id).len = s.len - 1 := by
        rw [closeFlow_live hs hl, (sameCore_reschedule _).len]; rfl
      simp [List.filter_cons, liveIn, hl]
      omega

theorem liveIds_nodup (s : State) : (liveIds s).Nodup :=
  List.Nodup.sublist List.filter_sublist List.nodup_range

theorem mem_liveIds {s : State} (hs : Str s) (id : Nat) : id ∈ liveIds s ↔ (get? s.slots id).isSome := by
  simp only [liveIds, List.mem_filter, List.mem_range, getFlow_def]
  constructor
  · exact fun h => h.2
  · intro h
    obtain ⟨f, hf⟩ := Option.isSome_iff_exists.mp h
    exact ⟨hs.slabBound id f hf, h⟩

/-- inside `handle_timeout` every re-check succeeds: the loop is a plain close loop -/
theorem timeoutLoop_eq (now : Nat) (ids : List Nat) : ∀ (s : State), Str s → ids.Nodup →
    (∀ id, id ∈ ids → ∃ f, get? s.slots id = some f ∧ f.deadline ≤ now) →
    ids.foldl (timeoutOne now) s = ids.foldl closeFlow s := by
  induction ids with
  | nil => intros; rfl
  | cons id rest ih =>
    intro s hs hnd hdue
    have hnd' := List.nodup_cons.mp hnd
    obtain ⟨f, hf, hd⟩ := hdue id (List.mem_cons_self)
    have hone : timeoutOne now s id = closeFlow s id := by
      have := (hs.phaseOk id f hf).notClosing
      simp [timeoutOne, hf, hd, this]
    simp only [List.foldl_cons, hone]
    apply ih _ (str_closeFlow hs id) hnd'.2
    intro j hj
    have hne : j ≠ id := fun e => hnd'.1 (e ▸ hj)
    obtain ⟨g, hg, hgd⟩ := hdue j (List.mem_cons_of_mem _ hj)
    exact ⟨g, by rw [closeFlow_get hs]; simp [hne, hg], hgd⟩

/-! ### admission -/

/-- the slab key `Slab::insert` will hand out -/
def nextId (s : State) : Nat :=
  match s.free with
  | k :: _ => k
  | [] => s.nslots

theorem slabInsert_id (s : State) (f : Flow) : (slabInsert s f).2 = nextId s := by
  cases h : s.free <;> simp [slabInsert, nextId, h]

theorem nextId_vacant {s : State} (hs : Str s) : get? s.slots (nextId s) = none := by
  cases h : s.free with
  | cons k rest =>
    simp only [nextId, h]
    exact (hs.freeVacant k (by rw [h]; exact List.mem_cons_self)).2
  | nil =>
    simp only [nextId, h]
    cases h' : get? s.slots s.nslots with
    | none => rfl
    | some f => exact absurd (hs.slabBound _ f h') (by omega)

/-- the state right after `flows.insert(flow)` + `table.insert(key, id)` -/
def admitted (s : State) (key : FKey) (f : Flow) : State :=
  { (slabInsert s f).1 with table := KMap.set (slabInsert s f).1.table key (slabInsert s f).2 }

theorem admitted_slots (s : State) (key : FKey) (f : Flow) (j : Nat) :
    get? (admitted s key f).slots j = if j = nextId s then some f else get? s.slots j := by
  cases h : s.free <;> simp [admitted, slabInsert, nextId, h, get?_set]

theorem admitted_table (s : State) (key : FKey) (f : Flow) (k : FKey) :
    get? (admitted s key f).table k = if k = key then some (nextId s) else get? s.table k := by
  cases h : s.free <;> simp [admitted, slabInsert, nextId, h, get?_set]

theorem admitted_len (s : State) (key : FKey) (f : Flow) : (admitted s key f).len = s.len + 1 := by
  cases h : s.free <;> simp [admitted, slabInsert, h]

theorem admitted_knobs (s : State) (key : FKey) (f : Flow) : SameKnobs s (admitted s key f) := by
  cases h : s.free <;> exact ⟨by simp [admitted, slabInsert, h], by simp [admitted, slabInsert, h],
    by simp [admitted, slabInsert, h], by simp [admitted, slabInsert, h]⟩

theorem admitted_outs (s : State) (key : FKey) (f : Flow) : (admitted s key f).outs = s.outs := by
  cases h : s.free <;> simp [admitted, slabInsert, h]

theorem admitted_nil (s : State) (key : FKey) (f : Flow) (h : s.free = []) :
    (admitted s key f).free = [] ∧ (admitted s key f).nslots = s.nslots + 1 ∧ nextId s = s.nslots := by
  simp [admitted, slabInsert, nextId, h]

theorem admitted_cons (s : State) (key : FKey) (f : Flow) {a : Nat} {rest : List Nat} (h : s.free = a :: rest) :
    (admitted s key f).free = rest ∧ (admitted s key f).nslots = s.nslots ∧ nextId s = a := by
  simp [admitted, slabInsert, nextId, h]

theorem str_admitted {s : State} (hs : Str s) {key : FKey} {f : Flow}
    (hnone : get? s.table key = none) (hkey : ownKey f = key) (hp : PhaseOk f) :
    Str (admitted s key f) := by
  have hvac := nextId_vacant hs
  refine ⟨?_, ?_, ?_, ?_, ?_, ?_, ?_⟩
  · intro k j hkj
    rw [admitted_table] at hkj
    split at hkj
    · next e => cases hkj; exact ⟨f, by rw [admitted_slots]; simp, by rw [hkey, e]⟩
    · obtain ⟨g, hg, hkg⟩ := hs.tableSound k j hkj
      have : j ≠ nextId s := by intro e; rw [e, hvac] at hg; cases hg
      exact ⟨g, by rw [admitted_slots]; simp [this, hg], hkg⟩
  · intro j g hg
    rw [admitted_slots] at hg
    rw [admitted_table]
    split at hg
    · next e => cases hg; simp [hkey, e]
    · have h1 := hs.tableComplete j g hg
      have : ownKey g ≠ key := by intro e; rw [e, hnone] at h1; cases h1
      simp [this, h1]
  · intro j g hg
    rw [admitted_slots] at hg
    split at hg
    · cases hg; exact hp
    · exact hs.phaseOk j g hg
  · intro j g hg
    rw [admitted_slots] at hg
    cases hfr : s.free with
    | nil =>
      obtain ⟨_, hn, hid⟩ := admitted_nil s key f hfr
      rw [hn]
      split at hg
      · next e => rw [e, hid]; omega
      · have := hs.slabBound j g hg; omega
    | cons a rest =>
      obtain ⟨_, hn, hid⟩ := admitted_cons s key f hfr
      rw [hn]
      split at hg
      · next e => rw [e, hid]; exact (hs.freeVacant a (by rw [hfr]; exact List.mem_cons_self)).1
      · exact hs.slabBound j g hg
  · intro k hk
    rw [admitted_slots]
    cases hfr : s.free with
    | nil =>
      obtain ⟨hf', hn, hid⟩ := admitted_nil s key f hfr
      rw [hf'] at hk; cases hk
    | cons a rest =>
      obtain ⟨hf', hn, hid⟩ := admitted_cons s key f hfr
      rw [hf'] at hk
      rw [hn, hid]
      have hnd := hs.freeNodup
      rw [hfr] at hnd
      have hne : k ≠ a := fun e => (List.nodup_cons.mp hnd).1 (e ▸ hk)
      have := hs.freeVacant k (by rw [hfr]; exact List.mem_cons_of_mem _ hk)
      simp [hne, this]
  · have hnd := hs.freeNodup
    cases hfr : s.free with
    | nil => rw [(admitted_nil s key f hfr).1]; exact List.nodup_nil
    | cons a rest =>
      rw [(admitted_cons s key f hfr).1]; rw [hfr] at hnd; exact (List.nodup_cons.mp hnd).2
  · rw [admitted_len]
    have h0 := hs.lenEq
    have hslots : ∀ j, get? (admitted s key f).slots j = if j = nextId s then some f else get? s.slots j :=
      admitted_slots s key f
    simp only [liveIds, getFlow_def] at h0 ⊢
    cases hfr : s.free with
    | cons a rest =>
      obtain ⟨_, hn, hid⟩ := admitted_cons s key f hfr
      have hlt : nextId s < s.nslots := by
        rw [hid]; exact (hs.freeVacant a (by rw [hfr]; exact List.mem_cons_self)).1
      rw [hn]
      have := filter_range_flip (fun i => (get? (admitted s key f).slots i).isSome)
        (fun i => (get? s.slots i).isSome) s.nslots (nextId s) hlt
        (by intro j hj; simp [hslots, hj]) (by simp [hslots]) (by simp [hvac])
      omega
    | nil =>
      obtain ⟨_, hn, hid⟩ := admitted_nil s key f hfr
      rw [hn, List.range_succ, List.filter_append, List.length_append]
      have hsame := filter_range_same (fun i => (get? (admitted s key f).slots i).isSome)
        (fun i => (get? s.slots i).isSome) s.nslots
        (by intro j hj; have : j ≠ nextId s := by omega
            simp [hslots, this])
      rw [hsame]
      simp [hslots, hid]
      omega

/-! ### per-flow helpers -/

theorem takePP_fst (f : Flow) : f.takePP.1 = (f.cfg.sendPP && (f.cfg.ppEvery || f.firstPending)) := by
  unfold Flow.takePP
  cases f.cfg.sendPP <;> cases f.cfg.ppEvery <;> cases f.firstPending <;> simp

theorem takePP_snd (f : Flow) :
    f.takePP.2 = { f with firstPending := if f.cfg.sendPP && !f.cfg.ppEvery then false else f.firstPending } := by
  rcases f with ⟨c, bi, b, ph, ⟨cl, wp, rsn, rqn, ft, bt, spp, ev⟩, rq, rs, dl, g, fp, pd⟩
  cases spp <;> cases ev <;> cases fp <;> simp [Flow.takePP]

theorem satInc_ne_zero (n : Nat) : satInc n ≠ 0 := by
  unfold satInc u32Max; split <;> omega

theorem KMap_set_set {κ ν : Type} [DecidableEq κ] (m : KMap κ ν) (k : κ) (a b : ν) :
    KMap.set (KMap.set m k a) k b = KMap.set m k b := by
  simp [KMap.set, KMap.erase, List.filter_cons, List.filter_filter]

def pushAll (s : State) (l : List Out) : State := { s with outs := s.outs ++ l }

theorem sameCore_pushAll (s : State) (l : List Out) : SameCore s (pushAll s l) := ⟨rfl, rfl, rfl, rfl, rfl⟩
theorem sameKnobs_pushAll (s : State) (l : List Out) : SameKnobs s (pushAll s l) := ⟨rfl, rfl, rfl, rfl⟩

/-- what a forward site (`setFlow`, emit, `finishForward`) achieves -/
structure FwdRes (s s' : State) (id : Nat) (f' : Flow) (em : List Out) : Prop where
  str : Str s'
  caps : Caps s'
  knobs : SameKnobs s s'
  sig : sig s'.outs = sig s.outs ++ em ++ (if f'.teardownDue then [.closeFlow id] else [])
  slots : ∀ j, get? s'.slots j =
    if j = id then (if f'.teardownDue then none else some f') else get? s.slots j
  len : s'.len = if f'.teardownDue then s.len - 1 else s.len

theorem fwdRes_mem {s s' : State} {id : Nat} {f' : Flow} {em : List Out} (res : FwdRes s s' id f' em)
    (hd : s.outs = []) (o : Out) :
    o ∈ sig s'.outs ↔ o ∈ em ∨ (f'.teardownDue = true ∧ o = .closeFlow id) := by
  rw [res.sig, hd]
  cases f'.teardownDue <;> simp

theorem fwd_generic {s : State} (hs : Str s) (hc : Caps s) {id : Nat} {f f' : Flow}
    (hf : get? s.slots id = some f) (hk : ownKey f' = ownKey f) (hp : PhaseOk f')
    (hpp : f'.cfg.ppEvery = false → f'.firstPending = (f'.cfg.sendPP && f'.req == 0)) (em : List Out) :
    FwdRes s (finishForward (pushAll (setFlow s id f') em) id f') id f' (sig em) := by
  have hs2 : Str (pushAll (setFlow s id f') em) :=
    str_sameCore (sameCore_pushAll _ _) (str_setFlow hs hf hk hp)
  have hget : ∀ j, get? (pushAll (setFlow s id f') em).slots j = if j = id then some f' else get? s.slots j := by
    intro j; simp [pushAll, setFlow, get?_set]
  obtain ⟨a, b, c, d, e, g⟩ := finishForward_spec hs2 (f := f') (id := id) (by rw [hget]; simp)
    (by intro j g hj hg; rw [hget] at hg; simp [hj] at hg; exact hc j g hg) hpp
  refine ⟨a, b, ⟨c.maxFlows, c.maxRx, c.cluster, c.draining⟩, ?_, ?_, ?_⟩
  · rw [d]; simp [pushAll, setFlow]
  · intro j; rw [e, hget]
    by_cases h1 : j = id <;> cases h2 : f'.teardownDue <;> simp [h1, h2]
  · rw [g]; rfl

def ClientValid (s : State) (p : Bytes) : Prop :=
  p.length ≤ s.maxRx ∧ s.cluster.cluster.isEmpty = false ∧ p.isEmpty = false

/-- the flow a resolution leaves behind (buffered datagram flushed) -/
def resolvedFlow (f : Flow) (bid : String) (addr : Addr) (now : Nat) : Flow :=
  (Flow.onClient { f with backendId := some bid, backend := some addr, phase := .established,
                          pending := none } now).takePP.2

def resolvedPP (f : Flow) (bid : String) (addr : Addr) (now : Nat) : Bool :=
  (Flow.onClient { f with backendId := some bid, backend := some addr, phase := .established,
                          pending := none } now).takePP.1

/-- what one input does, by kind -/
inductive Kind (s s' : State) (op : Op) : Prop
  | quiet (core : SameCore s s')
      (sg : ∃ l, sig s'.outs = sig s.outs ++ l ∧ ∀ o, o ∈ l → ∃ r, o = .drop r)
  | buffer (src : Addr) (p : Bytes) (now id : Nat) (f : Flow) (hop : op = .client src p now)
      (hvalid : ClientValid s p)
      (hk : get? s.table (flowKey src s.cluster.withPort) = some id)
      (hf : get? s.slots id = some f) (hph : f.phase = .awaiting)
      (hsig : sig s'.outs = sig s.outs)
      (slots : ∀ j, get? s'.slots j =
        if j = id then some (Flow.touch { f with pending := some p } f.cfg.frontTo now) else get? s.slots j)
      (len : s'.len = s.len) (table : s'.table = s.table)
  | forward (src : Addr) (p : Bytes) (now id : Nat) (f : Flow) (b : Addr) (hop : op = .client src p now)
      (hvalid : ClientValid s p)
      (hk : get? s.table (flowKey src s.cluster.withPort) = some id)
      (hf : get? s.slots id = some f) (hph : f.phase = .established) (hb : f.backend = some b)
      (res : FwdRes s s' id (f.onClient now).takePP.2
        [.sendToBackend id b (if (f.onClient now).takePP.1 then ppHeader f.client b ++ p else p)])
  | reply (id : Nat) (p : Bytes) (now : Nat) (f : Flow) (hop : op = .backend id p now)
      (hlen : p.length ≤ s.maxRx) (hf : get? s.slots id = some f) (hph : f.phase = .established)
      (res : FwdRes s s' id (f.onBackend now) [.sendToClient id f.client p])
  | resolve (id : Nat) (bid : String) (addr : Addr) (now : Nat) (f : Flow) (q : Bytes)
      (hop : op = .resolved id bid addr now)
      (hf : get? s.slots id = some f) (hph : f.phase = .awaiting) (hq : f.pending = some q)
      (res : FwdRes s s' id (resolvedFlow f bid addr now)
        [.openUpstream id addr,
         .sendToBackend id addr (if resolvedPP f bid addr now then ppHeader f.client addr ++ q else q)])
  | admission (src : Addr) (p : Bytes) (now : Nat) (hop : op = .client src p now)
      (hvalid : ClientValid s p)
      (hnone : get? s.table (flowKey src s.cluster.withPort) = none)
      (hroom : s.len < s.maxFlows) (hnd : s.draining = false)
      (hvac : get? s.slots (nextId s) = none)
      (hsig : sig s'.outs = sig s.outs ++
        [.selectBackend (nextId s) s.cluster.cluster (affKey src s.cluster.withPort)])
      (slots : ∀ j, get? s'.slots j =
        if j = nextId s then some (newFlow src s.cluster p now) else get? s.slots j)
      (table : ∀ k, get? s'.table k =
        if k = flowKey src s.cluster.withPort then some (nextId s) else get? s.table k)
      (len : s'.len = s.len + 1)
  | closes (ids : List Nat) (hnodup : ids.Nodup) (hlive : ∀ id, id ∈ ids → (get? s.slots id).isSome)
      (hop : (∃ id, op = .abort id ∧ ∀ j, j ∈ ids → j = id) ∨ (op = .closeAll ∧ ∀ j, (get? s.slots j).isSome → j ∈ ids) ∨
        ∃ now, op = .timeout now ∧ ∀ j, j ∈ ids ↔ ∃ f, get? s.slots j = some f ∧ f.deadline ≤ now)
      (hsig : sig s'.outs = sig s.outs ++ ids.map Out.closeFlow)
      (slots : ∀ j, get? s'.slots j = if j ∈ ids then none else get? s.slots j)
      (len : s'.len = s.len - ids.length) (hle : ids.length ≤ s.len)

theorem kind_drop (s : State) (r : DropReason) (op : Op) : Kind s (dropDatagram s r) op :=
  .quiet (sameCore_drop s r) ⟨[.drop r], sig_drop s r, by intro o ho; exact ⟨r, by simpa using ho⟩⟩

theorem kind_refl (s : State) (op : Op) : Kind s s op :=
  .quiet (SameCore.refl s) ⟨[], by simp, by intro o ho; cases ho⟩

/-! ### every handler, classified -/

theorem push_push_eq (s : State) (a b : Out) : push (push s a) b = pushAll s [a, b] := by
  simp [push, pushAll]

theorem quiet_ok {s s' : State} (hs : Str s) (hc : Caps s) (h : SameCore s s') : Str s' ∧ Caps s' :=
  ⟨str_sameCore h hs, caps_sameCore h hc⟩

theorem drop_ok {s : State} (hs : Str s) (hc : Caps s) (r : DropReason) (op : Op) :
    Str (dropDatagram s r) ∧ Caps (dropDatagram s r) ∧ Kind s (dropDatagram s r) op :=
  ⟨(quiet_ok hs hc (sameCore_drop s r)).1, (quiet_ok hs hc (sameCore_drop s r)).2, kind_drop s r op⟩

theorem onBackend_kind {s : State} (hs : Str s) (hc : Caps s) (id : Nat) (p : Bytes) (now : Nat) :
    Str (onBackend s id p now) ∧ Caps (onBackend s id p now) ∧
      Kind s (onBackend s id p now) (.backend id p now) := by
  unfold onBackend
  by_cases hlen : p.length > s.maxRx
  · simp only [hlen, if_true]; exact drop_ok hs hc _ _
  · simp only [hlen, if_false, getFlow_def]
    cases hf : get? s.slots id with
    | none => exact drop_ok hs hc _ _
    | some f =>
      by_cases hph : f.phase = .established
      · simp only [hph, ne_eq, not_true_eq_false, if_false, push_push_eq]
        have hp := hs.phaseOk id f hf
        have res := fwd_generic hs hc hf (f' := f.onBackend now) rfl
          ⟨hp.notClosing, hp.estab, hp.await⟩ (hc id f hf).pp
          [.metric (.dgramOut p.length), .sendToClient id (f.onBackend now).client p]
        exact ⟨res.str, res.caps, .reply id p now f rfl (by omega) hf hph res⟩
      · simp only [hph, ne_eq, not_false_eq_true, if_true]; exact drop_ok hs hc _ _

theorem fwdFlow_pp {f : Flow} (hsem : f.cfg.ppEvery = false → f.firstPending = (f.cfg.sendPP && f.req == 0))
    (now : Nat) :
    (f.onClient now).takePP.2.cfg.ppEvery = false →
      (f.onClient now).takePP.2.firstPending =
        ((f.onClient now).takePP.2.cfg.sendPP && (f.onClient now).takePP.2.req == 0) := by
  rw [takePP_snd]
  intro hev
  have hev' : f.cfg.ppEvery = false := hev
  have hz : (satInc f.req == 0) = false := by simp [satInc_ne_zero]
  show (if (f.cfg.sendPP && !f.cfg.ppEvery) = true then false else f.firstPending) = (f.cfg.sendPP && satInc f.req == 0)
  rw [hz, hev']
  have := hsem hev'
  cases h : f.cfg.sendPP <;> simp [h] at this ⊢
  exact this

theorem takePP_client (f : Flow) : f.takePP.2.client = f.client := by rw [takePP_snd]

theorem forwardExisting_none {s : State} {id : Nat} (p : Bytes) (now : Nat) (hf : get? s.slots id = none) :
    forwardExisting s id p now = dropDatagram s .unknownFlow := by
  unfold forwardExisting; simp [hf]

theorem forwardExisting_await {s : State} {id : Nat} {f : Flow} (p : Bytes) (now : Nat)
    (hf : get? s.slots id = some f) (hph : f.phase = .awaiting) :
    forwardExisting s id p now =
      reschedule (setFlow s id (Flow.touch { f with pending := some p } f.cfg.frontTo now)) := by
  unfold forwardExisting; simp [hf, hph]

theorem forwardExisting_est {s : State} {id : Nat} {f : Flow} {b : Addr} (p : Bytes) (now : Nat)
    (hf : get? s.slots id = some f) (hph : f.phase = .established) (hb : f.backend = some b) :
    forwardExisting s id p now =
      finishForward (pushAll (setFlow s id (f.onClient now).takePP.2)
        [.metric (.dgramIn p.length),
         .sendToBackend id b (if (f.onClient now).takePP.1 then ppHeader f.client b ++ p else p)])
        id (f.onClient now).takePP.2 := by
  have hb1 : (f.onClient now).backend = some b := hb
  have hcl : (f.onClient now).takePP.2.client = f.client := by rw [takePP_client]; rfl
  unfold forwardExisting
  simp only [getFlow_def, hf, hph, hb1, push_push_eq, hcl]

theorem forwardExisting_kind {s : State} (hs : Str s) (hc : Caps s) (src : Addr) (id : Nat) (p : Bytes) (now : Nat)
    (hvalid : ClientValid s p) (hk : get? s.table (flowKey src s.cluster.withPort) = some id) :
    Str (forwardExisting s id p now) ∧ Caps (forwardExisting s id p now) ∧
      Kind s (forwardExisting s id p now) (.client src p now) := by
  cases hf : get? s.slots id with
  | none => rw [forwardExisting_none p now hf]; exact drop_ok hs hc _ _
  | some f =>
    have hp := hs.phaseOk id f hf
    cases hph : f.phase with
    | closing => exact absurd hph hp.notClosing
    | awaiting =>
      rw [forwardExisting_await p now hf hph]
      have hp1 : PhaseOk (Flow.touch { f with pending := some p } f.cfg.frontTo now) :=
        ⟨hp.notClosing, hp.estab, fun _ => rfl⟩
      have hs1 := str_setFlow hs hf (f' := Flow.touch { f with pending := some p } f.cfg.frontTo now) rfl hp1
      have hcore := sameCore_reschedule (setFlow s id (Flow.touch { f with pending := some p } f.cfg.frontTo now))
      refine ⟨str_sameCore hcore hs1, ?_, ?_⟩
      · apply caps_sameCore hcore
        intro j g hg
        rw [setFlow_get] at hg
        split at hg
        · cases hg; exact ⟨(hc id f hf).caps, (hc id f hf).pp⟩
        · exact hc j g hg
      · refine .buffer src p now id f rfl hvalid hk hf hph ?_ ?_ ?_ ?_
        · rw [sig_reschedule]; rfl
        · intro j; rw [hcore.slots, setFlow_get]
        · rw [hcore.len]; rfl
        · rw [hcore.table]; rfl
    | established =>
      obtain ⟨b, hb'⟩ := Option.isSome_iff_exists.mp (hp.estab.mp hph)
      rw [forwardExisting_est p now hf hph hb']
      have hpk : PhaseOk (f.onClient now).takePP.2 := by
        rw [takePP_snd]; exact ⟨hp.notClosing, hp.estab, hp.await⟩
      have hown : ownKey (f.onClient now).takePP.2 = ownKey f := by rw [takePP_snd]; rfl
      have res := fwd_generic hs hc hf hown hpk (fwdFlow_pp (hc id f hf).pp now)
        [.metric (.dgramIn p.length), .sendToBackend id b
          (if (f.onClient now).takePP.1 then ppHeader f.client b ++ p else p)]
      have hsig : sig [Out.metric (.dgramIn p.length), Out.sendToBackend id b
          (if (f.onClient now).takePP.1 then ppHeader f.client b ++ p else p)] =
          [Out.sendToBackend id b (if (f.onClient now).takePP.1 then ppHeader f.client b ++ p else p)] := by
        simp [sig, Out.noise]
      rw [hsig] at res
      exact ⟨res.str, res.caps, .forward src p now id f b rfl hvalid hk hf hph hb' res⟩

theorem onResolved_eq {s : State} {id : Nat} {f : Flow} {q : Bytes} (bid : String) (addr : Addr) (now : Nat)
    (hf : get? s.slots id = some f) (hph : f.phase = .awaiting) (hq : f.pending = some q) :
    onResolved s id bid addr now =
      finishForward (pushAll (setFlow s id (resolvedFlow f bid addr now))
        [.openUpstream id addr, .metric (.dgramIn q.length),
         .sendToBackend id addr (if resolvedPP f bid addr now then ppHeader f.client addr ++ q else q)])
        id (resolvedFlow f bid addr now) := by
  have hcl : (resolvedFlow f bid addr now).client = f.client := by
    unfold resolvedFlow; rw [takePP_client]; rfl
  unfold onResolved
  simp only [getFlow_def, hf, hph, ne_eq, not_true_eq_false, if_false, hq]
  simp only [push, pushAll, setFlow, KMap_set_set, List.append_assoc, List.cons_append, List.nil_append,
    takePP_client]
  rfl

theorem onResolved_kind {s : State} (hs : Str s) (hc : Caps s) (id : Nat) (bid : String) (addr : Addr) (now : Nat) :
    Str (onResolved s id bid addr now) ∧ Caps (onResolved s id bid addr now) ∧
      Kind s (onResolved s id bid addr now) (.resolved id bid addr now) := by
  cases hf : get? s.slots id with
  | none =>
    have : onResolved s id bid addr now = dropDatagram s .unknownFlow := by unfold onResolved; simp [hf]
    rw [this]; exact drop_ok hs hc _ _
  | some f =>
    have hp := hs.phaseOk id f hf
    by_cases hph : f.phase = .awaiting
    · obtain ⟨q, hq⟩ := Option.isSome_iff_exists.mp (hp.await hph)
      rw [onResolved_eq bid addr now hf hph hq]
      have hpk : PhaseOk (resolvedFlow f bid addr now) := by
        unfold resolvedFlow; rw [takePP_snd]
        exact ⟨by simp [Flow.onClient, Flow.touch], by simp [Flow.onClient, Flow.touch],
          by simp [Flow.onClient, Flow.touch]⟩
      have hown : ownKey (resolvedFlow f bid addr now) = ownKey f := by
        unfold resolvedFlow; rw [takePP_snd]; rfl
      have hpp : (resolvedFlow f bid addr now).cfg.ppEvery = false →
          (resolvedFlow f bid addr now).firstPending =
            ((resolvedFlow f bid addr now).cfg.sendPP && (resolvedFlow f bid addr now).req == 0) :=
        fwdFlow_pp (f := Flow.mk f.client (some bid) (some addr) .established f.cfg f.req f.resp f.deadline
          f.gen f.firstPending none) (hc id f hf).pp now
      have res := fwd_generic hs hc hf hown hpk hpp
        [.openUpstream id addr, .metric (.dgramIn q.length),
         .sendToBackend id addr (if resolvedPP f bid addr now then ppHeader f.client addr ++ q else q)]
      have hsig : sig [Out.openUpstream id addr, Out.metric (.dgramIn q.length),
          Out.sendToBackend id addr (if resolvedPP f bid addr now then ppHeader f.client addr ++ q else q)] =
          [Out.openUpstream id addr,
           Out.sendToBackend id addr (if resolvedPP f bid addr now then ppHeader f.client addr ++ q else q)] := by
        simp [sig, Out.noise]
      rw [hsig] at res
      exact ⟨res.str, res.caps, .resolve id bid addr now f q rfl hf hph hq res⟩
    · have : onResolved s id bid addr now = s := by unfold onResolved; simp [hf, hph]
      rw [this]; exact ⟨hs, hc, kind_refl s _⟩

theorem admitFlow_eq (s : State) (src : Addr) (p : Bytes) (now : Nat) :
    admitFlow s src p now =
      reschedule (push (push (admitted s (flowKey src s.cluster.withPort) (newFlow src s.cluster p now))
        (.metric .flowCreated))
        (.selectBackend (nextId s) s.cluster.cluster (affKey src s.cluster.withPort))) := by
  unfold admitFlow admitted
  simp only [slabInsert_id]
  rfl

theorem onClient_invalid {s : State} (src : Addr) {p : Bytes} (now : Nat) (h : ¬ ClientValid s p) :
    ∃ r, onClient s src p now = dropDatagram s r := by
  unfold onClient
  by_cases h1 : p.length > s.maxRx
  · exact ⟨.truncated, by simp [h1]⟩
  · by_cases h2 : s.cluster.cluster.isEmpty = true
    · exact ⟨.noBackend, by simp [h1, h2]⟩
    · by_cases h3 : p.isEmpty = true
      · refine ⟨.invalid, ?_⟩
        have h2' : s.cluster.cluster.isEmpty = false := by simpa using h2
        simp only [h1, h2', h3, if_true, if_false, Bool.false_eq_true]
      · exact absurd ⟨by omega, by simpa using h2, by simpa using h3⟩ h

theorem onClient_valid {s : State} (src : Addr) {p : Bytes} (now : Nat) (h : ClientValid s p) :
    onClient s src p now =
      match KMap.get? s.table (flowKey src s.cluster.withPort) with
      | some id => forwardExisting s id p now
      | none =>
        if s.draining then dropDatagram s .shed
        else if s.len ≥ s.maxFlows then dropDatagram (push s (.metric .flowShed)) .shed
        else admitFlow s src p now := by
  obtain ⟨h1, h2, h3⟩ := h
  have h1' : ¬ p.length > s.maxRx := by omega
  unfold onClient
  simp only [h1', h2, h3, if_false, Bool.false_eq_true]
  rfl

theorem onClient_kind {s : State} (hs : Str s) (hc : Caps s) (src : Addr) (p : Bytes) (now : Nat) :
    Str (onClient s src p now) ∧ Caps (onClient s src p now) ∧
      Kind s (onClient s src p now) (.client src p now) := by
  by_cases hinvalid : ¬ ClientValid s p
  · obtain ⟨r, hr⟩ := onClient_invalid src now hinvalid
    rw [hr]; exact drop_ok hs hc _ _
  · have hvalid : ClientValid s p := Classical.not_not.mp hinvalid
    rw [onClient_valid src now hvalid]
    cases hk : get? s.table (flowKey src s.cluster.withPort) with
    | some id => exact forwardExisting_kind hs hc src id p now hvalid hk
    | none =>
      simp only
      by_cases h4 : s.draining = true
      · simp only [h4, if_true]; exact drop_ok hs hc _ _
      · have h4' : s.draining = false := by simpa using h4
        simp only [h4', if_false, Bool.false_eq_true]
        by_cases h5 : s.len ≥ s.maxFlows
        · simp only [h5, if_true]
          have hcore : SameCore s (dropDatagram (push s (.metric .flowShed)) .shed) := ⟨rfl, rfl, rfl, rfl, rfl⟩
          refine ⟨str_sameCore hcore hs, caps_sameCore hcore hc, .quiet hcore ⟨[.drop .shed], ?_, ?_⟩⟩
          · simp [sig, Out.noise]
          · intro o ho; exact ⟨.shed, by simpa using ho⟩
        · simp only [h5, if_false]
          have hvac := nextId_vacant hs
          rw [admitFlow_eq]
          have hstr := str_admitted hs (key := flowKey src s.cluster.withPort)
            (f := newFlow src s.cluster p now) hk rfl
            ⟨by simp [newFlow, Flow.new], by simp [newFlow, Flow.new], fun _ => rfl⟩
          have hcore := sameCore_reschedule (push (push (admitted s (flowKey src s.cluster.withPort)
            (newFlow src s.cluster p now)) (.metric .flowCreated))
            (.selectBackend (nextId s) s.cluster.cluster (affKey src s.cluster.withPort)))
          have hslots : ∀ j, get? (admitted s (flowKey src s.cluster.withPort)
              (newFlow src s.cluster p now)).slots j =
              if j = nextId s then some (newFlow src s.cluster p now)
              else get? s.slots j := admitted_slots _ _ _
          refine ⟨str_sameCore hcore (str_sameCore (sameCore_push _ _) (str_sameCore (sameCore_push _ _) hstr)),
            ?_, ?_⟩
          · apply caps_sameCore hcore
            apply caps_sameCore (sameCore_push _ _)
            apply caps_sameCore (sameCore_push _ _)
            intro j g hg
            rw [hslots] at hg
            split at hg
            · cases hg
              refine ⟨?_, ?_⟩
              · simp [Flow.teardownDue, Flow.respExhausted, Flow.reqExhausted, Flow.new, newFlow]
              · intro _; simp [Flow.new, newFlow]
            · exact hc j g hg
          · refine .admission src p now rfl hvalid hk (by omega) h4' hvac ?_ ?_ ?_ ?_
            · rw [sig_reschedule, sig_push, sig_push, admitted_outs]; simp [Out.noise]
            · intro j; rw [hcore.slots]; exact hslots j
            · intro k; rw [hcore.table]; exact admitted_table s _ (newFlow src s.cluster p now) k
            · rw [hcore.len]; exact admitted_len s (flowKey src s.cluster.withPort) (newFlow src s.cluster p now)

theorem filter_all_true {α : Type} (l : List α) (p : α → Bool) (h : ∀ x, x ∈ l → p x = true) :
    l.filter p = l := List.filter_eq_self.mpr h

theorem closesList_kind {s : State} (hs : Str s) (hc : Caps s) (ids : List Nat) (op : Op)
    (hnd : ids.Nodup) (hlive : ∀ id, id ∈ ids → (get? s.slots id).isSome)
    (hop : (∃ id, op = .abort id ∧ ∀ j, j ∈ ids → j = id) ∨
      (op = .closeAll ∧ ∀ j, (get? s.slots j).isSome → j ∈ ids) ∨
      ∃ now, op = .timeout now ∧ ∀ j, j ∈ ids ↔ ∃ f, get? s.slots j = some f ∧ f.deadline ≤ now) :
    Str (ids.foldl closeFlow s) ∧ Caps (ids.foldl closeFlow s) ∧ Kind s (ids.foldl closeFlow s) op := by
  obtain ⟨a, b, c, d, e, f⟩ := closeMany_spec ids s hs hc hnd
  have hfilt : ids.filter (liveIn s) = ids := filter_all_true _ _ (fun x hx => hlive x hx)
  have hadd := closeMany_len_add ids s hs hnd
  rw [hfilt] at d f hadd
  exact ⟨a, b, .closes ids hnd hlive hop d e f (by omega)⟩

theorem abort_kind {s : State} (hs : Str s) (hc : Caps s) (id : Nat) :
    Str (closeFlow s id) ∧ Caps (closeFlow s id) ∧ Kind s (closeFlow s id) (.abort id) := by
  cases hf : get? s.slots id with
  | none => rw [closeFlow_dead hf]; exact ⟨hs, hc, kind_refl s _⟩
  | some f =>
    have := closesList_kind hs hc [id] (.abort id) (by simp) (by simp [hf])
      (Or.inl ⟨id, rfl, by simp⟩)
    simpa using this

theorem closeAll_kind {s : State} (hs : Str s) (hc : Caps s) :
    Str (closeAll s) ∧ Caps (closeAll s) ∧ Kind s (closeAll s) .closeAll := by
  unfold closeAll
  exact closesList_kind hs hc (liveIds s) .closeAll (liveIds_nodup s)
    (fun id h => (mem_liveIds hs id).mp h)
    (Or.inr (Or.inl ⟨rfl, fun j h => (mem_liveIds hs j).mpr h⟩))

theorem mem_due {s : State} (hs : Str s) (now j : Nat) :
    j ∈ (liveIds s).filter (isDue s now) ↔ ∃ f, get? s.slots j = some f ∧ f.deadline ≤ now := by
  rw [List.mem_filter, mem_liveIds hs]
  unfold isDue
  simp only [getFlow_def]
  cases h : get? s.slots j <;> simp

theorem timeout_kind {s : State} (hs : Str s) (hc : Caps s) (now : Nat) :
    Str (handleTimeout s now) ∧ Caps (handleTimeout s now) ∧ Kind s (handleTimeout s now) (.timeout now) := by
  unfold handleTimeout
  have hnd : ((liveIds s).filter (isDue s now)).Nodup := List.Nodup.sublist List.filter_sublist (liveIds_nodup s)
  rw [timeoutLoop_eq now _ s hs hnd (fun id h => (mem_due hs now id).mp h)]
  have hlive : ∀ id, id ∈ (liveIds s).filter (isDue s now) → (get? s.slots id).isSome := by
    intro id h; obtain ⟨f, hf, _⟩ := (mem_due hs now id).mp h; simp [hf]
  obtain ⟨a, b, c, d, e, f⟩ := closeMany_spec ((liveIds s).filter (isDue s now)) s hs hc hnd
  have hfilt : ((liveIds s).filter (isDue s now)).filter (liveIn s) = (liveIds s).filter (isDue s now) :=
    filter_all_true _ _ (fun x hx => hlive x hx)
  have hadd := closeMany_len_add ((liveIds s).filter (isDue s now)) s hs hnd
  rw [hfilt] at d f hadd
  have hcore := sameCore_reschedule (((liveIds s).filter (isDue s now)).foldl closeFlow s)
  refine ⟨str_sameCore hcore a, caps_sameCore hcore b, ?_⟩
  exact .closes _ hnd hlive (Or.inr (Or.inr ⟨now, rfl, fun j => mem_due hs now j⟩))
    (by rw [sig_reschedule]; exact d) (by intro j; rw [hcore.slots]; exact e j) (by rw [hcore.len]; exact f) (by omega)

/-- every input, classified; the invariant is preserved -/
theorem handle_kind {s : State} (hs : Str s) (hc : Caps s) (op : Op) :
    Str (handle s op) ∧ Caps (handle s op) ∧ Kind s (handle s op) op := by
  cases op with
  | client src p now => exact onClient_kind hs hc src p now
  | backend id p now => exact onBackend_kind hs hc id p now
  | resolved id bid addr now => exact onResolved_kind hs hc id bid addr now
  | setCluster cfg =>
    have hcore : SameCore s (handle s (.setCluster cfg)) := ⟨rfl, rfl, rfl, rfl, rfl⟩
    exact ⟨str_sameCore hcore hs, caps_sameCore hcore hc, .quiet hcore ⟨[], by simp [handle], by simp⟩⟩
  | setMaxFlows n =>
    have hcore : SameCore s (handle s (.setMaxFlows n)) := ⟨rfl, rfl, rfl, rfl, rfl⟩
    exact ⟨str_sameCore hcore hs, caps_sameCore hcore hc, .quiet hcore ⟨[], by simp [handle], by simp⟩⟩
  | setMaxRx n =>
    have hcore : SameCore s (handle s (.setMaxRx n)) := ⟨rfl, rfl, rfl, rfl, rfl⟩
    exact ⟨str_sameCore hcore hs, caps_sameCore hcore hc, .quiet hcore ⟨[], by simp [handle], by simp⟩⟩
  | drain =>
    have hcore : SameCore s (handle s .drain) := ⟨rfl, rfl, rfl, rfl, rfl⟩
    exact ⟨str_sameCore hcore hs, caps_sameCore hcore hc, .quiet hcore ⟨[], by simp [handle], by simp⟩⟩
  | timeout now => exact timeout_kind hs hc now
  | abort id => exact abort_kind hs hc id
  | closeAll => exact closeAll_kind hs hc

/-! ### direct specifications used by the property theorems -/

theorem timeout_spec {s : State} (hs : Str s) (hc : Caps s) (now : Nat) :
    sig (handleTimeout s now).outs = sig s.outs ++ ((liveIds s).filter (isDue s now)).map Out.closeFlow ∧
    (∀ j, get? (handleTimeout s now).slots j =
      if j ∈ (liveIds s).filter (isDue s now) then none else get? s.slots j) := by
  unfold handleTimeout
  have hnd : ((liveIds s).filter (isDue s now)).Nodup := List.Nodup.sublist List.filter_sublist (liveIds_nodup s)
  rw [timeoutLoop_eq now _ s hs hnd (fun id h => (mem_due hs now id).mp h)]
  have hlive : ∀ id, id ∈ (liveIds s).filter (isDue s now) → (get? s.slots id).isSome := by
    intro id h; obtain ⟨f, hf, _⟩ := (mem_due hs now id).mp h; simp [hf]
  obtain ⟨a, b, c, d, e, f⟩ := closeMany_spec ((liveIds s).filter (isDue s now)) s hs hc hnd
  have hfilt : ((liveIds s).filter (isDue s now)).filter (liveIn s) = (liveIds s).filter (isDue s now) :=
    filter_all_true _ _ (fun x hx => hlive x hx)
  rw [hfilt] at d
  have hcore := sameCore_reschedule (((liveIds s).filter (isDue s now)).foldl closeFlow s)
  exact ⟨by rw [sig_reschedule]; exact d, by intro j; rw [hcore.slots]; exact e j⟩

theorem closeAll_spec {s : State} (hs : Str s) (hc : Caps s) :
    sig (closeAll s).outs = sig s.outs ++ (liveIds s).map Out.closeFlow ∧
    (∀ j, get? (closeAll s).slots j = none) := by
  unfold closeAll
  obtain ⟨a, b, c, d, e, f⟩ := closeMany_spec (liveIds s) s hs hc (liveIds_nodup s)
  have hfilt : (liveIds s).filter (liveIn s) = liveIds s :=
    filter_all_true _ _ (fun x hx => (mem_liveIds hs x).mp hx)
  rw [hfilt] at d
  refine ⟨d, ?_⟩
  intro j
  rw [e]
  by_cases h : j ∈ liveIds s
  · simp [h]
  · simp only [h, if_false]
    cases hj : get? s.slots j with
    | none => rfl
    | some g => exact absurd ((mem_liveIds hs j).mpr (by simp [hj])) h

/-- `close_flow` ids inside an output list -/
def closedIds (l : List Out) : List Nat :=
  l.filterMap fun o => match o with
    | .closeFlow id => some id
    | _ => none

theorem closedIds_append (a b : List Out) : closedIds (a ++ b) = closedIds a ++ closedIds b := by
  simp [closedIds, List.filterMap_append]

theorem closedIds_sig (l : List Out) : closedIds (sig l) = closedIds l := by
  induction l with
  | nil => rfl
  | cons o t ih =>
    cases o <;> simp_all [closedIds, sig, Out.noise, List.filter_cons, List.filterMap_cons]

theorem closedIds_map (ids : List Nat) : closedIds (ids.map Out.closeFlow) = ids := by
  induction ids with
  | nil => rfl
  | cons a t ih => simp_all [closedIds, List.filterMap_cons]

theorem mem_closedIds {id : Nat} {l : List Out} : id ∈ closedIds l ↔ Out.closeFlow id ∈ l := by
  induction l with
  | nil => simp [closedIds]
  | cons o t ih =>
    cases o <;> simp_all [closedIds, List.filterMap_cons]

def isSel : Out → Bool
  | .selectBackend _ _ _ => true
  | _ => false

theorem sel_sig (l : List Out) : (sig l).filter isSel = l.filter isSel := by
  induction l with
  | nil => rfl
  | cons o t ih =>
    cases o <;> simp_all [sig, Out.noise, isSel, List.filter_cons]

def isToBackend : Out → Bool
  | .sendToBackend _ _ _ => true
  | _ => false

theorem toBackend_sig (l : List Out) : (sig l).filter isToBackend = l.filter isToBackend := by
  induction l with
  | nil => rfl
  | cons o t ih =>
    cases o <;> simp_all [sig, Out.noise, isToBackend, List.filter_cons]

/-! ### steps and runs -/

/-- the reachable-state invariant (between inputs the output queue is drained) -/
structure Inv (s : State) : Prop where
  str : Str s
  caps : Caps s
  drained : s.outs = []

theorem inv_new (c : Cfg) (mf mr : Nat) : Inv (State.new c mf mr) := by
  refine ⟨⟨?_, ?_, ?_, ?_, ?_, ?_, ?_⟩, ?_, rfl⟩ <;> simp [State.new, liveIds, Caps]

theorem clear_eq {s : State} (h : s.outs = []) : { s with outs := [] } = s := by
  cases s; simp at h; subst h; rfl

theorem step_fst (s : State) (op : Op) (h : s.outs = []) :
    (step s op).1 = { handle s op with outs := [] } := by
  unfold step; rw [clear_eq h]

theorem step_snd (s : State) (op : Op) (h : s.outs = []) : (step s op).2 = (handle s op).outs := by
  unfold step; rw [clear_eq h]

/-- the step-level classification -/
theorem step_kind {s : State} (h : Inv s) (op : Op) :
    Inv (step s op).1 ∧ Kind s (handle s op) op := by
  obtain ⟨a, b, k⟩ := handle_kind h.str h.caps op
  have hcore : SameCore (handle s op) (step s op).1 := by
    rw [step_fst s op h.drained]; exact ⟨rfl, rfl, rfl, rfl, rfl⟩
  refine ⟨⟨str_sameCore hcore a, caps_sameCore hcore b, ?_⟩, k⟩
  rw [step_fst s op h.drained]

theorem inv_step {s : State} (h : Inv s) (op : Op) : Inv (step s op).1 := (step_kind h op).1

theorem inv_run (ops : List Op) : ∀ {s : State}, Inv s → Inv (run s ops) := by
  induction ops with
  | nil => intro s h; exact h
  | cons op ops ih => intro s h; exact ih (inv_step h op)

/-- projections of a step in terms of `handle` -/
theorem step_slots (s : State) (op : Op) (h : s.outs = []) : (step s op).1.slots = (handle s op).slots := by
  rw [step_fst s op h]
theorem step_table (s : State) (op : Op) (h : s.outs = []) : (step s op).1.table = (handle s op).table := by
  rw [step_fst s op h]
theorem step_len (s : State) (op : Op) (h : s.outs = []) : (step s op).1.len = (handle s op).len := by
  rw [step_fst s op h]

/-- a non-noise output is in the raw outputs iff it is in the `sig` projection -/
theorem mem_outs_iff_sig {o : Out} {l : List Out} (h : o.noise = false) : o ∈ l ↔ o ∈ sig l := by
  rw [mem_sig]; exact ⟨fun x => ⟨x, h⟩, fun x => x.1⟩

end Sozu.Udp
