import Sozu.Udp.StepProofs
import Sozu.Udp.Shell
/-
Udp area (C19), lemmas about whole runs and about the I/O shell's contract with
the manager:

* the timer invariant `armed = earliest idle deadline` (every reachable state),
* one flow incarnation along a run (`FlowStep`, `flowSends`, `flow_run`),
* a small model of the shell's socket selection for `SendToBackend`.
-/
set_option linter.unusedSimpArgs false
set_option linter.unusedVariables false
namespace Sozu.Udp
open Sozu KMap

/-! ### the armed deadline is the earliest idle deadline -/

/-- what `poll_timeout()` returns is the earliest idle deadline of the slab -/
def ArmedOk (s : State) : Prop := s.armed = minDeadline s

theorem minDeadline_congr {s s' : State} (hn : s'.nslots = s.nslots) (hs : s'.slots = s.slots) :
    minDeadline s' = minDeadline s := by
  unfold minDeadline
  rw [liveIds_congr hn hs]
  simp only [getFlow_def, hs]

theorem armedOk_congr {s s' : State} (hn : s'.nslots = s.nslots) (hs : s'.slots = s.slots)
    (ha : s'.armed = s.armed) (h : ArmedOk s) : ArmedOk s' := by
  unfold ArmedOk at *; rw [ha, minDeadline_congr hn hs]; exact h

theorem armedOk_push {s : State} (o : Out) (h : ArmedOk s) : ArmedOk (push s o) :=
  armedOk_congr rfl rfl rfl h

theorem armedOk_pushAll {s : State} (l : List Out) (h : ArmedOk s) : ArmedOk (pushAll s l) :=
  armedOk_congr rfl rfl rfl h

theorem armedOk_drop {s : State} (r : DropReason) (h : ArmedOk s) : ArmedOk (dropDatagram s r) :=
  armedOk_congr rfl rfl rfl h

/-- `reschedule` establishes the timer invariant whatever was armed before -/
theorem armedOk_reschedule (s : State) : ArmedOk (reschedule s) := by
  unfold ArmedOk
  by_cases h : minDeadline s ≠ s.armed
  · cases hm : minDeadline s with
    | none =>
      have : reschedule s = { s with armed := none } := by simp [reschedule, hm] at h ⊢; simp [h]
      rw [this]
      have : minDeadline { s with armed := none } = minDeadline s := minDeadline_congr rfl rfl
      rw [this, hm]
    | some d =>
      have : reschedule s = push { s with armed := some d } (.armTimer d) := by
        simp [reschedule, hm] at h ⊢; simp [h]
      rw [this]
      have : minDeadline (push { s with armed := some d } (.armTimer d)) = minDeadline s :=
        minDeadline_congr rfl rfl
      rw [this, hm]; rfl
  · have h' : minDeadline s = s.armed := by simpa using h
    have : reschedule s = s := by simp [reschedule, h']
    rw [this, h']

theorem armedOk_closeFlow {s : State} (id : Nat) (h : ArmedOk s) : ArmedOk (closeFlow s id) := by
  unfold closeFlow
  simp only [getFlow_def]
  cases hf : get? s.slots id with
  | none => exact h
  | some f =>
    by_cases hph : f.phase = .closing
    · simp [hph]; exact h
    · simp only [hph, if_false]; exact armedOk_reschedule _

/-- closing a live flow re-establishes the invariant even if it did not hold before -/
theorem armedOk_closeFlow_live {s : State} {id : Nat} {f : Flow} (hf : get? s.slots id = some f)
    (hph : f.phase ≠ .closing) : ArmedOk (closeFlow s id) := by
  unfold closeFlow
  simp only [getFlow_def, hf, hph, if_false]
  exact armedOk_reschedule _

theorem armedOk_finishForward {s : State} {id : Nat} {g : Flow} (f : Flow)
    (hg : get? s.slots id = some g) (hph : g.phase ≠ .closing) : ArmedOk (finishForward s id f) := by
  unfold finishForward
  cases f.teardownDue
  · exact armedOk_reschedule _
  · exact armedOk_closeFlow_live hg hph

theorem armedOk_closeMany (ids : List Nat) : ∀ {s : State}, ArmedOk s → ArmedOk (ids.foldl closeFlow s) := by
  induction ids with
  | nil => intro s h; exact h
  | cons id rest ih => intro s h; exact ih (armedOk_closeFlow id h)

theorem armedOk_handle {s : State} (hs : Str s) (h : ArmedOk s) (op : Op) : ArmedOk (handle s op) := by
  cases op with
  | client src p now =>
    show ArmedOk (onClient s src p now)
    by_cases hv : ClientValid s p
    · rw [onClient_valid src now hv]
      cases hk : get? s.table (flowKey src s.cluster.withPort) with
      | some id =>
        simp only
        cases hf : get? s.slots id with
        | none => rw [forwardExisting_none p now hf]; exact armedOk_drop _ h
        | some f =>
          have hp := hs.phaseOk id f hf
          cases hph : f.phase with
          | closing => exact absurd hph hp.notClosing
          | awaiting => rw [forwardExisting_await p now hf hph]; exact armedOk_reschedule _
          | established =>
            obtain ⟨b, hb⟩ := Option.isSome_iff_exists.mp (hp.estab.mp hph)
            rw [forwardExisting_est p now hf hph hb]
            refine armedOk_finishForward (g := (f.onClient now).takePP.2) _ ?_ ?_
            · show get? (set s.slots id _) id = some _
              simp
            · rw [takePP_snd]; show f.phase ≠ .closing; exact hp.notClosing
      | none =>
        simp only
        by_cases h4 : s.draining = true
        · simp [h4]; exact armedOk_drop _ h
        · by_cases h5 : s.len ≥ s.maxFlows
          · simp [h4, h5]; exact armedOk_drop _ (armedOk_push _ h)
          · simp [h4, h5]; rw [admitFlow_eq]; exact armedOk_reschedule _
    · obtain ⟨r, hr⟩ := onClient_invalid src now hv; rw [hr]; exact armedOk_drop _ h
  | backend id p now =>
    show ArmedOk (onBackend s id p now)
    unfold onBackend
    by_cases hlen : p.length > s.maxRx
    · simp [hlen]; exact armedOk_drop _ h
    · simp only [hlen, if_false, getFlow_def]
      cases hf : get? s.slots id with
      | none => exact armedOk_drop _ h
      | some f =>
        by_cases hph : f.phase = .established
        · simp only [hph, ne_eq, not_true_eq_false, if_false]
          refine armedOk_finishForward (g := f.onBackend now) _ ?_ ?_
          · show get? (set s.slots id _) id = some _
            simp
          · show f.phase ≠ .closing; rw [hph]; intro hx; cases hx
        · simp [hph]; exact armedOk_drop _ h
  | resolved id bid addr now =>
    show ArmedOk (onResolved s id bid addr now)
    cases hf : get? s.slots id with
    | none =>
      have : onResolved s id bid addr now = dropDatagram s .unknownFlow := by unfold onResolved; simp [hf]
      rw [this]; exact armedOk_drop _ h
    | some f =>
      by_cases hph : f.phase = .awaiting
      · obtain ⟨q, hq⟩ := Option.isSome_iff_exists.mp ((hs.phaseOk id f hf).await hph)
        rw [onResolved_eq bid addr now hf hph hq]
        refine armedOk_finishForward (g := resolvedFlow f bid addr now) _ ?_ ?_
        · show get? (set s.slots id _) id = some _
          simp
        · unfold resolvedFlow; rw [takePP_snd]; simp [Flow.onClient, Flow.touch]
      · have : onResolved s id bid addr now = s := by unfold onResolved; simp [hf, hph]
        rw [this]; exact h
  | setCluster cfg => exact armedOk_congr (s := s) rfl rfl rfl h
  | setMaxFlows n => exact armedOk_congr (s := s) rfl rfl rfl h
  | setMaxRx n => exact armedOk_congr (s := s) rfl rfl rfl h
  | drain => exact armedOk_congr (s := s) rfl rfl rfl h
  | timeout now => exact armedOk_reschedule _
  | abort id => exact armedOk_closeFlow id h
  | closeAll => exact armedOk_closeMany _ h

theorem armedOk_step {s : State} (hi : Inv s) (h : ArmedOk s) (op : Op) : ArmedOk (step s op).1 := by
  rw [step_fst s op hi.drained]
  exact armedOk_congr (s := handle s op) rfl rfl rfl (armedOk_handle hi.str h op)

theorem armedOk_new (c : Cfg) (mf mr : Nat) : ArmedOk (State.new c mf mr) := by
  simp [ArmedOk, State.new, minDeadline, liveIds]

theorem armedOk_run (ops : List Op) : ∀ {s : State}, Inv s → ArmedOk s → ArmedOk (run s ops) := by
  induction ops with
  | nil => intro s _ h; exact h
  | cons op ops ih => intro s hi h; exact ih (inv_step hi op) (armedOk_step hi h op)

/-! ### `minDeadline` is the minimum over the live flows -/

/-- the fold of `minDeadline`, over any list of ids -/
def minOver (s : State) (ids : List Nat) (acc : Option Nat) : Option Nat :=
  ids.foldl (fun acc id =>
    match getFlow s id with
    | some f => if f.phase ≠ .closing then optMin acc f.deadline else acc
    | none => acc) acc

theorem minDeadline_eq_minOver (s : State) : minDeadline s = minOver s (liveIds s) none := rfl

/-- lower bound / attained, for a fold over flows none of which is `Closing` -/
theorem minOver_spec (s : State) (hnc : ∀ id f, get? s.slots id = some f → f.phase ≠ .closing) (ids : List Nat) :
    ∀ acc : Option Nat,
      (minOver s ids acc = none ↔ acc = none ∧ ∀ id, id ∈ ids → get? s.slots id = none) ∧
      ∀ d, minOver s ids acc = some d →
        ((acc = some d) ∨ ∃ id f, id ∈ ids ∧ get? s.slots id = some f ∧ f.deadline = d) ∧
        (∀ a, acc = some a → d ≤ a) ∧
        (∀ id f, id ∈ ids → get? s.slots id = some f → d ≤ f.deadline) := by
  induction ids with
  | nil =>
    intro acc
    simp only [minOver, List.foldl_nil]
    refine ⟨⟨fun h => ⟨h, by intro id hid; cases hid⟩, fun h => h.1⟩, ?_⟩
    intro d hd
    refine ⟨Or.inl hd, ?_, ?_⟩
    · intro a ha; rw [ha] at hd; cases hd; exact Nat.le_refl _
    · intro id f hid; cases hid
  | cons i rest ih =>
    intro acc
    have hstep : minOver s (i :: rest) acc = minOver s rest
        (match getFlow s i with
          | some f => if f.phase ≠ .closing then optMin acc f.deadline else acc
          | none => acc) := rfl
    rw [hstep]
    simp only [getFlow_def]
    cases hf : get? s.slots i with
    | none =>
      simp only
      obtain ⟨h1, h2⟩ := ih acc
      refine ⟨?_, ?_⟩
      · rw [h1]
        constructor
        · rintro ⟨ha, hr⟩
          refine ⟨ha, ?_⟩
          intro id hid
          rcases List.mem_cons.mp hid with rfl | hid
          · exact hf
          · exact hr id hid
        · rintro ⟨ha, hr⟩
          exact ⟨ha, fun id hid => hr id (List.mem_cons_of_mem _ hid)⟩
      · intro d hd
        obtain ⟨ha, hb, hc⟩ := h2 d hd
        refine ⟨?_, hb, ?_⟩
        · rcases ha with ha | ⟨id, f, hid, hg, hdl⟩
          · exact Or.inl ha
          · exact Or.inr ⟨id, f, List.mem_cons_of_mem _ hid, hg, hdl⟩
        · intro id f hid hg
          rcases List.mem_cons.mp hid with rfl | hid
          · rw [hf] at hg; cases hg
          · exact hc id f hid hg
    | some f =>
      have hph := hnc i f hf
      simp only [hph, ne_eq, not_false_eq_true, if_true]
      obtain ⟨h1, h2⟩ := ih (optMin acc f.deadline)
      have hsome : ∃ m, optMin acc f.deadline = some m ∧ m ≤ f.deadline ∧ (∀ a, acc = some a → m ≤ a) ∧
          (m = f.deadline ∨ acc = some m) := by
        cases acc with
        | none => exact ⟨f.deadline, rfl, Nat.le_refl _, (fun a ha => by cases ha), Or.inl rfl⟩
        | some a =>
          refine ⟨min a f.deadline, rfl, Nat.min_le_right _ _, ?_, ?_⟩
          · intro a' ha'; cases ha'; exact Nat.min_le_left _ _
          · by_cases hle : a ≤ f.deadline
            · right; rw [Nat.min_eq_left hle]
            · left; rw [Nat.min_eq_right (by omega)]
      obtain ⟨m, hm, hmf, hma, hmo⟩ := hsome
      refine ⟨?_, ?_⟩
      · rw [h1, hm]
        constructor
        · rintro ⟨hx, _⟩; cases hx
        · rintro ⟨_, hr⟩
          have := hr i (List.mem_cons_self)
          rw [hf] at this; cases this
      · intro d hd
        obtain ⟨ha, hb, hc⟩ := h2 d hd
        have hdm : d ≤ m := hb m hm
        refine ⟨?_, ?_, ?_⟩
        · rcases ha with ha | ⟨id, g, hid, hg, hdl⟩
          · rw [hm] at ha; cases ha
            rcases hmo with hmo | hmo
            · exact Or.inr ⟨i, f, List.mem_cons_self, hf, hmo.symm⟩
            · exact Or.inl hmo
          · exact Or.inr ⟨id, g, List.mem_cons_of_mem _ hid, hg, hdl⟩
        · intro a ha; exact Nat.le_trans hdm (hma a ha)
        · intro id g hid hg
          rcases List.mem_cons.mp hid with rfl | hid
          · rw [hf] at hg; cases hg; exact Nat.le_trans hdm hmf
          · exact hc id g hid hg

/-- `minDeadline` of a state satisfying the structural invariant: `none` iff no
    flow is live, else the least deadline of a live flow (attained) -/
theorem minDeadline_spec {s : State} (hs : Str s) :
    (minDeadline s = none ↔ ∀ id, get? s.slots id = none) ∧
    ∀ d, minDeadline s = some d →
      (∃ id f, get? s.slots id = some f ∧ f.deadline = d) ∧
      ∀ id f, get? s.slots id = some f → d ≤ f.deadline := by
  have hnc : ∀ id f, get? s.slots id = some f → f.phase ≠ .closing :=
    fun id f hf => (hs.phaseOk id f hf).notClosing
  obtain ⟨h1, h2⟩ := minOver_spec s hnc (liveIds s) none
  rw [minDeadline_eq_minOver]
  refine ⟨?_, ?_⟩
  · rw [h1]
    constructor
    · rintro ⟨_, hr⟩ id
      cases hg : get? s.slots id with
      | none => rfl
      | some g =>
        have : id ∈ liveIds s := (mem_liveIds hs id).mpr (by simp [hg])
        rw [hr id this] at hg; cases hg
    · intro hall; exact ⟨rfl, fun id _ => hall id⟩
  · intro d hd
    obtain ⟨ha, _, hc⟩ := h2 d hd
    refine ⟨?_, ?_⟩
    · rcases ha with ha | ⟨id, f, _, hg, hdl⟩
      · cases ha
      · exact ⟨id, f, hg, hdl⟩
    · intro id f hg
      exact hc id f ((mem_liveIds hs id).mpr (by simp [hg])) hg

/-! ### the shell's timer (lib/src/udp.rs `arm_timer` / `timeout`) -/

/-- the wheel entry the shell holds for the listener after draining `outs`:
    every `ArmTimer d` replaces it (`arm_timer` cancels the previous handle) -/
def wheelAfter (w : Option Nat) (outs : List Out) : Option Nat :=
  outs.foldl (fun w o => match o with
    | .armTimer d => some d
    | _ => w) w

/-- `UdpListenerSession::timeout`: the wheel entry that fired is gone; run
    `handle_timeout`, drain the outputs, and — the repair of finding
    `idle-flow-not-torn-down` — arm again for `poll_timeout()` if it is `Some`. -/
def shellTimeout (repaired : Bool) (s : State) (now : Nat) : State × Option Nat :=
  let r := step s (.timeout now)
  let w := wheelAfter none r.2
  (r.1, if repaired then (match r.1.armed with | some d => some d | none => w) else w)

/-! ### one flow across one input -/

/-- the `SendToBackend`s of flow `id` among some outputs: (destination, bytes) -/
def sendsOf (id : Nat) (outs : List Out) : List (Addr × Bytes) :=
  outs.filterMap fun o => match o with
    | .sendToBackend i d p => if i = id then some (d, p) else none
    | _ => none

theorem sendsOf_sig (id : Nat) (l : List Out) : sendsOf id (sig l) = sendsOf id l := by
  induction l with
  | nil => rfl
  | cons o t ih =>
    cases o <;> simp_all [sig, Out.noise, sendsOf, List.filter_cons, List.filterMap_cons]

theorem sendsOf_append (id : Nat) (a b : List Out) : sendsOf id (a ++ b) = sendsOf id a ++ sendsOf id b := by
  simp [sendsOf, List.filterMap_append]

theorem sendsOf_drops (id : Nat) (l : List Out) (h : ∀ o, o ∈ l → ∃ r, o = .drop r) : sendsOf id l = [] := by
  apply List.filterMap_eq_nil_iff.mpr
  intro o ho; obtain ⟨r, hr⟩ := h o ho; subst hr; rfl

theorem sendsOf_closes (id : Nat) (ids : List Nat) : sendsOf id (ids.map Out.closeFlow) = [] := by
  apply List.filterMap_eq_nil_iff.mpr
  intro o ho; obtain ⟨i, _, rfl⟩ := List.mem_map.mp ho; rfl

theorem sendsOf_closeIf (id j : Nat) (c : Bool) :
    sendsOf id (if c = true then [Out.closeFlow j] else []) = [] := by
  cases c <;> rfl

/-- whether the first / a later upstream datagram of a flow carries the PROXY header -/
def ppFirst (f : Flow) : Bool := f.cfg.sendPP && (f.cfg.ppEvery || f.firstPending)
def ppLater (f : Flow) : Bool := f.cfg.sendPP && f.cfg.ppEvery
def wrap (pp : Bool) (c b : Addr) (o : Bytes) : Bytes := if pp then ppHeader c b ++ o else o

/-- What one input does to one live flow `id` (flow `f` before the input):
    nothing on the wire and the flow stays (`same`, possibly with its buffered
    datagram replaced), it is closed without a send (`closed`), the input's
    datagram is forwarded on it (`forward`), or its buffered datagram is flushed
    by its resolution (`resolve`). -/
inductive FlowStep (s : State) (op : Op) (id : Nat) (f : Flow) : Prop
  | same (f' : Flow) (hs : sendsOf id (step s op).2 = []) (hn : Out.closeFlow id ∉ (step s op).2)
      (hf' : get? (step s op).1.slots id = some f')
      (hcl : f'.client = f.client) (hcfg : f'.cfg = f.cfg) (hb : f'.backend = f.backend)
      (hph' : f'.phase = f.phase) (hfp : f'.firstPending = f.firstPending)
      (hp : f'.pending = f.pending ∨ ∃ src p now, op = .client src p now ∧ f.phase = .awaiting ∧
          get? s.table (flowKey src s.cluster.withPort) = some id ∧ f'.pending = some p)
  | closed (hs : sendsOf id (step s op).2 = []) (hc : Out.closeFlow id ∈ (step s op).2)
      (hnone : get? (step s op).1.slots id = none)
  | forward (src : Addr) (p : Bytes) (now : Nat) (b : Addr) (hop : op = .client src p now)
      (hk : get? s.table (flowKey src s.cluster.withPort) = some id)
      (hph : f.phase = .established) (hb : f.backend = some b)
      (hs : sendsOf id (step s op).2 = [(b, wrap (ppFirst f) f.client b p)])
      (hres : (Out.closeFlow id ∉ (step s op).2 ∧
                get? (step s op).1.slots id = some (f.onClient now).takePP.2) ∨
              (Out.closeFlow id ∈ (step s op).2 ∧ get? (step s op).1.slots id = none))
  | resolve (bid : String) (addr : Addr) (now : Nat) (q : Bytes) (hop : op = .resolved id bid addr now)
      (hph : f.phase = .awaiting) (hq : f.pending = some q)
      (hs : sendsOf id (step s op).2 = [(addr, wrap (ppFirst f) f.client addr q)])
      (hres : (Out.closeFlow id ∉ (step s op).2 ∧
                get? (step s op).1.slots id = some (resolvedFlow f bid addr now)) ∨
              (Out.closeFlow id ∈ (step s op).2 ∧ get? (step s op).1.slots id = none))

theorem flow_step {s : State} (hi : Inv s) (op : Op) (id : Nat) (f : Flow)
    (hf : get? s.slots id = some f) : FlowStep s op id f := by
  obtain ⟨_, k⟩ := step_kind hi op
  have hso : sendsOf id (step s op).2 = sendsOf id (sig (handle s op).outs) := by
    rw [step_snd s op hi.drained, sendsOf_sig]
  have hcm : Out.closeFlow id ∈ (step s op).2 ↔ Out.closeFlow id ∈ sig (handle s op).outs := by
    rw [step_snd s op hi.drained]; exact mem_outs_iff_sig rfl
  have hsl : (step s op).1.slots = (handle s op).slots := step_slots s op hi.drained
  cases k with
  | quiet core sg =>
    obtain ⟨l, hl, hd⟩ := sg
    refine .same f ?_ ?_ ?_ rfl rfl rfl rfl rfl (Or.inl rfl)
    · rw [hso, hl, hi.drained]; simpa using sendsOf_drops id l hd
    · rw [hcm, hl, hi.drained]; intro hc
      obtain ⟨r, hr⟩ := hd _ (by simpa using hc); cases hr
    · rw [hsl, core.slots]; exact hf
  | buffer src p now id' f0 hop hvalid hk hf0 hph hsig slots len table =>
    by_cases e : id = id'
    · subst e; rw [hf] at hf0; cases hf0
      refine .same (Flow.touch { f with pending := some p } f.cfg.frontTo now) ?_ ?_ ?_ rfl rfl rfl rfl rfl
        (Or.inr ⟨src, p, now, hop, hph, hk, rfl⟩)
      · rw [hso, hsig, hi.drained]; rfl
      · rw [hcm, hsig, hi.drained]; simp
      · rw [hsl, slots]; simp
    · refine .same f ?_ ?_ ?_ rfl rfl rfl rfl rfl (Or.inl rfl)
      · rw [hso, hsig, hi.drained]; rfl
      · rw [hcm, hsig, hi.drained]; simp
      · rw [hsl, slots]; simp [e, hf]
  | forward src p now id' f0 b hop hvalid hk hf0 hph hb res =>
    by_cases e : id = id'
    · subst e; rw [hf] at hf0; cases hf0
      refine .forward src p now b hop hk hph hb ?_ ?_
      · rw [hso, res.sig, hi.drained, sendsOf_append, sendsOf_append, sendsOf_closeIf]
        simp only [sig_nil, sendsOf, List.filterMap_nil, List.filterMap_cons, if_true, List.nil_append,
          List.append_nil]
        rw [takePP_fst]; rfl
      · rw [hcm, fwdRes_mem res hi.drained, hsl, res.slots]
        cases ht : (f.onClient now).takePP.2.teardownDue
        · left; simp
        · right; simp
    · have e' : ¬ id' = id := fun h => e h.symm
      refine .same f ?_ ?_ ?_ rfl rfl rfl rfl rfl (Or.inl rfl)
      · rw [hso, res.sig, hi.drained, sendsOf_append, sendsOf_append, sendsOf_closeIf]
        simp [sendsOf, e']
      · rw [hcm, fwdRes_mem res hi.drained]; simp [e]
      · rw [hsl, res.slots]; simp [e, hf]
  | reply id' p now f0 hop hlen hf0 hph res =>
    have hsends : sendsOf id (step s op).2 = [] := by
      rw [hso, res.sig, hi.drained, sendsOf_append, sendsOf_append, sendsOf_closeIf]
      simp [sendsOf]
    by_cases e : id = id'
    · subst e; rw [hf] at hf0; cases hf0
      cases ht : (f.onBackend now).teardownDue
      · refine .same (f.onBackend now) hsends ?_ ?_ rfl rfl rfl rfl rfl (Or.inl rfl)
        · rw [hcm, fwdRes_mem res hi.drained]; simp [ht]
        · rw [hsl, res.slots]; simp [ht]
      · refine .closed hsends ?_ ?_
        · rw [hcm, fwdRes_mem res hi.drained]; simp [ht]
        · rw [hsl, res.slots]; simp [ht]
    · refine .same f hsends ?_ ?_ rfl rfl rfl rfl rfl (Or.inl rfl)
      · rw [hcm, fwdRes_mem res hi.drained]; simp [e]
      · rw [hsl, res.slots]; simp [e, hf]
  | resolve id' bid addr now f0 q hop hf0 hph hq res =>
    by_cases e : id = id'
    · subst e; rw [hf] at hf0; cases hf0
      refine .resolve bid addr now q hop hph hq ?_ ?_
      · rw [hso, res.sig, hi.drained, sendsOf_append, sendsOf_append, sendsOf_closeIf]
        simp only [sig_nil, sendsOf, List.filterMap_nil, List.filterMap_cons, if_true, List.nil_append,
          List.append_nil]
        unfold resolvedPP; rw [takePP_fst]; rfl
      · rw [hcm, fwdRes_mem res hi.drained, hsl, res.slots]
        cases ht : (resolvedFlow f bid addr now).teardownDue
        · left; simp
        · right; simp
    · have e' : ¬ id' = id := fun h => e h.symm
      refine .same f ?_ ?_ ?_ rfl rfl rfl rfl rfl (Or.inl rfl)
      · rw [hso, res.sig, hi.drained, sendsOf_append, sendsOf_append, sendsOf_closeIf]
        simp [sendsOf, e']
      · rw [hcm, fwdRes_mem res hi.drained]; simp [e]
      · rw [hsl, res.slots]; simp [e, hf]
  | admission src p now hop hvalid hnone hroom hnd hvac hsig slots table len =>
    have e : id ≠ nextId s := by intro e; rw [e, hvac] at hf; cases hf
    refine .same f ?_ ?_ ?_ rfl rfl rfl rfl rfl (Or.inl rfl)
    · rw [hso, hsig, hi.drained]; rfl
    · rw [hcm, hsig, hi.drained]; simp
    · rw [hsl, slots]; simp [e, hf]
  | closes ids hnodup hlive hop hsig slots len hle =>
    have hsends : sendsOf id (step s op).2 = [] := by
      rw [hso, hsig, hi.drained, sendsOf_append, sendsOf_closes]; rfl
    by_cases e : id ∈ ids
    · refine .closed hsends ?_ ?_
      · rw [hcm, hsig, hi.drained]; simp [e]
      · rw [hsl, slots]; simp [e]
    · refine .same f hsends ?_ ?_ rfl rfl rfl rfl rfl (Or.inl rfl)
      · rw [hcm, hsig, hi.drained]; simp [e]
      · rw [hsl, slots]; simp [e, hf]

/-! ### one flow incarnation along a run -/

/-- The upstream datagrams of flow id `id` from state `s` along `ops`, up to and
    including the input that closes it: the wire history of the incarnation
    that is live in `s` (an input never both closes and re-admits an id). -/
def flowSends (id : Nat) : State → List Op → List (Addr × Bytes)
  | _, [] => []
  | s, op :: ops => sendsOf id (step s op).2 ++
      (if Out.closeFlow id ∈ (step s op).2 then [] else flowSends id (step s op).1 ops)

/-- the payloads of all client datagrams of a run whose affinity key (ip, plus
    port when `wp`) is that of `c`, in arrival order -/
def keyPayloads (c : Addr) (wp : Bool) (ops : List Op) : List Bytes :=
  ops.filterMap fun op => match op with
    | .client src p _ => if affKey src wp = affKey c wp then some p else none
    | _ => none

/-- the datagram parked in an awaiting flow -/
def buffered (f : Flow) : List Bytes := if f.phase = .awaiting then f.pending.toList else []

/-- what a list of accepted datagrams looks like on the wire of a flow: the
    first one prefixed iff `ppFirst`, the later ones iff `ppLater` -/
def expectPayloads (f : Flow) (b : Addr) : List Bytes → List Bytes
  | [] => []
  | o :: os => wrap (ppFirst f) f.client b o :: os.map (wrap (ppLater f) f.client b)

theorem expect_congr {f f' : Flow} (hcl : f'.client = f.client) (hcfg : f'.cfg = f.cfg)
    (hfp : f'.firstPending = f.firstPending) (b : Addr) (l : List Bytes) :
    expectPayloads f' b l = expectPayloads f b l := by
  cases l with
  | nil => rfl
  | cons o os => simp [expectPayloads, ppFirst, ppLater, hcl, hcfg, hfp]

/-- once a datagram went out, `take_proxy_protocol` leaves the flow in the
    steady regime: a header from now on iff `every datagram` -/
theorem expect_steady {f f' : Flow} (hcl : f'.client = f.client) (hcfg : f'.cfg = f.cfg)
    (hfp : ppFirst f' = ppLater f) (b : Addr) (l : List Bytes) :
    expectPayloads f' b l = l.map (wrap (ppLater f) f.client b) := by
  cases l with
  | nil => rfl
  | cons o os => simp [expectPayloads, hfp, hcl, ppLater, hcfg]

theorem takePP_steady (f : Flow) : ppFirst f.takePP.2 = ppLater f := by
  rw [takePP_snd]
  unfold ppFirst ppLater
  cases f.cfg.sendPP <;> cases f.cfg.ppEvery <;> simp

theorem keyPayloads_cons_sublist (c : Addr) (wp : Bool) (op : Op) (ops : List Op) :
    List.Sublist (keyPayloads c wp ops) (keyPayloads c wp (op :: ops)) := by
  unfold keyPayloads
  rw [List.filterMap_cons]
  split
  · exact List.Sublist.refl _
  · exact List.Sublist.cons _ (List.Sublist.refl _)

theorem keyPayloads_client {c src : Addr} {wp : Bool} (p : Bytes) (now : Nat) (ops : List Op)
    (h : affKey src wp = affKey c wp) :
    keyPayloads c wp (.client src p now :: ops) = p :: keyPayloads c wp ops := by
  simp [keyPayloads, List.filterMap_cons, h]

theorem keyPayloads_resolved (c : Addr) (wp : Bool) (id : Nat) (bid : String) (a : Addr) (now : Nat)
    (ops : List Op) : keyPayloads c wp (.resolved id bid a now :: ops) = keyPayloads c wp ops := by
  simp [keyPayloads, List.filterMap_cons]

/-- a datagram filed under a live flow comes from that flow's affinity key -/
theorem key_of_filed {s : State} (hs : Str s) {src : Addr} {id : Nat} {f : Flow}
    (hk : get? s.table (flowKey src s.cluster.withPort) = some id) (hf : get? s.slots id = some f) :
    affKey src f.cfg.withPort = affKey f.client f.cfg.withPort := by
  obtain ⟨g, hg, hkey⟩ := hs.tableSound _ _ hk
  rw [hf] at hg; cases hg
  have hkey' : flowKey src s.cluster.withPort = flowKey f.client f.cfg.withPort := hkey
  rcases src with ⟨av, aip, ap⟩
  rcases hc : f.client with ⟨bv, bip, bp⟩
  rw [hc] at hkey'
  cases hw : s.cluster.withPort <;> cases hw' : f.cfg.withPort <;> simp_all [flowKey, affKey]

def addr0 : Addr := { v6 := false, ip := [], port := 0 }

/-- **One incarnation along a run.** From a state in which flow `id` is live:
    all its upstream datagrams, until it is closed, go to one address `b` (its
    backend address if already set); their bytes are the wire image
    (`expectPayloads`: PROXY header on the first / on every / on no datagram) of
    a list `origs` of client datagrams, and `origs` is a subsequence — in arrival
    order, nothing duplicated, merged or altered — of the datagram parked in the
    flow followed by the datagrams that the flow's affinity key sent during the run. -/
theorem flow_run (id : Nat) (ops : List Op) : ∀ {s : State} {f : Flow}, Inv s → get? s.slots id = some f →
    ∃ b origs, (∀ b', f.backend = some b' → b' = b) ∧
      (∀ x, x ∈ flowSends id s ops → x.1 = b) ∧
      (flowSends id s ops).map (fun x => x.2) = expectPayloads f b origs ∧
      List.Sublist origs (buffered f ++ keyPayloads f.client f.cfg.withPort ops) := by
  induction ops with
  | nil =>
    intro s f hi hf
    refine ⟨f.backend.getD addr0, [], ?_, ?_, rfl, List.nil_sublist _⟩
    · intro b' hb'; rw [hb']; rfl
    · intro x hx; cases hx
  | cons op ops ih =>
    intro s f hi hf
    have hi' := inv_step hi op
    have hfs : flowSends id s (op :: ops) = sendsOf id (step s op).2 ++
        (if Out.closeFlow id ∈ (step s op).2 then [] else flowSends id (step s op).1 ops) := rfl
    rcases flow_step hi op id f hf with
      ⟨f', hs, hn, hf', hcl, hcfg, hb, hph', hfp, hp⟩ | ⟨hs, hc, hnone⟩ |
      ⟨src, p, now, b0, hop, hk, hph, hb, hs, hres⟩ | ⟨bid, addr, now, q, hop, hph, hq, hs, hres⟩
    · -- nothing on the wire, the flow stays
      obtain ⟨b, origs, h1, h2, h3, h4⟩ := ih hi' hf'
      rw [hfs, hs, if_neg hn, List.nil_append]
      refine ⟨b, origs, ?_, h2, ?_, ?_⟩
      · intro b' hb'; exact h1 b' (by rw [hb, hb'])
      · rw [h3]; exact expect_congr hcl hcfg hfp b origs
      · rw [hcl, hcfg] at h4
        rcases hp with hp | ⟨src, p, now, hop, hphf, hk, hp⟩
        · have hbuf : buffered f' = buffered f := by unfold buffered; rw [hph', hp]
          rw [hbuf] at h4
          exact List.Sublist.trans h4
            (List.Sublist.append (List.Sublist.refl _) (keyPayloads_cons_sublist _ _ _ _))
        · have hbuf : buffered f' = [p] := by unfold buffered; rw [hph', hphf, hp]; rfl
          rw [hbuf] at h4
          rw [hop, keyPayloads_client p now ops (key_of_filed hi.str hk hf)]
          exact List.Sublist.trans h4 (List.sublist_append_right _ _)
    · -- closed without a send
      rw [hfs, hs, if_pos hc]
      refine ⟨f.backend.getD addr0, [], ?_, ?_, rfl, List.nil_sublist _⟩
      · intro b' hb'; rw [hb']; rfl
      · intro x hx; cases hx
    · -- the input's datagram is forwarded
      subst hop
      have hbuf : buffered f = [] := by unfold buffered; rw [hph]; rfl
      have hkp := keyPayloads_client p now ops (key_of_filed hi.str hk hf)
      rw [hfs, hs, hbuf, hkp]
      rcases hres with ⟨hn, hf'⟩ | ⟨hc, hnone⟩
      · obtain ⟨b, origs, h1, h2, h3, h4⟩ := ih hi' hf'
        have hbb : b0 = b := h1 b0 (by rw [takePP_snd]; exact hb)
        subst hbb
        have hcl : (f.onClient now).takePP.2.client = f.client := by rw [takePP_snd]; rfl
        have hcfg : (f.onClient now).takePP.2.cfg = f.cfg := by rw [takePP_snd]; rfl
        have hph2 : (f.onClient now).takePP.2.phase = .established := by rw [takePP_snd]; exact hph
        have hbuf2 : buffered (f.onClient now).takePP.2 = [] := by unfold buffered; rw [hph2]; rfl
        rw [if_neg hn]
        refine ⟨b0, p :: origs, ?_, ?_, ?_, ?_⟩
        · intro b' hb'; rw [hb] at hb'; cases hb'; rfl
        · intro x hx
          rcases List.mem_append.mp hx with hx | hx
          · simp at hx; rw [hx]
          · exact h2 x hx
        · rw [List.map_append, h3]
          have hst : ppFirst (f.onClient now).takePP.2 = ppLater f := takePP_steady (f.onClient now)
          rw [expect_steady hcl hcfg hst]
          rfl
        · rw [hbuf2, hcl, hcfg] at h4
          exact List.Sublist.cons_cons _ h4
      · rw [if_pos hc]
        refine ⟨b0, [p], ?_, ?_, rfl, ?_⟩
        · intro b' hb'; rw [hb] at hb'; cases hb'; rfl
        · intro x hx; simp at hx; rw [hx]
        · exact List.Sublist.cons_cons _ (List.nil_sublist _)
    · -- the buffered datagram is flushed by the resolution
      subst hop
      have hbuf : buffered f = [q] := by unfold buffered; rw [hph, hq]; rfl
      have hnb : f.backend = none := by
        have hp := hi.str.phaseOk id f hf
        cases hb : f.backend with
        | none => rfl
        | some b => have := hp.estab.mpr (by simp [hb]); rw [hph] at this; cases this
      rw [hfs, hs, hbuf, keyPayloads_resolved]
      rcases hres with ⟨hn, hf'⟩ | ⟨hc, hnone⟩
      · obtain ⟨b, origs, h1, h2, h3, h4⟩ := ih hi' hf'
        have hbb : addr = b := h1 addr (by unfold resolvedFlow; rw [takePP_snd]; rfl)
        subst hbb
        have hcl : (resolvedFlow f bid addr now).client = f.client := by unfold resolvedFlow; rw [takePP_snd]; rfl
        have hcfg : (resolvedFlow f bid addr now).cfg = f.cfg := by unfold resolvedFlow; rw [takePP_snd]; rfl
        have hph2 : (resolvedFlow f bid addr now).phase = .established := by
          unfold resolvedFlow; rw [takePP_snd]; rfl
        have hbuf2 : buffered (resolvedFlow f bid addr now) = [] := by unfold buffered; rw [hph2]; rfl
        rw [if_neg hn]
        refine ⟨addr, q :: origs, ?_, ?_, ?_, ?_⟩
        · intro b' hb'; rw [hnb] at hb'; cases hb'
        · intro x hx
          rcases List.mem_append.mp hx with hx | hx
          · simp at hx; rw [hx]
          · exact h2 x hx
        · rw [List.map_append, h3]
          have hst : ppFirst (resolvedFlow f bid addr now) = ppLater f := by
            unfold resolvedFlow; rw [takePP_steady]; rfl
          rw [expect_steady hcl hcfg hst]
          rfl
        · rw [hbuf2, hcl, hcfg] at h4
          exact List.Sublist.cons_cons _ h4
      · rw [if_pos hc]
        refine ⟨addr, [q], ?_, ?_, rfl, ?_⟩
        · intro b' hb'; rw [hnb] at hb'; cases hb'
        · intro x hx; simp at hx; rw [hx]
        · exact List.Sublist.cons_cons _ (List.nil_sublist _)

/-! ### the shell writes every upstream datagram to its own flow's socket -/

/-- The shell's shadow table agrees with the manager's flow table on the
    established flows reachable under the current affinity mode, and each of
    them owns an upstream socket. -/
def ShadowOk (sh : Shell) (s : State) : Prop :=
  ∀ src id f, get? s.table (flowKey src s.cluster.withPort) = some id → get? s.slots id = some f →
    f.phase = .established →
    get? sh.shadow (shellKey src s.cluster.withPort) = some id ∧ (get? sh.endpoints id).isSome = true

theorem drain_sig (wp : Bool) (cur : Option Addr) : ∀ (l : List Out) (sh : Shell),
    Shell.drain wp cur sh (sig l) = Shell.drain wp cur sh l := by
  intro l
  induction l with
  | nil => intro sh; rfl
  | cons o t ih =>
    intro sh
    cases hn : o.noise
    · have : sig (o :: t) = o :: sig t := by simp [sig, List.filter_cons, hn]
      rw [this]; simp only [Shell.drain]; rw [ih]
    · have : sig (o :: t) = sig t := by simp [sig, List.filter_cons, hn]
      rw [this, ih]
      cases o <;> simp [Out.noise] at hn <;> simp [Shell.drain, Shell.onOut]

theorem drain_no_sends (wp : Bool) (cur : Option Addr) : ∀ (l : List Out) (sh : Shell),
    (∀ o, o ∈ l → isToBackend o = false) → (Shell.drain wp cur sh l).2 = [] := by
  intro l
  induction l with
  | nil => intro sh _; rfl
  | cons o t ih =>
    intro sh h
    have ht : ∀ o, o ∈ t → isToBackend o = false := fun o' ho' => h o' (List.mem_cons_of_mem _ ho')
    have ho := h o (List.mem_cons_self)
    cases o <;> simp [isToBackend] at ho <;> simp [Shell.drain, Shell.onOut, ih _ ht]

/-- **Established flows.** In the drain pass of a client datagram (per-datagram
    reset of `in_flight_flow` done), every `SendToBackend` of the manager call is
    written to the socket of the flow that owns it. -/
theorem shell_routes_established {s : State} (hi : Inv s) {sh : Shell} (hok : ShadowOk sh s)
    (src : Addr) (p : Bytes) (now : Nat) :
    ∀ x, x ∈ (Shell.drain s.cluster.withPort (some src) { sh with inFlight := none }
        (step s (.client src p now)).2).2 → x.2 = some x.1 := by
  obtain ⟨_, k⟩ := step_kind hi (.client src p now)
  rw [step_snd s _ hi.drained, ← drain_sig]
  cases k with
  | quiet core sg =>
    obtain ⟨l, hl, hd⟩ := sg
    rw [hl, hi.drained, sig_nil, List.nil_append, drain_no_sends _ _ l]
    · intro x hx; cases hx
    · intro o ho; obtain ⟨r, hr⟩ := hd o ho; subst hr; rfl
  | buffer src' p' now' id f hop hvalid hk hf hph hsig slots len table =>
    rw [hsig, hi.drained]; intro x hx; cases hx
  | forward src' p' now' id f b hop hvalid hk hf hph hb res =>
    cases hop
    obtain ⟨h1, h2⟩ := hok src id f hk hf hph
    rw [res.sig, hi.drained]
    intro x hx
    cases ht : (f.onClient now).takePP.2.teardownDue <;>
      simp [ht, Shell.drain, Shell.onOut, Shell.route, h1, h2] at hx <;> rw [hx]
  | reply id p' now' f hop hlen hf hph res => cases hop
  | resolve id bid addr now' f q hop hf hph hq res => cases hop
  | admission src' p' now' hop hvalid hnone hroom hnd hvac hsig slots table len =>
    rw [hsig, hi.drained]; intro x hx
    simp [Shell.drain, Shell.onOut] at hx
  | closes ids hnodup hlive hop hsig slots len hle =>
    rcases hop with ⟨_, h, _⟩ | ⟨h, _⟩ | ⟨_, h, _⟩ <;> cases h

/-- **New flows.** Whatever the shell's state and the in-flight client: the
    datagram flushed by a resolution is written to the socket opened by the
    `OpenUpstream` that precedes it in the same manager call. -/
theorem shell_routes_resolution {s : State} (hi : Inv s) (sh : Shell) (wp : Bool) (cur : Option Addr)
    (id : Nat) (bid : String) (addr : Addr) (now : Nat) :
    ∀ x, x ∈ (Shell.drain wp cur sh (step s (.resolved id bid addr now)).2).2 → x.2 = some x.1 := by
  obtain ⟨_, k⟩ := step_kind hi (.resolved id bid addr now)
  rw [step_snd s _ hi.drained, ← drain_sig]
  cases k with
  | quiet core sg =>
    obtain ⟨l, hl, hd⟩ := sg
    rw [hl, hi.drained, sig_nil, List.nil_append, drain_no_sends _ _ l]
    · intro x hx; cases hx
    · intro o ho; obtain ⟨r, hr⟩ := hd o ho; subst hr; rfl
  | buffer src' p' now' id' f hop hvalid hk hf hph hsig slots len table => cases hop
  | forward src' p' now' id' f b hop hvalid hk hf hph hb res => cases hop
  | reply id' p' now' f hop hlen hf hph res => cases hop
  | resolve id' bid' addr' now' f q hop hf hph hq res =>
    cases hop
    rw [res.sig, hi.drained]
    intro x hx
    cases ht : (resolvedFlow f bid addr now).teardownDue <;> cases cur <;>
      simp [ht, Shell.drain, Shell.onOut, Shell.route] at hx <;> rw [hx]
  | admission src' p' now' hop hvalid hnone hroom hnd hvac hsig slots table len => cases hop
  | closes ids hnodup hlive hop hsig slots len hle =>
    rcases hop with ⟨_, h, _⟩ | ⟨h, _⟩ | ⟨_, h, _⟩ <;> cases h

/-! ### corollaries in the form the property statements use -/

theorem sticky_run {s : State} (h : Reachable s) (id : Nat) (f : Flow) (hf : getFlow s id = some f)
    (ops : List Op) :
    ∃ b, (∀ b', f.backend = some b' → b' = b) ∧ ∀ x, x ∈ flowSends id s ops → x.1 = b := by
  obtain ⟨b, origs, h1, h2, _, _⟩ := flow_run id ops (reachable_inv h) hf
  exact ⟨b, h1, h2⟩

theorem payload_run {s : State} (h : Reachable s) (id : Nat) (f : Flow) (hf : getFlow s id = some f)
    (ops : List Op) :
    ∃ b origs, (flowSends id s ops).map (fun x => x.2) = expectPayloads f b origs ∧
      List.Sublist origs (buffered f ++ keyPayloads f.client f.cfg.withPort ops) := by
  obtain ⟨b, origs, _, _, h3, h4⟩ := flow_run id ops (reachable_inv h) hf
  exact ⟨b, origs, h3, h4⟩

theorem incarnation_history {s : State} (h : Reachable s) (src : Addr) (p : Bytes) (now id : Nat)
    (cl : String) (k : AKey) (hout : Out.selectBackend id cl k ∈ (step s (.client src p now)).2)
    (ops : List Op) :
    ∃ b origs, (∀ x, x ∈ flowSends id (step s (.client src p now)).1 ops → x.1 = b) ∧
      (flowSends id (step s (.client src p now)).1 ops).map (fun x => x.2) =
        expectPayloads (newFlow src s.cluster p now) b origs ∧
      List.Sublist origs (p :: keyPayloads src s.cluster.withPort ops) := by
  obtain ⟨src', p', now', hop, _, _, _, _, _, hnew, _⟩ := c19_admission h _ id cl k hout
  cases hop
  obtain ⟨b, origs, _, h2, h3, h4⟩ := flow_run id ops (reachable_inv (reachable_step h _)) hnew
  exact ⟨b, origs, h2, h3, h4⟩

theorem timer_armed_is_earliest {s : State} (h : Reachable s) :
    s.armed = minDeadline s ∧ (minDeadline s = none ↔ ∀ id, getFlow s id = none) ∧
    ∀ d, minDeadline s = some d →
      (∃ id f, getFlow s id = some f ∧ f.deadline = d) ∧ ∀ id f, getFlow s id = some f → d ≤ f.deadline := by
  obtain ⟨c, mf, mr, ops, rfl⟩ := h
  have hi := inv_run ops (inv_new c mf mr)
  exact ⟨armedOk_run ops (inv_new c mf mr) (armedOk_new c mf mr), minDeadline_spec hi.str⟩

theorem timer_rearmed {s : State} (h : Reachable s) (now : Nat) :
    (∀ id, getFlow (shellTimeout true s now).1 id = none) ∨
    ∃ d, (shellTimeout true s now).2 = some d ∧ now < d ∧
      (∃ id f, getFlow (shellTimeout true s now).1 id = some f ∧ f.deadline = d) ∧
      ∀ id f, getFlow (shellTimeout true s now).1 id = some f → d ≤ f.deadline := by
  have h' := reachable_step h (.timeout now)
  obtain ⟨ha, hn, hs⟩ := timer_armed_is_earliest h'
  show (∀ id, getFlow (step s (.timeout now)).1 id = none) ∨ _
  cases hm : minDeadline (step s (.timeout now)).1 with
  | none => exact Or.inl (hn.mp hm)
  | some d =>
    right
    obtain ⟨⟨id, f, hf, hd⟩, hmin⟩ := hs d hm
    refine ⟨d, ?_, ?_, ⟨id, f, hf, hd⟩, hmin⟩
    · have harm : (step s (.timeout now)).1.armed = some d := by rw [ha, hm]
      simp [shellTimeout, harm]
    · have := (c19_idle_reclaimed h now).1 id f hf
      omega

theorem shell_established {s : State} (h : Reachable s) {sh : Shell} (hok : ShadowOk sh s)
    (src : Addr) (p : Bytes) (now : Nat) :
    ∀ x, x ∈ (Shell.drain s.cluster.withPort (some src) { sh with inFlight := none }
        (step s (.client src p now)).2).2 → x.2 = some x.1 :=
  shell_routes_established (reachable_inv h) hok src p now

theorem shell_resolution {s : State} (h : Reachable s) (sh : Shell) (wp : Bool) (cur : Option Addr)
    (id : Nat) (bid : String) (addr : Addr) (now : Nat) :
    ∀ x, x ∈ (Shell.drain wp cur sh (step s (.resolved id bid addr now)).2).2 → x.2 = some x.1 :=
  shell_routes_resolution (reachable_inv h) sh wp cur id bid addr now

/-! ### routing removed, aborted admissions, listener glue -/

/-- with an empty cluster (RemoveUdpFrontend / RemoveCluster) a client datagram
    only produces a drop, and nothing of the flow state changes -/
theorem routing_removed {s : State} (h : Reachable s) (hc : s.cluster.cluster = "") (src : Addr)
    (p : Bytes) (now : Nat) :
    (∃ r, (step s (.client src p now)).2 = [.metric (.dropped r), .drop r] ∧ (r = .truncated ∨ r = .noBackend)) ∧
    (step s (.client src p now)).1.slots = s.slots ∧ (step s (.client src p now)).1.table = s.table ∧
    (step s (.client src p now)).1.len = s.len := by
  have hi := reachable_inv h
  rw [step_snd s _ hi.drained, step_slots s _ hi.drained, step_table s _ hi.drained, step_len s _ hi.drained]
  show (∃ r, (onClient s src p now).outs = _ ∧ _) ∧ (onClient s src p now).slots = _ ∧
    (onClient s src p now).table = _ ∧ (onClient s src p now).len = _
  unfold onClient
  by_cases h1 : p.length > s.maxRx
  · simp only [h1, if_true]
    exact ⟨⟨.truncated, by rw [drop_outs, hi.drained]; rfl, Or.inl rfl⟩, rfl, rfl, rfl⟩
  · have h2 : s.cluster.cluster.isEmpty = true := by rw [hc]; rfl
    simp only [h1, h2, if_true, if_false]
    exact ⟨⟨.noBackend, by rw [drop_outs, hi.drained]; rfl, Or.inr rfl⟩, rfl, rfl, rfl⟩

/-- `abort_flow` on a live flow closes it: one `CloseFlow`, slot vacant, one flow less -/
theorem abort_closes {s : State} (h : Reachable s) (id : Nat) (f : Flow) (hf : getFlow s id = some f) :
    Out.closeFlow id ∈ (step s (.abort id)).2 ∧ getFlow (step s (.abort id)).1 id = none ∧
    (step s (.abort id)).1.len + 1 = s.len := by
  have hi := reachable_inv h
  simp only [getFlow_def] at hf ⊢
  rw [step_snd s _ hi.drained, step_slots s _ hi.drained, step_len s _ hi.drained]
  show Out.closeFlow id ∈ (closeFlow s id).outs ∧ get? (closeFlow s id).slots id = none ∧
    (closeFlow s id).len + 1 = s.len
  have hpos := len_pos_of_live hi.str hf
  refine ⟨?_, by rw [closeFlow_get hi.str]; simp, ?_⟩
  · rw [closeFlow_live hi.str hf]
    rcases reschedule_outs (push (push (closedCore s id f) (.metric .flowEvicted)) (.closeFlow id)) with e | ⟨d, e⟩ <;>
      rw [e] <;> simp
  · rw [closeFlow_live hi.str hf, (sameCore_reschedule _).len]
    show (closedCore s id f).len + 1 = s.len
    simp [closedCore, slabRemove]; omega

/-- an admission that the shell aborts at once (no backend for the cluster)
    leaves no trace: the live count is what it was, the slot is vacant again and
    no table key points at it -/
theorem aborted_admission {s : State} (h : Reachable s) (src : Addr) (p : Bytes) (now id : Nat)
    (cl : String) (k : AKey) (hout : Out.selectBackend id cl k ∈ (step s (.client src p now)).2) :
    Out.closeFlow id ∈ (step (step s (.client src p now)).1 (.abort id)).2 ∧
    (step (step s (.client src p now)).1 (.abort id)).1.len = s.len ∧
    getFlow (step (step s (.client src p now)).1 (.abort id)).1 id = none ∧
    ∀ key, get? (step (step s (.client src p now)).1 (.abort id)).1.table key ≠ some id := by
  obtain ⟨src', p', now', hop, _, _, _, _, _, hnew, hlen⟩ := c19_admission h _ id cl k hout
  have h1 := reachable_step h (.client src p now)
  obtain ⟨ha, hb, hc⟩ := abort_closes h1 id _ hnew
  refine ⟨ha, by omega, hb, (c19_close_once h1 (.abort id)).2 id ha |>.2.2⟩

theorem cap_glue (configured rlimit headroom : Nat) :
    (configured ≠ 0 → effectiveMaxFlows configured rlimit headroom = configured) ∧
    1 ≤ effectiveMaxFlows 0 rlimit headroom ∧
    (headroom ≠ 0 → effectiveMaxFlows 0 rlimit headroom ≤ headroom) ∧
    (headroom = 0 → 0 < rlimit → effectiveMaxFlows 0 rlimit headroom = max (rlimit * 7 / 10) 1) := by
  refine ⟨?_, ?_, ?_, ?_⟩
  · intro hc; simp [effectiveMaxFlows, hc]
  · simp only [effectiveMaxFlows, ne_eq, not_true_eq_false, if_false]
    by_cases hh : headroom = 0 <;> by_cases hr : rlimit > 0 <;> simp [hh, hr] <;> omega
  · intro hh
    simp only [effectiveMaxFlows, ne_eq, not_true_eq_false, if_false, hh]
    by_cases hr : rlimit > 0 <;> simp [hr] <;> omega
  · intro hh hr
    simp [effectiveMaxFlows, hh, hr]

theorem rx_glue (configured bufferSize : Nat) :
    clampMaxRx configured bufferSize ≤ configured ∧
    (bufferSize ≠ 0 → clampMaxRx configured bufferSize ≤ bufferSize) ∧
    (configured ≤ bufferSize → clampMaxRx configured bufferSize = configured) := by
  unfold clampMaxRx
  by_cases hb : bufferSize = 0 <;> simp [hb] <;> omega

/-! ### listener life cycle -/

/-- no socket is registered for a listener that is not in the proxy's map
    (what `RemoveListener` guarantees since it takes the socket) -/
def LstWf (l : Lst) : Prop := l.inMap = false → l.socket = false

theorem lstWf_step (k : Bool) (l : Lst) (op : LOp) (h : LstWf l) : LstWf (Lst.step k l op) := by
  unfold LstWf at *
  cases op <;> by_cases hm : l.inMap = true <;> by_cases hs : l.socket = true <;> simp_all [Lst.step]

theorem lstWf_run (k : Bool) (ops : List LOp) : ∀ l, LstWf l → LstWf (Lst.run k l ops) := by
  induction ops with
  | nil => intro l h; exact h
  | cons op ops ih => intro l h; exact ih _ (lstWf_step k l op h)

theorem lst_removed_stays {k : Bool} (ops : List LOp) : ∀ (l : Lst), l.inMap = false → l.socket = false →
    LOp.add ∉ ops → (Lst.run k l ops).ingests = false := by
  induction ops with
  | nil => intro l _ hs _; simp [Lst.run, Lst.ingests, hs]
  | cons op ops ih =>
    intro l hm hs hno
    have hop : op ≠ .add := fun e => hno (by rw [e]; exact List.mem_cons_self)
    have hrest : LOp.add ∉ ops := fun h => hno (List.mem_cons_of_mem _ h)
    have hstep : Lst.step k l op = l := by
      cases op <;> simp [Lst.step, hm] at hop ⊢
    show (Lst.run k (Lst.step k l op) ops).ingests = false
    rw [hstep]; exact ih l hm hs hrest

theorem lst_removed_silent (k : Bool) (before after : List LOp) (hno : LOp.add ∉ after) :
    (Lst.run k Lst.none (before ++ [.remove] ++ after)).ingests = false := by
  have hrun : Lst.run k Lst.none (before ++ [.remove] ++ after) =
      Lst.run k (Lst.step k (Lst.run k Lst.none before) .remove) after := by
    simp [Lst.run, List.foldl_append]
  rw [hrun]
  have hwf : LstWf (Lst.run k Lst.none before) := lstWf_run k before _ (by intro _; rfl)
  by_cases hm : (Lst.run k Lst.none before).inMap = true
  · exact lst_removed_stays after _ (by simp [Lst.step, hm]) (by simp [Lst.step, hm]) hno
  · have hm' : (Lst.run k Lst.none before).inMap = false := by simpa using hm
    have hst : Lst.step k (Lst.run k Lst.none before) .remove = Lst.run k Lst.none before := by
      simp [Lst.step, hm']
    rw [hst]
    exact lst_removed_stays after _ hm' (hwf hm') hno

/-- under the token-keeping deactivate, a listener in the map always has its slab token -/
theorem lst_token_kept (ops : List LOp) : ∀ l, (l.inMap = true → l.slabToken = true) →
    ((Lst.run true l ops).inMap = true → (Lst.run true l ops).slabToken = true) := by
  induction ops with
  | nil => intro l h; exact h
  | cons op ops ih =>
    intro l h
    apply ih
    cases op <;> by_cases hm : l.inMap = true <;> by_cases hs : l.socket = true <;> simp_all [Lst.step]

theorem lst_reactivation_partial (ops : List LOp) (hm : (Lst.run true Lst.none ops).inMap = true) :
    (Lst.run true (Lst.run true Lst.none ops) [.deactivate, .activate]).ingests = true := by
  have ht := lst_token_kept ops Lst.none (by intro h; cases h) hm
  generalize Lst.run true Lst.none ops = l at hm ht
  rcases l with ⟨m, sk, tk, se⟩
  simp at hm ht; subst hm; subst ht
  cases sk <;> simp [Lst.run, Lst.step, Lst.ingests]

end Sozu.Udp
