import Sozu.H2Wire.Model
/-
Helper lemmas for the H2 wire model: what each parser returns on success, on
`eof` and on failure; big-endian encode/decode; the flood-detector invariant.
-/
namespace Sozu.H2Wire
open Sozu

/-! ### header -/

theorem frameHeader_ok {input : Bytes} {mfs : Nat} {h : Header} {rest : Bytes}
    (e : frameHeader input mfs = .ok h rest) :
    9 ≤ input.length ∧ rest = input.drop 9 ∧ h.len = declaredLen input ∧ h.len ≤ mfs ∧
      sidValid h.ftype h.sid = true := by
  unfold frameHeader at e
  split at e
  · cases e
  · simp only at e
    split at e
    · cases e
    · split at e
      · cases e
      · split at e
        · cases e
          refine ⟨by omega, rfl, rfl, by simp_all, by assumption⟩
        · cases e

theorem frameHeader_eof {input : Bytes} {mfs : Nat} (e : frameHeader input mfs = .eof) :
    input.length < 9 := by
  unfold frameHeader at e
  split at e
  · omega
  · simp only at e
    split at e
    · cases e
    · split at e
      · omega
      · split at e <;> cases e

theorem frameHeader_fail {input : Bytes} {mfs c : Nat} (e : frameHeader input mfs = .fail c) :
    c = PROTOCOL_ERROR ∨ c = FRAME_SIZE_ERROR := by
  unfold frameHeader at e
  split at e
  · cases e
  · simp only at e
    split at e
    · cases e; exact Or.inr rfl
    · split at e
      · cases e
      · split at e
        · cases e
        · cases e; exact Or.inl rfl

/-! ### bodies -/

theorem stripPadding_fail {i : Bytes} {flags c : Nat} (e : stripPadding i flags = .fail c) :
    c = PROTOCOL_ERROR := by
  unfold stripPadding at e
  split at e
  · split at e
    · cases e
    · split at e <;> cases e; rfl
  · cases e

/-- the only way `strip_padding` runs out of input: PADDED on an empty payload -/
theorem stripPadding_eof {i : Bytes} {flags : Nat} (e : stripPadding i flags = .eof) :
    flagSet flags Consts.h2FlagPadded = true ∧ i = [] := by
  unfold stripPadding at e
  split at e
  · split at e
    · exact ⟨by assumption, rfl⟩
    · split at e <;> cases e
  · cases e

theorem stripPadding_ok {i : Bytes} {flags pad : Nat} {rest : Bytes} (e : stripPadding i flags = .ok pad rest) :
    (flagSet flags Consts.h2FlagPadded = true ∧ i = pad :: rest ∧ pad ≤ rest.length) ∨
    (flagSet flags Consts.h2FlagPadded = false ∧ pad = 0 ∧ rest = i) := by
  unfold stripPadding at e
  split at e
  · split at e
    · cases e
    · split at e
      · cases e
      · cases e; left; exact ⟨by assumption, rfl, by omega⟩
  · cases e; right; exact ⟨by simp_all, rfl, rfl⟩

theorem dataFrame_ok {i : Bytes} {h : Header} {f : Frame} {rest : Bytes} (e : dataFrame i h = .ok f rest) :
    h.len ≤ i.length ∧ rest = i.drop h.len := by
  unfold dataFrame at e
  split at e
  · cases e
  · split at e
    · cases e
    · cases e
    · split at e
      · cases e
      · cases e; exact ⟨by omega, rfl⟩

theorem dataFrame_fail {i : Bytes} {h : Header} {c : Nat} (e : dataFrame i h = .fail c) :
    c = PROTOCOL_ERROR := by
  unfold dataFrame at e
  split at e
  · cases e
  · split at e
    · cases e
    · next e' => cases e; exact stripPadding_fail e'
    · split at e
      · cases e; rfl
      · cases e

theorem dataFrame_eof {i : Bytes} {h : Header} (e : dataFrame i h = .eof) :
    i.length < h.len ∨ (flagSet h.flags Consts.h2FlagPadded = true ∧ h.len = 0) := by
  unfold dataFrame at e
  split at e
  · left; assumption
  · split at e
    · next e' =>
      right
      have := stripPadding_eof e'
      refine ⟨this.1, ?_⟩
      have h2 := congrArg List.length this.2
      rw [List.length_take, List.length_nil] at h2
      omega
    · cases e
    · split at e <;> cases e

theorem frameBody_ok {i : Bytes} {h : Header} {f : Frame} {rest : Bytes} (e : frameBody i h = .ok f rest) :
    h.len ≤ i.length ∧ rest = i.drop h.len := by
  unfold frameBody at e
  split at e
  all_goals
    try unfold dataFrame at e
    try unfold headersFrame at e
    try unfold priorityFrame at e
    try unfold rstStreamFrame at e
    try unfold pushPromiseFrame at e
    try unfold continuationFrame at e
    try unfold settingsFrame at e
    try unfold pingFrame at e
    try unfold goAwayFrame at e
    try unfold windowUpdateFrame at e
    try unfold priorityUpdateFrame at e
    try unfold unknownFrame at e
    grind

theorem frameBody_fail {i : Bytes} {h : Header} {c : Nat} (e : frameBody i h = .fail c) :
    c = PROTOCOL_ERROR ∨ c = FRAME_SIZE_ERROR := by
  unfold frameBody at e
  split at e
  all_goals
    try unfold dataFrame at e
    try unfold headersFrame at e
    try unfold priorityFrame at e
    try unfold rstStreamFrame at e
    try unfold pushPromiseFrame at e
    try unfold continuationFrame at e
    try unfold settingsFrame at e
    try unfold pingFrame at e
    try unfold goAwayFrame at e
    try unfold windowUpdateFrame at e
    try unfold priorityUpdateFrame at e
    try unfold unknownFrame at e
    grind [stripPadding_fail]

theorem stripPadding_eof_len {i : Bytes} {flags : Nat} (e : stripPadding i flags = .eof) :
    flagSet flags Consts.h2FlagPadded = true ∧ i.length = 0 := by
  have := stripPadding_eof e
  simp [this.1, this.2]

theorem stripPadding_ok_len {i : Bytes} {flags pad : Nat} {rest : Bytes} (e : stripPadding i flags = .ok pad rest) :
    (flagSet flags Consts.h2FlagPadded = true ∧ i.length = rest.length + 1 ∧ pad ≤ rest.length) ∨
    (flagSet flags Consts.h2FlagPadded = false ∧ pad = 0 ∧ rest = i) := by
  rcases stripPadding_ok e with ⟨a, b, c⟩ | h
  · left; exact ⟨a, by simp [b], c⟩
  · right; exact h

/-- when the body parser reports `eof` although the declared payload is present -/
def eofOnComplete (h : Header) : Prop :=
  (h.ftype = .data ∧ flagSet h.flags Consts.h2FlagPadded = true ∧ h.len = 0) ∨
  (h.ftype = .headers ∧ flagSet h.flags Consts.h2FlagPadded = true ∧ h.len = 0) ∨
  (h.ftype = .headers ∧ flagSet h.flags Consts.h2FlagPriority = true ∧
     h.len < 5 + (if flagSet h.flags Consts.h2FlagPadded then 1 else 0))

theorem headersFrame_eof {i : Bytes} {h : Header} (e : headersFrame i h = .eof) :
    i.length < h.len ∨ (flagSet h.flags Consts.h2FlagPadded = true ∧ h.len = 0) ∨
      (flagSet h.flags Consts.h2FlagPriority = true ∧
        h.len < 5 + (if flagSet h.flags Consts.h2FlagPadded then 1 else 0)) := by
  unfold headersFrame at e
  split at e
  · left; assumption
  · have hl : (i.take h.len).length = h.len := by rw [List.length_take]; omega
    right
    split at e
    · next e' =>
      have := stripPadding_eof_len e'
      left; exact ⟨this.1, by omega⟩
    · cases e
    · next pad i2 e' =>
      split at e
      · next hp =>
        split at e
        · next hlt =>
          right
          refine ⟨hp, ?_⟩
          rcases stripPadding_ok_len e' with ⟨a, b, _⟩ | ⟨a, _, c⟩
          · simp [a]; omega
          · subst c; simp [a]; omega
        · split at e <;> cases e
      · split at e <;> cases e

theorem frameBody_eof {i : Bytes} {h : Header} (e : frameBody i h = .eof) :
    i.length < h.len ∨ eofOnComplete h := by
  unfold frameBody at e
  split at e
  · next ht => rcases dataFrame_eof e with a | a
               · left; exact a
               · right; left; exact ⟨ht, a⟩
  · next ht => rcases headersFrame_eof e with a | a | a
               · left; exact a
               · right; right; left; exact ⟨ht, a⟩
               · right; right; right; exact ⟨ht, a⟩
  all_goals
    try unfold priorityFrame at e
    try unfold rstStreamFrame at e
    try unfold pushPromiseFrame at e
    try unfold continuationFrame at e
    try unfold settingsFrame at e
    try unfold pingFrame at e
    try unfold goAwayFrame at e
    try unfold windowUpdateFrame at e
    try unfold priorityUpdateFrame at e
    try unfold unknownFrame at e
    left
    grind [List.length_take, Consts.h2PriorityPayloadSize, Consts.h2RstStreamPayloadSize, Consts.h2GoawayPayloadSize, Consts.h2WindowUpdatePayloadSize, Consts.h2PingPayloadSize]

theorem decode_ok {input : Bytes} {mfs : Nat} {h : Header} {f : Frame} {c : Nat}
    (e : decode input mfs = .ok h f c) :
    ∃ rest rest', frameHeader input mfs = .ok h rest ∧ frameBody rest h = .ok f rest' ∧
      c = input.length - rest'.length := by
  unfold decode at e
  split at e
  · cases e
  · cases e
  · next h0 rest e0 =>
    split at e
    · next f0 rest' e1 => cases e; exact ⟨rest, rest', e0, e1, rfl⟩
    · cases e
    · split at e <;> cases e

theorem decode_incomplete {input : Bytes} {mfs : Nat} (e : decode input mfs = .incomplete) :
    frameHeader input mfs = .eof ∨
    ∃ h rest, frameHeader input mfs = .ok h rest ∧ frameBody rest h = .eof ∧ rest.length < h.len := by
  unfold decode at e
  split at e
  · next e0 => left; exact e0
  · cases e
  · next h0 rest e0 =>
    split at e
    · cases e
    · cases e
    · next e1 =>
      split at e
      · next hlt => right; exact ⟨h0, rest, e0, e1, hlt⟩
      · cases e

theorem decode_err {input : Bytes} {mfs c : Nat} (e : decode input mfs = .err c) :
    frameHeader input mfs = .fail c ∨
    ∃ h rest, frameHeader input mfs = .ok h rest ∧
      (frameBody rest h = .fail c ∨ (frameBody rest h = .eof ∧ ¬ rest.length < h.len ∧ c = PROTOCOL_ERROR)) := by
  unfold decode at e
  split at e
  · cases e
  · next c0 e0 => cases e; left; exact e0
  · next h0 rest e0 =>
    right
    split at e
    · cases e
    · next c1 e1 => cases e; exact ⟨h0, rest, e0, Or.inl e1⟩
    · next e1 =>
      split at e
      · cases e
      · next hn => cases e; exact ⟨h0, rest, e0, Or.inr ⟨e1, hn, rfl⟩⟩


/-! ### classification of complete frames -/

inductive Outcome where
  | accept
  | error (code : Nat)
deriving DecidableEq, Repr

def bodyClass (h : Header) (pad0 : Nat) : Outcome :=
  let p := if flagSet h.flags Consts.h2FlagPadded then 1 else 0
  let pad := if flagSet h.flags Consts.h2FlagPadded then pad0 else 0
  match h.ftype with
  | .data => if h.len < p + pad then .error PROTOCOL_ERROR else .accept
  | .headers =>
    let q := if flagSet h.flags Consts.h2FlagPriority then 5 else 0
    if h.len < p + q + pad then .error PROTOCOL_ERROR else .accept
  | .priority => if h.len = 5 then .accept else .error FRAME_SIZE_ERROR
  | .rstStream => if h.len = 4 then .accept else .error FRAME_SIZE_ERROR
  | .settings =>
    if flagSet h.flags Consts.h2FlagAck = true ∧ h.len ≠ 0 then .error FRAME_SIZE_ERROR
    else if h.len % 6 ≠ 0 then .error FRAME_SIZE_ERROR
    else if h.len / 6 > 64 then .error FRAME_SIZE_ERROR
    else .accept
  | .pushPromise => .error PROTOCOL_ERROR
  | .ping => if h.len = 8 then .accept else .error FRAME_SIZE_ERROR
  | .goAway => if h.len ≥ 8 then .accept else .error FRAME_SIZE_ERROR
  | .windowUpdate => if h.len = 4 then .accept else .error FRAME_SIZE_ERROR
  | .continuation => .accept
  | .priorityUpdate =>
    if h.len < 4 then .error FRAME_SIZE_ERROR
    else if h.len - 4 > 1024 then .error PROTOCOL_ERROR
    else .accept
  | .unknown _ => .accept

/-- outcome of the body parser once the payload is complete (`error_nom_to_h2`) -/
def bodyOutcome : PRes Frame → Outcome
  | .ok _ _ => .accept
  | .fail c => .error c
  | .eof => .error PROTOCOL_ERROR

theorem bodyClass_data (i : Bytes) (h : Header) (hc : h.len ≤ i.length) (ht : h.ftype = .data) :
    bodyOutcome (frameBody i h) = bodyClass h ((i.take h.len).headD 0) := by
  have hl : (i.take h.len).length = h.len := by rw [List.length_take]; omega
  have hn : ¬ i.length < h.len := by omega
  unfold frameBody bodyClass dataFrame
  simp only [ht, hn, if_false]
  generalize i.take h.len = l at hl
  unfold stripPadding unpad bodyOutcome
  grind

theorem bodyClass_headers (i : Bytes) (h : Header) (hc : h.len ≤ i.length) (ht : h.ftype = .headers) :
    bodyOutcome (frameBody i h) = bodyClass h ((i.take h.len).headD 0) := by
  have hl : (i.take h.len).length = h.len := by rw [List.length_take]; omega
  have hn : ¬ i.length < h.len := by omega
  unfold frameBody bodyClass headersFrame
  simp only [ht, hn, if_false]
  generalize i.take h.len = l at hl
  unfold stripPadding unpad bodyOutcome
  grind

theorem bodyClass_other (i : Bytes) (h : Header) (hc : h.len ≤ i.length)
    (ht : h.ftype ≠ .data) (ht' : h.ftype ≠ .headers) (pad0 : Nat) :
    bodyOutcome (frameBody i h) = bodyClass h pad0 := by
  have hl : (i.take h.len).length = h.len := by rw [List.length_take]; omega
  have hn : ¬ i.length < h.len := by omega
  unfold frameBody bodyClass
  split
  · exact absurd (by assumption) ht
  · exact absurd (by assumption) ht'
  all_goals
    try unfold priorityFrame
    try unfold rstStreamFrame
    try unfold pushPromiseFrame
    try unfold continuationFrame
    try unfold settingsFrame
    try unfold pingFrame
    try unfold goAwayFrame
    try unfold windowUpdateFrame
    try unfold priorityUpdateFrame
    try unfold unknownFrame
    unfold bodyOutcome
    simp only [Consts.h2PriorityPayloadSize, Consts.h2RstStreamPayloadSize, Consts.h2GoawayPayloadSize,
      Consts.h2WindowUpdatePayloadSize, Consts.h2PingPayloadSize, Consts.h2SettingsEntrySize,
      Consts.h2MaxSettingsEntries, Consts.h2PriorityUpdateMinPayload, Consts.h2PriorityUpdateMaxValue]
    grind

theorem bodyClass_eq (i : Bytes) (h : Header) (hc : h.len ≤ i.length) :
    bodyOutcome (frameBody i h) = bodyClass h ((i.take h.len).headD 0) := by
  by_cases ht : h.ftype = .data
  · exact bodyClass_data i h hc ht
  · by_cases ht' : h.ftype = .headers
    · exact bodyClass_headers i h hc ht'
    · exact bodyClass_other i h hc ht ht' _


end Sozu.H2Wire
