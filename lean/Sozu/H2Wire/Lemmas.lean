import Sozu.H2Wire.Model
/-
Helper lemmas for the H2 wire model: what each parser returns on success, on
`eof` and on failure; big-endian encode/decode; the flood-detector invariant.
-/
namespace Sozu.H2Wire
open Sozu

/-! ### header -/

theorem frameHeader_ok {input : Bytes} {mfs : Nat} {h : Header} {rest : Bytes}
    (e : frameHeader input mfs = .ok h rest) :
    9 ≤ input.length ∧ rest = input.drop 9 ∧ h.len = declaredLen input ∧ h.len ≤ mfs ∧
      sidValid h.ftype h.sid = true := by
  unfold frameHeader at e
  split at e
  · cases e
  · simp only at e
    split at e
    · cases e
    · split at e
      · cases e
      · split at e
        · cases e
          refine ⟨by omega, rfl, rfl, by simp_all, by assumption⟩
        · cases e

theorem frameHeader_eof {input : Bytes} {mfs : Nat} (e : frameHeader input mfs = .eof) :
    input.length < 9 := by
  unfold frameHeader at e
  split at e
  · omega
  · simp only at e
    split at e
    · cases e
    · split at e
      · omega
      · split at e <;> cases e

theorem frameHeader_fail {input : Bytes} {mfs c : Nat} (e : frameHeader input mfs = .fail c) :
    c = PROTOCOL_ERROR ∨ c = FRAME_SIZE_ERROR := by
  unfold frameHeader at e
  split at e
  · cases e
  · simp only at e
    split at e
    · cases e; exact Or.inr rfl
    · split at e
      · cases e
      · split at e
        · cases e
        · cases e; exact Or.inl rfl

/-! ### bodies -/

theorem stripPadding_fail {i : Bytes} {flags c : Nat} (e : stripPadding i flags = .fail c) :
    c = PROTOCOL_ERROR := by
  unfold stripPadding at e
  split at e
  · split at e
    · cases e
    · split at e <;> cases e; rfl
  · cases e

/-- the only way `strip_padding` runs out of input: PADDED on an empty payload -/
theorem stripPadding_eof {i : Bytes} {flags : Nat} (e : stripPadding i flags = .eof) :
    flagSet flags Consts.h2FlagPadded = true ∧ i = [] := by
  unfold stripPadding at e
  split at e
  · split at e
    · exact ⟨by assumption, rfl⟩
    · split at e <;> cases e
  · cases e

theorem stripPadding_ok {i : Bytes} {flags pad : Nat} {rest : Bytes} (e : stripPadding i flags = .ok pad rest) :
    (flagSet flags Consts.h2FlagPadded = true ∧ i = pad :: rest ∧ pad ≤ rest.length) ∨
    (flagSet flags Consts.h2FlagPadded = false ∧ pad = 0 ∧ rest = i) := by
  unfold stripPadding at e
  split at e
  · split at e
    · cases e
    · split at e
      · cases e
      · cases e; left; exact ⟨by assumption, rfl, by omega⟩
  · cases e; right; exact ⟨by simp_all, rfl, rfl⟩

theorem dataFrame_ok {i : Bytes} {h : Header} {f : Frame} {rest : Bytes} (e : dataFrame i h = .ok f rest) :
    h.len ≤ i.length ∧ rest = i.drop h.len := by
  unfold dataFrame at e
  split at e
  · cases e
  · split at e
    · cases e
    · cases e
    · split at e
      · cases e
      · cases e; exact ⟨by omega, rfl⟩

theorem dataFrame_fail {i : Bytes} {h : Header} {c : Nat} (e : dataFrame i h = .fail c) :
    c = PROTOCOL_ERROR := by
  unfold dataFrame at e
  split at e
  · cases e
  · split at e
    · cases e
    · next e' => cases e; exact stripPadding_fail e'
    · split at e
      · cases e; rfl
      · cases e

theorem dataFrame_eof {i : Bytes} {h : Header} (e : dataFrame i h = .eof) :
    i.length < h.len ∨ (flagSet h.flags Consts.h2FlagPadded = true ∧ h.len = 0) := by
  unfold dataFrame at e
  split at e
  · left; assumption
  · split at e
    · next e' =>
      right
      have := stripPadding_eof e'
      refine ⟨this.1, ?_⟩
      have h2 := congrArg List.length this.2
      rw [List.length_take, List.length_nil] at h2
      omega
    · cases e
    · split at e <;> cases e

theorem frameBody_ok {i : Bytes} {h : Header} {f : Frame} {rest : Bytes} (e : frameBody i h = .ok f rest) :
    h.len ≤ i.length ∧ rest = i.drop h.len := by
  unfold frameBody at e
  split at e
  all_goals
    try unfold dataFrame at e
    try unfold headersFrame at e
    try unfold priorityFrame at e
    try unfold rstStreamFrame at e
    try unfold pushPromiseFrame at e
    try unfold continuationFrame at e
    try unfold settingsFrame at e
    try unfold pingFrame at e
    try unfold goAwayFrame at e
    try unfold windowUpdateFrame at e
    try unfold priorityUpdateFrame at e
    try unfold unknownFrame at e
    grind

theorem frameBody_fail {i : Bytes} {h : Header} {c : Nat} (e : frameBody i h = .fail c) :
    c = PROTOCOL_ERROR ∨ c = FRAME_SIZE_ERROR := by
  unfold frameBody at e
  split at e
  all_goals
    try unfold dataFrame at e
    try unfold headersFrame at e
    try unfold priorityFrame at e
    try unfold rstStreamFrame at e
    try unfold pushPromiseFrame at e
    try unfold continuationFrame at e
    try unfold settingsFrame at e
    try unfold pingFrame at e
    try unfold goAwayFrame at e
    try unfold windowUpdateFrame at e
    try unfold priorityUpdateFrame at e
    try unfold unknownFrame at e
    grind [stripPadding_fail]

theorem stripPadding_eof_len {i : Bytes} {flags : Nat} (e : stripPadding i flags = .eof) :
    flagSet flags Consts.h2FlagPadded = true ∧ i.length = 0 := by
  have := stripPadding_eof e
  simp [this.1, this.2]

theorem stripPadding_ok_len {i : Bytes} {flags pad : Nat} {rest : Bytes} (e : stripPadding i flags = .ok pad rest) :
    (flagSet flags Consts.h2FlagPadded = true ∧ i.length = rest.length + 1 ∧ pad ≤ rest.length) ∨
    (flagSet flags Consts.h2FlagPadded = false ∧ pad = 0 ∧ rest = i) := by
  rcases stripPadding_ok e with ⟨a, b, c⟩ | h
  · left; exact ⟨a, by simp [b], c⟩
  · right; exact h

/-- when the body parser reports `eof` although the declared payload is present -/
def eofOnComplete (h : Header) : Prop :=
  (h.ftype = .data ∧ flagSet h.flags Consts.h2FlagPadded = true ∧ h.len = 0) ∨
  (h.ftype = .headers ∧ flagSet h.flags Consts.h2FlagPadded = true ∧ h.len = 0) ∨
  (h.ftype = .headers ∧ flagSet h.flags Consts.h2FlagPriority = true ∧
     h.len < 5 + (if flagSet h.flags Consts.h2FlagPadded then 1 else 0))

theorem headersFrame_eof {i : Bytes} {h : Header} (e : headersFrame i h = .eof) :
    i.length < h.len ∨ (flagSet h.flags Consts.h2FlagPadded = true ∧ h.len = 0) ∨
      (flagSet h.flags Consts.h2FlagPriority = true ∧
        h.len < 5 + (if flagSet h.flags Consts.h2FlagPadded then 1 else 0)) := by
  unfold headersFrame at e
  split at e
  · left; assumption
  · have hl : (i.take h.len).length = h.len := by rw [List.length_take]; omega
    right
    split at e
    · next e' =>
      have := stripPadding_eof_len e'
      left; exact ⟨this.1, by omega⟩
    · cases e
    · next pad i2 e' =>
      split at e
      · next hp =>
        split at e
        · next hlt =>
          right
          refine ⟨hp, ?_⟩
          rcases stripPadding_ok_len e' with ⟨a, b, _⟩ | ⟨a, _, c⟩
          · simp [a]; omega
          · subst c; simp [a]; omega
        · split at e <;> cases e
      · split at e <;> cases e

theorem frameBody_eof {i : Bytes} {h : Header} (e : frameBody i h = .eof) :
    i.length < h.len ∨ eofOnComplete h := by
  unfold frameBody at e
  split at e
  · next ht => rcases dataFrame_eof e with a | a
               · left; exact a
               · right; left; exact ⟨ht, a⟩
  · next ht => rcases headersFrame_eof e with a | a | a
               · left; exact a
               · right; right; left; exact ⟨ht, a⟩
               · right; right; right; exact ⟨ht, a⟩
  all_goals
    try unfold priorityFrame at e
    try unfold rstStreamFrame at e
    try unfold pushPromiseFrame at e
    try unfold continuationFrame at e
    try unfold settingsFrame at e
    try unfold pingFrame at e
    try unfold goAwayFrame at e
    try unfold windowUpdateFrame at e
    try unfold priorityUpdateFrame at e
    try unfold unknownFrame at e
    left
    grind [List.length_take, Consts.h2PriorityPayloadSize, Consts.h2RstStreamPayloadSize, Consts.h2GoawayPayloadSize, Consts.h2WindowUpdatePayloadSize, Consts.h2PingPayloadSize]

theorem decode_ok {input : Bytes} {mfs : Nat} {h : Header} {f : Frame} {c : Nat}
    (e : decode input mfs = .ok h f c) :
    ∃ rest rest', frameHeader input mfs = .ok h rest ∧ frameBody rest h = .ok f rest' ∧
      c = input.length - rest'.length := by
  unfold decode at e
  split at e
  · cases e
  · cases e
  · next h0 rest e0 =>
    split at e
    · next f0 rest' e1 => cases e; exact ⟨rest, rest', e0, e1, rfl⟩
    · cases e
    · split at e <;> cases e

theorem decode_incomplete {input : Bytes} {mfs : Nat} (e : decode input mfs = .incomplete) :
    frameHeader input mfs = .eof ∨
    ∃ h rest, frameHeader input mfs = .ok h rest ∧ frameBody rest h = .eof ∧ rest.length < h.len := by
  unfold decode at e
  split at e
  · next e0 => left; exact e0
  · cases e
  · next h0 rest e0 =>
    split at e
    · cases e
    · cases e
    · next e1 =>
      split at e
      · next hlt => right; exact ⟨h0, rest, e0, e1, hlt⟩
      · cases e

theorem decode_err {input : Bytes} {mfs c : Nat} (e : decode input mfs = .err c) :
    frameHeader input mfs = .fail c ∨
    ∃ h rest, frameHeader input mfs = .ok h rest ∧
      (frameBody rest h = .fail c ∨ (frameBody rest h = .eof ∧ ¬ rest.length < h.len ∧ c = PROTOCOL_ERROR)) := by
  unfold decode at e
  split at e
  · cases e
  · next c0 e0 => cases e; left; exact e0
  · next h0 rest e0 =>
    right
    split at e
    · cases e
    · next c1 e1 => cases e; exact ⟨h0, rest, e0, Or.inl e1⟩
    · next e1 =>
      split at e
      · cases e
      · next hn => cases e; exact ⟨h0, rest, e0, Or.inr ⟨e1, hn, rfl⟩⟩


/-! ### classification of complete frames -/

inductive Outcome where
  | accept
  | error (code : Nat)
deriving DecidableEq, Repr

def bodyClass (h : Header) (pad0 : Nat) : Outcome :=
  let p := if flagSet h.flags Consts.h2FlagPadded then 1 else 0
  let pad := if flagSet h.flags Consts.h2FlagPadded then pad0 else 0
  match h.ftype with
  | .data => if h.len < p + pad then .error PROTOCOL_ERROR else .accept
  | .headers =>
    let q := if flagSet h.flags Consts.h2FlagPriority then 5 else 0
    if h.len < p + q + pad then .error PROTOCOL_ERROR else .accept
  | .priority => if h.len = 5 then .accept else .error FRAME_SIZE_ERROR
  | .rstStream => if h.len = 4 then .accept else .error FRAME_SIZE_ERROR
  | .settings =>
    if flagSet h.flags Consts.h2FlagAck = true ∧ h.len ≠ 0 then .error FRAME_SIZE_ERROR
    else if h.len % 6 ≠ 0 then .error FRAME_SIZE_ERROR
    else if h.len / 6 > 64 then .error FRAME_SIZE_ERROR
    else .accept
  | .pushPromise => .error PROTOCOL_ERROR
  | .ping => if h.len = 8 then .accept else .error FRAME_SIZE_ERROR
  | .goAway => if h.len ≥ 8 then .accept else .error FRAME_SIZE_ERROR
  | .windowUpdate => if h.len = 4 then .accept else .error FRAME_SIZE_ERROR
  | .continuation => .accept
  | .priorityUpdate =>
    if h.len < 4 then .error FRAME_SIZE_ERROR
    else if h.len - 4 > 1024 then .error PROTOCOL_ERROR
    else .accept
  | .unknown _ => .accept

/-- outcome of the body parser once the payload is complete (`error_nom_to_h2`) -/
def bodyOutcome : PRes Frame → Outcome
  | .ok _ _ => .accept
  | .fail c => .error c
  | .eof => .error PROTOCOL_ERROR

theorem bodyClass_data (i : Bytes) (h : Header) (hc : h.len ≤ i.length) (ht : h.ftype = .data) :
    bodyOutcome (frameBody i h) = bodyClass h ((i.take h.len).headD 0) := by
  have hl : (i.take h.len).length = h.len := by rw [List.length_take]; omega
  have hn : ¬ i.length < h.len := by omega
  unfold frameBody bodyClass dataFrame
  simp only [ht, hn, if_false]
  generalize i.take h.len = l at hl
  unfold stripPadding unpad bodyOutcome
  grind

theorem bodyClass_headers (i : Bytes) (h : Header) (hc : h.len ≤ i.length) (ht : h.ftype = .headers) :
    bodyOutcome (frameBody i h) = bodyClass h ((i.take h.len).headD 0) := by
  have hl : (i.take h.len).length = h.len := by rw [List.length_take]; omega
  have hn : ¬ i.length < h.len := by omega
  unfold frameBody bodyClass headersFrame
  simp only [ht, hn, if_false]
  generalize i.take h.len = l at hl
  unfold stripPadding unpad bodyOutcome
  grind

theorem bodyClass_other (i : Bytes) (h : Header) (hc : h.len ≤ i.length)
    (ht : h.ftype ≠ .data) (ht' : h.ftype ≠ .headers) (pad0 : Nat) :
    bodyOutcome (frameBody i h) = bodyClass h pad0 := by
  have hl : (i.take h.len).length = h.len := by rw [List.length_take]; omega
  have hn : ¬ i.length < h.len := by omega
  unfold frameBody bodyClass
  split
  · exact absurd (by assumption) ht
  · exact absurd (by assumption) ht'
  all_goals
    try unfold priorityFrame
    try unfold rstStreamFrame
    try unfold pushPromiseFrame
    try unfold continuationFrame
    try unfold settingsFrame
    try unfold pingFrame
    try unfold goAwayFrame
    try unfold windowUpdateFrame
    try unfold priorityUpdateFrame
    try unfold unknownFrame
    unfold bodyOutcome
    simp only [Consts.h2PriorityPayloadSize, Consts.h2RstStreamPayloadSize, Consts.h2GoawayPayloadSize,
      Consts.h2WindowUpdatePayloadSize, Consts.h2PingPayloadSize, Consts.h2SettingsEntrySize,
      Consts.h2MaxSettingsEntries, Consts.h2PriorityUpdateMinPayload, Consts.h2PriorityUpdateMaxValue]
    grind

theorem bodyClass_eq (i : Bytes) (h : Header) (hc : h.len ≤ i.length) :
    bodyOutcome (frameBody i h) = bodyClass h ((i.take h.len).headD 0) := by
  by_cases ht : h.ftype = .data
  · exact bodyClass_data i h hc ht
  · by_cases ht' : h.ftype = .headers
    · exact bodyClass_headers i h hc ht'
    · exact bodyClass_other i h hc ht ht' _


/-! ### settings, byte order, serialized headers -/

theorem parseSettings_length (l : Bytes) : (parseSettings l).length = l.length / 6 := by
  fun_induction parseSettings l with
  | case1 a b c d e f rest ih =>
    simp only [List.length_cons, ih]
    omega
  | case2 l hne =>
    simp only [List.length_nil]
    match l, hne with
    | [], _ => rfl
    | [_], _ => simp
    | [_, _], _ => simp
    | [_, _, _], _ => simp
    | [_, _, _, _], _ => simp
    | [_, _, _, _, _], _ => simp
    | a :: b :: c :: d :: e :: f :: rest, hne => exact absurd rfl (hne a b c d e f rest)

/-- every entry list `settings_frame` returns respects the allocation cap, on
    the `frame_body` path and on the direct first-SETTINGS path alike -/
theorem settingsFrame_cap {i : Bytes} {h : Header} {es : List (Nat × Nat)} {ack : Bool} {rest : Bytes}
    (e : settingsFrame i h = .ok (.settings es ack) rest) :
    es.length ≤ Consts.h2MaxSettingsEntries ∧ es.length = h.len / 6 ∧ h.len ≤ i.length := by
  unfold settingsFrame at e
  split at e
  · cases e
  · split at e
    · cases e
    · next hcap hlen =>
      cases e
      rw [parseSettings_length, List.length_take]
      simp only [Consts.h2SettingsEntrySize, Consts.h2MaxSettingsEntries] at *
      have : min h.len i.length = h.len := by omega
      rw [this]
      omega


theorem mask31_eq (x : Nat) : mask31 x = x % 2147483648 := by
  unfold mask31
  have : Consts.h2StreamIdMask = 2 ^ 31 - 1 := by decide
  rw [this, Nat.and_two_pow_sub_one_eq_mod]

theorem mask31_lt (x : Nat) : mask31 x < 2147483648 := by
  rw [mask31_eq]; omega

theorem mask31_idem (x : Nat) : mask31 (mask31 x) = mask31 x := by
  simp only [mask31_eq]; omega

theorem beVal4 (a b c d : Nat) : beVal [a, b, c, d] = ((a * 256 + b) * 256 + c) * 256 + d := by
  simp [beVal]

theorem beVal3 (a b c : Nat) : beVal [a, b, c] = (a * 256 + b) * 256 + c := by
  simp [beVal]

theorem beVal_be32 (v : Nat) : beVal (be32 v) = v % 4294967296 := by
  unfold be32; rw [beVal4]; omega

theorem beVal_be24 (v : Nat) : beVal (be24 v) = v % 16777216 := by
  unfold be24; rw [beVal3]; omega

/-- what the parser reads back from a serialized header followed by anything -/
theorem frameHeader_gen (h : Header) (rest : Bytes) (mfs : Nat) :
    frameHeader (genFrameHeader h ++ rest) mfs =
      if h.len % 16777216 > mfs then .fail FRAME_SIZE_ERROR
      else if sidValid (convertFrameType (serializeFrameType h.ftype % 256)) (mask31 h.sid) = true then
        .ok { len := h.len % 16777216, ftype := convertFrameType (serializeFrameType h.ftype % 256),
              flags := h.flags % 256, sid := mask31 h.sid } rest
      else .fail PROTOCOL_ERROR := by
  have e : genFrameHeader h ++ rest =
      (h.len / 65536 % 256) :: (h.len / 256 % 256) :: (h.len % 256) :: (serializeFrameType h.ftype % 256) ::
      (h.flags % 256) :: (mask31 h.sid / 16777216 % 256) :: (mask31 h.sid / 65536 % 256) ::
      (mask31 h.sid / 256 % 256) :: (mask31 h.sid % 256) :: rest := by
    simp [genFrameHeader, be24, be32]
  rw [e]
  unfold frameHeader
  have l3 : beVal [h.len / 65536 % 256, h.len / 256 % 256, h.len % 256] = h.len % 16777216 := beVal_be24 h.len
  have l4 : beVal [mask31 h.sid / 16777216 % 256, mask31 h.sid / 65536 % 256, mask31 h.sid / 256 % 256,
      mask31 h.sid % 256] = mask31 h.sid := by
    have := beVal_be32 (mask31 h.sid)
    have := mask31_lt h.sid
    unfold be32 at *
    omega
  simp [l3, l4, mask31_idem]
  have a : ¬ rest.length + 1 + 1 + 1 + 1 + 1 + 1 + 1 + 1 + 1 < 3 := by omega
  have b : ¬ rest.length + 1 + 1 + 1 + 1 + 1 + 1 + 1 + 1 + 1 < 9 := by omega
  simp only [a, b, if_false]

theorem decode_of_ok {input : Bytes} {mfs : Nat} {h : Header} {rest rest' : Bytes} {f : Frame}
    (e : frameHeader input mfs = .ok h rest) (e' : frameBody rest h = .ok f rest') :
    decode input mfs = .ok h f (input.length - rest'.length) := by
  unfold decode; simp only [e, e']


/-! ### statement vocabulary and helper lemmas of the property theorems -/

def typeByteOf (input : Bytes) : Nat := (input.drop 3).headD 0

def flagsOf (input : Bytes) : Nat := (input.drop 4).headD 0

def sidOf (input : Bytes) : Nat := mask31 (beVal ((input.drop 5).take 4))

def payloadOf (input : Bytes) : Bytes := (input.drop 9).take (declaredLen input)

def classify (t flags sid len mfs pad0 : Nat) : Outcome :=
  if len > mfs then .error FRAME_SIZE_ERROR
  else if sidValid (convertFrameType t) sid = false then .error PROTOCOL_ERROR
  else bodyClass { len := len, ftype := convertFrameType t, flags := flags, sid := sid } pad0

def outcome : Res → Option Outcome
  | .ok _ _ _ => some .accept
  | .err c => some (.error c)
  | .incomplete => none

/-- a frame type the serializer can be handed: the named ones, or an unknown
    type byte that is not one of the named ones -/
def FType.wf : FType → Prop
  | .unknown t => t < 256 ∧ convertFrameType t = .unknown t
  | _ => True

theorem convert_serialize (ft : FType) (hw : ft.wf) :
    convertFrameType (serializeFrameType ft % 256) = ft := by
  cases ft with
  | unknown t =>
    obtain ⟨h1, h2⟩ := hw
    simp only [serializeFrameType]
    rw [Nat.mod_eq_of_lt h1, h2]
  | _ => decide

theorem parseSettings_genEntries (es : List (Nat × Nat))
    (hw : ∀ e ∈ es, e.1 < 65536 ∧ e.2 < 4294967296) : parseSettings (genEntries es) = es := by
  induction es with
  | nil => rfl
  | cons e r ih =>
    obtain ⟨k, v⟩ := e
    have hk := (hw (k, v) (by simp)).1
    have hv := (hw (k, v) (by simp)).2
    simp only at hk hv
    have ihr := ih (fun e he => hw e (by simp [he]))
    simp only [genEntries, be16, be32, List.cons_append, List.nil_append, parseSettings, ihr]
    congr 2
    · omega
    · omega

theorem genEntries_length (es : List (Nat × Nat)) : (genEntries es).length = 6 * es.length := by
  induction es with
  | nil => rfl
  | cons e r ih => obtain ⟨k, v⟩ := e; simp [genEntries, be16, be32, ih]; omega

/-- the value range of `H2Settings` (`u32` fields) -/
def Settings.wf (s : Settings) : Prop :=
  s.headerTableSize < 4294967296 ∧ s.maxConcurrentStreams < 4294967296 ∧ s.initialWindowSize < 4294967296 ∧
  s.maxFrameSize < 4294967296 ∧ s.maxHeaderListSize < 4294967296

/-- every counter within its threshold plus `slack` (the glitch counter may
    additionally carry the unknown identifiers of one SETTINGS frame) -/
def Flood.within (s : Flood) (slack : Nat) : Prop :=
  s.rst ≤ s.cfg.maxRst + slack ∧ s.ping ≤ s.cfg.maxPing + slack ∧
  s.pingLife ≤ Consts.h2DefaultMaxPingLifetime + slack ∧
  s.settings ≤ s.cfg.maxSettings + slack ∧ s.settingsLife ≤ Consts.h2DefaultMaxSettingsLifetime + slack ∧
  s.emptyData ≤ s.cfg.maxEmptyData + slack ∧ s.cont ≤ s.cfg.maxCont + slack ∧ s.wu0 ≤ s.cfg.maxWu0 + slack ∧
  s.rstLife ≤ s.cfg.maxRstLife + slack ∧ s.rstAbusive ≤ s.cfg.maxRstAbusive + slack ∧
  s.rstEmitted ≤ s.cfg.maxRstEmitted + slack ∧
  s.glitch ≤ s.cfg.maxGlitch + Consts.h2MaxSettingsEntries + slack

/-- events the connection can produce: a SETTINGS frame carries at most
    `MAX_SETTINGS_ENTRIES` identifiers (`C15_settings_bounds`) -/
def FloodOp.wf : FloodOp → Prop
  | .settings k => k ≤ Consts.h2MaxSettingsEntries
  | _ => True

theorem flag_none {c t : Nat} (h : flag c t = none) : c ≤ t := by
  unfold flag at h; split at h
  · cases h
  · omega

theorem flag_some {c t : Nat} {v : Violation} (h : flag c t = some v) :
    v.1 = ENHANCE_YOUR_CALM ∧ v.2.2 < v.2.1 := by
  unfold flag at h; split at h
  · cases h; exact ⟨rfl, by assumption⟩
  · cases h

theorem firstSome_none {l : List (Option Violation)} (h : firstSome l = none) : ∀ x ∈ l, x = none := by
  induction l with
  | nil => intro x hx; cases hx
  | cons a r ih =>
    cases a with
    | some v => simp [firstSome] at h
    | none =>
      simp only [firstSome] at h
      intro x hx
      rcases List.mem_cons.mp hx with rfl | hx
      · rfl
      · exact ih h x hx

theorem firstSome_some {l : List (Option Violation)} {v : Violation} (h : firstSome l = some v) : some v ∈ l := by
  induction l with
  | nil => simp [firstSome] at h
  | cons a r ih =>
    cases a with
    | some w => simp only [firstSome] at h; rw [h]; exact List.mem_cons_self
    | none => simp only [firstSome] at h; exact List.mem_cons_of_mem _ (ih h)

theorem floodVerdict_none {s : Flood} (h : floodVerdict s = none) :
    s.rst ≤ s.cfg.maxRst ∧ s.ping ≤ s.cfg.maxPing ∧ s.pingLife ≤ Consts.h2DefaultMaxPingLifetime ∧
    s.settings ≤ s.cfg.maxSettings ∧ s.settingsLife ≤ Consts.h2DefaultMaxSettingsLifetime ∧
    s.emptyData ≤ s.cfg.maxEmptyData ∧ s.cont ≤ s.cfg.maxCont ∧ s.wu0 ≤ s.cfg.maxWu0 ∧
    s.accHdr ≤ s.cfg.maxHeaderList ∧ s.glitch ≤ s.cfg.maxGlitch := by
  have := firstSome_none h
  simp only [List.mem_cons, List.mem_nil_iff, or_false, forall_eq_or_imp, forall_eq] at this
  obtain ⟨a, b, c, d, e, f, g, i, j, k⟩ := this
  exact ⟨flag_none a, flag_none b, flag_none c, flag_none d, flag_none e, flag_none f, flag_none g,
    flag_none i, flag_none j, flag_none k⟩

theorem floodVerdict_some {s : Flood} {v : Violation} (h : floodVerdict s = some v) :
    v.1 = ENHANCE_YOUR_CALM ∧ v.2.2 < v.2.1 := by
  have := firstSome_some h
  simp only [List.mem_cons, List.mem_nil_iff, or_false] at this
  rcases this with e | e | e | e | e | e | e | e | e | e <;> exact flag_some e.symm

theorem checkFlood_spec (s : Flood) :
    (checkFlood s).1.cfg = s.cfg ∧ (checkFlood s).1.rst ≤ s.rst ∧ (checkFlood s).1.ping ≤ s.ping ∧
    (checkFlood s).1.settings ≤ s.settings ∧ (checkFlood s).1.emptyData ≤ s.emptyData ∧
    (checkFlood s).1.wu0 ≤ s.wu0 ∧ (checkFlood s).1.glitch ≤ s.glitch ∧
    (checkFlood s).1.pingLife = s.pingLife ∧ (checkFlood s).1.settingsLife = s.settingsLife ∧
    (checkFlood s).1.cont = s.cont ∧ (checkFlood s).1.accHdr = s.accHdr ∧
    (checkFlood s).1.rstLife = s.rstLife ∧ (checkFlood s).1.rstAbusive = s.rstAbusive ∧
    (checkFlood s).1.rstEmitted = s.rstEmitted ∧
    ((checkFlood s).2 = none → floodVerdict (checkFlood s).1 = none) ∧
    (∀ v, (checkFlood s).2 = some v → v.1 = ENHANCE_YOUR_CALM ∧ v.2.2 < v.2.1) := by
  unfold checkFlood maybeResetWindow
  simp only
  split
  · refine ⟨rfl, ?_, ?_, ?_, ?_, ?_, ?_, rfl, rfl, rfl, rfl, rfl, rfl, rfl, fun h => h, fun v h => floodVerdict_some h⟩ <;>
      exact Nat.div_le_self _ _
  · exact ⟨rfl, Nat.le_refl _, Nat.le_refl _, Nat.le_refl _, Nat.le_refl _, Nat.le_refl _, Nat.le_refl _,
      rfl, rfl, rfl, rfl, rfl, rfl, rfl, fun h => h, fun v h => floodVerdict_some h⟩

theorem wrapInc_le (c : Nat) : wrapInc c ≤ c + 1 := by
  unfold wrapInc; exact Nat.mod_le _ _

theorem satAdd32_le (c n : Nat) : satAdd32 c n ≤ c + n := by
  unfold satAdd32; exact Nat.min_le_left _ _

theorem satAdd64_le (c n : Nat) : satAdd64 c n ≤ c + n := by
  unfold satAdd64; exact Nat.min_le_left _ _

/-- a `check_flood` after the handler has bumped counters by at most one each
    (lifetime RST counters untouched) -/
theorem check_step (s t : Flood) (hc : t.cfg = s.cfg) (hi : s.within 0)
    (b1 : t.rst ≤ s.rst + 1) (b2 : t.ping ≤ s.ping + 1) (b3 : t.pingLife ≤ s.pingLife + 1)
    (b4 : t.settings ≤ s.settings + 1) (b5 : t.settingsLife ≤ s.settingsLife + 1)
    (b6 : t.emptyData ≤ s.emptyData + 1) (b7 : t.cont ≤ s.cont + 1) (b8 : t.wu0 ≤ s.wu0 + 1)
    (b9 : t.rstLife = s.rstLife) (b10 : t.rstAbusive = s.rstAbusive) (b11 : t.rstEmitted = s.rstEmitted)
    (b12 : t.glitch ≤ s.glitch + 1) :
    (checkFlood t).1.cfg = s.cfg ∧
    ((checkFlood t).2 = none → (checkFlood t).1.within 0 ∧ (checkFlood t).1.glitch ≤ s.cfg.maxGlitch) ∧
    (∀ v, (checkFlood t).2 = some v → v.1 = ENHANCE_YOUR_CALM ∧ v.2.2 < v.2.1 ∧ (checkFlood t).1.within 1) := by
  obtain ⟨c0, c1, c2, c3, c4, c5, c6, c7, c8, c9, c10, c11, c12, c13, cn, cs⟩ := checkFlood_spec t
  obtain ⟨i1, i2, i3, i4, i5, i6, i7, i8, i9, i10, i11, i12⟩ := hi
  refine ⟨c0.trans hc, ?_, ?_⟩
  · intro hn
    obtain ⟨v1, v2, v3, v4, v5, v6, v7, v8, v9, v10⟩ := floodVerdict_none (cn hn)
    simp only [Flood.within, Nat.add_zero, c0, hc] at *
    refine ⟨⟨v1, v2, v3, v4, v5, v6, v7, v8, ?_, ?_, ?_, ?_⟩, v10⟩ <;> omega
  · intro v hv
    refine ⟨(cs v hv).1, (cs v hv).2, ?_⟩
    simp only [Flood.within, c0, hc, Nat.add_zero] at *
    refine ⟨?_, ?_, ?_, ?_, ?_, ?_, ?_, ?_, ?_, ?_, ?_, ?_⟩ <;> omega

/-- the per-event step: without a violation every counter is back within its
    threshold; with one, no counter is more than one frame over. -/
theorem floodStep_spec (s : Flood) (op : FloodOp) (hop : op.wf) (hi : s.within 0) :
    (floodStep s op).1.cfg = s.cfg ∧
    ((floodStep s op).2 = none → (floodStep s op).1.within 0) ∧
    (∀ v, (floodStep s op).2 = some v → v.1 = ENHANCE_YOUR_CALM ∧ v.2.2 < v.2.1 ∧ (floodStep s op).1.within 1) := by
  have hi' := hi
  obtain ⟨i1, i2, i3, i4, i5, i6, i7, i8, i9, i10, i11, i12⟩ := hi'
  simp only [Nat.add_zero] at i1 i2 i3 i4 i5 i6 i7 i8 i9 i10 i11 i12
  have L := Nat.le_succ
  cases op with
  | age ms =>
    simp only [floodStep]
    exact ⟨trivial, fun _ => hi, fun v h => by cases h⟩
  | ping =>
    simp only [floodStep]
    have := check_step s { s with ping := wrapInc s.ping, pingLife := satAdd32 s.pingLife 1 } rfl hi
      (L _) (wrapInc_le _) (satAdd32_le _ _) (L _) (L _) (L _) (L _) (L _) rfl rfl rfl (L _)
    exact ⟨this.1, fun h => (this.2.1 h).1, this.2.2⟩
  | emptyData =>
    simp only [floodStep]
    have := check_step s { s with emptyData := wrapInc s.emptyData } rfl hi
      (L _) (L _) (L _) (L _) (L _) (wrapInc_le _) (L _) (L _) rfl rfl rfl (L _)
    exact ⟨this.1, fun h => (this.2.1 h).1, this.2.2⟩
  | wu0 =>
    simp only [floodStep]
    have := check_step s { s with wu0 := satAdd32 s.wu0 1 } rfl hi
      (L _) (L _) (L _) (L _) (L _) (L _) (L _) (satAdd32_le _ _) rfl rfl rfl (L _)
    exact ⟨this.1, fun h => (this.2.1 h).1, this.2.2⟩
  | continuation len =>
    simp only [floodStep]
    have := check_step s { s with cont := wrapInc s.cont, accHdr := satAdd32 s.accHdr len } rfl hi
      (L _) (L _) (L _) (L _) (L _) (L _) (wrapInc_le _) (L _) rfl rfl rfl (L _)
    exact ⟨this.1, fun h => (this.2.1 h).1, this.2.2⟩
  | glitch =>
    simp only [floodStep]
    have := check_step s { s with glitch := wrapInc s.glitch } rfl hi
      (L _) (L _) (L _) (L _) (L _) (L _) (L _) (L _) rfl rfl rfl (wrapInc_le _)
    exact ⟨this.1, fun h => (this.2.1 h).1, this.2.2⟩
  | check =>
    simp only [floodStep]
    have := check_step s s rfl hi (L _) (L _) (L _) (L _) (L _) (L _) (L _) (L _) rfl rfl rfl (L _)
    exact ⟨this.1, fun h => (this.2.1 h).1, this.2.2⟩
  | headersStart len =>
    simp only [floodStep]
    refine ⟨by split <;> rfl, fun _ => ?_, fun v h => by cases h⟩
    split
    · exact hi
    · exact hi
  | headersEnd =>
    simp only [floodStep, resetContinuation]
    refine ⟨trivial, fun _ => ?_, fun v h => by cases h⟩
    simp only [Flood.within, Nat.add_zero]
    exact ⟨i1, i2, i3, i4, i5, i6, Nat.zero_le _, i8, i9, i10, i11, i12⟩
  | rstEmitted =>
    simp only [floodStep, recordRstEmitted]
    have hle := satAdd64_le s.rstEmitted 1
    refine ⟨trivial, fun hn => ?_, fun v hv => ⟨(flag_some hv).1, (flag_some hv).2, ?_⟩⟩
    · have := flag_none hn
      simp only [Flood.within, Nat.add_zero] at *
      exact ⟨i1, i2, i3, i4, i5, i6, i7, i8, i9, i10, this, i12⟩
    · simp only [Flood.within] at *
      refine ⟨?_, ?_, ?_, ?_, ?_, ?_, ?_, ?_, ?_, ?_, ?_, ?_⟩ <;> omega
  | settings k =>
    simp only [floodStep]
    have := check_step s { s with settings := wrapInc s.settings, settingsLife := satAdd32 s.settingsLife 1 } rfl hi
      (L _) (L _) (L _) (wrapInc_le _) (satAdd32_le _ _) (L _) (L _) (L _) rfl rfl rfl (L _)
    obtain ⟨hc, hn, hs⟩ := this
    split
    · next hsome =>
      refine ⟨hc, fun h => ?_, hs⟩
      rw [h] at hsome; cases hsome
    · next hnone =>
      have hn' : (checkFlood { s with settings := wrapInc s.settings, settingsLife := satAdd32 s.settingsLife 1 }).2 = none := by
        cases h : (checkFlood { s with settings := wrapInc s.settings, settingsLife := satAdd32 s.settingsLife 1 }).2 with
        | none => rfl
        | some v => rw [h] at hnone; simp at hnone
      obtain ⟨hw0, hg⟩ := hn hn'
      refine ⟨hc, fun _ => ?_, fun v h => by cases h⟩
      have hk : k ≤ Consts.h2MaxSettingsEntries := hop
      have hmod := Nat.mod_le ((checkFlood { s with settings := wrapInc s.settings, settingsLife := satAdd32 s.settingsLife 1 }).1.glitch + k) U32
      simp only [Flood.within, Nat.add_zero, hc] at *
      obtain ⟨a1, a2, a3, a4, a5, a6, a7, a8, a9, a10, a11, a12⟩ := hw0
      exact ⟨a1, a2, a3, a4, a5, a6, a7, a8, a9, a10, a11, by omega⟩
  | rstReceived rs =>
    simp only [floodStep]
    have := check_step s { s with rst := wrapInc s.rst } rfl hi
      (wrapInc_le _) (L _) (L _) (L _) (L _) (L _) (L _) (L _) rfl rfl rfl (L _)
    obtain ⟨hc, hn, hs⟩ := this
    split
    · next hsome =>
      refine ⟨hc, fun h => ?_, hs⟩
      rw [h] at hsome; cases hsome
    · next hnone =>
      have hn' : (checkFlood { s with rst := wrapInc s.rst }).2 = none := by
        cases h : (checkFlood { s with rst := wrapInc s.rst }).2 with
        | none => rfl
        | some v => rw [h] at hnone; simp at hnone
      obtain ⟨hw0, _⟩ := hn hn'
      generalize (checkFlood { s with rst := wrapInc s.rst }).1 = t at *
      obtain ⟨a1, a2, a3, a4, a5, a6, a7, a8, a9, a10, a11, a12⟩ := hw0
      simp only [Nat.add_zero] at a1 a2 a3 a4 a5 a6 a7 a8 a9 a10 a11 a12
      have h1 := satAdd64_le t.rstLife 1
      have h2 := satAdd64_le t.rstAbusive 1
      simp only [recordRstLifetime]
      refine ⟨hc, fun hnone2 => ?_, fun v hv => ?_⟩
      · have := firstSome_none hnone2
        simp only [List.mem_cons, List.mem_nil_iff, or_false, forall_eq_or_imp, forall_eq] at this
        have f1 := flag_none this.1
        have f2 := flag_none this.2
        simp only [Flood.within, Nat.add_zero] at *
        exact ⟨a1, a2, a3, a4, a5, a6, a7, a8, f1, f2, a11, a12⟩
      · have := firstSome_some hv
        simp only [List.mem_cons, List.mem_nil_iff, or_false] at this
        have hf : v.1 = ENHANCE_YOUR_CALM ∧ v.2.2 < v.2.1 := by
          rcases this with e | e <;> exact flag_some e.symm
        refine ⟨hf.1, hf.2, ?_⟩
        simp only [Flood.within] at *
        refine ⟨?_, ?_, ?_, ?_, ?_, ?_, ?_, ?_, ?_, ?_, ?_, ?_⟩ <;> (try split) <;> omega

theorem floodRun_spec (s : Flood) (ops : List FloodOp) (hops : ∀ op ∈ ops, op.wf) (hi : s.within 0) :
    ((floodRun s ops).2 = none → (floodRun s ops).1.within 0) ∧
    (∀ v, (floodRun s ops).2 = some v →
      v.1 = ENHANCE_YOUR_CALM ∧ v.2.2 < v.2.1 ∧ (floodRun s ops).1.within 1) := by
  induction ops generalizing s with
  | nil => exact ⟨fun _ => hi, fun v h => by cases h⟩
  | cons op r ih =>
    obtain ⟨_, hn, hs⟩ := floodStep_spec s op (hops op List.mem_cons_self) hi
    simp only [floodRun]
    split
    · next hsome =>
      refine ⟨fun h => ?_, hs⟩
      rw [h] at hsome; cases hsome
    · next hnone =>
      have hn' : (floodStep s op).2 = none := by
        cases h : (floodStep s op).2 with
        | none => rfl
        | some v => rw [h] at hnone; simp at hnone
      exact ih _ (fun o ho => hops o (List.mem_cons_of_mem _ ho)) (hn hn')

theorem Flood.new_within (cfg : FloodCfg) : (Flood.new cfg).within 0 := by
  simp [Flood.within, Flood.new]

/-- small thresholds for the examples in `Props.lean` -/
def cfgSmall : FloodCfg :=
  { maxRst := 2, maxPing := 2, maxSettings := 2, maxEmptyData := 2, maxWu0 := 2, maxCont := 2, maxGlitch := 2,
    maxRstLife := 5, maxRstAbusive := 3, maxRstEmitted := 3, maxHeaderList := 100 }

/-- the first-SETTINGS path agrees with the `frame_body` path when the length
    is a multiple of 6 or when `h2.rs` repeats the length check in that state -/
theorem firstSettings_eq_frameBody (i : Bytes)
    (h6 : Consts.h2FirstSettingsChecksLen = true ∨ i.length % Consts.h2SettingsEntrySize = 0) :
    firstSettings i = frameBody i { len := i.length, ftype := .settings, flags := 0, sid := 0 } := by
  have hack : flagSet 0 Consts.h2FlagAck = false := by decide
  unfold firstSettings frameBody
  rcases h6 with h | h
  · by_cases h6 : i.length % Consts.h2SettingsEntrySize = 0 <;> simp [h, h6, hack]
  · simp [h, hack]


/-- what F24 was: without the check a 7-byte first SETTINGS is accepted -/
theorem firstSettings_witness_if_unchecked (hopen : Consts.h2FirstSettingsChecksLen = false) :
    firstSettings [0, 3, 0, 0, 0, 100, 0] = .ok (.settings [(3, 100)] false) [] ∧
    frameBody [0, 3, 0, 0, 0, 100, 0] { len := 7, ftype := .settings, flags := 0, sid := 0 }
      = .fail FRAME_SIZE_ERROR := by
  refine ⟨?_, by decide⟩
  unfold firstSettings
  rw [hopen]
  decide


/-! ### connection histories -/

theorem connStep_dead (c : Conn) (op : ConnOp) (h : c.dead = true) :
    (connStep c op).2 = none ∧ (connStep c op).1.dead = true := by
  cases op <;> simp [connStep, h]

theorem connStep_connError (c : Conn) (op : ConnOp) (k : Nat)
    (h : (connStep c op).2 = some (.connError k)) : (connStep c op).1.dead = true := by
  cases op with
  | startDrain => simp [connStep] at h
  | respond sid => simp [connStep] at h
  | frame sid fk es =>
    unfold connStep at h ⊢
    grind

theorem connRun_dead (c : Conn) (ops : List ConnOp) (h : c.dead = true) :
    ∀ o ∈ (connRun c ops).2, o = none := by
  induction ops generalizing c with
  | nil => intro o ho; simp [connRun] at ho
  | cons op r ih =>
    intro o ho
    simp only [connRun, List.mem_cons] at ho
    rcases ho with rfl | ho
    · exact (connStep_dead c op h).1
    · exact ih _ (connStep_dead c op h).2 o ho

/-! limit -/

theorem liveRemove_length (l : List (Nat × Bool)) (sid : Nat) : (liveRemove l sid).length ≤ l.length := by
  unfold liveRemove; exact List.length_filter_le _ _

theorem liveSetEos_length (l : List (Nat × Bool)) (sid : Nat) : (liveSetEos l sid).length = l.length := by
  unfold liveSetEos; simp

theorem connStep_limit (c : Conn) (op : ConnOp) (h : c.live.length ≤ c.maxStreams) :
    (connStep c op).1.live.length ≤ (connStep c op).1.maxStreams ∧ (connStep c op).1.maxStreams = c.maxStreams := by
  have h1 := fun sid => liveRemove_length c.live sid
  have h2 := fun sid => liveSetEos_length c.live sid
  cases op with
  | startDrain => simp [connStep, h]
  | respond sid => simp only [connStep]; exact ⟨Nat.le_trans (h1 sid) h, trivial⟩
  | frame sid fk es =>
    have a := h1 sid
    have b := h2 sid
    unfold connStep
    grind

theorem connRun_limit (c : Conn) (ops : List ConnOp) (h : c.live.length ≤ c.maxStreams) :
    (connRun c ops).1.live.length ≤ c.maxStreams := by
  induction ops generalizing c with
  | nil => simpa [connRun] using h
  | cons op r ih =>
    obtain ⟨a, b⟩ := connStep_limit c op h
    simp only [connRun]
    have := ih _ a
    rw [b] at this
    exact this

/-! RST_STREAM at most once per stream -/

/-- the stream a step answers with RST_STREAM, if any -/
def rstEmitted (c : Conn) (op : ConnOp) : Option Nat :=
  match op, (connStep c op).2 with
  | .frame sid _ _, some (.streamError _) => some sid
  | _, _ => none

/-- every stream that gets a RST_STREAM during a history, in order -/
def rstHistory (c : Conn) : List ConnOp → List Nat
  | [] => []
  | op :: ops => (match rstEmitted c op with | some sid => [sid] | none => []) ++ rstHistory (connStep c op).1 ops

theorem connStep_rst (c : Conn) (op : ConnOp) :
    (∀ x ∈ c.rstSent, x ∈ (connStep c op).1.rstSent) ∧
    (∀ sid, rstEmitted c op = some sid → sid ∉ c.rstSent ∧ sid ∈ (connStep c op).1.rstSent) := by
  cases op with
  | startDrain => simp [connStep, rstEmitted]
  | respond sid => simp [connStep, rstEmitted]
  | frame sid fk es =>
    have hc : ∀ x : Nat, c.rstSent.contains x = true ↔ x ∈ c.rstSent := fun x => List.contains_iff_mem
    cases fk <;> simp only [rstEmitted, connStep, Conn.view, headerVerdict] <;> grind

theorem rstHistory_spec (c : Conn) (ops : List ConnOp) :
    (rstHistory c ops).Nodup ∧ ∀ x ∈ rstHistory c ops, x ∉ c.rstSent := by
  induction ops generalizing c with
  | nil => simp [rstHistory]
  | cons op r ih =>
    obtain ⟨mono, em⟩ := connStep_rst c op
    obtain ⟨nd, fresh⟩ := ih (connStep c op).1
    simp only [rstHistory]
    cases he : rstEmitted c op with
    | none =>
      simp only [List.nil_append]
      exact ⟨nd, fun x hx hc => fresh x hx (mono x hc)⟩
    | some sid =>
      obtain ⟨h1, h2⟩ := em sid he
      simp only [List.singleton_append, List.nodup_cons, List.mem_cons]
      refine ⟨⟨fun hm => fresh sid hm h2, nd⟩, ?_⟩
      intro x hx
      rcases hx with rfl | hx
      · exact h1
      · exact fun hc => fresh x hx (mono x hc)

/-! RFC 9113 §5.1 edges -/

theorem liveGet_remove (l : List (Nat × Bool)) (sid sid' : Nat) :
    liveGet (liveRemove l sid) sid' = if sid' = sid then none else liveGet l sid' := by
  induction l with
  | nil => simp [liveRemove, liveGet]
  | cons p r ih =>
    obtain ⟨k, e⟩ := p
    simp only [liveRemove, List.filter_cons] at ih ⊢
    by_cases hk : k = sid
    · subst hk; simp only [bne_self_eq_false, Bool.false_eq_true, ↓reduceIte, ih, liveGet]; grind
    · have : (k != sid) = true := by simpa using hk
      simp only [this, ↓reduceIte, liveGet, ih]; grind

theorem liveGet_setEos (l : List (Nat × Bool)) (sid sid' : Nat) :
    liveGet (liveSetEos l sid) sid' = if sid' = sid then (liveGet l sid).map (fun _ => true) else liveGet l sid' := by
  induction l with
  | nil => simp [liveSetEos, liveGet]
  | cons p r ih =>
    obtain ⟨k, e⟩ := p
    simp only [liveSetEos, List.map_cons] at ih ⊢
    by_cases hk : k = sid
    · subst hk; simp only [↓reduceIte, liveGet, ih]; grind
    · simp only [hk, ↓reduceIte, liveGet, ih]; grind

theorem liveGet_some_mem {l : List (Nat × Bool)} {sid : Nat} {e : Bool} (h : liveGet l sid = some e) :
    ∃ p ∈ l, p.1 = sid := by
  induction l with
  | nil => simp [liveGet] at h
  | cons p r ih =>
    obtain ⟨k, e'⟩ := p
    simp only [liveGet] at h
    split at h
    · next hk => exact ⟨(k, e'), List.mem_cons_self, hk⟩
    · obtain ⟨q, hq, hq'⟩ := ih h; exact ⟨q, List.mem_cons_of_mem _ hq, hq'⟩

/-- ids in the stream map are at most `last_stream_id`, which is at most `highest_peer_stream_id` -/
def Conn.wf (c : Conn) : Prop := (∀ p ∈ c.live, p.1 ≤ c.lastId) ∧ c.lastId ≤ c.highest

/-- the event is not a HEADERS frame re-using an id sozu refused earlier
    (above `last_stream_id`, at most `highest_peer_stream_id`) -/
def noReuse (c : Conn) : ConnOp → Prop
  | .frame sid .headers _ => ¬ (sid > c.lastId ∧ sid ≤ c.highest)
  | _ => True

instance (c : Conn) (op : ConnOp) : Decidable (noReuse c op) := by
  cases op with
  | frame sid fk es => cases fk <;> (unfold noReuse; infer_instance)
  | respond sid => unfold noReuse; infer_instance
  | startDrain => unfold noReuse; infer_instance

theorem liveGet_none_of_gt {c : Conn} (hwf : c.wf) {sid : Nat} (h : sid > c.lastId) : liveGet c.live sid = none := by
  cases hg : liveGet c.live sid with
  | none => rfl
  | some e =>
    obtain ⟨p, hp, hp'⟩ := liveGet_some_mem hg
    have := hwf.1 p hp
    omega

theorem connStep_wf (c : Conn) (op : ConnOp) (hwf : c.wf) : (connStep c op).1.wf := by
  obtain ⟨h1, h2⟩ := hwf
  cases op with
  | startDrain => exact ⟨h1, h2⟩
  | respond sid =>
    refine ⟨fun p hp => h1 p ?_, h2⟩
    simp only [connStep, liveRemove] at hp
    exact (List.mem_filter.mp hp).1
  | frame sid fk es =>
    have hr : ∀ p ∈ liveRemove c.live sid, p.1 ≤ c.lastId := fun p hp => h1 p (List.mem_filter.mp hp).1
    have hs : ∀ p ∈ liveSetEos c.live sid, p.1 ≤ c.lastId := by
      intro p hp
      simp only [liveSetEos, List.mem_map] at hp
      obtain ⟨q, hq, rfl⟩ := hp
      have := h1 q hq
      split <;> simpa using this
    unfold connStep Conn.wf
    simp only
    split
    · exact ⟨h1, h2⟩
    · split
      · next hnew =>
        split
        · split
          · exact ⟨h1, by simp only; omega⟩
          · exact ⟨h1, by simp only; omega⟩
        · refine ⟨?_, by simp only; omega⟩
          intro p hp
          simp only [List.mem_cons] at hp
          rcases hp with rfl | hp
          · exact Nat.le_refl _
          · have := h1 p hp; simp only; omega
      · split
        · exact ⟨h1, h2⟩
        · exact ⟨h1, h2⟩
        · split
          · split
            · exact ⟨hr, h2⟩
            · split
              · exact ⟨hs, h2⟩
              · exact ⟨h1, h2⟩
          · exact ⟨h1, h2⟩

theorem connStep_rfcEdge (c : Conn) (op : ConnOp) (hwf : c.wf) (hno : noReuse c op) (sid' : Nat) :
    rfcEdge (c.rfcState sid') ((connStep c op).1.rfcState sid') = true := by
  have hrm := liveGet_remove c.live
  have hse := liveGet_setEos c.live
  have hgt := fun sid (h : sid > c.lastId) => liveGet_none_of_gt hwf h
  have hle := hwf.2
  have hmem : ∀ e, liveGet c.live sid' = some e → sid' ≤ c.highest := by
    intro e hg
    obtain ⟨p, hp, hp'⟩ := liveGet_some_mem hg
    have := hwf.1 p hp
    omega
  have hcons : ∀ (k : Nat) (e : Bool) (x : Nat), liveGet ((k, e) :: c.live) x = if k = x then some e else liveGet c.live x :=
    fun k e x => by simp [liveGet]
  cases op with
  | startDrain =>
    simp only [connStep, Conn.rfcState]
    cases hg : liveGet c.live sid' with
    | none => grind [rfcEdge]
    | some e => cases e <;> grind [rfcEdge]
  | respond sid =>
    simp only [connStep, Conn.rfcState, hrm]
    cases hg : liveGet c.live sid' with
    | none => grind [rfcEdge]
    | some e => have := hmem e hg; cases e <;> grind [rfcEdge]
  | frame sid fk es =>
    cases fk <;> simp only [noReuse] at hno <;>
      simp only [connStep, Conn.view, headerVerdict, Conn.rfcState, liveGet] <;>
      (cases hg : liveGet c.live sid' with
        | none => grind [rfcEdge]
        | some e => have := hmem e hg; cases e <;> grind [rfcEdge])


/-- a history in which no HEADERS frame re-uses a refused id, judged along the run -/
def noReuseRun (c : Conn) : List ConnOp → Prop
  | [] => True
  | op :: ops => noReuse c op ∧ noReuseRun (connStep c op).1 ops

def decNoReuseRun : (c : Conn) → (ops : List ConnOp) → Decidable (noReuseRun c ops)
  | _, [] => isTrue trivial
  | c, op :: ops =>
    match (inferInstance : Decidable (noReuse c op)), decNoReuseRun (connStep c op).1 ops with
    | isTrue a, isTrue b => isTrue ⟨a, b⟩
    | isFalse a, _ => isFalse fun h => a h.1
    | _, isFalse b => isFalse fun h => b h.2

instance (c : Conn) (ops : List ConnOp) : Decidable (noReuseRun c ops) := decNoReuseRun c ops

/-- every step of the history moves stream `sid` along an edge of the RFC 9113 §5.1 diagram -/
def edgesOk (c : Conn) (sid : Nat) : List ConnOp → Prop
  | [] => True
  | op :: ops => rfcEdge (c.rfcState sid) ((connStep c op).1.rfcState sid) = true ∧ edgesOk (connStep c op).1 sid ops

theorem connRun_edgesOk (c : Conn) (ops : List ConnOp) (sid : Nat) (hwf : c.wf) (hno : noReuseRun c ops) :
    edgesOk c sid ops := by
  induction ops generalizing c with
  | nil => trivial
  | cons op r ih =>
    exact ⟨connStep_rfcEdge c op hwf hno.1 sid, ih _ (connStep_wf c op hwf) hno.2⟩

theorem connRun_closed_stays (c : Conn) (ops : List ConnOp) (sid : Nat) (hwf : c.wf) (hno : noReuseRun c ops)
    (hc : c.rfcState sid = .closed) : (connRun c ops).1.rfcState sid = .closed := by
  induction ops generalizing c with
  | nil => simpa [connRun] using hc
  | cons op r ih =>
    have he := connStep_rfcEdge c op hwf hno.1 sid
    rw [hc] at he
    have hc' : (connStep c op).1.rfcState sid = .closed := by
      cases h : (connStep c op).1.rfcState sid <;> rw [h] at he <;> first | rfl | (simp [rfcEdge] at he)
    simp only [connRun]
    exact ih _ (connStep_wf c op hwf) hno.2 hc'

theorem Conn.init_wf (m : Nat) : (Conn.init m).wf := by
  refine ⟨?_, Nat.le_refl _⟩
  intro p hp
  simp [Conn.init] at hp

/-- after the step that answers a connection error, nothing is answered any more -/
theorem connRun_after_connError (c : Conn) (op : ConnOp) (ops : List ConnOp) (k : Nat)
    (h : (connStep c op).2 = some (.connError k)) : ∀ o ∈ (connRun (connStep c op).1 ops).2, o = none :=
  connRun_dead _ ops (connStep_connError c op k h)


/-! ### peer SETTINGS -/

theorem applyPeerSetting_local (s : SettingsState) (cap id v : Nat) : (applyPeerSetting s cap id v).1.localS = s.localS := by
  unfold applyPeerSetting
  repeat' split
  all_goals rfl

theorem handleSettings_local (s : SettingsState) (cap : Nat) (es : List (Nat × Nat)) :
    (handleSettings s cap es).1.localS = s.localS := by
  induction es generalizing s with
  | nil => rfl
  | cons e r ih =>
    obtain ⟨id, v⟩ := e
    simp only [handleSettings]
    split
    · exact applyPeerSetting_local s cap id v
    · rw [ih, applyPeerSetting_local]

/-! ### request-level checks -/

theorem headerBudgetGo_none_iff (maxBytes maxFields : Nat) (fields : List (Nat × Nat)) (bytes count : Nat) :
    headerBudgetGo maxBytes maxFields bytes count fields = none ↔
      (fields = [] ∨ (bytes + fieldsSize fields ≤ maxBytes ∧ count + fields.length ≤ maxFields)) := by
  induction fields generalizing bytes count with
  | nil => simp [headerBudgetGo]
  | cons f r ih =>
    obtain ⟨k, v⟩ := f
    simp only [headerBudgetGo, fieldsSize, List.length_cons]
    split
    · simp; omega
    · split
      · simp; omega
      · rw [ih]
        constructor
        · rintro (h | h)
          · subst h; simp [fieldsSize]; omega
          · right; omega
        · intro h
          simp at h
          cases r with
          | nil => left; rfl
          | cons a b => right; simp only [List.length_cons] at h ⊢; omega

theorem headerBudgetGo_some (maxBytes maxFields : Nat) (fields : List (Nat × Nat)) (bytes count : Nat) (o : StreamOut)
    (h : headerBudgetGo maxBytes maxFields bytes count fields = some o) : o = .streamError ENHANCE_YOUR_CALM := by
  induction fields generalizing bytes count with
  | nil => simp [headerBudgetGo] at h
  | cons f r ih =>
    obtain ⟨k, v⟩ := f
    simp only [headerBudgetGo] at h
    split at h
    · cases h; rfl
    · split at h
      · cases h; rfl
      · exact ih _ _ h

theorem contentLengthRun_handled (e : Nat) (frames : List (Nat × Bool)) (r t : Nat)
    (hr : r ≤ e) (h : contentLengthRun (some e) r frames = (t, .handled)) :
    t ≤ e ∧ (frames.any (·.2) = true → t = e) := by
  induction frames generalizing r with
  | nil => simp [contentLengthRun] at h; subst h; exact ⟨hr, by simp⟩
  | cons f rest ih =>
    obtain ⟨len, es⟩ := f
    simp only [contentLengthRun, contentLengthStep] at h
    by_cases h1 : r + len > e
    · simp [h1] at h
    · simp only [h1, if_false] at h
      cases es with
      | true =>
        by_cases h2 : r + len = e
        · simp [h2] at h ⊢; omega
        · have : ((r + len) != e) = true := by simpa using h2
          simp [this] at h
      | false =>
        simp at h
        have := ih (r + len) (by omega) h
        exact ⟨this.1, by simpa using this.2⟩

theorem headerBudget_none_iff (maxBytes maxFields : Nat) (fields : List (Nat × Nat)) :
    headerBudget maxBytes maxFields fields = none ↔ (fieldsSize fields ≤ maxBytes ∧ fields.length ≤ maxFields) := by
  unfold headerBudget
  rw [headerBudgetGo_none_iff]
  constructor
  · rintro (h | h)
    · subst h; simp [fieldsSize]
    · simpa using h
  · intro h; right; simpa using h

/-! ### header block vs buffer -/

theorem continuationStep_bounded (bufCap : Nat) (s : Flood) (len : Nat) (h : s.accHdr ≤ bufCap)
    (hn : (continuationStep bufCap s len).2 = none) : (continuationStep bufCap s len).1.accHdr ≤ bufCap := by
  have hacc : (floodStep s (.continuation len)).1.accHdr ≤ s.accHdr + len := by
    simp only [floodStep]
    rw [(checkFlood_spec { s with cont := wrapInc s.cont, accHdr := satAdd32 s.accHdr len }).2.2.2.2.2.2.2.2.2.2.1]
    exact satAdd32_le s.accHdr len
  unfold continuationStep at hn ⊢
  simp only at hn ⊢
  by_cases h1 : (floodStep s (.continuation len)).2.isSome = true
  · simp only [h1, ↓reduceIte] at hn
    rw [hn] at h1; simp at h1
  · simp only [h1] at hn ⊢
    by_cases h2 : len > bufCap - s.accHdr
    · simp [h2] at hn
    · simp only [h2, ↓reduceIte, Bool.false_eq_true]
      omega

/-! ### proofs of the property theorems (statements: `Props.lean`) -/

theorem c15_decoder_total_and_exact (input : Bytes) (mfs : Nat) :
    match decode input mfs with
    | .ok h _ consumed =>
        consumed = Consts.h2FrameHeaderSize + h.len ∧ consumed ≤ input.length ∧
        h.len = declaredLen input ∧ h.len ≤ mfs
    | .incomplete =>
        input.length < Consts.h2FrameHeaderSize ∨
        input.length < Consts.h2FrameHeaderSize + declaredLen input
    | .err c => c = PROTOCOL_ERROR ∨ c = FRAME_SIZE_ERROR := by
  cases hd : decode input mfs with
  | ok h f c =>
    obtain ⟨rest, rest', e0, e1, hc⟩ := decode_ok hd
    obtain ⟨h9, hrest, hlen, hmfs, _⟩ := frameHeader_ok e0
    obtain ⟨hl, hr⟩ := frameBody_ok e1
    subst hrest hr hc
    simp only [List.length_drop, Consts.h2FrameHeaderSize] at *
    exact ⟨by omega, by omega, hlen, hmfs⟩
  | incomplete =>
    rcases decode_incomplete hd with e0 | ⟨h, rest, e0, _, hlt⟩
    · left; simpa [Consts.h2FrameHeaderSize] using frameHeader_eof e0
    · obtain ⟨h9, hrest, hlen, _, _⟩ := frameHeader_ok e0
      right
      subst hrest
      simp only [List.length_drop, Consts.h2FrameHeaderSize] at *
      omega
  | err c =>
    rcases decode_err hd with e0 | ⟨h, rest, _, e1 | ⟨_, _, hc⟩⟩
    · exact frameHeader_fail e0
    · exact frameBody_fail e1
    · left; exact hc

theorem c15_classification (input : Bytes) (mfs : Nat)
    (hc : Consts.h2FrameHeaderSize + declaredLen input ≤ input.length) :
    outcome (decode input mfs) =
      some (classify (typeByteOf input) (flagsOf input) (sidOf input) (declaredLen input) mfs
              ((payloadOf input).headD 0)) := by
  simp only [Consts.h2FrameHeaderSize] at hc
  have h3 : ¬ input.length < 3 := by omega
  have h9 : ¬ input.length < 9 := by omega
  unfold decode frameHeader classify
  simp only [h3, h9, if_false]
  by_cases hm : beVal (input.take 3) > mfs
  · simp [hm, declaredLen, outcome]
  · simp only [hm, if_false, declaredLen]
    by_cases hs : sidValid (convertFrameType ((input.drop 3).headD 0)) (mask31 (beVal ((input.drop 5).take 4))) = true
    · simp only [hs, if_true, typeByteOf, flagsOf, sidOf, payloadOf, declaredLen]
      have hb := bodyClass_eq (input.drop 9)
        { len := beVal (input.take 3), ftype := convertFrameType ((input.drop 3).headD 0),
          flags := (input.drop 4).headD 0, sid := mask31 (beVal ((input.drop 5).take 4)) }
        (by simp only [List.length_drop, declaredLen] at *; omega)
      simp only at hb
      rw [← hb]
      have hlen : ¬ (input.drop 9).length < beVal (input.take 3) := by
        simp only [List.length_drop, declaredLen] at *; omega
      cases hfb : frameBody (input.drop 9) _ with
      | ok f r => simp [outcome, bodyOutcome]
      | fail c => simp [outcome, bodyOutcome]
      | eof =>
        simp only [List.length_drop] at hlen
        simp [outcome, bodyOutcome, hlen]
    · simp only [Bool.not_eq_true] at hs
      simp only [hs, typeByteOf, sidOf, outcome, Bool.false_eq_true, if_false, if_true]

theorem c15_padding_rules_reject (i : Bytes) (h : Header) (hc : h.len ≤ i.length)
    (ht : h.ftype = .data ∨ h.ftype = .headers)
    (hp : flagSet h.flags Consts.h2FlagPadded = true)
    (hbad : h.len = 0 ∨ h.len ≤ (i.take h.len).headD 0) :
    bodyOutcome (frameBody i h) = .error PROTOCOL_ERROR := by
  rw [bodyClass_eq i h hc]
  unfold bodyClass
  rcases ht with ht | ht
  · simp only [ht, hp, ↓reduceIte]
    rw [if_pos (by omega)]
  · simp only [ht, hp, ↓reduceIte]
    rw [if_pos (by omega)]

theorem c15_padding_rules_data_accept (p : Nat) (r : Bytes) (h : Header)
    (hc : h.len ≤ (p :: r).length) (ht : h.ftype = .data)
    (hp : flagSet h.flags Consts.h2FlagPadded = true) (hlt : p < h.len) :
    frameBody (p :: r) h =
      .ok (.data h.sid (r.take (h.len - 1 - p)) (flagSet h.flags Consts.h2FlagEndStream))
          ((p :: r).drop h.len) := by
  obtain ⟨n, hn⟩ : ∃ n, h.len = n + 1 := ⟨h.len - 1, by omega⟩
  have hlen : ¬ (p :: r).length < n + 1 := by omega
  have hle : n ≤ r.length := by simp only [List.length_cons] at hc; omega
  unfold frameBody dataFrame
  simp only [ht, hlen, if_false, hn, List.take_succ_cons, stripPadding, hp, if_true, List.length_take]
  have h1 : ¬ p > min n r.length := by omega
  simp only [h1, if_false, unpad, List.length_take]
  have h2 : p ≤ min n r.length := by omega
  simp only [h2, if_true, List.take_take]
  have h3 : min (min n r.length - p) n = n + 1 - 1 - p := by omega
  rw [h3]

theorem c15_padding_rules_data_plain (i : Bytes) (h : Header)
    (hc : h.len ≤ i.length) (ht : h.ftype = .data)
    (hp : flagSet h.flags Consts.h2FlagPadded = false) :
    frameBody i h =
      .ok (.data h.sid (i.take h.len) (flagSet h.flags Consts.h2FlagEndStream)) (i.drop h.len) := by
  have hlen : ¬ i.length < h.len := by omega
  unfold frameBody dataFrame
  simp [ht, hlen, stripPadding, hp, unpad, List.take_take]

theorem c15_settings_bounds {i : Bytes} {h : Header} {es : List (Nat × Nat)} {ack : Bool} {rest : Bytes}
    (e : frameBody i h = .ok (.settings es ack) rest) :
    h.ftype = .settings ∧ h.len % Consts.h2SettingsEntrySize = 0 ∧
    es.length * Consts.h2SettingsEntrySize = h.len ∧
    es.length ≤ Consts.h2MaxSettingsEntries ∧
    (ack = true → es = []) := by
  unfold frameBody at e
  split at e
  all_goals
    try unfold dataFrame at e
    try unfold headersFrame at e
    try unfold priorityFrame at e
    try unfold rstStreamFrame at e
    try unfold pushPromiseFrame at e
    try unfold continuationFrame at e
    try unfold pingFrame at e
    try unfold goAwayFrame at e
    try unfold windowUpdateFrame at e
    try unfold priorityUpdateFrame at e
    try unfold unknownFrame at e
  case h_7 ht =>
    split at e
    · cases e
    · next hack =>
      split at e
      · next h6 =>
        obtain ⟨hcap, hl, hle⟩ := settingsFrame_cap e
        refine ⟨ht, h6, ?_, hcap, ?_⟩
        · simp only [Consts.h2SettingsEntrySize] at *; omega
        · intro ha
          unfold settingsFrame at e
          split at e
          · cases e
          · split at e
            · cases e
            · injection e with e1 e2
              injection e1 with e3 e4
              rw [← e4] at ha
              simp only [ha, Bool.true_and, bne_iff_ne, ne_eq, Decidable.not_not] at hack
              have : es.length = 0 := by rw [hl, hack]
              exact List.eq_nil_of_length_eq_zero this
      · cases e
  all_goals grind

theorem c15_first_settings_cap {i : Bytes} {es : List (Nat × Nat)} {ack : Bool} {rest : Bytes}
    (e : firstSettings i = .ok (.settings es ack) rest) : es.length ≤ Consts.h2MaxSettingsEntries := by
  unfold firstSettings at e
  split at e
  · cases e
  · exact (settingsFrame_cap e).1

theorem c15_decode_encode_header (h : Header) (rest : Bytes) (mfs : Nat)
    (hl : h.len < 16777216) (hm : h.len ≤ mfs) (hf : h.flags < 256) (hw : h.ftype.wf)
    (hs : sidValid h.ftype (mask31 h.sid) = true) :
    frameHeader (genFrameHeader h ++ rest) mfs = .ok { h with sid := mask31 h.sid } rest := by
  rw [frameHeader_gen, convert_serialize _ hw, Nat.mod_eq_of_lt hl, Nat.mod_eq_of_lt hf]
  have : ¬ h.len > mfs := by omega
  simp [this, hs]

theorem c15_decode_encode_rst_stream (sid code mfs : Nat) (hm : Consts.h2RstStreamPayloadSize ≤ mfs)
    (hs : mask31 sid ≠ 0) (hc : code < 4294967296) :
    decode (genRstStream sid code) mfs =
      .ok { len := Consts.h2RstStreamPayloadSize, ftype := .rstStream, flags := 0, sid := mask31 sid }
          (.rstStream (mask31 sid) code) (genRstStream sid code).length := by
  unfold genRstStream
  have hh := c15_decode_encode_header
    { len := Consts.h2RstStreamPayloadSize, ftype := .rstStream, flags := 0, sid := sid } (be32 code) mfs
    (by simp [Consts.h2RstStreamPayloadSize]) hm (by simp) trivial (by simp [sidValid, hs])
  have hv : beVal (be32 code) = code := by rw [beVal_be32]; omega
  have hb : frameBody (be32 code)
      { len := Consts.h2RstStreamPayloadSize, ftype := .rstStream, flags := 0, sid := mask31 sid } =
      .ok (.rstStream (mask31 sid) code) [] := by
    simp [frameBody, rstStreamFrame, Consts.h2RstStreamPayloadSize, be32] at hv ⊢
    exact hv
  rw [decode_of_ok hh hb]
  simp

theorem c15_decode_encode_window_update (sid inc mfs : Nat) (hm : Consts.h2WindowUpdatePayloadSize ≤ mfs) :
    decode (genWindowUpdate sid inc) mfs =
      .ok { len := Consts.h2WindowUpdatePayloadSize, ftype := .windowUpdate, flags := 0, sid := mask31 sid }
          (.windowUpdate (mask31 sid) (mask31 inc)) (genWindowUpdate sid inc).length := by
  unfold genWindowUpdate
  have hh := c15_decode_encode_header
    { len := Consts.h2WindowUpdatePayloadSize, ftype := .windowUpdate, flags := 0, sid := sid }
    (be32 (mask31 inc)) mfs
    (by simp [Consts.h2WindowUpdatePayloadSize]) hm (by simp) trivial (by simp [sidValid])
  have hv : beVal (be32 (mask31 inc)) = mask31 inc := by
    rw [beVal_be32]; have := mask31_lt inc; omega
  have hb : frameBody (be32 (mask31 inc))
      { len := Consts.h2WindowUpdatePayloadSize, ftype := .windowUpdate, flags := 0, sid := mask31 sid } =
      .ok (.windowUpdate (mask31 sid) (mask31 inc)) [] := by
    simp [frameBody, windowUpdateFrame, Consts.h2WindowUpdatePayloadSize, be32] at hv ⊢
    rw [hv, mask31_idem]
  rw [decode_of_ok hh hb]
  simp

theorem c15_decode_encode_goaway (last code mfs : Nat) (hm : Consts.h2GoawayPayloadSize ≤ mfs)
    (hc : code < 4294967296) :
    decode (genGoAway last code) mfs =
      .ok { len := Consts.h2GoawayPayloadSize, ftype := .goAway, flags := 0, sid := 0 }
          (.goAway (mask31 last) code []) (genGoAway last code).length := by
  unfold genGoAway
  have hh := c15_decode_encode_header
    { len := Consts.h2GoawayPayloadSize, ftype := .goAway, flags := 0, sid := 0 }
    (be32 (mask31 last) ++ be32 code) mfs
    (by simp [Consts.h2GoawayPayloadSize]) hm (by simp) trivial (by simp [sidValid, mask31])
  have h0 : mask31 0 = 0 := by simp [mask31]
  rw [h0] at hh
  have hv1 : beVal (be32 (mask31 last)) = mask31 last := by
    rw [beVal_be32]; have := mask31_lt last; omega
  have hv2 : beVal (be32 code) = code := by rw [beVal_be32]; omega
  have hb : frameBody (be32 (mask31 last) ++ be32 code)
      { len := Consts.h2GoawayPayloadSize, ftype := .goAway, flags := 0, sid := 0 } =
      .ok (.goAway (mask31 last) code []) [] := by
    simp [frameBody, goAwayFrame, Consts.h2GoawayPayloadSize, be32] at hv1 hv2 ⊢
    rw [hv1, hv2, mask31_idem]; simp
  rw [List.append_assoc, decode_of_ok hh hb]
  simp

theorem c15_decode_encode_ping_ack (payload : Bytes) (mfs : Nat) (hp : payload.length = Consts.h2PingPayloadSize)
    (hm : Consts.h2PingPayloadSize ≤ mfs) :
    decode (genPingAck payload) mfs =
      .ok { len := Consts.h2PingPayloadSize, ftype := .ping, flags := Consts.h2FlagAck, sid := 0 }
          (.ping payload true) (genPingAck payload).length := by
  have hg : genPingAck payload =
      genFrameHeader { len := Consts.h2PingPayloadSize, ftype := .ping, flags := Consts.h2FlagAck, sid := 0 }
        ++ payload := by
    have : genFrameHeader { len := Consts.h2PingPayloadSize, ftype := .ping, flags := Consts.h2FlagAck, sid := 0 }
        = Consts.h2PingAckHeader := by decide
    rw [this]; rfl
  have hh := c15_decode_encode_header
    { len := Consts.h2PingPayloadSize, ftype := .ping, flags := Consts.h2FlagAck, sid := 0 } payload mfs
    (by simp [Consts.h2PingPayloadSize]) hm (by simp [Consts.h2FlagAck]) trivial (by simp [sidValid, mask31])
  have h0 : mask31 0 = 0 := by simp [mask31]
  rw [h0] at hh
  have hb : frameBody payload
      { len := Consts.h2PingPayloadSize, ftype := .ping, flags := Consts.h2FlagAck, sid := 0 } =
      .ok (.ping payload true) [] := by
    have ha : flagSet Consts.h2FlagAck Consts.h2FlagAck = true := by decide
    simp only [Consts.h2PingPayloadSize] at hp
    simp [frameBody, pingFrame, Consts.h2PingPayloadSize, hp, ha]
    rw [← hp]; simp
  rw [hg, decode_of_ok hh hb]
  simp

theorem c15_decode_encode_settings_ack (mfs : Nat) :
    decode Consts.h2SettingsAck mfs =
      .ok { len := 0, ftype := .settings, flags := Consts.h2FlagAck, sid := 0 } (.settings [] true) 9 := by
  have hh : frameHeader Consts.h2SettingsAck mfs =
      .ok { len := 0, ftype := .settings, flags := Consts.h2FlagAck, sid := 0 } [] := by
    have e : Consts.h2SettingsAck =
        genFrameHeader { len := 0, ftype := .settings, flags := Consts.h2FlagAck, sid := 0 } ++ [] := by decide
    rw [e]
    have := c15_decode_encode_header { len := 0, ftype := .settings, flags := Consts.h2FlagAck, sid := 0 } [] mfs
      (by simp) (by simp) (by simp [Consts.h2FlagAck]) trivial (by simp [sidValid, mask31])
    simpa [mask31] using this
  have hb : frameBody [] { len := 0, ftype := .settings, flags := Consts.h2FlagAck, sid := 0 } =
      .ok (.settings [] true) [] := by decide
  rw [decode_of_ok hh hb]
  rfl

theorem c15_decode_encode_settings (s : Settings) (mfs : Nat) (hw : s.wf)
    (hm : Consts.h2SettingsEntrySize * Consts.h2SettingsCount ≤ mfs) :
    decode (genSettings s) mfs =
      .ok { len := Consts.h2SettingsEntrySize * Consts.h2SettingsCount, ftype := .settings, flags := 0, sid := 0 }
          (.settings (settingsEntries s) false) (genSettings s).length := by
  unfold genSettings
  have hh := c15_decode_encode_header
    { len := Consts.h2SettingsEntrySize * Consts.h2SettingsCount, ftype := .settings, flags := 0, sid := 0 }
    (genEntries (settingsEntries s)) mfs
    (by simp [Consts.h2SettingsEntrySize, Consts.h2SettingsCount]) hm (by simp) trivial (by simp [sidValid, mask31])
  have h0 : mask31 0 = 0 := by simp [mask31]
  rw [h0] at hh
  obtain ⟨w1, w2, w3, w4, w5⟩ := hw
  have hes : ∀ e ∈ settingsEntries s, e.1 < 65536 ∧ e.2 < 4294967296 := by
    intro e he
    simp only [settingsEntries, List.mem_cons, List.mem_nil_iff, or_false] at he
    have hb : ∀ b : Bool, b2n b < 4294967296 := by intro b; cases b <;> decide
    rcases he with rfl | rfl | rfl | rfl | rfl | rfl | rfl | rfl <;>
      refine ⟨by simp only; decide, ?_⟩ <;> simp only <;>
      first
        | assumption
        | exact hb _
  have hlen : (genEntries (settingsEntries s)).length = 48 := by
    rw [genEntries_length]; simp [settingsEntries]
  have hb : frameBody (genEntries (settingsEntries s))
      { len := Consts.h2SettingsEntrySize * Consts.h2SettingsCount, ftype := .settings, flags := 0, sid := 0 } =
      .ok (.settings (settingsEntries s) false) [] := by
    have hf : flagSet 0 Consts.h2FlagAck = false := by decide
    have ht : List.take 48 (genEntries (settingsEntries s)) = genEntries (settingsEntries s) := by
      rw [← hlen]; simp
    have hd : List.drop 48 (genEntries (settingsEntries s)) = [] := by
      rw [← hlen]; simp
    simp [frameBody, settingsFrame, Consts.h2SettingsEntrySize, Consts.h2SettingsCount, Consts.h2MaxSettingsEntries,
      hf, hlen, ht, hd, parseSettings_genEntries _ hes]
  rw [decode_of_ok hh hb]
  simp

theorem c15_flood_detects_ping_burst :
    (floodRun (Flood.new { cfgSmall with maxPing := 3 }) [.ping, .ping, .ping, .ping]).2
      = some (ENHANCE_YOUR_CALM, 4, 3) ∧
    (floodRun (Flood.new { cfgSmall with maxPing := 3 }) [.ping, .ping, .ping, .age 1000, .ping, .ping]).2 = none := by
  decide

theorem c15_stream_table_conforms (st : StreamSt) (fk : FrameKind) :
    headerVerdict (viewOf st) fk ∈ rfcAllowed st fk := by
  cases st <;> cases fk <;> decide

theorem c15_refused_stream_frames_keep_connection (fk : FrameKind) (h : fk ≠ .continuation) :
    (headerVerdict (viewOf .refused) fk).isConnError = false := by
  cases fk <;> first | exact absurd rfl h | decide

theorem c15_idle_stream_frames_are_connection_errors (fk : FrameKind) (h1 : fk ≠ .headers) (h2 : fk ≠ .priority) :
    headerVerdict (viewOf .idleAbove) fk = .connError PROTOCOL_ERROR := by
  cases fk <;> first | exact absurd rfl h1 | exact absurd rfl h2 | decide

theorem c15_empty_data_counts_content_not_wire (p : Nat) (r : Bytes) (h : Header) (ctx : FrameCtx)
    (hc : h.len ≤ (p :: r).length) (ht : h.ftype = .data) (hctx : ctx ≠ .closedStream)
    (hp : flagSet h.flags Consts.h2FlagPadded = true) (hes : flagSet h.flags Consts.h2FlagEndStream = false)
    (hl : h.len = p + 1) :
    ∃ f rest, frameBody (p :: r) h = .ok f rest ∧ frameEvents ctx h f = [.emptyData] := by
  refine ⟨_, _, c15_padding_rules_data_accept p r h hc ht hp (by omega), ?_⟩
  have : h.len - 1 - p = 0 := by omega
  simp [frameEvents, this, hes, hctx]

theorem c15_empty_data_unpadded (i : Bytes) (h : Header) (ctx : FrameCtx) (ht : h.ftype = .data)
    (hctx : ctx ≠ .closedStream) (hp : flagSet h.flags Consts.h2FlagPadded = false)
    (hes : flagSet h.flags Consts.h2FlagEndStream = false) (hl : h.len = 0) :
    ∃ f rest, frameBody i h = .ok f rest ∧ frameEvents ctx h f = [.emptyData] := by
  refine ⟨_, _, c15_padding_rules_data_plain i h (by omega) ht hp, ?_⟩
  simp [frameEvents, hl, hes, hctx]

theorem c15_stream_state_history_counterexample :
    (connRun (Conn.init 1) [.frame 1 .headers true, .frame 3 .headers true]).1.rfcState 3 = .closed ∧
    (connRun (Conn.init 1) [.frame 1 .headers true, .frame 3 .headers true, .respond 1, .frame 3 .headers true]).1.rfcState 3
      = .halfClosedRemote := by decide

end Sozu.H2Wire
