import Sozu.Generated.Consts
/-
Model of the HTTP/2 wire layer of sozu (property C15):

* `lib/src/protocol/mux/parser.rs`: `frame_header`, `frame_body` and the
  per-type body parsers, transcribed branch for branch *in the order the code
  performs its checks* (nom `complete` parsers: a short input is
  `Err::Error(Eof)`, here `PRes.eof`; every H2 error is a `Failure`, here
  `PRes.fail code`);
* the glue of `h2.rs` around them (`decode`): header, then body, then the
  private `error_nom_to_h2` mapping (a nom error on a complete payload is sent
  as PROTOCOL_ERROR);
* `lib/src/protocol/mux/serializer.rs`: `gen_frame_header`, `gen_settings`,
  `gen_rst_stream`, `gen_window_update`, `gen_goaway`,
  `gen_ping_acknowledgement`;
* `H2FloodDetector` of `h2.rs` (`check_flood`, `maybe_reset_window`,
  `record_rst_lifetime`, `record_rst_emitted`, `reset_continuation`) together
  with the increments the `handle_*_frame` functions perform around them.

Bytes are `Nat`s below 256 (the driver only builds such lists); `u32`/`u64`
arithmetic is modelled with explicit wrap / saturation where the code wraps or
saturates. Time is an input (`FloodOp.age`). Core Lean only, so the driver
links as an executable.
-/
namespace Sozu.H2Wire
open Sozu

abbrev Bytes := List Nat

/-- RFC 9113 §7 error codes used by the wire layer (`H2Error as u32`). -/
def PROTOCOL_ERROR : Nat := 1
def FRAME_SIZE_ERROR : Nat := 6
def ENHANCE_YOUR_CALM : Nat := 11

/-- big-endian value of a byte string (`be_u8/16/24/32`) -/
def beVal (bs : Bytes) : Nat := bs.foldl (fun a b => a * 256 + b) 0

/-- `x & STREAM_ID_MASK` -/
def mask31 (x : Nat) : Nat := x &&& Consts.h2StreamIdMask

/-- `flags & f != 0` -/
def flagSet (flags f : Nat) : Bool := (flags &&& f) != 0

/-! ## frame types -/

inductive FType where
  | data | headers | priority | rstStream | settings | pushPromise | ping | goAway
  | windowUpdate | continuation | priorityUpdate
  | unknown (t : Nat)
deriving DecidableEq, Repr

/-- `convert_frame_type` (the arms are re-extracted from the source). -/
def convertFrameType (t : Nat) : FType :=
  if t = Consts.h2TypeByteData then .data
  else if t = Consts.h2TypeByteHeaders then .headers
  else if t = Consts.h2TypeBytePriority then .priority
  else if t = Consts.h2TypeByteRstStream then .rstStream
  else if t = Consts.h2TypeByteSettings then .settings
  else if t = Consts.h2TypeBytePushPromise then .pushPromise
  else if t = Consts.h2TypeBytePing then .ping
  else if t = Consts.h2TypeByteGoAway then .goAway
  else if t = Consts.h2TypeByteWindowUpdate then .windowUpdate
  else if t = Consts.h2TypeByteContinuation then .continuation
  else if t = Consts.h2TypeBytePriorityUpdate then .priorityUpdate
  else .unknown t

/-- `serialize_frame_type` -/
def serializeFrameType : FType → Nat
  | .data => Consts.h2SerTypeByteData
  | .headers => Consts.h2SerTypeByteHeaders
  | .priority => Consts.h2SerTypeBytePriority
  | .rstStream => Consts.h2SerTypeByteRstStream
  | .settings => Consts.h2SerTypeByteSettings
  | .pushPromise => Consts.h2SerTypeBytePushPromise
  | .ping => Consts.h2SerTypeBytePing
  | .goAway => Consts.h2SerTypeByteGoAway
  | .windowUpdate => Consts.h2SerTypeByteWindowUpdate
  | .continuation => Consts.h2SerTypeByteContinuation
  | .priorityUpdate => Consts.h2SerTypeBytePriorityUpdate
  | .unknown t => t

structure Header where
  len : Nat
  ftype : FType
  flags : Nat
  sid : Nat
deriving DecidableEq, Repr

/-- nom result of a `complete` parser: value and rest, `Err::Error(Eof)`, or
    `Err::Failure(H2(code))`. -/
inductive PRes (α : Type) where
  | ok (v : α) (rest : Bytes)
  | eof
  | fail (code : Nat)
deriving Repr, DecidableEq

/-- the per-type stream-id table of `frame_header` -/
def sidValid (ft : FType) (sid : Nat) : Bool :=
  match ft with
  | .data | .headers | .priority | .rstStream | .pushPromise | .continuation => sid != 0
  | .settings | .ping | .goAway | .priorityUpdate => sid == 0
  | .windowUpdate | .unknown _ => true

/-- `frame_header(input, max_frame_size)`. Reads u24, (size check), u8, u8, u32,
    (stream-id check) in this order. -/
def frameHeader (input : Bytes) (mfs : Nat) : PRes Header :=
  if input.length < 3 then .eof
  else
    let len := beVal (input.take 3)
    if len > mfs then .fail FRAME_SIZE_ERROR
    else if input.length < 9 then .eof
    else
      let t := (input.drop 3).headD 0
      let flags := (input.drop 4).headD 0
      let sid := mask31 (beVal ((input.drop 5).take 4))
      let ft := convertFrameType t
      if sidValid ft sid then .ok { len := len, ftype := ft, flags := flags, sid := sid } (input.drop 9)
      else .fail PROTOCOL_ERROR

/-! ## frame bodies -/

inductive Frame where
  | data (sid : Nat) (payload : Bytes) (endStream : Bool)
  | headers (sid : Nat) (prio : Option (Bool × Nat × Nat)) (fragment : Bytes) (endStream endHeaders : Bool)
  | priority (sid : Nat) (exclusive : Bool) (dep : Nat) (weight : Nat)
  | rstStream (sid : Nat) (code : Nat)
  | settings (entries : List (Nat × Nat)) (ack : Bool)
  | ping (payload : Bytes) (ack : Bool)
  | goAway (last : Nat) (code : Nat) (debug : Bytes)
  | windowUpdate (sid : Nat) (increment : Nat)
  | continuation
  | priorityUpdate (psid : Nat) (value : Bytes)
  | unknown (t : Nat)
deriving DecidableEq, Repr

/-- `strip_padding`: the pad length and the slice after the pad-length byte. -/
def stripPadding (i : Bytes) (flags : Nat) : PRes Nat :=
  if flagSet flags Consts.h2FlagPadded then
    match i with
    | [] => .eof
    | p :: rest => if p > rest.length then .fail PROTOCOL_ERROR else .ok p rest
  else .ok 0 i

/-- `unpad` (`checked_sub`) -/
def unpad (i : Bytes) (pad : Nat) : Option Bytes :=
  if pad ≤ i.length then some (i.take (i.length - pad)) else none

/-- `stream_dependency` + weight on a 5-byte prefix: (exclusive, dependency, weight) -/
def prioOf (i : Bytes) : Bool × Nat × Nat :=
  let raw := beVal (i.take 4)
  (raw / 2147483648 % 2 == 1, mask31 raw, (i.drop 4).headD 0)

def dataFrame (input : Bytes) (h : Header) : PRes Frame :=
  if input.length < h.len then .eof
  else
    match stripPadding (input.take h.len) h.flags with
    | .eof => .eof
    | .fail c => .fail c
    | .ok pad i =>
      match unpad i pad with
      | none => .fail PROTOCOL_ERROR
      | some payload =>
        .ok (.data h.sid payload (flagSet h.flags Consts.h2FlagEndStream)) (input.drop h.len)

def headersFrame (input : Bytes) (h : Header) : PRes Frame :=
  if input.length < h.len then .eof
  else
    match stripPadding (input.take h.len) h.flags with
    | .eof => .eof
    | .fail c => .fail c
    | .ok pad i =>
      if flagSet h.flags Consts.h2FlagPriority then
        if i.length < 5 then .eof
        else
          match unpad (i.drop 5) pad with
          | none => .fail PROTOCOL_ERROR
          | some frag =>
            .ok (.headers h.sid (some (prioOf i)) frag
                  (flagSet h.flags Consts.h2FlagEndStream) (flagSet h.flags Consts.h2FlagEndHeaders))
                (input.drop h.len)
      else
        match unpad i pad with
        | none => .fail PROTOCOL_ERROR
        | some frag =>
          .ok (.headers h.sid none frag
                (flagSet h.flags Consts.h2FlagEndStream) (flagSet h.flags Consts.h2FlagEndHeaders))
              (input.drop h.len)

/-- `priority_frame` (after the size check of `frame_body`) -/
def priorityFrame (input : Bytes) (h : Header) : PRes Frame :=
  if input.length < h.len then .eof
  else
    let d := input.take h.len
    if d.length < 5 then .eof
    else
      let p := prioOf d
      .ok (.priority h.sid p.1 p.2.1 p.2.2) (input.drop h.len)

def rstStreamFrame (input : Bytes) (h : Header) : PRes Frame :=
  if input.length < h.len then .eof
  else
    let d := input.take h.len
    if d.length < 4 then .eof
    else .ok (.rstStream h.sid (beVal (d.take 4))) (input.drop h.len)

/-- `many0(complete(tuple((be_u16, be_u32))))`: whole 6-byte entries, a shorter
    tail is dropped. -/
def parseSettings : Bytes → List (Nat × Nat)
  | a :: b :: c :: d :: e :: f :: rest =>
    (a * 256 + b, ((c * 256 + d) * 256 + e) * 256 + f) :: parseSettings rest
  | _ => []

/-- `settings_frame` (public; `h2.rs` also calls it directly on the first
    SETTINGS of a connection, with `payload_len = input.len()` and no flags). -/
def settingsFrame (input : Bytes) (h : Header) : PRes Frame :=
  if h.len / Consts.h2SettingsEntrySize > Consts.h2MaxSettingsEntries then .fail FRAME_SIZE_ERROR
  else if input.length < h.len then .eof
  else .ok (.settings (parseSettings (input.take h.len)) (flagSet h.flags Consts.h2FlagAck)) (input.drop h.len)

/-- The first SETTINGS of a client connection as `h2.rs` parses it
    (`H2State::ClientSettings`): `settings_frame` on the bytes read, with a
    header built on the spot (no flags, `payload_len = input.len()`), i.e.
    without the checks of `frame_body`. `Consts.h2FirstSettingsChecksLen` is
    re-extracted from the source: whether that state refuses a length that is
    not a multiple of 6 before calling `settings_frame`. -/
def firstSettings (input : Bytes) : PRes Frame :=
  if Consts.h2FirstSettingsChecksLen && input.length % Consts.h2SettingsEntrySize != 0 then
    .fail FRAME_SIZE_ERROR
  else
    settingsFrame input { len := input.length, ftype := .settings, flags := 0, sid := 0 }

def pushPromiseFrame (input : Bytes) (h : Header) : PRes Frame :=
  if input.length < h.len then .eof else .fail PROTOCOL_ERROR

/-- `ping_frame` (after the size check: exactly 8 payload bytes) -/
def pingFrame (input : Bytes) (h : Header) : PRes Frame :=
  if input.length < h.len then .eof
  else .ok (.ping ((input.take h.len).take 8) (flagSet h.flags Consts.h2FlagAck)) (input.drop h.len)

def goAwayFrame (input : Bytes) (h : Header) : PRes Frame :=
  if input.length < h.len then .eof
  else
    let d := input.take h.len
    if d.length < 8 then .eof
    else .ok (.goAway (mask31 (beVal (d.take 4))) (beVal ((d.drop 4).take 4)) (d.drop 8)) (input.drop h.len)

def windowUpdateFrame (input : Bytes) (h : Header) : PRes Frame :=
  if input.length < h.len then .eof
  else
    let d := input.take h.len
    if d.length < 4 then .eof
    else .ok (.windowUpdate h.sid (mask31 (beVal (d.take 4)))) (input.drop h.len)

def continuationFrame (input : Bytes) (h : Header) : PRes Frame :=
  if input.length < h.len then .eof else .ok .continuation (input.drop h.len)

def unknownFrame (input : Bytes) (h : Header) : PRes Frame :=
  if input.length < h.len then .eof
  else .ok (.unknown (match h.ftype with | .unknown t => t | _ => 0)) (input.drop h.len)

def priorityUpdateFrame (input : Bytes) (h : Header) : PRes Frame :=
  if h.len < Consts.h2PriorityUpdateMinPayload then .fail FRAME_SIZE_ERROR
  else if h.len - Consts.h2PriorityUpdateMinPayload > Consts.h2PriorityUpdateMaxValue then .fail PROTOCOL_ERROR
  else if input.length < h.len then .eof
  else
    let d := input.take h.len
    .ok (.priorityUpdate (mask31 (beVal (d.take Consts.h2PriorityUpdateMinPayload)))
          (d.drop Consts.h2PriorityUpdateMinPayload)) (input.drop h.len)

/-- `frame_body(i, header)` -/
def frameBody (i : Bytes) (h : Header) : PRes Frame :=
  match h.ftype with
  | .data => dataFrame i h
  | .headers => headersFrame i h
  | .priority =>
    if h.len = Consts.h2PriorityPayloadSize then priorityFrame i h else .fail FRAME_SIZE_ERROR
  | .rstStream =>
    if h.len = Consts.h2RstStreamPayloadSize then rstStreamFrame i h else .fail FRAME_SIZE_ERROR
  | .pushPromise => pushPromiseFrame i h
  | .continuation => continuationFrame i h
  | .settings =>
    if flagSet h.flags Consts.h2FlagAck && h.len != 0 then .fail FRAME_SIZE_ERROR
    else if h.len % Consts.h2SettingsEntrySize = 0 then settingsFrame i h
    else .fail FRAME_SIZE_ERROR
  | .ping =>
    if h.len = Consts.h2PingPayloadSize then pingFrame i h else .fail FRAME_SIZE_ERROR
  | .goAway =>
    if h.len ≥ Consts.h2GoawayPayloadSize then goAwayFrame i h else .fail FRAME_SIZE_ERROR
  | .windowUpdate =>
    if h.len = Consts.h2WindowUpdatePayloadSize then windowUpdateFrame i h else .fail FRAME_SIZE_ERROR
  | .priorityUpdate => priorityUpdateFrame i h
  | .unknown _ => unknownFrame i h

/-! ## the decoder as the connection uses it -/

inductive Res where
  | ok (h : Header) (f : Frame) (consumed : Nat)
  | incomplete
  | err (code : Nat)
deriving Repr, DecidableEq

/-- Header then body. A nom `Eof` from the body when the whole declared payload
    is present is what `h2.rs::error_nom_to_h2` turns into PROTOCOL_ERROR. -/
def decode (input : Bytes) (mfs : Nat) : Res :=
  match frameHeader input mfs with
  | .eof => .incomplete
  | .fail c => .err c
  | .ok h rest =>
    match frameBody rest h with
    | .ok f rest' => .ok h f (input.length - rest'.length)
    | .fail c => .err c
    | .eof => if rest.length < h.len then .incomplete else .err PROTOCOL_ERROR

/-- the payload length a (possibly partial) input declares -/
def declaredLen (input : Bytes) : Nat := beVal (input.take 3)

/-! ## serializer -/

def be16 (v : Nat) : Bytes := [v / 256 % 256, v % 256]
def be24 (v : Nat) : Bytes := [v / 65536 % 256, v / 256 % 256, v % 256]
def be32 (v : Nat) : Bytes := [v / 16777216 % 256, v / 65536 % 256, v / 256 % 256, v % 256]

/-- `gen_frame_header`: u24 length (low 24 bits), type, flags, masked stream id -/
def genFrameHeader (h : Header) : Bytes :=
  be24 h.len ++ [serializeFrameType h.ftype % 256, h.flags % 256] ++ be32 (mask31 h.sid)

structure Settings where
  headerTableSize : Nat
  enablePush : Bool
  maxConcurrentStreams : Nat
  initialWindowSize : Nat
  maxFrameSize : Nat
  maxHeaderListSize : Nat
  enableConnectProtocol : Bool
  noRfc7540Priorities : Bool
deriving Repr

def b2n (b : Bool) : Nat := if b then 1 else 0

/-- the (identifier, value) list `gen_settings` writes, in order -/
def settingsEntries (s : Settings) : List (Nat × Nat) :=
  [ (Consts.h2SettingsIdHeaderTableSize, s.headerTableSize),
    (Consts.h2SettingsIdEnablePush, b2n s.enablePush),
    (Consts.h2SettingsIdMaxConcurrentStreams, s.maxConcurrentStreams),
    (Consts.h2SettingsIdInitialWindowSize, s.initialWindowSize),
    (Consts.h2SettingsIdMaxFrameSize, s.maxFrameSize),
    (Consts.h2SettingsIdMaxHeaderListSize, s.maxHeaderListSize),
    (Consts.h2SettingsIdEnableConnectProtocol, b2n s.enableConnectProtocol),
    (Consts.h2SettingsIdNoRfc7540Priorities, b2n s.noRfc7540Priorities) ]

def genEntries : List (Nat × Nat) → Bytes
  | [] => []
  | (k, v) :: r => be16 k ++ be32 v ++ genEntries r

/-- `gen_settings` -/
def genSettings (s : Settings) : Bytes :=
  genFrameHeader { len := Consts.h2SettingsEntrySize * Consts.h2SettingsCount, ftype := .settings, flags := 0, sid := 0 }
    ++ genEntries (settingsEntries s)

/-- `gen_rst_stream` -/
def genRstStream (sid code : Nat) : Bytes :=
  genFrameHeader { len := Consts.h2RstStreamPayloadSize, ftype := .rstStream, flags := 0, sid := sid } ++ be32 code

/-- `gen_window_update` -/
def genWindowUpdate (sid inc : Nat) : Bytes :=
  genFrameHeader { len := Consts.h2WindowUpdatePayloadSize, ftype := .windowUpdate, flags := 0, sid := sid }
    ++ be32 (mask31 inc)

/-- `gen_goaway` -/
def genGoAway (last code : Nat) : Bytes :=
  genFrameHeader { len := Consts.h2GoawayPayloadSize, ftype := .goAway, flags := 0, sid := 0 }
    ++ be32 (mask31 last) ++ be32 code

/-- `gen_ping_acknowledgement`: canned header followed by the payload verbatim -/
def genPingAck (payload : Bytes) : Bytes := Consts.h2PingAckHeader ++ payload

/-! ## flood detector -/

def U32 : Nat := 4294967296
def U64 : Nat := 18446744073709551616

/-- `+= 1` on a `u32` (release build: wraps) -/
def wrapInc (c : Nat) : Nat := (c + 1) % U32
/-- `saturating_add` on `u32` / `u64` -/
def satAdd32 (c n : Nat) : Nat := min (c + n) (U32 - 1)
def satAdd64 (c n : Nat) : Nat := min (c + n) (U64 - 1)

/-- `H2FloodConfig` (the fields `check_flood` / `record_rst_*` read) -/
structure FloodCfg where
  maxRst : Nat
  maxPing : Nat
  maxSettings : Nat
  maxEmptyData : Nat
  maxWu0 : Nat
  maxCont : Nat
  maxGlitch : Nat
  maxRstLife : Nat
  maxRstAbusive : Nat
  maxRstEmitted : Nat
  maxHeaderList : Nat
deriving Repr, DecidableEq

/-- `H2FloodConfig::default()` -/
def FloodCfg.default : FloodCfg :=
  { maxRst := Consts.h2DefaultMaxRstStreamPerWindow,
    maxPing := Consts.h2DefaultMaxPingPerWindow,
    maxSettings := Consts.h2DefaultMaxSettingsPerWindow,
    maxEmptyData := Consts.h2DefaultMaxEmptyDataPerWindow,
    maxWu0 := Consts.h2DefaultMaxWindowUpdateStream0PerWindow,
    maxCont := Consts.h2DefaultMaxContinuationFrames,
    maxGlitch := Consts.h2DefaultMaxGlitchCount,
    maxRstLife := Consts.h2DefaultMaxRstStreamLifetime,
    maxRstAbusive := Consts.h2DefaultMaxRstStreamAbusiveLifetime,
    maxRstEmitted := Consts.h2DefaultMaxRstStreamEmittedLifetime,
    maxHeaderList := Consts.h2MaxHeaderListSize }

/-- `H2FloodConfig::new`: every threshold is clamped to at least 1 -/
def FloodCfg.clamped (c : FloodCfg) : FloodCfg :=
  { maxRst := max c.maxRst 1, maxPing := max c.maxPing 1, maxSettings := max c.maxSettings 1,
    maxEmptyData := max c.maxEmptyData 1, maxWu0 := max c.maxWu0 1, maxCont := max c.maxCont 1,
    maxGlitch := max c.maxGlitch 1, maxRstLife := max c.maxRstLife 1, maxRstAbusive := max c.maxRstAbusive 1,
    maxRstEmitted := max c.maxRstEmitted 1, maxHeaderList := max c.maxHeaderList 1 }

structure Flood where
  rst : Nat
  rstLife : Nat
  rstAbusive : Nat
  rstEmitted : Nat
  ping : Nat
  pingLife : Nat
  settings : Nat
  settingsLife : Nat
  emptyData : Nat
  wu0 : Nat
  cont : Nat
  accHdr : Nat
  glitch : Nat
  /-- milliseconds since `window_start` -/
  age : Nat
  cfg : FloodCfg
deriving Repr

def Flood.new (cfg : FloodCfg) : Flood :=
  { rst := 0, rstLife := 0, rstAbusive := 0, rstEmitted := 0, ping := 0, pingLife := 0, settings := 0,
    settingsLife := 0, emptyData := 0, wu0 := 0, cont := 0, accHdr := 0, glitch := 0, age := 0, cfg := cfg }

/-- a violation: (error code, observed count, threshold) -/
abbrev Violation := Nat × Nat × Nat

/-- `maybe_reset_window` -/
def maybeResetWindow (s : Flood) : Flood :=
  if s.age ≥ Consts.h2FloodWindowSecs * 1000 then
    { s with rst := s.rst / 2, ping := s.ping / 2, settings := s.settings / 2, emptyData := s.emptyData / 2,
             wu0 := s.wu0 / 2, glitch := s.glitch / 2, age := 0 }
  else s

def flag (count thr : Nat) : Option Violation :=
  if count > thr then some (ENHANCE_YOUR_CALM, count, thr) else none

/-- `a.or_else(|| b).or_else(|| c)…`: the first violation in the list -/
def firstSome : List (Option Violation) → Option Violation
  | [] => none
  | some v :: _ => some v
  | none :: r => firstSome r

/-- the `or_else` chain of `check_flood`, on the counters after the decay -/
def floodVerdict (s : Flood) : Option Violation :=
  firstSome
    [ flag s.rst s.cfg.maxRst,
      flag s.ping s.cfg.maxPing,
      flag s.pingLife Consts.h2DefaultMaxPingLifetime,
      flag s.settings s.cfg.maxSettings,
      flag s.settingsLife Consts.h2DefaultMaxSettingsLifetime,
      flag s.emptyData s.cfg.maxEmptyData,
      flag s.cont s.cfg.maxCont,
      flag s.wu0 s.cfg.maxWu0,
      flag s.accHdr s.cfg.maxHeaderList,
      flag s.glitch s.cfg.maxGlitch ]

/-- `check_flood` -/
def checkFlood (s : Flood) : Flood × Option Violation :=
  let s' := maybeResetWindow s
  (s', floodVerdict s')

/-- `record_rst_lifetime(response_started)` -/
def recordRstLifetime (s : Flood) (responseStarted : Bool) : Flood × Option Violation :=
  let s' := { s with rstLife := satAdd64 s.rstLife 1,
                     rstAbusive := if responseStarted then s.rstAbusive else satAdd64 s.rstAbusive 1 }
  (s', firstSome [flag s'.rstLife s'.cfg.maxRstLife, flag s'.rstAbusive s'.cfg.maxRstAbusive])

/-- `record_rst_emitted` -/
def recordRstEmitted (s : Flood) : Flood × Option Violation :=
  let s' := { s with rstEmitted := satAdd64 s.rstEmitted 1 }
  (s', flag s'.rstEmitted s'.cfg.maxRstEmitted)

/-- `reset_continuation` -/
def resetContinuation (s : Flood) : Flood := { s with cont := 0, accHdr := 0 }

/-- What the connection does to the detector for one received frame / event
    (the increments of the `handle_*` functions of `h2.rs`, each followed by
    `check_flood_or_return!` unless noted). -/
inductive FloodOp where
  /-- the clock: the rate window is now `ms` old -/
  | age (ms : Nat)
  /-- `handle_rst_stream_frame`: window counter, check, then the lifetime counters -/
  | rstReceived (responseStarted : Bool)
  /-- `reset_stream` with a non-NO_ERROR code -/
  | rstEmitted
  /-- non-ACK PING -/
  | ping
  /-- non-ACK SETTINGS carrying `unknownIds` unknown identifiers (each bumps the
      glitch counter *after* the check, without a new check) -/
  | settings (unknownIds : Nat)
  /-- DATA without payload and without END_STREAM -/
  | emptyData
  /-- non-zero WINDOW_UPDATE on stream 0 -/
  | wu0
  /-- CONTINUATION with `len` payload bytes -/
  | continuation (len : Nat)
  /-- HEADERS without END_HEADERS, fragment of `len` bytes (no check) -/
  | headersStart (len : Nat)
  /-- end of a header block: `reset_continuation` (no check) -/
  | headersEnd
  /-- any of the "glitch" sites (frame on a closed stream, …) -/
  | glitch
  /-- a bare `check_flood` -/
  | check
deriving Repr, DecidableEq

/-- one event; `some v` means the connection answers GOAWAY(v.1) and stops reading -/
def floodStep (s : Flood) (op : FloodOp) : Flood × Option Violation :=
  match op with
  | .age ms => ({ s with age := ms }, none)
  | .rstReceived rs =>
    let r := checkFlood { s with rst := wrapInc s.rst }
    if r.2.isSome then r else recordRstLifetime r.1 rs
  | .rstEmitted => recordRstEmitted s
  | .ping => checkFlood { s with ping := wrapInc s.ping, pingLife := satAdd32 s.pingLife 1 }
  | .settings k =>
    let r := checkFlood { s with settings := wrapInc s.settings, settingsLife := satAdd32 s.settingsLife 1 }
    if r.2.isSome then r else ({ r.1 with glitch := (r.1.glitch + k) % U32 }, none)
  | .emptyData => checkFlood { s with emptyData := wrapInc s.emptyData }
  | .wu0 => checkFlood { s with wu0 := satAdd32 s.wu0 1 }
  | .continuation len => checkFlood { s with cont := wrapInc s.cont, accHdr := satAdd32 s.accHdr len }
  | .headersStart len => ((if s.cont = 0 then { s with accHdr := len } else s), none)
  | .headersEnd => (resetContinuation s, none)
  | .glitch => checkFlood { s with glitch := wrapInc s.glitch }
  | .check => checkFlood s

/-- a connection's life: events are applied until the first violation -/
def floodRun (s : Flood) : List FloodOp → Flood × Option Violation
  | [] => (s, none)
  | op :: ops =>
    let r := floodStep s op
    if r.2.isSome then r else floodRun r.1 ops


/-! ## stream states: which frames `handle_header_state` accepts on which stream -/

def STREAM_CLOSED : Nat := 5
def REFUSED_STREAM : Nat := 7

/-- the state of the target stream id as the *peer* knows it (RFC 9113 §5.1),
    server position -/
inductive StreamSt where
  /-- never used, above every id the peer has used -/
  | idleAbove
  /-- never used, but a higher id has been used: implicitly closed (§5.1.1) -/
  | closedBelow
  /-- request and response both ended with END_STREAM -/
  | closedEndStream
  /-- the peer reset it -/
  | closedPeerRst
  /-- sozu refused it with RST_STREAM(REFUSED_STREAM): concurrent-stream limit,
      draining after GOAWAY, or no buffer; its id is above every accepted stream -/
  | refused
  /-- the peer sent END_STREAM, the response has not ended -/
  | halfClosedRemote
  /-- HEADERS without END_STREAM received, nothing ended -/
  | open
deriving DecidableEq, Repr

inductive FrameKind where
  | data | headers | windowUpdate | rstStream | priority | continuation
deriving DecidableEq, Repr

inductive StreamOut where
  /-- processed or silently discarded: the connection goes on -/
  | handled
  /-- RST_STREAM(code) on that stream, the connection goes on -/
  | streamError (code : Nat)
  /-- GOAWAY(code) -/
  | connError (code : Nat)
deriving DecidableEq, Repr

def StreamOut.isConnError : StreamOut → Bool
  | .connError _ => true
  | _ => false

/-- what `handle_header_state` consults about the frame's stream id -/
structure StreamView where
  /-- the id is in `self.streams` -/
  known : Bool
  /-- `front_received_end_of_stream` of that stream -/
  receivedEos : Bool
  /-- `stream_id > self.last_stream_id` (advances when a stream is created) -/
  aboveLast : Bool
  /-- `stream_id <= self.highest_peer_stream_id` (advances on creation and on every refusal) -/
  leHighest : Bool
  /-- the id is in `self.rst_sent`: sozu already queued a RST_STREAM for it (a second one is deduplicated) -/
  rstSent : Bool
deriving DecidableEq, Repr

def viewOf : StreamSt → StreamView
  | .idleAbove => { known := false, receivedEos := false, aboveLast := true, leHighest := false, rstSent := false }
  | .closedBelow => { known := false, receivedEos := false, aboveLast := false, leHighest := true, rstSent := false }
  | .closedEndStream => { known := false, receivedEos := true, aboveLast := false, leHighest := true, rstSent := false }
  | .closedPeerRst => { known := false, receivedEos := false, aboveLast := false, leHighest := true, rstSent := false }
  | .refused => { known := false, receivedEos := false, aboveLast := true, leHighest := true, rstSent := true }
  | .halfClosedRemote => { known := true, receivedEos := true, aboveLast := false, leHighest := true, rstSent := false }
  | .open => { known := true, receivedEos := false, aboveLast := false, leHighest := true, rstSent := false }

/-- `handle_header_state` (server position, odd stream id != 0), branch for
    branch: stray CONTINUATION first, then the known-stream half-closed test,
    then new-stream HEADERS, PRIORITY passes, then closed (`<= highest_peer_stream_id`)
    versus idle. -/
def headerVerdict (v : StreamView) (fk : FrameKind) : StreamOut :=
  if fk = .continuation then .connError PROTOCOL_ERROR
  else if v.known then
    if (fk = .data ∨ fk = .headers) ∧ v.receivedEos = true then .connError STREAM_CLOSED else .handled
  else if fk = .headers ∧ v.aboveLast = true then .handled
  else if fk = .priority then .handled
  else if v.leHighest then
    match fk with
    | .windowUpdate | .rstStream => .handled
    | .data => if v.rstSent then .handled else .streamError STREAM_CLOSED
    | _ => .connError STREAM_CLOSED
  else .connError PROTOCOL_ERROR

/-- What RFC 9113 §5.1 / §5.1.1 / §6.4 / §6.10 allow as an answer (written from
    the RFC; where the text leaves a choice, or RFC 7540 allowed the stricter
    connection error, every choice is listed). -/
def rfcAllowed (st : StreamSt) (fk : FrameKind) : List StreamOut :=
  match fk with
  | .continuation => [.connError PROTOCOL_ERROR]
  | .priority => [.handled]
  | _ =>
    match st with
    | .idleAbove =>
      if fk = .headers then [.handled] else [.connError PROTOCOL_ERROR]
    | .closedBelow =>
      match fk with
      | .headers => [.connError PROTOCOL_ERROR, .connError STREAM_CLOSED]
      | .data => [.streamError STREAM_CLOSED, .connError STREAM_CLOSED, .connError PROTOCOL_ERROR]
      | _ => [.handled, .streamError STREAM_CLOSED]
    | .closedEndStream =>
      match fk with
      | .headers | .data => [.connError STREAM_CLOSED, .streamError STREAM_CLOSED]
      | _ => [.handled, .streamError STREAM_CLOSED]
    | .closedPeerRst =>
      match fk with
      | .headers => [.streamError STREAM_CLOSED, .connError STREAM_CLOSED]
      | .data => [.streamError STREAM_CLOSED]
      | _ => [.handled, .streamError STREAM_CLOSED]
    | .refused =>
      -- "MUST ignore frames that it receives on closed streams after it has sent a RST_STREAM"
      match fk with
      | .headers => [.handled, .streamError STREAM_CLOSED, .streamError REFUSED_STREAM, .connError PROTOCOL_ERROR,
                     .connError STREAM_CLOSED]
      | .data => [.handled, .streamError STREAM_CLOSED]
      | _ => [.handled]
    | .halfClosedRemote =>
      match fk with
      | .headers | .data => [.streamError STREAM_CLOSED, .connError STREAM_CLOSED]
      | _ => [.handled]
    | .open =>
      match fk with
      | .headers => [.handled, .streamError PROTOCOL_ERROR, .connError PROTOCOL_ERROR]
      | _ => [.handled]


/-! ## from decoded frames to flood events -/

/-- what the connection knows about the frame's stream when it arrives -/
inductive FrameCtx where
  /-- stream 0, or a stream that is in the stream map -/
  | normal
  /-- a stream that was used and is gone (closed): not in the map, id <= highest peer id -/
  | closedStream
  /-- between a HEADERS without END_HEADERS and the end of its header block -/
  | inHeaderBlock
deriving DecidableEq, Repr

/-- the SETTINGS identifiers `handle_settings_frame` knows; any other bumps the glitch counter -/
def knownSettingsId (id : Nat) : Bool :=
  [Consts.h2SettingsIdHeaderTableSize, Consts.h2SettingsIdEnablePush, Consts.h2SettingsIdMaxConcurrentStreams,
   Consts.h2SettingsIdInitialWindowSize, Consts.h2SettingsIdMaxFrameSize, Consts.h2SettingsIdMaxHeaderListSize,
   Consts.h2SettingsIdEnableConnectProtocol, Consts.h2SettingsIdNoRfc7540Priorities].contains id

/-- The flood-detector events one received frame causes, in order
    (`handle_header_state` first, then the `handle_*_frame` function). The tests
    are on the *decoded* frame: an "empty" DATA frame is one whose content (after
    removing pad-length byte and padding) is empty and that does not end the
    stream - whatever its wire length. PING / SETTINGS with ACK, PRIORITY,
    PRIORITY_UPDATE, GOAWAY and unknown frame types are not counted at all. -/
def frameEvents (ctx : FrameCtx) (h : Header) : Frame → List FloodOp
  | .data _ payload es =>
    (if ctx = .closedStream then [.glitch] else []) ++ (if payload.isEmpty && !es then [.emptyData] else [])
  | .ping _ ack => if ack then [] else [.ping]
  | .settings es ack => if ack then [] else [.settings (es.filter fun e => !knownSettingsId e.1).length]
  | .windowUpdate sid inc =>
    if sid = 0 then (if inc = 0 then [] else [.wu0])
    else if ctx = .closedStream then (if inc = 0 then [.glitch, .glitch] else [.glitch, .glitch])
    else []
  | .rstStream _ _ => if ctx = .closedStream then [.glitch, .rstReceived true] else [.rstReceived false]
  | .headers _ _ frag _ eh => if eh then [.headersEnd] else [.headersStart frag.length]
  | .continuation =>
    if ctx = .inHeaderBlock then
      [.continuation h.len] ++ (if flagSet h.flags Consts.h2FlagEndHeaders then [.headersEnd] else [])
    else []
  | _ => []

/-- one received frame: its events, until the first violation -/
def floodFrame (s : Flood) (ctx : FrameCtx) (h : Header) (f : Frame) : Flood × Option Violation :=
  floodRun s (frameEvents ctx h f)


/-! ## connection histories (server position): the stream map over a whole frame sequence -/

/-- the part of `ConnectionH2` the stream-state decisions read and write -/
structure Conn where
  /-- a connection error was answered (GOAWAY): nothing more is read -/
  dead : Bool
  /-- `self.streams`: wire id and `front_received_end_of_stream` -/
  live : List (Nat × Bool)
  /-- `last_stream_id`: highest id a stream was *created* for -/
  lastId : Nat
  /-- `highest_peer_stream_id`: also advanced by refusals -/
  highest : Nat
  /-- `rst_sent`: ids sozu has queued a RST_STREAM for (`enqueue_rst` deduplicates on it) -/
  rstSent : List Nat
  /-- advertised SETTINGS_MAX_CONCURRENT_STREAMS -/
  maxStreams : Nat
  /-- `drain.draining` (after `graceful_goaway`) -/
  draining : Bool
deriving Repr, DecidableEq

def Conn.init (maxStreams : Nat) : Conn :=
  { dead := false, live := [], lastId := 0, highest := 0, rstSent := [], maxStreams := maxStreams, draining := false }

def liveGet (l : List (Nat × Bool)) (sid : Nat) : Option Bool :=
  match l with
  | [] => none
  | (k, e) :: r => if k = sid then some e else liveGet r sid

def liveRemove (l : List (Nat × Bool)) (sid : Nat) : List (Nat × Bool) := l.filter fun p => p.1 != sid

def liveSetEos (l : List (Nat × Bool)) (sid : Nat) : List (Nat × Bool) :=
  l.map fun p => if p.1 = sid then (p.1, true) else p

inductive ConnOp where
  /-- a frame from the peer on an odd, non-zero stream id; `endStream`: its END_STREAM flag -/
  | frame (sid : Nat) (fk : FrameKind) (endStream : Bool)
  /-- sozu finished (or abandoned) the response on `sid`: the stream leaves the map -/
  | respond (sid : Nat)
  /-- `graceful_goaway`: from now on new streams are refused -/
  | startDrain
deriving Repr, DecidableEq

def Conn.view (c : Conn) (sid : Nat) : StreamView :=
  { known := (liveGet c.live sid).isSome, receivedEos := liveGet c.live sid == some true,
    aboveLast := decide (sid > c.lastId), leHighest := decide (sid ≤ c.highest), rstSent := c.rstSent.contains sid }

/-- `handle_header_state` + the handlers' effect on the stream map, for one event.
    The output is `none` when nothing is read any more (after a connection error). -/
def connStep (c : Conn) (op : ConnOp) : Conn × Option StreamOut :=
  match op with
  | .startDrain => ({ c with draining := true }, none)
  | .respond sid => ({ c with live := liveRemove c.live sid }, none)
  | .frame sid fk es =>
    if c.dead then (c, none)
    else if fk = .headers ∧ (liveGet c.live sid).isNone ∧ sid > c.lastId then
      -- a new stream: refused (draining / limit) or created
      if c.draining ∨ c.live.length ≥ c.maxStreams then
        if c.rstSent.contains sid then ({ c with highest := max c.highest sid }, some .handled)
        else ({ c with highest := max c.highest sid, rstSent := sid :: c.rstSent }, some (.streamError REFUSED_STREAM))
      else
        ({ c with live := (sid, es) :: c.live, lastId := sid, highest := max c.highest sid }, some .handled)
    else
      match headerVerdict (c.view sid) fk with
      | .connError code => ({ c with dead := true }, some (.connError code))
      | .streamError code => ({ c with rstSent := sid :: c.rstSent }, some (.streamError code))
      | .handled =>
        if (liveGet c.live sid).isSome then
          if fk = .rstStream then ({ c with live := liveRemove c.live sid }, some .handled)
          else if (fk = .data ∨ fk = .headers) ∧ es = true then ({ c with live := liveSetEos c.live sid }, some .handled)
          else (c, some .handled)
        else (c, some .handled)

/-- a whole history: final state and the answers, in order -/
def connRun (c : Conn) : List ConnOp → Conn × List (Option StreamOut)
  | [] => (c, [])
  | op :: ops =>
    let r := connStep c op
    let t := connRun r.1 ops
    (t.1, r.2 :: t.2)

/-- RFC 9113 §5.1 state of a client-initiated stream as the server sees it -/
inductive RfcSt where
  | idle | open | halfClosedRemote | closed
deriving DecidableEq, Repr

def Conn.rfcState (c : Conn) (sid : Nat) : RfcSt :=
  match liveGet c.live sid with
  | some false => .open
  | some true => .halfClosedRemote
  | none => if sid ≤ c.highest then .closed else .idle

/-- the transitions of the RFC 9113 §5.1 diagram (receiving side), with "stay" -/
def rfcEdge : RfcSt → RfcSt → Bool
  | .idle, _ => true
  | .open, .open | .open, .halfClosedRemote | .open, .closed => true
  | .halfClosedRemote, .halfClosedRemote | .halfClosedRemote, .closed => true
  | .closed, .closed => true
  | _, _ => false


/-! ## SETTINGS from the peer: what they may change -/

/-- sozu's own (advertised) settings and what the peer announced -/
structure SettingsState where
  /-- `local_settings`: advertised by sozu; every `frame_header` call takes its `settings_max_frame_size` -/
  localS : Settings
  /-- `peer_settings`: bounds on what sozu *sends* -/
  peerS : Settings
deriving Repr

/-- `H2Settings::default()` on both sides (the numbers sozu advertises) -/
def SettingsState.init : SettingsState :=
  let d : Settings :=
    { headerTableSize := 4096, enablePush := false, maxConcurrentStreams := Consts.h2DefaultMaxConcurrentStreams,
      initialWindowSize := Consts.h2DefaultInitialWindowSize, maxFrameSize := Consts.h2DefaultMaxFrameSize,
      maxHeaderListSize := Consts.h2MaxHeaderListSize, enableConnectProtocol := false, noRfc7540Priorities := true }
  { localS := d, peerS := d }

/-- one entry of a non-ACK SETTINGS frame (`handle_settings_frame`): the new
    state and whether the entry is invalid (then GOAWAY(PROTOCOL_ERROR)).
    `tableCap` is `H2FloodConfig::max_header_table_size`. Only `peerS` is written. -/
def applyPeerSetting (s : SettingsState) (tableCap : Nat) (id v : Nat) : SettingsState × Bool :=
  if id = Consts.h2SettingsIdHeaderTableSize then
    ({ s with peerS := { s.peerS with headerTableSize := min v tableCap } }, false)
  else if id = Consts.h2SettingsIdEnablePush then
    ({ s with peerS := { s.peerS with enablePush := v == 1 } }, decide (v > 1))
  else if id = Consts.h2SettingsIdMaxConcurrentStreams then
    ({ s with peerS := { s.peerS with maxConcurrentStreams := v } }, false)
  else if id = Consts.h2SettingsIdInitialWindowSize then
    if v > Consts.h2FlowControlMaxWindow then (s, true)
    else ({ s with peerS := { s.peerS with initialWindowSize := v } }, false)
  else if id = Consts.h2SettingsIdMaxFrameSize then
    ({ s with peerS := { s.peerS with maxFrameSize := v } },
      !(decide (Consts.h2MinMaxFrameSize ≤ v) && decide (v < Consts.h2MaxMaxFrameSize)))
  else if id = Consts.h2SettingsIdMaxHeaderListSize then
    ({ s with peerS := { s.peerS with maxHeaderListSize := v } }, false)
  else if id = Consts.h2SettingsIdEnableConnectProtocol then
    ({ s with peerS := { s.peerS with enableConnectProtocol := v == 1 } }, decide (v > 1))
  else if id = Consts.h2SettingsIdNoRfc7540Priorities then
    ({ s with peerS := { s.peerS with noRfc7540Priorities := v == 1 } }, decide (v > 1))
  else (s, false)

/-- a whole non-ACK SETTINGS frame: entries in order, stop at the first invalid one -/
def handleSettings (s : SettingsState) (tableCap : Nat) : List (Nat × Nat) → SettingsState × Option Nat
  | [] => (s, none)
  | (id, v) :: r =>
    let t := applyPeerSetting s tableCap id v
    if t.2 then (t.1, some PROTOCOL_ERROR) else handleSettings t.1 tableCap r

/-- the decoder as a connection in settings state `s` runs it: the bound is sozu's own advertised value -/
def connDecode (s : SettingsState) (input : Bytes) : Res := decode input s.localS.maxFrameSize


/-! ## request-level checks of `handle_headers_frame` / `handle_data_frame` / `handle_priority_frame` -/

/-- `decode_headers_with_budget` (pkawa.rs): header fields `(name length, value
    length)` in wire order against SETTINGS_MAX_HEADER_LIST_SIZE (each field costs
    name + value + 32, RFC 9113 §6.5.2) and the field-count cap; the first field
    that breaks a cap decides. `none`: within budget. (Cookie crumbs are not modelled.) -/
def headerBudgetGo (maxBytes maxFields : Nat) : Nat → Nat → List (Nat × Nat) → Option StreamOut
  | _, _, [] => none
  | bytes, count, (k, v) :: r =>
    let bytes' := bytes + k + v + Consts.hdrFieldSizeOverhead
    if bytes' > maxBytes then some (.streamError ENHANCE_YOUR_CALM)
    else if count + 1 > maxFields then some (.streamError ENHANCE_YOUR_CALM)
    else headerBudgetGo maxBytes maxFields bytes' (count + 1) r

def headerBudget (maxBytes maxFields : Nat) (fields : List (Nat × Nat)) : Option StreamOut :=
  headerBudgetGo maxBytes maxFields 0 0 fields

def fieldsSize : List (Nat × Nat) → Nat
  | [] => 0
  | (k, v) :: r => k + v + Consts.hdrFieldSizeOverhead + fieldsSize r

/-- RFC 9113 §8.1.1 as `handle_data_frame` enforces it for a request with a
    declared content-length: `received` content bytes so far, a DATA frame with
    `len` content bytes and its END_STREAM flag. -/
def contentLengthStep (declared : Option Nat) (received len : Nat) (endStream : Bool) : Nat × StreamOut :=
  let total := received + len
  match declared with
  | none => (total, .handled)
  | some e =>
    if total > e then (total, .streamError PROTOCOL_ERROR)
    else if endStream && total != e then (total, .streamError PROTOCOL_ERROR)
    else (total, .handled)

/-- a body as a list of DATA frames `(content length, END_STREAM)`: the first answer that is not `handled`,
    or `handled` with the total -/
def contentLengthRun (declared : Option Nat) : Nat → List (Nat × Bool) → Nat × StreamOut
  | received, [] => (received, .handled)
  | received, (len, es) :: r =>
    let t := contentLengthStep declared received len es
    if t.2 = .handled then (if es then t else contentLengthRun declared t.1 r) else t

/-- `handle_priority_frame` + `Prioriser::push_priority_guarded`: a PRIORITY frame
    for stream `sid` depending on `dep`. `known`: the stream is in the map;
    `lookahead`: it is idle and at most PRIORITY_IDLE_LOOKAHEAD ids above
    `last_stream_id`. Anything else is dropped. -/
def priorityVerdict (known lookahead : Bool) (sid dep : Nat) : StreamOut :=
  if !(known || lookahead) then .handled
  else if dep = sid then (if known then .streamError PROTOCOL_ERROR else .connError PROTOCOL_ERROR)
  else .handled


/-! ## header blocks and the connection buffer -/

/-- `handle_continuation_header_state` after the flood check: the fragments of a
    header block are accumulated in the connection's own buffer (`bufCap` bytes,
    `buffer_size`); a CONTINUATION whose payload does not fit what is left is
    answered GOAWAY(ENHANCE_YOUR_CALM). (With the default 16 393-byte buffers this
    precedes the 65 536-byte `max_header_list_size` test on the wire size.) -/
def continuationStep (bufCap : Nat) (s : Flood) (len : Nat) : Flood × Option Violation :=
  let r := floodStep s (.continuation len)
  if r.2.isSome then r
  else if len > bufCap - s.accHdr then (r.1, some (ENHANCE_YOUR_CALM, s.accHdr + len, bufCap))
  else r

end Sozu.H2Wire
