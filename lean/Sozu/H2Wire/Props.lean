import Sozu.H2Wire.Lemmas
/-
Property C15 (wire layer): "no HTTP/2 input can crash, wedge or over-commit a
worker", the part that is a statement about the frame decoder, the frame
serializer and the flood detector. Theorems about the model
`Sozu/H2Wire/Model.lean`; the model is tied to `/repo` by the differential
harness `harness/src/bin/h2wire.rs`. Only `C15_*` theorems and non-vacuity
examples live here; vocabulary (`classify`, `Flood.within`, …) and helper lemmas
are in `Lemmas.lean`.
-/
namespace Sozu.H2Wire
open Sozu

theorem C15_decoder_total_and_exact (input : Bytes) (mfs : Nat) :
    match decode input mfs with
    | .ok h _ consumed =>
        consumed = Consts.h2FrameHeaderSize + h.len ∧ consumed ≤ input.length ∧
        h.len = declaredLen input ∧ h.len ≤ mfs
    | .incomplete =>
        input.length < Consts.h2FrameHeaderSize ∨
        input.length < Consts.h2FrameHeaderSize + declaredLen input
    | .err c => c = PROTOCOL_ERROR ∨ c = FRAME_SIZE_ERROR :=
  c15_decoder_total_and_exact input mfs

/-- all three outcomes occur: a WINDOW_UPDATE followed by a spare byte (13 of 14
    bytes consumed), a truncated frame, an oversized length (reported as soon as
    the three length bytes are there), a stream-id violation, and PADDED DATA
    with an empty payload (nom `Eof` on a complete frame ⇒ PROTOCOL_ERROR). -/
example : decode [0,0,4,8,0,0,0,0,1, 0,0,0,255, 77] 16384
    = .ok { len := 4, ftype := .windowUpdate, flags := 0, sid := 1 } (.windowUpdate 1 255) 13 := by decide
example : decode [0,0,4,8,0,0,0,0,1, 0,0,0] 16384 = .incomplete := by decide
example : decode [0,64,1] 16384 = .err FRAME_SIZE_ERROR := by decide
example : decode [0,0,0,0,0,0,0,0,0] 16384 = .err PROTOCOL_ERROR := by decide
example : decode [0,0,0,0,8,0,0,0,1] 16384 = .err PROTOCOL_ERROR := by decide

/-- the body parser runs out of input on a complete payload only for PADDED on
    an empty DATA/HEADERS payload or a HEADERS PRIORITY block that does not fit -/
theorem C15_body_eof_on_complete_payload {i : Bytes} {h : Header} (e : frameBody i h = .eof) :
    i.length < h.len ∨ eofOnComplete h := frameBody_eof e

example : frameBody [0,0,0,10] { len := 4, ftype := .headers, flags := 0x20, sid := 1 } = .eof := by decide

theorem C15_classification (input : Bytes) (mfs : Nat)
    (hc : Consts.h2FrameHeaderSize + declaredLen input ≤ input.length) :
    outcome (decode input mfs) =
      some (classify (typeByteOf input) (flagsOf input) (sidOf input) (declaredLen input) mfs
              ((payloadOf input).headD 0)) :=
  c15_classification input mfs hc

example : classify 0 8 1 2 16384 2 = .error PROTOCOL_ERROR := by decide
example : classify 0 8 1 2 16384 1 = .accept := by decide
example : classify 6 0 0 7 16384 0 = .error FRAME_SIZE_ERROR := by decide
example : classify 6 0 3 8 16384 0 = .error PROTOCOL_ERROR := by decide
example : classify 0x42 0xff 7 3 16384 0 = .accept := by decide
example : classify 4 0 0 390 16384 0 = .error FRAME_SIZE_ERROR := by decide
example : Consts.h2FrameHeaderSize + declaredLen [0,0,2,0,8,0,0,0,1, 2,255] ≤ [0,0,2,0,8,0,0,0,1, 2,255].length := by
  decide

/-- DATA / HEADERS with PADDED: a pad length that is not smaller than the frame
    payload (or no room for the pad-length byte at all) is PROTOCOL_ERROR. -/
theorem C15_padding_rules_reject (i : Bytes) (h : Header) (hc : h.len ≤ i.length)
    (ht : h.ftype = .data ∨ h.ftype = .headers)
    (hp : flagSet h.flags Consts.h2FlagPadded = true)
    (hbad : h.len = 0 ∨ h.len ≤ (i.take h.len).headD 0) :
    bodyOutcome (frameBody i h) = .error PROTOCOL_ERROR :=
  c15_padding_rules_reject i h hc ht hp hbad

example : bodyOutcome (frameBody [2, 255] { len := 2, ftype := .data, flags := 8, sid := 1 })
    = .error PROTOCOL_ERROR := by decide

/-- DATA with PADDED and a pad length below the payload length: accepted, and
    the payload is exactly the bytes between the pad-length byte and the padding. -/
theorem C15_padding_rules_data_accept (p : Nat) (r : Bytes) (h : Header)
    (hc : h.len ≤ (p :: r).length) (ht : h.ftype = .data)
    (hp : flagSet h.flags Consts.h2FlagPadded = true) (hlt : p < h.len) :
    frameBody (p :: r) h =
      .ok (.data h.sid (r.take (h.len - 1 - p)) (flagSet h.flags Consts.h2FlagEndStream))
          ((p :: r).drop h.len) :=
  c15_padding_rules_data_accept p r h hc ht hp hlt

example : frameBody [1, 7, 0, 9] { len := 3, ftype := .data, flags := 9, sid := 5 }
    = .ok (.data 5 [7] true) [9] := by decide

/-- unpadded DATA: the payload is the whole frame payload -/
theorem C15_padding_rules_data_plain (i : Bytes) (h : Header)
    (hc : h.len ≤ i.length) (ht : h.ftype = .data)
    (hp : flagSet h.flags Consts.h2FlagPadded = false) :
    frameBody i h =
      .ok (.data h.sid (i.take h.len) (flagSet h.flags Consts.h2FlagEndStream)) (i.drop h.len) :=
  c15_padding_rules_data_plain i h hc ht hp

example : frameBody [1, 7, 0, 9] { len := 3, ftype := .data, flags := 0, sid := 5 }
    = .ok (.data 5 [1, 7, 0] false) [9] := by decide

theorem C15_settings_bounds {i : Bytes} {h : Header} {es : List (Nat × Nat)} {ack : Bool} {rest : Bytes}
    (e : frameBody i h = .ok (.settings es ack) rest) :
    h.ftype = .settings ∧ h.len % Consts.h2SettingsEntrySize = 0 ∧
    es.length * Consts.h2SettingsEntrySize = h.len ∧
    es.length ≤ Consts.h2MaxSettingsEntries ∧
    (ack = true → es = []) :=
  c15_settings_bounds e

example : frameBody [0,3,0,0,0,100, 0,4,0,1,0,0] { len := 12, ftype := .settings, flags := 0, sid := 0 }
    = .ok (.settings [(3, 100), (4, 65536)] false) [] := by decide
example : frameBody [] { len := 390, ftype := .settings, flags := 0, sid := 0 } = .fail FRAME_SIZE_ERROR := by decide
example : frameBody [1,2,3,4,5,6] { len := 6, ftype := .settings, flags := 1, sid := 0 } = .fail FRAME_SIZE_ERROR := by
  decide

/-- The first SETTINGS of a connection is parsed by `settings_frame` directly
    (`H2State::ClientSettings`), not through `frame_body`. Since the repair of
    F24 that state repeats the multiple-of-6 check (`Consts.h2FirstSettingsChecksLen`
    is re-extracted from `h2.rs` on every run and is `true`; if the check
    disappears the flag flips and this theorem no longer compiles), so for every
    payload the verdict is the one of the `frame_body` path. -/
theorem C15_first_settings_checked (i : Bytes) :
    firstSettings i = frameBody i { len := i.length, ftype := .settings, flags := 0, sid := 0 } :=
  firstSettings_eq_frameBody i (Or.inl (by decide))

/-- regression of F24: the 7-byte first SETTINGS is refused with FRAME_SIZE_ERROR -/
example : firstSettings [0, 3, 0, 0, 0, 100, 0] = .fail FRAME_SIZE_ERROR := by decide

/-- on either path the number of entries respects the allocation cap -/
theorem C15_first_settings_cap {i : Bytes} {es : List (Nat × Nat)} {ack : Bool} {rest : Bytes}
    (e : firstSettings i = .ok (.settings es ack) rest) : es.length ≤ Consts.h2MaxSettingsEntries :=
  c15_first_settings_cap e

example : firstSettings [0, 3, 0, 0, 0, 100] = .ok (.settings [(3, 100)] false) [] := by decide
example (i : Bytes) (h : i.length = 390) : firstSettings i = .fail FRAME_SIZE_ERROR := by
  unfold firstSettings settingsFrame
  simp [h, Consts.h2SettingsEntrySize, Consts.h2MaxSettingsEntries]

/-- `gen_frame_header` then `frame_header` is the identity on every header the
    parser can produce (reserved bit cleared) -/
theorem C15_decode_encode_header (h : Header) (rest : Bytes) (mfs : Nat)
    (hl : h.len < 16777216) (hm : h.len ≤ mfs) (hf : h.flags < 256) (hw : h.ftype.wf)
    (hs : sidValid h.ftype (mask31 h.sid) = true) :
    frameHeader (genFrameHeader h ++ rest) mfs = .ok { h with sid := mask31 h.sid } rest :=
  c15_decode_encode_header h rest mfs hl hm hf hw hs

example : frameHeader (genFrameHeader { len := 300, ftype := .headers, flags := 0x25, sid := 0x80000003 } ++ [9]) 16384
    = .ok { len := 300, ftype := .headers, flags := 0x25, sid := 3 } [9] := by decide
example : (FType.unknown 0x42).wf := by unfold FType.wf; decide

theorem C15_decode_encode_rst_stream (sid code mfs : Nat) (hm : Consts.h2RstStreamPayloadSize ≤ mfs)
    (hs : mask31 sid ≠ 0) (hc : code < 4294967296) :
    decode (genRstStream sid code) mfs =
      .ok { len := Consts.h2RstStreamPayloadSize, ftype := .rstStream, flags := 0, sid := mask31 sid }
          (.rstStream (mask31 sid) code) (genRstStream sid code).length :=
  c15_decode_encode_rst_stream sid code mfs hm hs hc

example : decode (genRstStream 0x80000005 8) 16384
    = .ok { len := 4, ftype := .rstStream, flags := 0, sid := 5 } (.rstStream 5 8) 13 := by decide
/-- the excluded point: a RST_STREAM serialized for stream 0 is refused by the parser -/
example : decode (genRstStream 0 8) 16384 = .err PROTOCOL_ERROR := by decide

theorem C15_decode_encode_window_update (sid inc mfs : Nat) (hm : Consts.h2WindowUpdatePayloadSize ≤ mfs) :
    decode (genWindowUpdate sid inc) mfs =
      .ok { len := Consts.h2WindowUpdatePayloadSize, ftype := .windowUpdate, flags := 0, sid := mask31 sid }
          (.windowUpdate (mask31 sid) (mask31 inc)) (genWindowUpdate sid inc).length :=
  c15_decode_encode_window_update sid inc mfs hm

example : decode (genWindowUpdate 0 0xFFFFFFFF) 16384
    = .ok { len := 4, ftype := .windowUpdate, flags := 0, sid := 0 } (.windowUpdate 0 0x7FFFFFFF) 13 := by decide

theorem C15_decode_encode_goaway (last code mfs : Nat) (hm : Consts.h2GoawayPayloadSize ≤ mfs)
    (hc : code < 4294967296) :
    decode (genGoAway last code) mfs =
      .ok { len := Consts.h2GoawayPayloadSize, ftype := .goAway, flags := 0, sid := 0 }
          (.goAway (mask31 last) code []) (genGoAway last code).length :=
  c15_decode_encode_goaway last code mfs hm hc

example : decode (genGoAway 0xFFFFFFFF 11) 16384
    = .ok { len := 8, ftype := .goAway, flags := 0, sid := 0 } (.goAway 0x7FFFFFFF 11 []) 17 := by decide

theorem C15_decode_encode_ping_ack (payload : Bytes) (mfs : Nat) (hp : payload.length = Consts.h2PingPayloadSize)
    (hm : Consts.h2PingPayloadSize ≤ mfs) :
    decode (genPingAck payload) mfs =
      .ok { len := Consts.h2PingPayloadSize, ftype := .ping, flags := Consts.h2FlagAck, sid := 0 }
          (.ping payload true) (genPingAck payload).length :=
  c15_decode_encode_ping_ack payload mfs hp hm

example : decode (genPingAck [1,2,3,4,5,6,7,8]) 16384
    = .ok { len := 8, ftype := .ping, flags := 1, sid := 0 } (.ping [1,2,3,4,5,6,7,8] true) 17 := by decide

theorem C15_decode_encode_settings_ack (mfs : Nat) :
    decode Consts.h2SettingsAck mfs =
      .ok { len := 0, ftype := .settings, flags := Consts.h2FlagAck, sid := 0 } (.settings [] true) 9 :=
  c15_decode_encode_settings_ack mfs

theorem C15_decode_encode_settings (s : Settings) (mfs : Nat) (hw : s.wf)
    (hm : Consts.h2SettingsEntrySize * Consts.h2SettingsCount ≤ mfs) :
    decode (genSettings s) mfs =
      .ok { len := Consts.h2SettingsEntrySize * Consts.h2SettingsCount, ftype := .settings, flags := 0, sid := 0 }
          (.settings (settingsEntries s) false) (genSettings s).length :=
  c15_decode_encode_settings s mfs hw hm

example : (Settings.mk 4096 false 100 65535 16384 65536 false true).wf := by unfold Settings.wf; decide
example : decode (genSettings (Settings.mk 4096 false 100 65535 16384 65536 false true)) 16384
    = .ok { len := 48, ftype := .settings, flags := 0, sid := 0 }
        (.settings [(1, 4096), (2, 0), (3, 100), (4, 65535), (5, 16384), (6, 65536), (8, 0), (9, 1)] false) 57 := by
  decide

/-- For every threshold configuration and every sequence of frames/events on a
    connection: as long as no violation has been returned every counter is
    within its threshold (so a counter passes its threshold at most once, in
    the step that returns the violation), a returned violation is
    ENHANCE_YOUR_CALM with `count > threshold`, and at that point no counter is
    more than one frame above its threshold. `floodRun` stops at the first
    violation, so the statement applies to every prefix of the sequence. -/
theorem C15_flood_bounded (cfg : FloodCfg) (ops : List FloodOp) (hops : ∀ op ∈ ops, op.wf) :
    ((floodRun (Flood.new cfg) ops).2 = none → (floodRun (Flood.new cfg) ops).1.within 0) ∧
    (∀ v, (floodRun (Flood.new cfg) ops).2 = some v →
      v.1 = ENHANCE_YOUR_CALM ∧ v.2.2 < v.2.1 ∧ (floodRun (Flood.new cfg) ops).1.within 1) :=
  floodRun_spec _ ops hops (Flood.new_within cfg)

/-- a run that ends at the thresholds without a violation, one that trips, and
    one where the decay of the window keeps a slow peer below the threshold -/
example : (floodRun (Flood.new cfgSmall) [.ping, .ping, .rstReceived false, .settings 64]).2 = none := by decide
example : (floodRun (Flood.new cfgSmall) [.ping, .ping, .rstReceived false, .settings 64]).1.glitch = 64 := by decide
example : (floodRun (Flood.new cfgSmall) [.settings 64, .ping]).2 = some (ENHANCE_YOUR_CALM, 64, 2) := by decide
example : (floodRun (Flood.new cfgSmall) [.ping, .ping, .ping, .ping]).2 = some (ENHANCE_YOUR_CALM, 3, 2) := by decide
example : (floodRun (Flood.new cfgSmall) [.ping, .ping, .age 1000, .ping, .ping, .ping]).2
    = some (ENHANCE_YOUR_CALM, 3, 2) := by decide
example : (floodRun (Flood.new cfgSmall) [.ping, .ping, .age 1000, .ping, .age 1000, .ping]).2 = none := by decide
example : ∀ op ∈ [FloodOp.ping, .settings 64, .age 1000], op.wf := by simp [FloodOp.wf]; decide

/-- detection is immediate: with the threshold at 3, the fourth PING inside one
    window is answered with ENHANCE_YOUR_CALM (count 4 > 3); with a full window
    between bursts the half-decay lets a slow peer through. (Explicit small
    thresholds: the statement for every configuration is `C15_flood_bounded`;
    the live check `h2conn` compares the default configuration's trip points -
    100 PINGs, 50 SETTINGS - with this model.) -/
theorem C15_flood_detects_ping_burst :
    (floodRun (Flood.new { cfgSmall with maxPing := 3 }) [.ping, .ping, .ping, .ping]).2
      = some (ENHANCE_YOUR_CALM, 4, 3) ∧
    (floodRun (Flood.new { cfgSmall with maxPing := 3 }) [.ping, .ping, .ping, .age 1000, .ping, .ping]).2 = none :=
  c15_flood_detects_ping_burst

/-- the default thresholds are in the range the theorems talk about (`u32`) -/
example : FloodCfg.default.maxPing + 1 < U32 ∧ FloodCfg.default.maxGlitch + Consts.h2MaxSettingsEntries < U32 := by
  decide

/-- Stream states: for every state of the target stream and every frame kind
    the answer `handle_header_state` gives is one RFC 9113 §5.1 allows. -/
theorem C15_stream_table_conforms (st : StreamSt) (fk : FrameKind) :
    headerVerdict (viewOf st) fk ∈ rfcAllowed st fk :=
  c15_stream_table_conforms st fk

/-- A stream sozu has refused (its id is above every accepted stream) is
    *closed*, not idle: frames already in flight for it never cost the
    connection. This hinges on the closed/idle test using the watermark that
    also advances on refusals. -/
theorem C15_refused_stream_frames_keep_connection (fk : FrameKind) (h : fk ≠ .continuation) :
    (headerVerdict (viewOf .refused) fk).isConnError = false :=
  c15_refused_stream_frames_keep_connection fk h

/-- the same table with the closed/idle test done on `last_stream_id` (which a
    refusal does not advance) would answer GOAWAY(PROTOCOL_ERROR) there -/
example : headerVerdict { viewOf .refused with leHighest := false } .windowUpdate = .connError PROTOCOL_ERROR := by
  decide

/-- idle streams: anything but HEADERS / PRIORITY is a connection error PROTOCOL_ERROR -/
theorem C15_idle_stream_frames_are_connection_errors (fk : FrameKind) (h1 : fk ≠ .headers) (h2 : fk ≠ .priority) :
    headerVerdict (viewOf .idleAbove) fk = .connError PROTOCOL_ERROR :=
  c15_idle_stream_frames_are_connection_errors fk h1 h2

example : headerVerdict (viewOf .closedPeerRst) .data = .streamError STREAM_CLOSED := by decide
example : headerVerdict (viewOf .halfClosedRemote) .windowUpdate = .handled := by decide

/-- CVE-2019-9518 accounting is on *content*, not on wire length: a DATA frame
    without END_STREAM whose payload is only the pad-length byte and padding
    (any pad length) is the same flood event as the zero-length unpadded one. -/
theorem C15_empty_data_counts_content_not_wire (p : Nat) (r : Bytes) (h : Header) (ctx : FrameCtx)
    (hc : h.len ≤ (p :: r).length) (ht : h.ftype = .data) (hctx : ctx ≠ .closedStream)
    (hp : flagSet h.flags Consts.h2FlagPadded = true) (hes : flagSet h.flags Consts.h2FlagEndStream = false)
    (hl : h.len = p + 1) :
    ∃ f rest, frameBody (p :: r) h = .ok f rest ∧ frameEvents ctx h f = [.emptyData] :=
  c15_empty_data_counts_content_not_wire p r h ctx hc ht hctx hp hes hl

/-- … and the unpadded zero-length frame -/
theorem C15_empty_data_unpadded (i : Bytes) (h : Header) (ctx : FrameCtx) (ht : h.ftype = .data)
    (hctx : ctx ≠ .closedStream) (hp : flagSet h.flags Consts.h2FlagPadded = false)
    (hes : flagSet h.flags Consts.h2FlagEndStream = false) (hl : h.len = 0) :
    ∃ f rest, frameBody i h = .ok f rest ∧ frameEvents ctx h f = [.emptyData] :=
  c15_empty_data_unpadded i h ctx ht hctx hp hes hl

/-- the three wire forms of an empty DATA frame, and forms that are not counted -/
example : (decode [0,0,0, 0, 0, 0,0,0,1] 16384, decode [0,0,1, 0, 8, 0,0,0,1, 0] 16384,
           decode [0,0,6, 0, 8, 0,0,0,1, 5,0,0,0,0,0] 16384)
    = (.ok ⟨0, .data, 0, 1⟩ (.data 1 [] false) 9, .ok ⟨1, .data, 8, 1⟩ (.data 1 [] false) 10,
       .ok ⟨6, .data, 8, 1⟩ (.data 1 [] false) 15) := by decide
example : frameEvents .normal ⟨6, .data, 8, 1⟩ (.data 1 [] false) = [.emptyData] := by decide
example : frameEvents .normal ⟨8, .ping, 1, 0⟩ (.ping [0,0,0,0,0,0,0,0] true) = [] := by decide
example : frameEvents .normal ⟨12, .settings, 0, 0⟩ (.settings [(3, 100), (77, 1)] false) = [.settings 1] := by decide
example : frameEvents .closedStream ⟨4, .windowUpdate, 0, 1⟩ (.windowUpdate 1 1) = [.glitch, .glitch] := by decide
example : frameEvents .normal ⟨5, .priority, 0, 1⟩ (.priority 1 false 0 16) = [] := by decide

/-! ### histories: the stream map over whole frame sequences -/

/-- Connection errors are absorbing: in every history, once a step has answered
    GOAWAY(code) no later frame is handled or answered. -/
theorem C15_connection_error_absorbing (c : Conn) (pre : List ConnOp) (op : ConnOp) (post : List ConnOp) (k : Nat)
    (h : (connStep (connRun c pre).1 op).2 = some (.connError k)) :
    ∀ o ∈ (connRun (connStep (connRun c pre).1 op).1 post).2, o = none :=
  connRun_after_connError _ op post k h

example : (connRun (Conn.init 2) [.frame 1 .headers true, .frame 5 .data false, .frame 1 .windowUpdate false,
    .frame 7 .headers true]).2 = [some .handled, some (.connError PROTOCOL_ERROR), none, none] := by decide

/-- The advertised concurrent-stream limit holds over every history: the stream
    map never holds more than SETTINGS_MAX_CONCURRENT_STREAMS streams. -/
theorem C15_stream_limit_invariant (maxStreams : Nat) (ops : List ConnOp) :
    (connRun (Conn.init maxStreams) ops).1.live.length ≤ maxStreams :=
  connRun_limit (Conn.init maxStreams) ops (Nat.zero_le _)

/-- RST_STREAM is sent at most once per stream over a whole history (so a
    refused stream is answered REFUSED_STREAM exactly once, and DATA arriving for
    it afterwards gets no second RST_STREAM). -/
theorem C15_rst_stream_at_most_once (maxStreams : Nat) (ops : List ConnOp) :
    (rstHistory (Conn.init maxStreams) ops).Nodup :=
  (rstHistory_spec (Conn.init maxStreams) ops).1

/-- limit 1: the second request is refused once, frames for it are dropped, the
    third request is admitted after the first has been answered -/
example : (connRun (Conn.init 1) [.frame 1 .headers true, .frame 3 .headers true, .frame 3 .data false,
    .frame 3 .headers true, .respond 1, .frame 5 .headers true]).2
    = [some .handled, some (.streamError REFUSED_STREAM), some .handled, some .handled, none, some .handled] := by decide
example : rstHistory (Conn.init 1) [.frame 1 .headers true, .frame 3 .headers true, .frame 3 .data false,
    .frame 3 .headers true, .respond 1, .frame 1 .data false] = [3, 1] := by decide

/-- Stream-state histories: from the initial state, as long as no HEADERS frame
    re-uses an id sozu has refused, every step of every history moves every
    stream along an edge of the RFC 9113 §5.1 diagram (idle → open /
    half-closed (remote) / closed, open → half-closed (remote) / closed,
    half-closed (remote) → closed, closed → closed). -/
theorem C15_stream_state_history_partial (maxStreams : Nat) (ops : List ConnOp) (sid : Nat)
    (hno : noReuseRun (Conn.init maxStreams) ops) : edgesOk (Conn.init maxStreams) sid ops :=
  connRun_edgesOk _ ops sid (Conn.init_wf maxStreams) hno

/-- in particular a closed stream stays closed -/
theorem C15_closed_stream_stays_closed_partial (c : Conn) (ops : List ConnOp) (sid : Nat) (hwf : c.wf)
    (hno : noReuseRun c ops) (hc : c.rfcState sid = .closed) : (connRun c ops).1.rfcState sid = .closed :=
  connRun_closed_stays c ops sid hwf hno hc

example : (connRun (Conn.init 2) [.frame 1 .headers true, .frame 1 .rstStream false]).1.wf ∧
    (connRun (Conn.init 2) [.frame 1 .headers true, .frame 1 .rstStream false]).1.rfcState 1 = .closed ∧
    noReuseRun (connRun (Conn.init 2) [.frame 1 .headers true, .frame 1 .rstStream false]).1
      [.frame 1 .data false, .frame 3 .headers true] := by
  refine ⟨⟨?_, ?_⟩, ?_, ?_⟩ <;> decide

/-- The excluded point: `handle_header_state` admits HEADERS on any odd id above
    `last_stream_id`, which a refusal does not advance; a refused (closed) id
    is therefore re-opened by a second HEADERS frame once a slot is free
    (RFC 9113 §5.1.1: identifiers cannot be re-used). -/
theorem C15_stream_state_history_counterexample :
    (connRun (Conn.init 1) [.frame 1 .headers true, .frame 3 .headers true]).1.rfcState 3 = .closed ∧
    (connRun (Conn.init 1) [.frame 1 .headers true, .frame 3 .headers true, .respond 1, .frame 3 .headers true]).1.rfcState 3
      = .halfClosedRemote :=
  c15_stream_state_history_counterexample

example : noReuseRun (Conn.init 2) [.frame 1 .headers false, .frame 1 .data true, .frame 3 .headers true, .respond 1,
    .frame 1 .windowUpdate false] := by decide

/-- Whatever SETTINGS the peer sends (valid or not, any identifiers, any values),
    sozu's own settings are untouched; in particular the bound the frame decoder
    enforces stays the advertised SETTINGS_MAX_FRAME_SIZE: the verdict on every
    input is the same before and after. -/
theorem C15_receive_bound_is_local (s : SettingsState) (tableCap : Nat) (entries : List (Nat × Nat)) (input : Bytes) :
    (handleSettings s tableCap entries).1.localS = s.localS ∧
    connDecode (handleSettings s tableCap entries).1 input = connDecode s input :=
  ⟨handleSettings_local s tableCap entries, by unfold connDecode; rw [handleSettings_local]⟩

/-- the peer raises *its* MAX_FRAME_SIZE to 2^24-1: recorded on the peer side, a
    16385-byte frame is still refused with FRAME_SIZE_ERROR; invalid values are PROTOCOL_ERROR -/
example : (handleSettings SettingsState.init 65536 [(5, 16777215), (4, 1)]).1.peerS.maxFrameSize = 16777215 ∧
    (handleSettings SettingsState.init 65536 [(5, 16777215), (4, 1)]).2 = none ∧
    connDecode (handleSettings SettingsState.init 65536 [(5, 16777215)]).1 [0, 64, 1, 0x42, 0, 0, 0, 0, 0]
      = .err FRAME_SIZE_ERROR := by decide
example : (handleSettings SettingsState.init 65536 [(5, 16383)]).2 = some PROTOCOL_ERROR ∧
    (handleSettings SettingsState.init 65536 [(2, 2)]).2 = some PROTOCOL_ERROR ∧
    (handleSettings SettingsState.init 65536 [(4, 2147483648)]).2 = some PROTOCOL_ERROR := by decide

/-! ### request-level checks: header budget, content-length, PRIORITY -/

/-- The header-list budget: a header block is admitted exactly when its size
    (name + value + 32 per field) is within SETTINGS_MAX_HEADER_LIST_SIZE and its
    field count within the field cap; otherwise the answer is a stream error
    ENHANCE_YOUR_CALM (never a connection error, never silence). -/
theorem C15_header_budget_respected (maxBytes maxFields : Nat) (fields : List (Nat × Nat)) :
    (headerBudget maxBytes maxFields fields = none ↔ (fieldsSize fields ≤ maxBytes ∧ fields.length ≤ maxFields)) ∧
    (∀ o, headerBudget maxBytes maxFields fields = some o → o = .streamError ENHANCE_YOUR_CALM) :=
  ⟨headerBudget_none_iff maxBytes maxFields fields, fun o h => headerBudgetGo_some _ _ _ _ _ o h⟩

example : headerBudget 65536 128 (List.replicate 128 (1, 1)) = none ∧
    headerBudget 65536 128 (List.replicate 129 (1, 1)) = some (.streamError ENHANCE_YOUR_CALM) ∧
    headerBudget 65536 128 (List.replicate 16 (1, 4000)) = none ∧
    headerBudget 65536 128 (List.replicate 17 (1, 4000)) = some (.streamError ENHANCE_YOUR_CALM) := by decide

/-- Content-length (RFC 9113 §8.1.1): a body of DATA frames is accepted to the
    end only if it never exceeds the declared length and its total equals it
    when END_STREAM arrives; any other body is answered with a stream error. -/
theorem C15_content_length_exact (declared : Nat) (frames : List (Nat × Bool)) (total : Nat)
    (h : contentLengthRun (some declared) 0 frames = (total, .handled)) :
    total ≤ declared ∧ (frames.any (·.2) = true → total = declared) :=
  contentLengthRun_handled declared frames 0 total (Nat.zero_le _) h

example : contentLengthRun (some 5) 0 [(2, false), (3, true)] = (5, .handled) ∧
    contentLengthRun (some 5) 0 [(2, false), (4, false)] = (6, .streamError PROTOCOL_ERROR) ∧
    contentLengthRun (some 5) 0 [(2, false), (2, true)] = (4, .streamError PROTOCOL_ERROR) ∧
    contentLengthRun none 0 [(2, false), (2, true)] = (4, .handled) := by decide

/-- PRIORITY: a stream that depends on itself (RFC 9113 §5.3.1) is a stream error
    on a stream sozu knows, a connection error on an idle id within the
    look-ahead, and dropped with every other PRIORITY frame for ids sozu does not track. -/
theorem C15_priority_self_dependency (known lookahead : Bool) (sid : Nat) :
    priorityVerdict known lookahead sid sid =
      (if known then .streamError PROTOCOL_ERROR else if lookahead then .connError PROTOCOL_ERROR else .handled) := by
  cases known <;> cases lookahead <;> simp [priorityVerdict]

example : priorityVerdict true false 3 1 = .handled ∧ priorityVerdict false true 5 5 = .connError PROTOCOL_ERROR := by decide

/-- Oversized header blocks: however a header block is split into CONTINUATION
    frames, as long as no violation is returned the accumulated fragments never
    exceed the connection buffer; the frame that would is answered
    GOAWAY(ENHANCE_YOUR_CALM). -/
theorem C15_header_block_bounded_by_buffer (bufCap : Nat) (s : Flood) (len : Nat) (h : s.accHdr ≤ bufCap)
    (hn : (continuationStep bufCap s len).2 = none) : (continuationStep bufCap s len).1.accHdr ≤ bufCap :=
  continuationStep_bounded bufCap s len h hn

example : (continuationStep 16393 { Flood.new FloodCfg.default with accHdr := 10000 } 6393).2 = none ∧
    (continuationStep 16393 { Flood.new FloodCfg.default with accHdr := 10000 } 6394).2
      = some (ENHANCE_YOUR_CALM, 16394, 16393) := by decide

end Sozu.H2Wire
