import Sozu.H2Wire.Lemmas
/-
Property C15 (wire layer): "no HTTP/2 input can crash, wedge or over-commit a
worker", the part that is a statement about the frame decoder, the frame
serializer and the flood detector. Theorems about the model
`Sozu/H2Wire/Model.lean`; the model is tied to `/repo` by the differential
harness `harness/src/bin/h2wire.rs`. Only `C15_*` theorems and non-vacuity
examples live here; vocabulary (`classify`, `Flood.within`, …) and helper lemmas
are in `Lemmas.lean`.
-/
namespace Sozu.H2Wire
open Sozu

theorem C15_decoder_total_and_exact (input : Bytes) (mfs : Nat) :
    match decode input mfs with
    | .ok h _ consumed =>
        consumed = Consts.h2FrameHeaderSize + h.len ∧ consumed ≤ input.length ∧
        h.len = declaredLen input ∧ h.len ≤ mfs
    | .incomplete =>
        input.length < Consts.h2FrameHeaderSize ∨
        input.length < Consts.h2FrameHeaderSize + declaredLen input
    | .err c => c = PROTOCOL_ERROR ∨ c = FRAME_SIZE_ERROR := by
  cases hd : decode input mfs with
  | ok h f c =>
    obtain ⟨rest, rest', e0, e1, hc⟩ := decode_ok hd
    obtain ⟨h9, hrest, hlen, hmfs, _⟩ := frameHeader_ok e0
    obtain ⟨hl, hr⟩ := frameBody_ok e1
    subst hrest hr hc
    simp only [List.length_drop, Consts.h2FrameHeaderSize] at *
    exact ⟨by omega, by omega, hlen, hmfs⟩
  | incomplete =>
    rcases decode_incomplete hd with e0 | ⟨h, rest, e0, _, hlt⟩
    · left; simpa [Consts.h2FrameHeaderSize] using frameHeader_eof e0
    · obtain ⟨h9, hrest, hlen, _, _⟩ := frameHeader_ok e0
      right
      subst hrest
      simp only [List.length_drop, Consts.h2FrameHeaderSize] at *
      omega
  | err c =>
    rcases decode_err hd with e0 | ⟨h, rest, _, e1 | ⟨_, _, hc⟩⟩
    · exact frameHeader_fail e0
    · exact frameBody_fail e1
    · left; exact hc

/-- all three outcomes occur: a WINDOW_UPDATE followed by a spare byte (13 of 14
    bytes consumed), a truncated frame, an oversized length (reported as soon as
    the three length bytes are there), a stream-id violation, and PADDED DATA
    with an empty payload (nom `Eof` on a complete frame ⇒ PROTOCOL_ERROR). -/
example : decode [0,0,4,8,0,0,0,0,1, 0,0,0,255, 77] 16384
    = .ok { len := 4, ftype := .windowUpdate, flags := 0, sid := 1 } (.windowUpdate 1 255) 13 := by decide
example : decode [0,0,4,8,0,0,0,0,1, 0,0,0] 16384 = .incomplete := by decide
example : decode [0,64,1] 16384 = .err FRAME_SIZE_ERROR := by decide
example : decode [0,0,0,0,0,0,0,0,0] 16384 = .err PROTOCOL_ERROR := by decide
example : decode [0,0,0,0,8,0,0,0,1] 16384 = .err PROTOCOL_ERROR := by decide

/-- the body parser runs out of input on a complete payload only for PADDED on
    an empty DATA/HEADERS payload or a HEADERS PRIORITY block that does not fit -/
theorem C15_body_eof_on_complete_payload {i : Bytes} {h : Header} (e : frameBody i h = .eof) :
    i.length < h.len ∨ eofOnComplete h := frameBody_eof e

example : frameBody [0,0,0,10] { len := 4, ftype := .headers, flags := 0x20, sid := 1 } = .eof := by decide

theorem C15_classification (input : Bytes) (mfs : Nat)
    (hc : Consts.h2FrameHeaderSize + declaredLen input ≤ input.length) :
    outcome (decode input mfs) =
      some (classify (typeByteOf input) (flagsOf input) (sidOf input) (declaredLen input) mfs
              ((payloadOf input).headD 0)) := by
  simp only [Consts.h2FrameHeaderSize] at hc
  have h3 : ¬ input.length < 3 := by omega
  have h9 : ¬ input.length < 9 := by omega
  unfold decode frameHeader classify
  simp only [h3, h9, if_false]
  by_cases hm : beVal (input.take 3) > mfs
  · simp [hm, declaredLen, outcome]
  · simp only [hm, if_false, declaredLen]
    by_cases hs : sidValid (convertFrameType ((input.drop 3).headD 0)) (mask31 (beVal ((input.drop 5).take 4))) = true
    · simp only [hs, if_true, typeByteOf, flagsOf, sidOf, payloadOf, declaredLen]
      have hb := bodyClass_eq (input.drop 9)
        { len := beVal (input.take 3), ftype := convertFrameType ((input.drop 3).headD 0),
          flags := (input.drop 4).headD 0, sid := mask31 (beVal ((input.drop 5).take 4)) }
        (by simp only [List.length_drop, declaredLen] at *; omega)
      simp only at hb
      rw [← hb]
      have hlen : ¬ (input.drop 9).length < beVal (input.take 3) := by
        simp only [List.length_drop, declaredLen] at *; omega
      cases hfb : frameBody (input.drop 9) _ with
      | ok f r => simp [outcome, bodyOutcome]
      | fail c => simp [outcome, bodyOutcome]
      | eof =>
        simp only [List.length_drop] at hlen
        simp [outcome, bodyOutcome, hlen]
    · simp only [Bool.not_eq_true] at hs
      simp only [hs, typeByteOf, sidOf, outcome, Bool.false_eq_true, if_false, if_true]

example : classify 0 8 1 2 16384 2 = .error PROTOCOL_ERROR := by decide
example : classify 0 8 1 2 16384 1 = .accept := by decide
example : classify 6 0 0 7 16384 0 = .error FRAME_SIZE_ERROR := by decide
example : classify 6 0 3 8 16384 0 = .error PROTOCOL_ERROR := by decide
example : classify 0x42 0xff 7 3 16384 0 = .accept := by decide
example : classify 4 0 0 390 16384 0 = .error FRAME_SIZE_ERROR := by decide
example : Consts.h2FrameHeaderSize + declaredLen [0,0,2,0,8,0,0,0,1, 2,255] ≤ [0,0,2,0,8,0,0,0,1, 2,255].length := by
  decide

/-- DATA / HEADERS with PADDED: a pad length that is not smaller than the frame
    payload (or no room for the pad-length byte at all) is PROTOCOL_ERROR. -/
theorem C15_padding_rules_reject (i : Bytes) (h : Header) (hc : h.len ≤ i.length)
    (ht : h.ftype = .data ∨ h.ftype = .headers)
    (hp : flagSet h.flags Consts.h2FlagPadded = true)
    (hbad : h.len = 0 ∨ h.len ≤ (i.take h.len).headD 0) :
    bodyOutcome (frameBody i h) = .error PROTOCOL_ERROR := by
  rw [bodyClass_eq i h hc]
  unfold bodyClass
  rcases ht with ht | ht
  · simp only [ht, hp, ↓reduceIte]
    rw [if_pos (by omega)]
  · simp only [ht, hp, ↓reduceIte]
    rw [if_pos (by omega)]

example : bodyOutcome (frameBody [2, 255] { len := 2, ftype := .data, flags := 8, sid := 1 })
    = .error PROTOCOL_ERROR := by decide

/-- DATA with PADDED and a pad length below the payload length: accepted, and
    the payload is exactly the bytes between the pad-length byte and the padding. -/
theorem C15_padding_rules_data_accept (p : Nat) (r : Bytes) (h : Header)
    (hc : h.len ≤ (p :: r).length) (ht : h.ftype = .data)
    (hp : flagSet h.flags Consts.h2FlagPadded = true) (hlt : p < h.len) :
    frameBody (p :: r) h =
      .ok (.data h.sid (r.take (h.len - 1 - p)) (flagSet h.flags Consts.h2FlagEndStream))
          ((p :: r).drop h.len) := by
  obtain ⟨n, hn⟩ : ∃ n, h.len = n + 1 := ⟨h.len - 1, by omega⟩
  have hlen : ¬ (p :: r).length < n + 1 := by omega
  have hle : n ≤ r.length := by simp only [List.length_cons] at hc; omega
  unfold frameBody dataFrame
  simp only [ht, hlen, if_false, hn, List.take_succ_cons, stripPadding, hp, if_true, List.length_take]
  have h1 : ¬ p > min n r.length := by omega
  simp only [h1, if_false, unpad, List.length_take]
  have h2 : p ≤ min n r.length := by omega
  simp only [h2, if_true, List.take_take]
  have h3 : min (min n r.length - p) n = n + 1 - 1 - p := by omega
  rw [h3]

example : frameBody [1, 7, 0, 9] { len := 3, ftype := .data, flags := 9, sid := 5 }
    = .ok (.data 5 [7] true) [9] := by decide

/-- unpadded DATA: the payload is the whole frame payload -/
theorem C15_padding_rules_data_plain (i : Bytes) (h : Header)
    (hc : h.len ≤ i.length) (ht : h.ftype = .data)
    (hp : flagSet h.flags Consts.h2FlagPadded = false) :
    frameBody i h =
      .ok (.data h.sid (i.take h.len) (flagSet h.flags Consts.h2FlagEndStream)) (i.drop h.len) := by
  have hlen : ¬ i.length < h.len := by omega
  unfold frameBody dataFrame
  simp [ht, hlen, stripPadding, hp, unpad, List.take_take]

example : frameBody [1, 7, 0, 9] { len := 3, ftype := .data, flags := 0, sid := 5 }
    = .ok (.data 5 [1, 7, 0] false) [9] := by decide

theorem C15_settings_bounds {i : Bytes} {h : Header} {es : List (Nat × Nat)} {ack : Bool} {rest : Bytes}
    (e : frameBody i h = .ok (.settings es ack) rest) :
    h.ftype = .settings ∧ h.len % Consts.h2SettingsEntrySize = 0 ∧
    es.length * Consts.h2SettingsEntrySize = h.len ∧
    es.length ≤ Consts.h2MaxSettingsEntries ∧
    (ack = true → es = []) := by
  unfold frameBody at e
  split at e
  all_goals
    try unfold dataFrame at e
    try unfold headersFrame at e
    try unfold priorityFrame at e
    try unfold rstStreamFrame at e
    try unfold pushPromiseFrame at e
    try unfold continuationFrame at e
    try unfold pingFrame at e
    try unfold goAwayFrame at e
    try unfold windowUpdateFrame at e
    try unfold priorityUpdateFrame at e
    try unfold unknownFrame at e
  case h_7 ht =>
    split at e
    · cases e
    · next hack =>
      split at e
      · next h6 =>
        obtain ⟨hcap, hl, hle⟩ := settingsFrame_cap e
        refine ⟨ht, h6, ?_, hcap, ?_⟩
        · simp only [Consts.h2SettingsEntrySize] at *; omega
        · intro ha
          unfold settingsFrame at e
          split at e
          · cases e
          · split at e
            · cases e
            · injection e with e1 e2
              injection e1 with e3 e4
              rw [← e4] at ha
              simp only [ha, Bool.true_and, bne_iff_ne, ne_eq, Decidable.not_not] at hack
              have : es.length = 0 := by rw [hl, hack]
              exact List.eq_nil_of_length_eq_zero this
      · cases e
  all_goals grind

example : frameBody [0,3,0,0,0,100, 0,4,0,1,0,0] { len := 12, ftype := .settings, flags := 0, sid := 0 }
    = .ok (.settings [(3, 100), (4, 65536)] false) [] := by decide
example : frameBody [] { len := 390, ftype := .settings, flags := 0, sid := 0 } = .fail FRAME_SIZE_ERROR := by decide
example : frameBody [1,2,3,4,5,6] { len := 6, ftype := .settings, flags := 1, sid := 0 } = .fail FRAME_SIZE_ERROR := by
  decide

/-- The first SETTINGS of a connection is parsed by `settings_frame` directly
    (`H2State::ClientSettings`), not through `frame_body`. Since the repair of
    F24 that state repeats the multiple-of-6 check (`Consts.h2FirstSettingsChecksLen`
    is re-extracted from `h2.rs` on every run and is `true`; if the check
    disappears the flag flips and this theorem no longer compiles), so for every
    payload the verdict is the one of the `frame_body` path. -/
theorem C15_first_settings_checked (i : Bytes) :
    firstSettings i = frameBody i { len := i.length, ftype := .settings, flags := 0, sid := 0 } :=
  firstSettings_eq_frameBody i (Or.inl (by decide))

/-- regression of F24: the 7-byte first SETTINGS is refused with FRAME_SIZE_ERROR -/
example : firstSettings [0, 3, 0, 0, 0, 100, 0] = .fail FRAME_SIZE_ERROR := by decide

/-- on either path the number of entries respects the allocation cap -/
theorem C15_first_settings_cap {i : Bytes} {es : List (Nat × Nat)} {ack : Bool} {rest : Bytes}
    (e : firstSettings i = .ok (.settings es ack) rest) : es.length ≤ Consts.h2MaxSettingsEntries := by
  unfold firstSettings at e
  split at e
  · cases e
  · exact (settingsFrame_cap e).1

example : firstSettings [0, 3, 0, 0, 0, 100] = .ok (.settings [(3, 100)] false) [] := by decide
example (i : Bytes) (h : i.length = 390) : firstSettings i = .fail FRAME_SIZE_ERROR := by
  unfold firstSettings settingsFrame
  simp [h, Consts.h2SettingsEntrySize, Consts.h2MaxSettingsEntries]

/-- `gen_frame_header` then `frame_header` is the identity on every header the
    parser can produce (reserved bit cleared) -/
theorem C15_decode_encode_header (h : Header) (rest : Bytes) (mfs : Nat)
    (hl : h.len < 16777216) (hm : h.len ≤ mfs) (hf : h.flags < 256) (hw : h.ftype.wf)
    (hs : sidValid h.ftype (mask31 h.sid) = true) :
    frameHeader (genFrameHeader h ++ rest) mfs = .ok { h with sid := mask31 h.sid } rest := by
  rw [frameHeader_gen, convert_serialize _ hw, Nat.mod_eq_of_lt hl, Nat.mod_eq_of_lt hf]
  have : ¬ h.len > mfs := by omega
  simp [this, hs]

example : frameHeader (genFrameHeader { len := 300, ftype := .headers, flags := 0x25, sid := 0x80000003 } ++ [9]) 16384
    = .ok { len := 300, ftype := .headers, flags := 0x25, sid := 3 } [9] := by decide
example : (FType.unknown 0x42).wf := by unfold FType.wf; decide

theorem C15_decode_encode_rst_stream (sid code mfs : Nat) (hm : Consts.h2RstStreamPayloadSize ≤ mfs)
    (hs : mask31 sid ≠ 0) (hc : code < 4294967296) :
    decode (genRstStream sid code) mfs =
      .ok { len := Consts.h2RstStreamPayloadSize, ftype := .rstStream, flags := 0, sid := mask31 sid }
          (.rstStream (mask31 sid) code) (genRstStream sid code).length := by
  unfold genRstStream
  have hh := C15_decode_encode_header
    { len := Consts.h2RstStreamPayloadSize, ftype := .rstStream, flags := 0, sid := sid } (be32 code) mfs
    (by simp [Consts.h2RstStreamPayloadSize]) hm (by simp) trivial (by simp [sidValid, hs])
  have hv : beVal (be32 code) = code := by rw [beVal_be32]; omega
  have hb : frameBody (be32 code)
      { len := Consts.h2RstStreamPayloadSize, ftype := .rstStream, flags := 0, sid := mask31 sid } =
      .ok (.rstStream (mask31 sid) code) [] := by
    simp [frameBody, rstStreamFrame, Consts.h2RstStreamPayloadSize, be32] at hv ⊢
    exact hv
  rw [decode_of_ok hh hb]
  simp

example : decode (genRstStream 0x80000005 8) 16384
    = .ok { len := 4, ftype := .rstStream, flags := 0, sid := 5 } (.rstStream 5 8) 13 := by decide
/-- the excluded point: a RST_STREAM serialized for stream 0 is refused by the parser -/
example : decode (genRstStream 0 8) 16384 = .err PROTOCOL_ERROR := by decide

theorem C15_decode_encode_window_update (sid inc mfs : Nat) (hm : Consts.h2WindowUpdatePayloadSize ≤ mfs) :
    decode (genWindowUpdate sid inc) mfs =
      .ok { len := Consts.h2WindowUpdatePayloadSize, ftype := .windowUpdate, flags := 0, sid := mask31 sid }
          (.windowUpdate (mask31 sid) (mask31 inc)) (genWindowUpdate sid inc).length := by
  unfold genWindowUpdate
  have hh := C15_decode_encode_header
    { len := Consts.h2WindowUpdatePayloadSize, ftype := .windowUpdate, flags := 0, sid := sid }
    (be32 (mask31 inc)) mfs
    (by simp [Consts.h2WindowUpdatePayloadSize]) hm (by simp) trivial (by simp [sidValid])
  have hv : beVal (be32 (mask31 inc)) = mask31 inc := by
    rw [beVal_be32]; have := mask31_lt inc; omega
  have hb : frameBody (be32 (mask31 inc))
      { len := Consts.h2WindowUpdatePayloadSize, ftype := .windowUpdate, flags := 0, sid := mask31 sid } =
      .ok (.windowUpdate (mask31 sid) (mask31 inc)) [] := by
    simp [frameBody, windowUpdateFrame, Consts.h2WindowUpdatePayloadSize, be32] at hv ⊢
    rw [hv, mask31_idem]
  rw [decode_of_ok hh hb]
  simp

example : decode (genWindowUpdate 0 0xFFFFFFFF) 16384
    = .ok { len := 4, ftype := .windowUpdate, flags := 0, sid := 0 } (.windowUpdate 0 0x7FFFFFFF) 13 := by decide

theorem C15_decode_encode_goaway (last code mfs : Nat) (hm : Consts.h2GoawayPayloadSize ≤ mfs)
    (hc : code < 4294967296) :
    decode (genGoAway last code) mfs =
      .ok { len := Consts.h2GoawayPayloadSize, ftype := .goAway, flags := 0, sid := 0 }
          (.goAway (mask31 last) code []) (genGoAway last code).length := by
  unfold genGoAway
  have hh := C15_decode_encode_header
    { len := Consts.h2GoawayPayloadSize, ftype := .goAway, flags := 0, sid := 0 }
    (be32 (mask31 last) ++ be32 code) mfs
    (by simp [Consts.h2GoawayPayloadSize]) hm (by simp) trivial (by simp [sidValid, mask31])
  have h0 : mask31 0 = 0 := by simp [mask31]
  rw [h0] at hh
  have hv1 : beVal (be32 (mask31 last)) = mask31 last := by
    rw [beVal_be32]; have := mask31_lt last; omega
  have hv2 : beVal (be32 code) = code := by rw [beVal_be32]; omega
  have hb : frameBody (be32 (mask31 last) ++ be32 code)
      { len := Consts.h2GoawayPayloadSize, ftype := .goAway, flags := 0, sid := 0 } =
      .ok (.goAway (mask31 last) code []) [] := by
    simp [frameBody, goAwayFrame, Consts.h2GoawayPayloadSize, be32] at hv1 hv2 ⊢
    rw [hv1, hv2, mask31_idem]; simp
  rw [List.append_assoc, decode_of_ok hh hb]
  simp

example : decode (genGoAway 0xFFFFFFFF 11) 16384
    = .ok { len := 8, ftype := .goAway, flags := 0, sid := 0 } (.goAway 0x7FFFFFFF 11 []) 17 := by decide

theorem C15_decode_encode_ping_ack (payload : Bytes) (mfs : Nat) (hp : payload.length = Consts.h2PingPayloadSize)
    (hm : Consts.h2PingPayloadSize ≤ mfs) :
    decode (genPingAck payload) mfs =
      .ok { len := Consts.h2PingPayloadSize, ftype := .ping, flags := Consts.h2FlagAck, sid := 0 }
          (.ping payload true) (genPingAck payload).length := by
  have hg : genPingAck payload =
      genFrameHeader { len := Consts.h2PingPayloadSize, ftype := .ping, flags := Consts.h2FlagAck, sid := 0 }
        ++ payload := by
    have : genFrameHeader { len := Consts.h2PingPayloadSize, ftype := .ping, flags := Consts.h2FlagAck, sid := 0 }
        = Consts.h2PingAckHeader := by decide
    rw [this]; rfl
  have hh := C15_decode_encode_header
    { len := Consts.h2PingPayloadSize, ftype := .ping, flags := Consts.h2FlagAck, sid := 0 } payload mfs
    (by simp [Consts.h2PingPayloadSize]) hm (by simp [Consts.h2FlagAck]) trivial (by simp [sidValid, mask31])
  have h0 : mask31 0 = 0 := by simp [mask31]
  rw [h0] at hh
  have hb : frameBody payload
      { len := Consts.h2PingPayloadSize, ftype := .ping, flags := Consts.h2FlagAck, sid := 0 } =
      .ok (.ping payload true) [] := by
    have ha : flagSet Consts.h2FlagAck Consts.h2FlagAck = true := by decide
    simp only [Consts.h2PingPayloadSize] at hp
    simp [frameBody, pingFrame, Consts.h2PingPayloadSize, hp, ha]
    rw [← hp]; simp
  rw [hg, decode_of_ok hh hb]
  simp

example : decode (genPingAck [1,2,3,4,5,6,7,8]) 16384
    = .ok { len := 8, ftype := .ping, flags := 1, sid := 0 } (.ping [1,2,3,4,5,6,7,8] true) 17 := by decide

theorem C15_decode_encode_settings_ack (mfs : Nat) :
    decode Consts.h2SettingsAck mfs =
      .ok { len := 0, ftype := .settings, flags := Consts.h2FlagAck, sid := 0 } (.settings [] true) 9 := by
  have hh : frameHeader Consts.h2SettingsAck mfs =
      .ok { len := 0, ftype := .settings, flags := Consts.h2FlagAck, sid := 0 } [] := by
    have e : Consts.h2SettingsAck =
        genFrameHeader { len := 0, ftype := .settings, flags := Consts.h2FlagAck, sid := 0 } ++ [] := by decide
    rw [e]
    have := C15_decode_encode_header { len := 0, ftype := .settings, flags := Consts.h2FlagAck, sid := 0 } [] mfs
      (by simp) (by simp) (by simp [Consts.h2FlagAck]) trivial (by simp [sidValid, mask31])
    simpa [mask31] using this
  have hb : frameBody [] { len := 0, ftype := .settings, flags := Consts.h2FlagAck, sid := 0 } =
      .ok (.settings [] true) [] := by decide
  rw [decode_of_ok hh hb]
  rfl

theorem C15_decode_encode_settings (s : Settings) (mfs : Nat) (hw : s.wf)
    (hm : Consts.h2SettingsEntrySize * Consts.h2SettingsCount ≤ mfs) :
    decode (genSettings s) mfs =
      .ok { len := Consts.h2SettingsEntrySize * Consts.h2SettingsCount, ftype := .settings, flags := 0, sid := 0 }
          (.settings (settingsEntries s) false) (genSettings s).length := by
  unfold genSettings
  have hh := C15_decode_encode_header
    { len := Consts.h2SettingsEntrySize * Consts.h2SettingsCount, ftype := .settings, flags := 0, sid := 0 }
    (genEntries (settingsEntries s)) mfs
    (by simp [Consts.h2SettingsEntrySize, Consts.h2SettingsCount]) hm (by simp) trivial (by simp [sidValid, mask31])
  have h0 : mask31 0 = 0 := by simp [mask31]
  rw [h0] at hh
  obtain ⟨w1, w2, w3, w4, w5⟩ := hw
  have hes : ∀ e ∈ settingsEntries s, e.1 < 65536 ∧ e.2 < 4294967296 := by
    intro e he
    simp only [settingsEntries, List.mem_cons, List.mem_nil_iff, or_false] at he
    have hb : ∀ b : Bool, b2n b < 4294967296 := by intro b; cases b <;> decide
    rcases he with rfl | rfl | rfl | rfl | rfl | rfl | rfl | rfl <;>
      refine ⟨by simp only; decide, ?_⟩ <;> simp only <;>
      first
        | assumption
        | exact hb _
  have hlen : (genEntries (settingsEntries s)).length = 48 := by
    rw [genEntries_length]; simp [settingsEntries]
  have hb : frameBody (genEntries (settingsEntries s))
      { len := Consts.h2SettingsEntrySize * Consts.h2SettingsCount, ftype := .settings, flags := 0, sid := 0 } =
      .ok (.settings (settingsEntries s) false) [] := by
    have hf : flagSet 0 Consts.h2FlagAck = false := by decide
    have ht : List.take 48 (genEntries (settingsEntries s)) = genEntries (settingsEntries s) := by
      rw [← hlen]; simp
    have hd : List.drop 48 (genEntries (settingsEntries s)) = [] := by
      rw [← hlen]; simp
    simp [frameBody, settingsFrame, Consts.h2SettingsEntrySize, Consts.h2SettingsCount, Consts.h2MaxSettingsEntries,
      hf, hlen, ht, hd, parseSettings_genEntries _ hes]
  rw [decode_of_ok hh hb]
  simp

example : (Settings.mk 4096 false 100 65535 16384 65536 false true).wf := by unfold Settings.wf; decide
example : decode (genSettings (Settings.mk 4096 false 100 65535 16384 65536 false true)) 16384
    = .ok { len := 48, ftype := .settings, flags := 0, sid := 0 }
        (.settings [(1, 4096), (2, 0), (3, 100), (4, 65535), (5, 16384), (6, 65536), (8, 0), (9, 1)] false) 57 := by
  decide

/-- For every threshold configuration and every sequence of frames/events on a
    connection: as long as no violation has been returned every counter is
    within its threshold (so a counter passes its threshold at most once, in
    the step that returns the violation), a returned violation is
    ENHANCE_YOUR_CALM with `count > threshold`, and at that point no counter is
    more than one frame above its threshold. `floodRun` stops at the first
    violation, so the statement applies to every prefix of the sequence. -/
theorem C15_flood_bounded (cfg : FloodCfg) (ops : List FloodOp) (hops : ∀ op ∈ ops, op.wf) :
    ((floodRun (Flood.new cfg) ops).2 = none → (floodRun (Flood.new cfg) ops).1.within 0) ∧
    (∀ v, (floodRun (Flood.new cfg) ops).2 = some v →
      v.1 = ENHANCE_YOUR_CALM ∧ v.2.2 < v.2.1 ∧ (floodRun (Flood.new cfg) ops).1.within 1) :=
  floodRun_spec _ ops hops (Flood.new_within cfg)

/-- a run that ends at the thresholds without a violation, one that trips, and
    one where the decay of the window keeps a slow peer below the threshold -/
example : (floodRun (Flood.new cfgSmall) [.ping, .ping, .rstReceived false, .settings 64]).2 = none := by decide
example : (floodRun (Flood.new cfgSmall) [.ping, .ping, .rstReceived false, .settings 64]).1.glitch = 64 := by decide
example : (floodRun (Flood.new cfgSmall) [.settings 64, .ping]).2 = some (ENHANCE_YOUR_CALM, 64, 2) := by decide
example : (floodRun (Flood.new cfgSmall) [.ping, .ping, .ping, .ping]).2 = some (ENHANCE_YOUR_CALM, 3, 2) := by decide
example : (floodRun (Flood.new cfgSmall) [.ping, .ping, .age 1000, .ping, .ping, .ping]).2
    = some (ENHANCE_YOUR_CALM, 3, 2) := by decide
example : (floodRun (Flood.new cfgSmall) [.ping, .ping, .age 1000, .ping, .age 1000, .ping]).2 = none := by decide
example : ∀ op ∈ [FloodOp.ping, .settings 64, .age 1000], op.wf := by simp [FloodOp.wf]; decide

/-- detection is immediate: with the threshold at 3, the fourth PING inside one
    window is answered with ENHANCE_YOUR_CALM (count 4 > 3); with a full window
    between bursts the half-decay lets a slow peer through. (Explicit small
    thresholds: the statement for every configuration is `C15_flood_bounded`;
    the live check `h2conn` compares the default configuration's trip points -
    100 PINGs, 50 SETTINGS - with this model.) -/
theorem C15_flood_detects_ping_burst :
    (floodRun (Flood.new { cfgSmall with maxPing := 3 }) [.ping, .ping, .ping, .ping]).2
      = some (ENHANCE_YOUR_CALM, 4, 3) ∧
    (floodRun (Flood.new { cfgSmall with maxPing := 3 }) [.ping, .ping, .ping, .age 1000, .ping, .ping]).2 = none := by
  decide

/-- the default thresholds are in the range the theorems talk about (`u32`) -/
example : FloodCfg.default.maxPing + 1 < U32 ∧ FloodCfg.default.maxGlitch + Consts.h2MaxSettingsEntries < U32 := by
  decide

/-- Stream states: for every state of the target stream and every frame kind
    the answer `handle_header_state` gives is one RFC 9113 §5.1 allows. -/
theorem C15_stream_table_conforms (st : StreamSt) (fk : FrameKind) :
    headerVerdict (viewOf st) fk ∈ rfcAllowed st fk := by
  cases st <;> cases fk <;> decide

/-- A stream sozu has refused (its id is above every accepted stream) is
    *closed*, not idle: frames already in flight for it never cost the
    connection. This hinges on the closed/idle test using the watermark that
    also advances on refusals. -/
theorem C15_refused_stream_frames_keep_connection (fk : FrameKind) (h : fk ≠ .continuation) :
    (headerVerdict (viewOf .refused) fk).isConnError = false := by
  cases fk <;> first | exact absurd rfl h | decide

/-- the same table with the closed/idle test done on `last_stream_id` (which a
    refusal does not advance) would answer GOAWAY(PROTOCOL_ERROR) there -/
example : headerVerdict { viewOf .refused with leHighest := false } .windowUpdate = .connError PROTOCOL_ERROR := by
  decide

/-- idle streams: anything but HEADERS / PRIORITY is a connection error PROTOCOL_ERROR -/
theorem C15_idle_stream_frames_are_connection_errors (fk : FrameKind) (h1 : fk ≠ .headers) (h2 : fk ≠ .priority) :
    headerVerdict (viewOf .idleAbove) fk = .connError PROTOCOL_ERROR := by
  cases fk <;> first | exact absurd rfl h1 | exact absurd rfl h2 | decide

example : headerVerdict (viewOf .closedPeerRst) .data = .streamError STREAM_CLOSED := by decide
example : headerVerdict (viewOf .halfClosedRemote) .windowUpdate = .handled := by decide

/-- CVE-2019-9518 accounting is on *content*, not on wire length: a DATA frame
    without END_STREAM whose payload is only the pad-length byte and padding
    (any pad length) is the same flood event as the zero-length unpadded one. -/
theorem C15_empty_data_counts_content_not_wire (p : Nat) (r : Bytes) (h : Header) (ctx : FrameCtx)
    (hc : h.len ≤ (p :: r).length) (ht : h.ftype = .data) (hctx : ctx ≠ .closedStream)
    (hp : flagSet h.flags Consts.h2FlagPadded = true) (hes : flagSet h.flags Consts.h2FlagEndStream = false)
    (hl : h.len = p + 1) :
    ∃ f rest, frameBody (p :: r) h = .ok f rest ∧ frameEvents ctx h f = [.emptyData] := by
  refine ⟨_, _, C15_padding_rules_data_accept p r h hc ht hp (by omega), ?_⟩
  have : h.len - 1 - p = 0 := by omega
  simp [frameEvents, this, hes, hctx]

/-- … and the unpadded zero-length frame -/
theorem C15_empty_data_unpadded (i : Bytes) (h : Header) (ctx : FrameCtx) (ht : h.ftype = .data)
    (hctx : ctx ≠ .closedStream) (hp : flagSet h.flags Consts.h2FlagPadded = false)
    (hes : flagSet h.flags Consts.h2FlagEndStream = false) (hl : h.len = 0) :
    ∃ f rest, frameBody i h = .ok f rest ∧ frameEvents ctx h f = [.emptyData] := by
  refine ⟨_, _, C15_padding_rules_data_plain i h (by omega) ht hp, ?_⟩
  simp [frameEvents, hl, hes, hctx]

/-- the three wire forms of an empty DATA frame, and forms that are not counted -/
example : (decode [0,0,0, 0, 0, 0,0,0,1] 16384, decode [0,0,1, 0, 8, 0,0,0,1, 0] 16384,
           decode [0,0,6, 0, 8, 0,0,0,1, 5,0,0,0,0,0] 16384)
    = (.ok ⟨0, .data, 0, 1⟩ (.data 1 [] false) 9, .ok ⟨1, .data, 8, 1⟩ (.data 1 [] false) 10,
       .ok ⟨6, .data, 8, 1⟩ (.data 1 [] false) 15) := by decide
example : frameEvents .normal ⟨6, .data, 8, 1⟩ (.data 1 [] false) = [.emptyData] := by decide
example : frameEvents .normal ⟨8, .ping, 1, 0⟩ (.ping [0,0,0,0,0,0,0,0] true) = [] := by decide
example : frameEvents .normal ⟨12, .settings, 0, 0⟩ (.settings [(3, 100), (77, 1)] false) = [.settings 1] := by decide
example : frameEvents .closedStream ⟨4, .windowUpdate, 0, 1⟩ (.windowUpdate 1 1) = [.glitch, .glitch] := by decide
example : frameEvents .normal ⟨5, .priority, 0, 1⟩ (.priority 1 false 0 16) = [] := by decide

end Sozu.H2Wire
