import Sozu.H2Wire.Lemmas
/-
Property C15 (wire layer): theorems about the model of `parser.rs`,
`serializer.rs` and `H2FloodDetector` (`Sozu/H2Wire/Model.lean`).
-/
namespace Sozu.H2Wire
open Sozu

theorem C15_decoder_total_and_exact (input : Bytes) (mfs : Nat) :
    match decode input mfs with
    | .ok h _ consumed =>
        consumed = Consts.h2FrameHeaderSize + h.len ∧ consumed ≤ input.length ∧
        h.len = declaredLen input ∧ h.len ≤ mfs
    | .incomplete =>
        input.length < Consts.h2FrameHeaderSize ∨
        input.length < Consts.h2FrameHeaderSize + declaredLen input
    | .err c => c = PROTOCOL_ERROR ∨ c = FRAME_SIZE_ERROR := by
  cases hd : decode input mfs with
  | ok h f c =>
    obtain ⟨rest, rest', e0, e1, hc⟩ := decode_ok hd
    obtain ⟨h9, hrest, hlen, hmfs, _⟩ := frameHeader_ok e0
    obtain ⟨hl, hr⟩ := frameBody_ok e1
    subst hrest hr hc
    simp only [List.length_drop, Consts.h2FrameHeaderSize] at *
    exact ⟨by omega, by omega, hlen, hmfs⟩
  | incomplete =>
    rcases decode_incomplete hd with e0 | ⟨h, rest, e0, _, hlt⟩
    · left; simpa [Consts.h2FrameHeaderSize] using frameHeader_eof e0
    · obtain ⟨h9, hrest, hlen, _, _⟩ := frameHeader_ok e0
      right
      subst hrest
      simp only [List.length_drop, Consts.h2FrameHeaderSize] at *
      omega
  | err c =>
    rcases decode_err hd with e0 | ⟨h, rest, _, e1 | ⟨_, _, hc⟩⟩
    · exact frameHeader_fail e0
    · exact frameBody_fail e1
    · left; exact hc
def typeByteOf (input : Bytes) : Nat := (input.drop 3).headD 0
def flagsOf (input : Bytes) : Nat := (input.drop 4).headD 0
def sidOf (input : Bytes) : Nat := mask31 (beVal ((input.drop 5).take 4))
def payloadOf (input : Bytes) : Bytes := (input.drop 9).take (declaredLen input)

def classify (t flags sid len mfs pad0 : Nat) : Outcome :=
  if len > mfs then .error FRAME_SIZE_ERROR
  else if sidValid (convertFrameType t) sid = false then .error PROTOCOL_ERROR
  else bodyClass { len := len, ftype := convertFrameType t, flags := flags, sid := sid } pad0

def outcome : Res → Option Outcome
  | .ok _ _ _ => some .accept
  | .err c => some (.error c)
  | .incomplete => none

theorem C15_classification (input : Bytes) (mfs : Nat)
    (hc : Consts.h2FrameHeaderSize + declaredLen input ≤ input.length) :
    outcome (decode input mfs) =
      some (classify (typeByteOf input) (flagsOf input) (sidOf input) (declaredLen input) mfs
              ((payloadOf input).headD 0)) := by
  simp only [Consts.h2FrameHeaderSize] at hc
  have h3 : ¬ input.length < 3 := by omega
  have h9 : ¬ input.length < 9 := by omega
  unfold decode frameHeader classify
  simp only [h3, h9, if_false]
  by_cases hm : beVal (input.take 3) > mfs
  · simp [hm, declaredLen, outcome]
  · simp only [hm, if_false, declaredLen]
    by_cases hs : sidValid (convertFrameType ((input.drop 3).headD 0)) (mask31 (beVal ((input.drop 5).take 4))) = true
    · simp only [hs, if_true, typeByteOf, flagsOf, sidOf, payloadOf, declaredLen]
      have hb := bodyClass_eq (input.drop 9)
        { len := beVal (input.take 3), ftype := convertFrameType ((input.drop 3).headD 0),
          flags := (input.drop 4).headD 0, sid := mask31 (beVal ((input.drop 5).take 4)) }
        (by simp only [List.length_drop, declaredLen] at *; omega)
      simp only at hb
      rw [← hb]
      have hlen : ¬ (input.drop 9).length < beVal (input.take 3) := by
        simp only [List.length_drop, declaredLen] at *; omega
      cases hfb : frameBody (input.drop 9) _ with
      | ok f r => simp [outcome, bodyOutcome]
      | fail c => simp [outcome, bodyOutcome]
      | eof =>
        simp only [List.length_drop] at hlen
        simp [outcome, bodyOutcome, hlen]
    · simp only [Bool.not_eq_true] at hs
      simp only [hs, typeByteOf, sidOf, outcome, Bool.false_eq_true, if_false, if_true]


end Sozu.H2Wire
