import Sozu.Sessions.Lemmas
/-
C16 — property theorems for the admission / per-IP accounting core.
Only property statements (`C16_*`) and their non-vacuity examples live here.
-/
set_option linter.unusedSimpArgs false
namespace Sozu.Sessions
open Sozu KMap

/-- Coherence of the two halves of the per-(cluster, ip) accounting: a token
    holds at most one slot per `(cluster, ip)` (the reverse index is a set) and
    every forward count equals the number of tokens holding that slot. -/
structure Coh (s : SM) : Prop where
  nodup : s.rev.Nodup
  cnt : ∀ c ip, count s c ip = holders s c ip

theorem coh_new (m p : Nat) : Coh (SM.new m p) :=
  ⟨by simp [SM.new], by intro c ip; simp [count, holders, SM.new]⟩

theorem coh_track (s : SM) (t c ip : Nat) (h : Coh s) : Coh (track s t c ip) := by
  unfold track
  split
  · exact h
  · next hc =>
    have hc' : (t, c, ip) ∉ s.rev := by simpa using hc
    refine ⟨List.nodup_cons.mpr ⟨hc', h.nodup⟩, ?_⟩
    intro c' ip'
    simp only [count_eq_fcount, holders]
    rw [fcount_set]
    by_cases e : (c', ip') = (c, ip)
    · cases e
      have := h.cnt c ip
      simp [List.filter_cons, onKey, count_eq_fcount, holders] at this ⊢
      omega
    · have hk : onKey c' ip' (t, c, ip) = false := by
        simp only [onKey, Bool.and_eq_false_iff, decide_eq_false_iff_not]
        by_cases h1 : c = c'
        · right; intro h2; apply e; simp [h1, h2]
        · left; exact h1
      have := h.cnt c' ip'
      simp [List.filter_cons, hk, e, count_eq_fcount, holders] at this ⊢
      exact this

theorem coh_untrackAll (s : SM) (t : Nat) (h : Coh s) : Coh (untrackAll s t) := by
  refine ⟨List.Nodup.sublist List.filter_sublist h.nodup, ?_⟩
  intro c ip
  have h0 := h.cnt c ip
  simp only [count_eq_fcount, holders, untrackAll] at h0 ⊢
  rw [fcount_foldl_decFwd, h0, filter_split_length s.rev (onKey c ip) t]
  omega

theorem coh_clear (s : SM) : Coh (clear s) :=
  ⟨by simp [clear], by intro c ip; simp [count, holders, clear]⟩

theorem coh_of_eq {s s' : SM} (h : Coh s) (hr : s'.rev = s.rev) (hf : s'.fwd = s.fwd) : Coh s' :=
  ⟨hr ▸ h.nodup, by intro c ip; have := h.cnt c ip; simp only [count, holders] at this ⊢; rw [hr, hf]; exact this⟩

/-- the admission-side operations do not touch the per-IP accounting nor the knobs -/
theorem frame_check (s : SM) (n : Nat) :
    (step s (.check n)).1.rev = s.rev ∧ (step s (.check n)).1.fwd = s.fwd ∧
    (step s (.check n)).1.maxPerIp = s.maxPerIp ∧ (step s (.check n)).1.max = s.max ∧
    (step s (.check n)).1.nb = s.nb := by
  simp only [step, checkLimits]; split <;> (try split) <;> simp

theorem frame_incr (s : SM) :
    (step s .incr).1.rev = s.rev ∧ (step s .incr).1.fwd = s.fwd ∧
    (step s .incr).1.maxPerIp = s.maxPerIp ∧ (step s .incr).1.max = s.max := by
  simp only [step, incr]; split <;> simp [*]

theorem frame_decr (s : SM) :
    (step s .decr).1.rev = s.rev ∧ (step s .decr).1.fwd = s.fwd ∧
    (step s .decr).1.maxPerIp = s.maxPerIp ∧ (step s .decr).1.max = s.max := by
  simp only [step, decr, decrT]; split <;> simp [*]

theorem coh_step (s : SM) (op : Op) (h : Coh s) : Coh (step s op).1 := by
  cases op with
  | check n => exact coh_of_eq h (frame_check s n).1 (frame_check s n).2.1
  | admission t c ip ov =>
    simp only [step, admission]; split
    · exact h
    · exact coh_track s t c ip h
  | incr => exact coh_of_eq h (frame_incr s).1 (frame_incr s).2.1
  | decr => exact coh_of_eq h (frame_decr s).1 (frame_decr s).2.1
  | atLimit t c ip ov => exact h
  | track t c ip => exact coh_track s t c ip h
  | untrack t => exact coh_untrackAll s t h
  | clear => exact coh_clear s
  | setMax n =>
    simp only [step, setMaxPerIp]; split
    · exact coh_clear _
    · exact ⟨h.nodup, h.cnt⟩

/-- **C16 (per-IP slots, every history).** After any operation sequence on a
    fresh manager, a token holds at most one slot per `(cluster, ip)` and each
    forward count is exactly the number of tokens holding the slot — counters
    never drift, never go negative. -/
theorem C16_slots_coherent (m p : Nat) (ops : List Op) : Coh (run (SM.new m p) ops) := by
  suffices ∀ s, Coh s → Coh (run s ops) from this _ (coh_new m p)
  induction ops with
  | nil => intro s h; exact h
  | cons o os ih => intro s h; exact ih _ (coh_step s o h)

/-- **C16 (baseline).** Whenever no token holds a slot any more (every session
    that tracked was closed), every per-(cluster, ip) counter is back to zero. -/
theorem C16_baseline_when_all_closed (m p : Nat) (ops : List Op)
    (hclosed : (run (SM.new m p) ops).rev = []) (c ip : Nat) :
    count (run (SM.new m p) ops) c ip = 0 := by
  have h := (C16_slots_coherent m p ops).cnt c ip
  simp [holders, hclosed] at h
  exact h

/-- **C16 (teardown releases exactly the session's slots).** Closing token `t`
    removes all and only `t`'s slots and lowers each counter by exactly the one
    slot `t` held there. -/
theorem C16_untrack_exact (s : SM) (t : Nat) (h : Coh s) (c ip : Nat) :
    (∀ x ∈ (untrackAll s t).rev, x.1 ≠ t) ∧
    count (untrackAll s t) c ip = count s c ip - (if (t, c, ip) ∈ s.rev then 1 else 0) := by
  constructor
  · intro x hx; simp [untrackAll] at hx; exact hx.2
  · have h1 := (coh_untrackAll s t h).cnt c ip
    have h0 := h.cnt c ip
    rw [h1, h0]
    simp only [holders, untrackAll]
    rw [filter_split_length s.rev (onKey c ip) t]
    -- the token's own slots on (c, ip): exactly one iff it is a member
    have hmine : ((s.rev.filter (fun x => x.1 = t)).filter (onKey c ip)).length
        = if (t, c, ip) ∈ s.rev then 1 else 0 := by
      have hnd := h.nodup
      generalize s.rev = l at hnd
      induction l with
      | nil => simp
      | cons a l ih =>
        have hnd' := (List.nodup_cons.mp hnd)
        have ih' := ih hnd'.2
        by_cases ha : a = (t, c, ip)
        · subst ha
          have : (t, c, ip) ∉ l := hnd'.1
          simp [List.filter_cons, onKey, this] at ih' ⊢
          exact ih'
        · have hk : ¬ (a.1 = t ∧ onKey c ip a = true) := by
            intro ⟨h1, h2⟩; apply ha
            simp [onKey] at h2
            obtain ⟨a1, a2, a3⟩ := a
            simp_all
          have hmem : ((t, c, ip) ∈ a :: l) ↔ ((t, c, ip) ∈ l) := by
            simp [List.mem_cons, Ne.symm ha]
          by_cases h1 : a.1 = t
          · have h2 : onKey c ip a = false := by
              cases hh : onKey c ip a with
              | false => rfl
              | true => exact absurd ⟨h1, hh⟩ hk
            simp [List.filter_cons, h1, h2, hmem] at ih' ⊢
            exact ih'
          · simp [List.filter_cons, h1, hmem] at ih' ⊢
            exact ih'
    rw [hmine]
    omega

/-- **C16 (per-IP limit, fixed limit).** If sessions are only ever admitted
    through the call-site protocol (`admission` = refuse when at limit, else track)
    under a positive limit `L` that is not changed, no `(cluster, ip)` ever has
    more than `L` slots. -/
def AdmitOnly (L : Nat) : Op → Prop
  | .track _ _ _ => False
  | .setMax n => n = L
  | .admission _ _ _ ov => ov = none
  | _ => True

theorem C16_per_ip_limit_respected (m L : Nat) (hL : 0 < L) (ops : List Op)
    (hops : ∀ o ∈ ops, AdmitOnly L o) (c ip : Nat) :
    count (run (SM.new m L) ops) c ip ≤ L ∧ (run (SM.new m L) ops).maxPerIp = L := by
  suffices ∀ s, Coh s → s.maxPerIp = L → (∀ c ip, count s c ip ≤ L) →
      (∀ c ip, count (run s ops) c ip ≤ L) ∧ (run s ops).maxPerIp = L by
    have h := this (SM.new m L) (coh_new m L) rfl (by intro c ip; simp [count, SM.new])
    exact ⟨h.1 c ip, h.2⟩
  induction ops with
  | nil => intro s _ hm hb; exact ⟨hb, hm⟩
  | cons o os ih =>
    intro s hc hm hb
    have hos : ∀ o ∈ os, AdmitOnly L o := fun o ho => hops o (List.mem_cons_of_mem _ ho)
    have ho := hops o List.mem_cons_self
    have hc' := coh_step s o hc
    show (∀ c ip, count (run (step s o).1 os) c ip ≤ L) ∧ (run (step s o).1 os).maxPerIp = L
    refine ih hos _ hc' ?_ ?_
    · cases o with
      | check n => exact (frame_check s n).2.2.1.trans hm
      | admission t c ip ov =>
        simp only [step, admission]; split
        · exact hm
        · simp only [track]; split <;> exact hm
      | incr => exact (frame_incr s).2.2.1.trans hm
      | decr => exact (frame_decr s).2.2.1.trans hm
      | atLimit t c ip ov => exact hm
      | track t c ip => exact absurd ho (by simp [AdmitOnly])
      | untrack t => exact hm
      | clear => exact hm
      | setMax n =>
        simp only [AdmitOnly] at ho; subst ho
        simp only [step, setMaxPerIp]; split <;> simp [clear]
    · intro c' ip'
      cases o with
      | check n => simp only [count]; rw [(frame_check s n).2.1]; exact hb c' ip'
      | incr => simp only [count]; rw [(frame_incr s).2.1]; exact hb c' ip'
      | decr => simp only [count]; rw [(frame_decr s).2.1]; exact hb c' ip'
      | atLimit t c ip ov => exact hb c' ip'
      | track t c ip => exact absurd ho (by simp [AdmitOnly])
      | untrack t =>
        have := (C16_untrack_exact s t hc c' ip').2
        simp only [step]; rw [this]; have := hb c' ip'; omega
      | clear => simp [step, clear, count]
      | setMax n =>
        simp only [AdmitOnly] at ho; subst ho
        simp only [step, setMaxPerIp]; split
        · simp [clear, count]
        · exact hb c' ip'
      | admission t cc ipc ov =>
        simp only [AdmitOnly] at ho; subst ho
        simp only [step, admission]
        split
        · exact hb c' ip'
        · next hnl =>
          unfold track
          split
          · exact hb c' ip'
          · next hnc =>
            simp only [count_eq_fcount]
            rw [fcount_set]
            split
            · next e =>
              cases e
              have hne : ¬ L = 0 := by omega
              have hnc' : s.rev.contains (t, c', ip') = false := by simpa using hnc
              have : ¬ (0 < count s c' ip' ∧ count s c' ip' ≥ L) := by
                intro hh; apply hnl
                have hnm : (t, c', ip') ∉ s.rev := by simpa using hnc
                simp [atLimit, effLimit, hm, hne, hnm, hh.1, hh.2]
              simp only [count_eq_fcount] at this
              have hb2 := hb c' ip'
              simp only [count_eq_fcount] at hb2
              omega
            · exact hb c' ip'

/-- **C16 (connection cap, every history).** From a state within the cap, no
    operation takes the live connection count above `max_connections`; an
    `incr` that would is the `assert!` panic (`none`). -/
theorem C16_never_exceeds_max (s : SM) (op : Op) (h : s.nb ≤ s.max) :
    (step s op).1.nb ≤ (step s op).1.max ∧ (step s op).1.max = s.max := by
  cases op with
  | check n => have f := frame_check s n; exact ⟨by rw [f.2.2.2.1, f.2.2.2.2]; exact h, f.2.2.2.1⟩
  | admission t c ip ov =>
    simp only [step, admission]; split
    · exact ⟨h, rfl⟩
    · simp only [track]; split <;> exact ⟨h, rfl⟩
  | incr => simp only [step, incr]; split <;> simp [*]
  | decr => simp only [step, decr, decrT]; split <;> simp [*]; omega
  | atLimit t c ip ov => exact ⟨h, rfl⟩
  | track t c ip => simp only [step, track]; split <;> exact ⟨h, rfl⟩
  | untrack t => exact ⟨h, rfl⟩
  | clear => exact ⟨h, rfl⟩
  | setMax n => simp only [step, setMaxPerIp]; split <;> exact ⟨h, rfl⟩

theorem C16_never_exceeds_max_run (m p : Nat) (ops : List Op) :
    (run (SM.new m p) ops).nb ≤ m ∧ (run (SM.new m p) ops).max = m := by
  suffices ∀ s : SM, s.nb ≤ s.max → s.max = m → (run s ops).nb ≤ m ∧ (run s ops).max = m from
    this _ (by simp [SM.new]) rfl
  induction ops with
  | nil => intro s h hm; exact ⟨hm ▸ h, hm⟩
  | cons o os ih =>
    intro s h hm
    have := C16_never_exceeds_max s o h
    exact ih _ this.1 (this.2.trans hm)

/-- **C16 (accept protocol never panics).** After `check_limits` answered
    `true`, the following `incr` is within the cap. -/
theorem C16_check_then_incr_ok (s : SM) (n : Nat) (h : (checkLimits s n).2 = true) :
    ∃ s', incr (checkLimits s n).1 = some s' ∧ s'.nb = s.nb + 1 ∧ s'.nb ≤ s.max := by
  unfold checkLimits at h ⊢
  split at h
  · simp at h
  · split at h
    · simp at h
    · next h1 h2 =>
      refine ⟨{ s with nb := s.nb + 1 }, ?_, rfl, ?_⟩
      · simp only [h1, h2, if_false, incr]
        have : s.nb + 1 ≤ s.max := by omega
        simp [this]
      · show s.nb + 1 ≤ s.max; omega

/-- **C16 (refusal closes the gate).** At the cap `check_limits` refuses and
    stops accepting. -/
theorem C16_refuse_at_cap (s : SM) (n : Nat) (h : s.nb ≥ s.max) :
    (checkLimits s n).2 = false ∧ (checkLimits s n).1.canAccept = false := by
  simp [checkLimits, h]

/-- **C16 (accepting resumes).** A `decr` that brings the load under 90 % of the
    cap re-opens the accept gate. -/
theorem C16_accept_resumes (s s' : SM) (h : decr s = some s')
    (hlow : s'.nb < Nat.max (s.max * Consts.sessResumeNum / Consts.sessResumeDen) Consts.sessResumeFloor) : s'.canAccept = true := by
  unfold decr at h
  split at h
  · simp at h
  · simp only [Option.some.injEq] at h
    subst h
    simp only [decrT] at hlow ⊢
    cases hca : s.canAccept <;> simp [hlow]

/-- Draining: `n` successive `decr`s. -/
def drain : Nat → SM → Option SM
  | 0, s => some s
  | n + 1, s => (decr s).bind (drain n)

/-- **C16 (accepting resumes once idle).** When every connection is gone the
    accept gate is open again, for every cap (the `max_connections = 1` case was
    defect F20, repaired by the `.max(1)` floor in `decr`). -/
theorem C16_idle_accepts (s : SM) (hnb : 0 < s.nb) :
    ∃ s', drain s.nb s = some s' ∧ s'.nb = 0 ∧ s'.canAccept = true := by
  have key : ∀ k (s : SM), s.nb = k + 1 →
      ∃ s', drain (k + 1) s = some s' ∧ s'.nb = 0 ∧ s'.canAccept = true := by
    intro k
    induction k with
    | zero =>
      intro s hn
      have hne : ¬ s.nb = 0 := by omega
      have h90 : 0 < Nat.max (s.max * Consts.sessResumeNum / Consts.sessResumeDen) Consts.sessResumeFloor := by
        simp only [Consts.sessResumeFloor]; exact Nat.lt_of_lt_of_le (by decide) (Nat.le_max_right _ _)
      refine ⟨decrT s, ?_, ?_, ?_⟩
      · simp only [drain, decr, hne, if_false, Option.bind_some]
      · simp [decrT, hn]
      · simp only [decrT, hn]; cases s.canAccept <;> simp [h90]
    | succ k ih =>
      intro s hn
      have hne : ¬ s.nb = 0 := by omega
      obtain ⟨s', h1, h2, h3⟩ := ih (decrT s) (by simp [decrT]; omega)
      refine ⟨s', ?_, h2, h3⟩
      rw [drain]
      simp only [decr, hne, if_false, Option.bind_some]
      exact h1
  obtain ⟨k, hk⟩ : ∃ k, s.nb = k + 1 := ⟨s.nb - 1, by omega⟩
  obtain ⟨s', h1, h2, h3⟩ := key k s hk
  exact ⟨s', hk ▸ h1, h2, h3⟩

/-- regression for F20: the former failing history now re-opens the gate. -/
theorem C16_idle_accepts_max1_regression :
    let s0 := SM.new 1 0
    let s1 := (checkLimits s0 0).1
    let s2 := (incr s1).getD s1
    let s3 := (checkLimits s2 0).1
    let s4 := (decr s3).getD s3
    s3.canAccept = false ∧ s4.nb = 0 ∧ s4.canAccept = true := by decide

-- non-vacuity: a concrete state satisfying the hypotheses of the theorems above
example : Coh (run (SM.new 3 2) [.track 1 7 9, .track 2 7 9, .untrack 1]) :=
  C16_slots_coherent 3 2 _
example : count (run (SM.new 3 2) [.track 1 7 9, .track 2 7 9, .untrack 1]) 7 9 = 1 := by decide
example : ∀ o ∈ [Op.admission 1 7 9 none, .admission 2 7 9 none, .admission 3 7 9 none, .untrack 1], AdmitOnly 2 o := by
  intro o ho; simp at ho; rcases ho with h | h | h | h <;> subst h <;> simp [AdmitOnly]
example : (step (run (SM.new 3 2) [.admission 1 7 9 none, .admission 2 7 9 none]) (.admission 3 7 9 none)).2 = .bool false := by
  decide
example : (checkLimits (SM.new 3 0) 0).2 = true := by decide
example : ∃ s', decr { SM.new 10 0 with nb := 9, canAccept := false } = some s' ∧ s'.nb < Nat.max (10 * Consts.sessResumeNum / Consts.sessResumeDen) Consts.sessResumeFloor :=
  ⟨_, rfl, by decide⟩

end Sozu.Sessions
