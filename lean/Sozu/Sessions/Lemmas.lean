import Sozu.Sessions.Model
/-
Helper lemmas for the SessionManager model: forward counts vs the reverse index.
-/
namespace Sozu.Sessions
open Sozu KMap

/-- slot `x` sits on `(c, ip)` -/
def onKey (c ip : Nat) (x : Nat × Nat × Nat) : Bool := x.2.1 = c && x.2.2 = ip

/-- number of distinct tokens holding a slot on `(c, ip)` -/
def holders (s : SM) (c ip : Nat) : Nat := (s.rev.filter (onKey c ip)).length

def fcount (f : KMap (Nat × Nat) Nat) (c ip : Nat) : Nat := (KMap.get? f (c, ip)).getD 0

theorem count_eq_fcount (s : SM) (c ip : Nat) : count s c ip = fcount s.fwd c ip := rfl

theorem fcount_set (f : KMap (Nat × Nat) Nat) (c ip c' ip' n : Nat) :
    fcount (KMap.set f (c, ip) n) c' ip' = if (c', ip') = (c, ip) then n else fcount f c' ip' := by
  unfold fcount
  rw [KMap.get?_set]
  split <;> simp

theorem fcount_erase (f : KMap (Nat × Nat) Nat) (c ip c' ip' : Nat) :
    fcount (KMap.erase f (c, ip)) c' ip' = if (c', ip') = (c, ip) then 0 else fcount f c' ip' := by
  unfold fcount
  rw [KMap.get?_erase]
  split <;> simp

theorem fcount_decFwd (f : KMap (Nat × Nat) Nat) (c ip c' ip' : Nat) :
    fcount (decFwd f c ip) c' ip' =
      if (c', ip') = (c, ip) then fcount f c ip - 1 else fcount f c' ip' := by
  unfold decFwd
  cases h : KMap.get? f (c, ip) with
  | none =>
    simp only
    split
    · next e => cases e; simp [fcount, h]
    · rfl
  | some n =>
    simp only
    split
    · next hz =>
      rw [fcount_erase]
      split
      · next e => simp [fcount, h, hz]
      · rfl
    · rw [fcount_set]
      split
      · next e => simp [fcount, h]
      · rfl

theorem fcount_foldl_decFwd (l : List (Nat × Nat × Nat)) (f : KMap (Nat × Nat) Nat) (c ip : Nat) :
    fcount (l.foldl (fun f x => decFwd f x.2.1 x.2.2) f) c ip
      = fcount f c ip - (l.filter (onKey c ip)).length := by
  induction l generalizing f with
  | nil => simp
  | cons x xs ih =>
    simp only [List.foldl_cons]
    rw [ih, fcount_decFwd]
    by_cases hx : onKey c ip x = true
    · have : (c, ip) = (x.2.1, x.2.2) := by
        simp [onKey] at hx; simp [hx.1, hx.2]
      simp [List.filter_cons, hx, this]
      have h1 : x.2.1 = c := by simp [onKey] at hx; exact hx.1
      have h2 : x.2.2 = ip := by simp [onKey] at hx; exact hx.2
      subst h1; subst h2; omega
    · have : ¬ (c, ip) = (x.2.1, x.2.2) := by
        intro e; apply hx; cases e; simp [onKey]
      simp [List.filter_cons, hx, this]

theorem filter_split_length (l : List (Nat × Nat × Nat)) (p : Nat × Nat × Nat → Bool) (t : Nat) :
    (l.filter p).length =
      ((l.filter (fun x => x.1 = t)).filter p).length + ((l.filter (fun x => x.1 ≠ t)).filter p).length := by
  induction l with
  | nil => simp
  | cons a l ih =>
    by_cases h1 : a.1 = t <;> by_cases h2 : p a = true <;>
      simp [List.filter_cons, h1, h2, ih] <;> omega

end Sozu.Sessions
