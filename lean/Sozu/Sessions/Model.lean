import Sozu.Common.KMap
import Sozu.Generated.Consts
/-
Model of `sozu_lib::server::SessionManager` (lib/src/server.rs): connection
admission (`check_limits` / `incr` / `decr` with the 90 % hysteresis) and the
per-(cluster, source-IP) slot accounting (`cluster_ip_at_limit`,
`track_cluster_ip`, `untrack_all_cluster_ip`, `clear_cluster_ip_tracking`, and
the worker's `SetMaxConnectionsPerIp` handler).

Tokens, cluster ids and IPs are `Nat` (opaque identities). `usize` counters are
`Nat`; the only arithmetic is `+1`, saturating `-1` and `max*90/100`.
Import-free apart from `KMap` so the driver links as an executable.
-/
namespace Sozu.Sessions

structure SM where
  max : Nat
  nb : Nat
  canAccept : Bool
  maxPerIp : Nat
  /-- forward counts `(cluster, ip) ↦ n`; zero counts are reaped. -/
  fwd : KMap (Nat × Nat) Nat
  /-- reverse index: the set of `(token, cluster, ip)` slots held. -/
  rev : List (Nat × Nat × Nat)
deriving Repr

def SM.new (max maxPerIp : Nat) : SM :=
  { max, nb := 0, canAccept := true, maxPerIp, fwd := [], rev := [] }

def count (s : SM) (c ip : Nat) : Nat := (KMap.get? s.fwd (c, ip)).getD 0

/-- `accept_slab_threshold` -/
def slabThreshold (s : SM) : Nat := Consts.sessAcceptBase + Consts.sessAcceptFactor * s.max

/-- `check_limits`; `slabLen` is the current `slab.len()`. -/
def checkLimits (s : SM) (slabLen : Nat) : SM × Bool :=
  if s.nb ≥ s.max then ({ s with canAccept := false }, false)
  else if slabLen ≥ slabThreshold s then ({ s with canAccept := false }, false)
  else (s, true)

/-- `incr`; `none` models the `assert!` panic. -/
def incr (s : SM) : Option SM :=
  if s.nb + 1 ≤ s.max then some { s with nb := s.nb + 1 } else none

/-- the state after a successful `decr` -/
def decrT (s : SM) : SM :=
  { s with nb := s.nb - 1,
           canAccept := if !s.canAccept && s.nb - 1 < Nat.max (s.max * Consts.sessResumeNum / Consts.sessResumeDen) Consts.sessResumeFloor then true else s.canAccept }

/-- `decr`; `none` models the `assert!(nb != 0)` panic. -/
def decr (s : SM) : Option SM :=
  if s.nb = 0 then none else some (decrT s)

def effLimit (s : SM) (ov : Option Nat) : Nat := ov.getD s.maxPerIp

/-- `cluster_ip_at_limit` -/
def atLimit (s : SM) (t c ip : Nat) (ov : Option Nat) : Bool :=
  let limit := effLimit s ov
  if limit = 0 then false
  else if s.rev.contains (t, c, ip) then false
  else decide (0 < count s c ip ∧ count s c ip ≥ limit)

/-- `track_cluster_ip` -/
def track (s : SM) (t c ip : Nat) : SM :=
  if s.rev.contains (t, c, ip) then s
  else { s with rev := (t, c, ip) :: s.rev, fwd := KMap.set s.fwd (c, ip) (count s c ip + 1) }

/-- one forward decrement as done inside `untrack_all_cluster_ip`
    (`saturating_sub(1)`, entry reaped at zero; missing entry ignored). -/
def decFwd (fwd : KMap (Nat × Nat) Nat) (c ip : Nat) : KMap (Nat × Nat) Nat :=
  match KMap.get? fwd (c, ip) with
  | none => fwd
  | some n => if n - 1 = 0 then KMap.erase fwd (c, ip) else KMap.set fwd (c, ip) (n - 1)

/-- `untrack_all_cluster_ip` -/
def untrackAll (s : SM) (t : Nat) : SM :=
  let mine := s.rev.filter (fun x => x.1 = t)
  { s with rev := s.rev.filter (fun x => x.1 ≠ t),
           fwd := mine.foldl (fun f x => decFwd f x.2.1 x.2.2) s.fwd }

/-- `clear_cluster_ip_tracking` -/
def clear (s : SM) : SM := { s with fwd := [], rev := [] }

/-- the worker's `SetMaxConnectionsPerIp(limit)` handler -/
def setMaxPerIp (s : SM) (limit : Nat) : SM :=
  let s := { s with maxPerIp := limit }
  if limit = 0 then clear s else s

/-- the admission call site (`mux/router.rs` connect, `tcp.rs` connect_to_backend):
    refuse when `cluster_ip_at_limit`, otherwise `track_cluster_ip`. -/
def admission (s : SM) (t c ip : Nat) (ov : Option Nat) : SM × Bool :=
  if atLimit s t c ip ov then (s, false) else (track s t c ip, true)

inductive Op where
  | check (slabLen : Nat)
  | admission (t c ip : Nat) (ov : Option Nat)
  | incr
  | decr
  | atLimit (t c ip : Nat) (ov : Option Nat)
  | track (t c ip : Nat)
  | untrack (t : Nat)
  | clear
  | setMax (n : Nat)
deriving Repr

inductive Out where
  | bool (b : Bool)
  | ok
  | panic
deriving Repr, DecidableEq

/-- One step. A panicking op leaves the state unchanged in the model (the real
    process would be dead; the harness stops the case there). -/
def step (s : SM) : Op → SM × Out
  | .check n => let (s', b) := checkLimits s n; (s', .bool b)
  | .incr => if s.nb + 1 ≤ s.max then ((incr s).getD s, .ok) else (s, .panic)
  | .decr => if s.nb = 0 then (s, .panic) else ((decr s).getD s, .ok)
  | .atLimit t c ip ov => (s, .bool (atLimit s t c ip ov))
  | .admission t c ip ov => let (s', b) := admission s t c ip ov; (s', .bool b)
  | .track t c ip => (track s t c ip, .ok)
  | .untrack t => (untrackAll s t, .ok)
  | .clear => (clear s, .ok)
  | .setMax n => (setMaxPerIp s n, .ok)

def run (s : SM) (ops : List Op) : SM := ops.foldl (fun s o => (step s o).1) s

end Sozu.Sessions
