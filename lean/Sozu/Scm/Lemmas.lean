import Sozu.Scm.Model
/-
Helper lemmas for the Scm area: varint round trip and lengths, the field
decoder on what the encoder emits, pairing by position.
-/
namespace Sozu.Scm
open Sozu

/-! ### varints -/

theorem decVarintF_varintF (f : Nat) : ∀ (n mul acc : Nat) (rest : Bytes),
    n < 128 ^ f → f ≠ 0 →
    decVarintF f (varintF f n ++ rest) mul acc = some (acc + n * mul, rest) := by
  induction f with
  | zero => intro n mul acc rest _ h; exact absurd rfl h
  | succ f ih =>
    intro n mul acc rest hn _
    by_cases h : n < 128
    · simp [varintF, decVarintF, h]
    · have hf : f ≠ 0 := by
        intro h0; subst h0; simp at hn; omega
      have hdiv : n / 128 < 128 ^ f := by
        rw [Nat.div_lt_iff_lt_mul (by decide)]; rw [Nat.pow_succ] at hn; exact hn
      have hb : ¬ (n % 128 + 128 < 128) := by omega
      simp only [varintF, h, if_false, List.cons_append, decVarintF, hb]
      rw [ih (n / 128) (mul * 128) _ rest hdiv hf]
      congr 2
      have := Nat.div_add_mod n 128
      have e : n % 128 + 128 - 128 = n % 128 := by omega
      rw [e]
      calc acc + n % 128 * mul + n / 128 * (mul * 128)
          = acc + (128 * (n / 128) + n % 128) * mul := by
            rw [Nat.add_mul, Nat.mul_comm 128 (n / 128), Nat.mul_assoc, Nat.mul_comm 128 mul]; omega
        _ = acc + n * mul := by rw [this]

theorem decVarint_varint (n : Nat) (rest : Bytes) (h : n < 128 ^ 10) :
    decVarint (varint n ++ rest) = some (n, rest) := by
  have := decVarintF_varintF 10 n 1 0 rest h (by decide)
  simpa [decVarint, varint] using this

theorem varint_small (n : Nat) (h : n < 128) : varint n = [n] := by
  simp [varint, varintF, h]

theorem varint_ne_nil (n : Nat) : varint n ≠ [] := by
  simp only [varint, varintF]; split <;> simp

theorem varint_length_le2 (n : Nat) (h : n < 16384) : (varint n).length ≤ 2 := by
  simp only [varint, varintF]
  split
  · simp
  · have : n / 128 < 128 := by omega
    simp [this]

theorem varint_length_pos (n : Nat) : 1 ≤ (varint n).length := by
  have := varint_ne_nil n
  cases h : varint n with
  | nil => exact absurd h this
  | cons _ _ => simp

/-! ### entries -/

theorem encEntry_length (field : Nat) (a : Addr) :
    (encEntry field a).length = (varint (field * 8 + 2)).length + (varint a.length).length + a.length := by
  simp [encEntry, Nat.add_assoc]

theorem encEntry_length_ge (field : Nat) (a : Addr) : a.length + 1 ≤ (encEntry field a).length := by
  rw [encEntry_length]; have := varint_length_pos (field * 8 + 2); omega

theorem encEntries_length_ge (field : Nat) (as : List Addr) (a : Addr) (h : a ∈ as) :
    a.length + 1 ≤ (encEntries field as).length := by
  induction as with
  | nil => cases h
  | cons x xs ih =>
    simp only [encEntries, List.flatMap_cons, List.length_append] at ih ⊢
    rcases List.mem_cons.mp h with rfl | h'
    · have := encEntry_length_ge field a; omega
    · have := ih h'; omega

def Manifest.pushAll (m : Manifest) (field : Nat) (as : List Addr) : Manifest :=
  as.foldl (fun m a => m.push field a) m

theorem decFields_entry (f field : Nat) (a : Addr) (rest : Bytes) (m : Manifest)
    (h1 : 1 ≤ field) (h4 : field ≤ 4) (ha : a.length < 128 ^ 10)
    (hf : (encEntry field a ++ rest).length ≤ f) :
    decFields f (encEntry field a ++ rest) m = decFields (f - 1) rest (m.push field a) := by
  have hk : field * 8 + 2 < 128 := by omega
  have e : encEntry field a ++ rest = (field * 8 + 2) :: (varint a.length ++ (a ++ rest)) := by
    simp [encEntry, varint_small _ hk]
  rw [e] at hf ⊢
  cases f with
  | zero => simp at hf
  | succ f =>
    have hkey : decVarint ((field * 8 + 2) :: (varint a.length ++ (a ++ rest)))
        = some (field * 8 + 2, varint a.length ++ (a ++ rest)) := by
      have := decVarint_varint (field * 8 + 2) (varint a.length ++ (a ++ rest)) (by omega)
      simpa [varint_small _ hk] using this
    have hlen := decVarint_varint a.length (a ++ rest) ha
    have hm : (field * 8 + 2) % 8 = 2 := by omega
    have hd : (field * 8 + 2) / 8 = field := by omega
    simp [decFields, hkey, hlen, hm, hd, h1, h4]

theorem decFields_entries (field : Nat) (h1 : 1 ≤ field) (h4 : field ≤ 4) :
    ∀ (as : List Addr) (f : Nat) (rest : Bytes) (m : Manifest),
    (∀ a ∈ as, a.length < 128 ^ 10) →
    (encEntries field as ++ rest).length ≤ f →
    decFields f (encEntries field as ++ rest) m = decFields (f - as.length) rest (m.pushAll field as) := by
  intro as
  induction as with
  | nil => intro f rest m _ _; simp [encEntries, Manifest.pushAll]
  | cons x xs ih =>
    intro f rest m ha hf
    have e : encEntries field (x :: xs) ++ rest = encEntry field x ++ (encEntries field xs ++ rest) := by
      simp [encEntries]
    rw [e] at hf ⊢
    rw [decFields_entry f field x _ m h1 h4 (ha x (by simp)) hf]
    have hx := encEntry_length_ge field x
    rw [ih (f - 1) rest (m.push field x) (fun a h => ha a (by simp [h]))
      (by simp only [List.length_append] at hf ⊢; omega)]
    simp only [Manifest.pushAll, List.foldl_cons, List.length_cons]
    congr 1
    omega

theorem decFields_nil (f : Nat) (m : Manifest) : decFields f [] m = .ok m := by
  cases f <;> simp [decFields]

theorem pushAll_1 (m : Manifest) (as : List Addr) :
    m.pushAll 1 as = { m with http := m.http ++ as } := by
  induction as generalizing m with
  | nil => simp [Manifest.pushAll]
  | cons x xs ih =>
    simp only [Manifest.pushAll, List.foldl_cons] at ih ⊢
    rw [ih]; simp [Manifest.push]

theorem pushAll_2 (m : Manifest) (as : List Addr) :
    m.pushAll 2 as = { m with tls := m.tls ++ as } := by
  induction as generalizing m with
  | nil => simp [Manifest.pushAll]
  | cons x xs ih =>
    simp only [Manifest.pushAll, List.foldl_cons] at ih ⊢
    rw [ih]; simp [Manifest.push]

theorem pushAll_3 (m : Manifest) (as : List Addr) :
    m.pushAll 3 as = { m with tcp := m.tcp ++ as } := by
  induction as generalizing m with
  | nil => simp [Manifest.pushAll]
  | cons x xs ih =>
    simp only [Manifest.pushAll, List.foldl_cons] at ih ⊢
    rw [ih]; simp [Manifest.push]

theorem pushAll_4 (m : Manifest) (as : List Addr) :
    m.pushAll 4 as = { m with udp := m.udp ++ as } := by
  induction as generalizing m with
  | nil => simp [Manifest.pushAll]
  | cons x xs ih =>
    simp only [Manifest.pushAll, List.foldl_cons] at ih ⊢
    rw [ih]; simp [Manifest.push]

/-- the body decoder inverts the body encoder -/
theorem decFields_encBody (m : Manifest) (f : Nat)
    (ha : ∀ a ∈ m.addrs, a.length < 128 ^ 10) (hf : (encBody m).length ≤ f) :
    decFields f (encBody m) {} = .ok m := by
  have e : encBody m = encEntries 1 m.http ++ (encEntries 2 m.tls ++ (encEntries 3 m.tcp ++ (encEntries 4 m.udp ++ []))) := by
    simp [encBody]
  rw [e] at hf ⊢
  simp only [List.length_append, List.length_nil] at hf
  have hh : ∀ a ∈ m.http, a.length < 128 ^ 10 := fun a h => ha a (by simp [Manifest.addrs, h])
  have ht : ∀ a ∈ m.tls, a.length < 128 ^ 10 := fun a h => ha a (by simp [Manifest.addrs, h])
  have hc : ∀ a ∈ m.tcp, a.length < 128 ^ 10 := fun a h => ha a (by simp [Manifest.addrs, h])
  have hu : ∀ a ∈ m.udp, a.length < 128 ^ 10 := fun a h => ha a (by simp [Manifest.addrs, h])
  have l1 : ∀ (field : Nat) (as : List Addr), as.length ≤ (encEntries field as).length := by
    intro field as
    induction as with
    | nil => simp
    | cons x xs ih =>
      have := encEntry_length_ge field x
      simp only [encEntries, List.flatMap_cons, List.length_append, List.length_cons] at ih ⊢
      omega
  have a1 := l1 1 m.http; have a2 := l1 2 m.tls; have a3 := l1 3 m.tcp
  rw [decFields_entries 1 (by decide) (by decide) m.http f _ _ hh (by simp only [List.length_append, List.length_nil]; omega)]
  rw [decFields_entries 2 (by decide) (by decide) m.tls _ _ _ ht (by simp only [List.length_append, List.length_nil]; omega)]
  rw [decFields_entries 3 (by decide) (by decide) m.tcp _ _ _ hc (by simp only [List.length_append, List.length_nil]; omega)]
  rw [decFields_entries 4 (by decide) (by decide) m.udp _ _ _ hu (by simp only [List.length_append, List.length_nil]; omega)]
  rw [decFields_nil, pushAll_1, pushAll_2, pushAll_3, pushAll_4]
  simp

theorem mem_addrs_length_le (m : Manifest) (a : Addr) (h : a ∈ m.addrs) :
    a.length + 1 ≤ (encBody m).length := by
  simp only [Manifest.addrs, List.mem_append] at h
  simp only [encBody, List.length_append]
  rcases h with ((h | h) | h) | h
  · have := encEntries_length_ge 1 _ a h; omega
  · have := encEntries_length_ge 2 _ a h; omega
  · have := encEntries_length_ge 3 _ a h; omega
  · have := encEntries_length_ge 4 _ a h; omega

/-- `decode_length_delimited ∘ encode_length_delimited = id` on manifests whose
    encoding is below 2^70 bytes -/
theorem decode_encode (m : Manifest) (h : (encBody m).length < 128 ^ 10) :
    decode (encode m) = .ok m := by
  simp only [decode, encode, decVarint_varint _ _ h, Nat.le_refl, if_true, List.take_length]
  exact decFields_encBody m _ (fun a ha => by have := mem_addrs_length_le m a ha; omega) (Nat.le_refl _)

/-! ### pairing -/

theorem zip_fst_snd {α β : Type} (xs : List (α × β)) :
    (xs.map (·.1)).zip (xs.map (·.2)) = xs := by
  induction xs with
  | nil => simp
  | cons x xs ih => simp [ih]

theorem zip_fst_take_snd {α β : Type} (xs : List (α × β)) (rest : List β) :
    (xs.map (·.1)).zip ((xs.map (·.2) ++ rest).take xs.length) = xs := by
  have : (xs.map (·.2) ++ rest).take xs.length = xs.map (·.2) := by
    rw [List.take_left' (by simp)]
  rw [this, zip_fst_snd]

theorem pair_manifest_fds (l : Listeners) : pair l.manifest l.fds = l := by
  cases l with
  | mk h t c u =>
    simp only [pair, Listeners.manifest, Listeners.fds, List.length_map, List.drop_zero]
    have e1 : (h.map (·.2) ++ t.map (·.2) ++ c.map (·.2) ++ u.map (·.2)) =
        h.map (·.2) ++ (t.map (·.2) ++ c.map (·.2) ++ u.map (·.2)) := by simp
    have d1 : (h.map (·.2) ++ t.map (·.2) ++ c.map (·.2) ++ u.map (·.2)).drop h.length =
        t.map (·.2) ++ (c.map (·.2) ++ u.map (·.2)) := by
      rw [e1]; rw [List.drop_left' (by simp)]; simp
    have d2 : (h.map (·.2) ++ t.map (·.2) ++ c.map (·.2) ++ u.map (·.2)).drop (h.length + t.length) =
        c.map (·.2) ++ u.map (·.2) := by
      have : (h.map (·.2) ++ t.map (·.2) ++ c.map (·.2) ++ u.map (·.2)) =
          (h.map (·.2) ++ t.map (·.2)) ++ (c.map (·.2) ++ u.map (·.2)) := by simp
      rw [this]; rw [List.drop_left' (by simp)]
    have d3 : (h.map (·.2) ++ t.map (·.2) ++ c.map (·.2) ++ u.map (·.2)).drop (h.length + t.length + c.length) =
        u.map (·.2) ++ [] := by
      have : (h.map (·.2) ++ t.map (·.2) ++ c.map (·.2) ++ u.map (·.2)) =
          (h.map (·.2) ++ t.map (·.2) ++ c.map (·.2)) ++ u.map (·.2) := by simp
      rw [this]; rw [List.drop_left' (by simp; omega)]; simp
    rw [d1, d2, d3, e1]
    simp only [zip_fst_take_snd]

end Sozu.Scm
