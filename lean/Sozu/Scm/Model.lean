import Sozu.Generated.Consts
/-
Scm — executable model of the listener hand-over codec of
`command/src/scm_socket.rs` (`ScmSocket::send_listeners` / `receive_listeners`)
and of the soft-stop acknowledgement accounting of `lib/src/server.rs`.

What is transcribed, branch for branch:
* `send_listeners`: manifest = `ListenersCount{http,tls,tcp,udp}` of the address
  strings, `encode_length_delimited_to_vec`, fds in the order http,tls,tcp,udp,
  one `sendmsg` (with an `SCM_RIGHTS` control message unless there is no fd);
* the unix *stream* socket pair the code uses (`UnixStream::pair`): the bytes
  not read by a `recvmsg` stay in the socket, the fds ride on the first byte;
* `receive_listeners`: `MAX_BYTES_OUT` buffer, `[RawFd; MAX_FDS_OUT]` array,
  `decode_length_delimited` ("buffer underflow" when the declared length
  exceeds what was read), the count checks, `parse_addresses`, pairing of
  addresses with fds by position.

Parameters (outside /repo): the kernel (`kernelMaxFds` = SCM_MAX_FD, in-order
delivery of bytes and fds, truncation of the control message), `prost`
(transcribed for the fields `send_listeners` can produce; other keys are
`unmodelled`), `SocketAddr::from_str` (the predicate `parseOk`).
-/
namespace Sozu.Scm
open Sozu

abbrev Bytes := List Nat
/-- an address in its textual form (`SocketAddr::to_string`), as bytes -/
abbrev Addr := List Nat
abbrev Fd := Nat

/-- `scm_socket::Listeners`: (address, fd) pairs per protocol -/
structure Listeners where
  http : List (Addr × Fd) := []
  tls : List (Addr × Fd) := []
  tcp : List (Addr × Fd) := []
  udp : List (Addr × Fd) := []
  deriving DecidableEq, Repr

/-- `proto::command::ListenersCount`: the manifest -/
structure Manifest where
  http : List Addr := []
  tls : List Addr := []
  tcp : List Addr := []
  udp : List Addr := []
  deriving DecidableEq, Repr

def Listeners.manifest (l : Listeners) : Manifest :=
  { http := l.http.map (·.1), tls := l.tls.map (·.1), tcp := l.tcp.map (·.1), udp := l.udp.map (·.1) }

/-- the fd vector of `send_listeners`: http, tls, tcp, udp in that order -/
def Listeners.fds (l : Listeners) : List Fd :=
  l.http.map (·.2) ++ l.tls.map (·.2) ++ l.tcp.map (·.2) ++ l.udp.map (·.2)

def Listeners.count (l : Listeners) : Nat :=
  l.http.length + l.tls.length + l.tcp.length + l.udp.length

def Listeners.addrs (l : Listeners) : List Addr :=
  l.http.map (·.1) ++ l.tls.map (·.1) ++ l.tcp.map (·.1) ++ l.udp.map (·.1)

def Manifest.total (m : Manifest) : Nat :=
  m.http.length + m.tls.length + m.tcp.length + m.udp.length

/-! ### protobuf encoding (prost) -/

/-- `prost::encoding::encode_varint`: at most ten 7-bit groups (u64). -/
def varintF : Nat → Nat → Bytes
  | 0, _ => []
  | f + 1, n => if n < 128 then [n] else (n % 128 + 128) :: varintF f (n / 128)

def varint (n : Nat) : Bytes := varintF 10 n

/-- one `repeated string` entry: key (field, wire type 2), length, bytes -/
def encEntry (field : Nat) (a : Addr) : Bytes :=
  varint (field * 8 + 2) ++ varint a.length ++ a

def encEntries (field : Nat) (as : List Addr) : Bytes :=
  as.flatMap (encEntry field)

/-- `Message::encode_raw` of `ListenersCount` (fields in tag order) -/
def encBody (m : Manifest) : Bytes :=
  encEntries 1 m.http ++ encEntries 2 m.tls ++ encEntries 3 m.tcp ++ encEntries 4 m.udp

/-- `encode_length_delimited_to_vec` -/
def encode (m : Manifest) : Bytes :=
  varint (encBody m).length ++ encBody m

/-- the manifest size on the wire -/
def encLen (l : Listeners) : Nat := (encode l.manifest).length

/-! ### protobuf decoding (prost), for what `send_listeners` can emit -/

/-- `decode_varint`: little-endian base 128, at most ten bytes -/
def decVarintF : Nat → Bytes → Nat → Nat → Option (Nat × Bytes)
  | 0, _, _, _ => none
  | _ + 1, [], _, _ => none
  | f + 1, b :: rest, mul, acc =>
    if b < 128 then some (acc + b * mul, rest)
    else decVarintF f rest (mul * 128) (acc + (b - 128) * mul)

def decVarint (bs : Bytes) : Option (Nat × Bytes) := decVarintF 10 bs 1 0

def Manifest.push (m : Manifest) (field : Nat) (a : Addr) : Manifest :=
  if field = 1 then { m with http := m.http ++ [a] }
  else if field = 2 then { m with tls := m.tls ++ [a] }
  else if field = 3 then { m with tcp := m.tcp ++ [a] }
  else { m with udp := m.udp ++ [a] }

inductive DecErr where
  | malformed    -- prost `DecodeError`
  | unmodelled   -- a key `send_listeners` never produces (prost would skip or reject it)
  deriving DecidableEq, Repr

/-- `Message::merge` loop of `ListenersCount` (fuel = bytes left; every round
    consumes at least one byte). -/
def decFields : Nat → Bytes → Manifest → Except DecErr Manifest
  | _, [], m => .ok m
  | 0, _ :: _, _ => .error .malformed
  | f + 1, b :: bs, m =>
    match decVarint (b :: bs) with
    | none => .error .malformed
    | some (key, rest) =>
      if key % 8 = 2 ∧ 1 ≤ key / 8 ∧ key / 8 ≤ 4 then
        match decVarint rest with
        | none => .error .malformed
        | some (len, rest2) =>
          if len ≤ rest2.length then
            decFields f (rest2.drop len) (m.push (key / 8) (rest2.take len))
          else .error .malformed       -- "buffer underflow"
      else .error .unmodelled

/-- `ListenersCount::decode_length_delimited(&buf[..size])` -/
def decode (buf : Bytes) : Except DecErr Manifest :=
  match decVarint buf with
  | none => .error .malformed
  | some (len, rest) =>
    if len ≤ rest.length then decFields len (rest.take len) {}
    else .error .malformed             -- "buffer underflow": the F18 branch

/-! ### the socket pair and the two operations -/

/-- SCM_MAX_FD of the Linux kernel: `sendmsg` with more fds fails (EINVAL). -/
def kernelMaxFds : Nat := 253

/-- One direction of the unix stream pair. `dirty` is set once a receive has
    failed: what the next receive would see is then outside the model. -/
structure Sock where
  bytes : Bytes := []
  fds : List Fd := []
  dirty : Bool := false
  /-- fds delivered to the receiving process that no `Listeners` value holds -/
  leaked : Nat := 0
  deriving DecidableEq, Repr

def Sock.empty : Sock := {}

inductive RecvErr where
  | receive   -- `ScmSocketError::Receive` (recvmsg / cmsgs failed)
  | decode    -- `ScmSocketError::DecodeError`
  | count     -- `ScmSocketError::ListenersCountInconsistent`
  | addr      -- `ScmSocketError::WrongSocketAddress`
  deriving DecidableEq, Repr

inductive Out where
  | sent (bytes fds : Nat)
  | sendErr
  | recvOk (l : Listeners)
  | recvErr (e : RecvErr)
  | drained (bytes leaked : Nat)
  | unmodelled
  deriving DecidableEq, Repr

/-- `send_listeners` followed by the kernel queuing the message. -/
def send (s : Sock) (l : Listeners) : Sock × Out :=
  if s.dirty ∨ s.bytes ≠ [] ∨ s.fds ≠ [] then (s, .unmodelled)
  else if l.count > kernelMaxFds then (s, .sendErr)
  else
    let msg := encode l.manifest
    ({ s with bytes := msg, fds := l.fds }, .sent msg.length l.count)

/-- pairing by position: `addresses.drain(..).zip(received_fds[index..index+len])` -/
def pair (m : Manifest) (fds : List Fd) : Listeners :=
  let h := m.http.length
  let t := m.tls.length
  let c := m.tcp.length
  let u := m.udp.length
  { http := m.http.zip ((fds.drop 0).take h),
    tls := m.tls.zip ((fds.drop h).take t),
    tcp := m.tcp.zip ((fds.drop (h + t)).take c),
    udp := m.udp.zip ((fds.drop (h + t + c)).take u) }

def Manifest.addrs (m : Manifest) : List Addr := m.http ++ m.tls ++ m.tcp ++ m.udp

/-- `receive_listeners` (socket in non-blocking mode: an empty socket gives
    `Receive(EAGAIN)` instead of blocking). -/
def recv (parseOk : Addr → Bool) (s : Sock) : Sock × Out :=
  if s.dirty then (s, .unmodelled)
  else if s.bytes = [] then (s, .recvErr .receive)
  else
    let buf := s.bytes.take Consts.scmMaxBytesOut
    let left := s.bytes.drop Consts.scmMaxBytesOut
    -- the control buffer holds MAX_FDS_OUT fds: the kernel drops the others and
    -- sets MSG_CTRUNC, which nix's `cmsgs()` reports as an error
    let got := s.fds.take Consts.scmMaxFdsOut
    let fail (e : RecvErr) : Sock × Out :=
      ({ bytes := left, fds := [], dirty := true, leaked := got.length }, .recvErr e)
    if s.fds.length > Consts.scmMaxFdsOut then fail .receive
    else
      match decode buf with
      | .error .unmodelled => ({ s with dirty := true }, .unmodelled)
      | .error .malformed => fail .decode
      | .ok m =>
        if m.total > Consts.scmMaxFdsOut ∨ m.total > got.length then fail .count
        else if m.addrs.all parseOk then
          ({ bytes := left, fds := [], dirty := false, leaked := got.length - m.total },
           .recvOk (pair m got))
        else fail .addr

/-- harness-level: read whatever is left in the socket with a plain `recv` (fds
    still attached to unread bytes are discarded by the kernel), and count the
    stray fds already delivered to the process -/
def drain (s : Sock) : Sock × Out :=
  (Sock.empty, .drained s.bytes.length s.leaked)

/-- a peer that writes the manifest and the descriptors itself (a misbehaving or
    dying old worker): any manifest, any descriptor list -/
def sendRaw (s : Sock) (m : Manifest) (fds : List Fd) : Sock × Out :=
  if s.dirty ∨ s.bytes ≠ [] ∨ s.fds ≠ [] then (s, .unmodelled)
  else if fds.length > kernelMaxFds then (s, .sendErr)
  else
    let msg := encode m
    ({ s with bytes := msg, fds := fds }, .sent msg.length fds.length)

inductive Op where
  | send (l : Listeners)
  | sendRaw (m : Manifest) (fds : List Fd)
  | recv
  | drain

def step (parseOk : Addr → Bool) (s : Sock) : Op → Sock × Out
  | .send l => send s l
  | .sendRaw m fds => sendRaw s m fds
  | .recv => recv parseOk s
  | .drain => drain s

/-! ### soft stop acknowledgement accounting (`lib/src/server.rs`)

`read_channel_messages_and_notify` (SoftStop arm), the end of `run`'s loop
body (`if self.shutting_down.is_some() && self.shut_down_sessions() { return }`)
and `shut_down_sessions`. The slab length is the only thing the rule looks at;
which sessions close on a tick is an input. -/
namespace SoftStop

structure W where
  /-- `Server.shutting_down`: id of the SoftStop request being served -/
  shutting : Option Nat := none
  /-- `Server.base_sessions_count`: slab floor (listeners, channel, timers…) -/
  base : Nat
  /-- `sessions.slab.len()` -/
  slab : Nat
  /-- final `WorkerResponse::ok(id)` written to the channel, oldest first -/
  acks : List Nat := []
  /-- `run` has returned -/
  exited : Bool := false
  /-- sessions created while `shutting` was set or after exit -/
  lateAccepts : Nat := 0
  /-- client sessions in the slab (what "drained" is about) -/
  sessions : Nat := 0
  /-- `ListenSession` slab entries; each one is counted in `base` -/
  listeners : Nat := 0
  /-- the listen sockets are still registered with this worker (false after
      `ReturnListenSockets`: `return_listen_sockets` deregisters and hands them
      over, the slab entries and `base_sessions_count` stay as they are) -/
  listening : Bool := true
  deriving DecidableEq, Repr

/-- a worker whose slab holds only its `b` base entries -/
def W.fresh (b : Nat) : W := { base := b, slab := b }

inductive Op where
  /-- a SoftStop request with this id is read from the channel; the proxies are
      notified and deregister their listeners -/
  | softStop (id : Nat)
  /-- end of one event-loop iteration during which `closed` sessions reported
      `shutting_down() = true` (or ended on their own) -/
  | tick (closed : Nat)
  /-- a connection attempt reaches a listen socket -/
  | connect
  /-- `Add…Listener`: `notify_add_*_listener` inserts a `ListenSession` and
      bumps `base_sessions_count` -/
  | addListener
  /-- `DeactivateListener` followed by `RemoveListener` of the same listener (the
      balanced pair: the first removes the slab entry, the second lowers
      `base_sessions_count`; `RemoveListener` of a still active listener is the
      C08 finding `no-final-answer:SoftStop:listener-removed-while-active`) -/
  | removeListener
  /-- `ReturnListenSockets` -/
  | returnListeners
  /-- `DeactivateListener`: `notify_deactivate_listener` hands one listener back and
      removes its `ListenSession` from the slab; `base_sessions_count` is not touched -/
  | deactivateListener
  deriving DecidableEq, Repr

inductive Out where
  | none
  | ack (id : Nat)
  | accepted
  | refused
  deriving DecidableEq, Repr

def step (w : W) : Op → W × Out
  | .softStop id =>
    if w.exited then (w, .none) else ({ w with shutting := some id }, .none)
  | .tick closed0 =>
    if w.exited then (w, .none) else
    -- no more sessions can end than there are
    let closed := min closed0 w.sessions
    match w.shutting with
    | none => ({ w with slab := w.slab - closed, sessions := w.sessions - closed }, .none)
    | some id =>
      let n := w.slab - closed
      if n ≤ w.base then
        ({ w with slab := n, sessions := w.sessions - closed, shutting := none, acks := w.acks ++ [id],
                  exited := true }, .ack id)
      else ({ w with slab := n, sessions := w.sessions - closed }, .none)
  | .connect =>
    -- listeners are deregistered by `notify(SoftStop)` and by `ReturnListenSockets`;
    -- after `run` returned nothing polls them
    if w.exited ∨ w.shutting.isSome ∨ w.listening = false then (w, .refused)
    else ({ w with slab := w.slab + 1, sessions := w.sessions + 1 }, .accepted)
  | .addListener =>
    if w.exited then (w, .none)
    else ({ w with slab := w.slab + 1, base := w.base + 1, listeners := w.listeners + 1 }, .none)
  | .removeListener =>
    if w.exited ∨ w.listeners = 0 then (w, .none)
    else ({ w with slab := w.slab - 1, base := w.base - 1, listeners := w.listeners - 1 }, .none)
  | .returnListeners =>
    if w.exited then (w, .none) else ({ w with listening := false }, .none)
  | .deactivateListener =>
    if w.exited ∨ w.listeners = 0 then (w, .none)
    else ({ w with slab := w.slab - 1, listeners := w.listeners - 1 }, .none)

def run (w : W) (ops : List Op) : W := ops.foldl (fun s o => (step s o).1) w

def outs : W → List Op → List Out
  | _, [] => []
  | w, o :: os => (step w o).2 :: outs (step w o).1 os

end SoftStop

end Sozu.Scm
