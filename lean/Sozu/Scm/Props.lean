import Sozu.Scm.Proofs
/-
C10 — property statements for the listener hand-over codec and the soft-stop
accounting. Only `C10_*` statements and non-vacuity examples; the proofs are in
Proofs.lean (`c10_x` proves `C10_x`), helper lemmas in Lemmas.lean.
-/
namespace Sozu.Scm
open Sozu
/-- **Round trip.** A listener set whose manifest fits the receive buffer and
    whose size fits the fd array (and the kernel's per-message fd limit) is
    received exactly as sent: same addresses in the same protocol lists, every
    address paired with its own descriptor, nothing left in the socket. -/
theorem C10_manifest_roundtrip (parseOk : Addr → Bool) (l : Listeners)
    (hb : encLen l ≤ Consts.scmMaxBytesOut) (hc : l.count ≤ Consts.scmMaxFdsOut)
    (hk : l.count ≤ kernelMaxFds) (hp : ∀ a ∈ l.addrs, parseOk a = true) :
    (send Sock.empty l).2 = .sent (encLen l) l.count ∧
    recv parseOk (send Sock.empty l).1 = (Sock.empty, .recvOk l) := by
  first | exact c10_manifest_roundtrip | (apply c10_manifest_roundtrip <;> assumption)

example : ∃ l : Listeners, l.count = 3 ∧ encLen l ≤ Consts.scmMaxBytesOut ∧
    l.count ≤ Consts.scmMaxFdsOut ∧ l.count ≤ kernelMaxFds :=
  ⟨{ http := [([49, 50, 55], 7)], tcp := [([91, 58, 58, 49, 93], 9)], udp := [([49], 4)] }, by decide⟩

/-- **Capacity, parametric form.** Every listener set up to the fd limit whose
    addresses are at most `L` bytes long fits the receive buffer, provided
    `(L + 2) * MAX_FDS_OUT + 2 ≤ MAX_BYTES_OUT`. -/
theorem C10_capacity_partial (L : Nat) (l : Listeners)
    (hL : L < 128) (hfit : (L + 2) * Consts.scmMaxFdsOut + 2 ≤ Consts.scmMaxBytesOut)
    (hsmall : Consts.scmMaxBytesOut < 16384)
    (hc : l.count ≤ Consts.scmMaxFdsOut) (ha : ∀ a ∈ l.addrs, a.length ≤ L) :
    encLen l ≤ Consts.scmMaxBytesOut := by
  first | exact c10_capacity_partial | (apply c10_capacity_partial <;> assumption)

/-- **Capacity.** Every listener set of at most `MAX_FDS_OUT` listeners whose
    address texts are at most `MAX_ADDRESS_LEN` bytes long — every
    `SocketAddr::to_string()` is: `[ffff:…:ffff%4294967295]:65535` has 58 — fits
    the `MAX_BYTES_OUT` receive buffer. The side conditions are facts about the
    constants extracted from the source, re-checked on every run. (False before
    the repair fd7301c of finding F18, when the buffer was 4096 bytes.) -/
theorem C10_capacity (l : Listeners)
    (hc : l.count ≤ Consts.scmMaxFdsOut) (ha : ∀ a ∈ l.addrs, a.length ≤ Consts.scmMaxAddressLen) :
    encLen l ≤ Consts.scmMaxBytesOut := by
  first | exact c10_capacity | (apply c10_capacity <;> assumption)

example : addrLongest.length = Consts.scmMaxAddressLen := by decide

/-- capacity and round trip together: such a set is handed over intact -/
theorem C10_handover_total (parseOk : Addr → Bool) (l : Listeners)
    (hc : l.count ≤ Consts.scmMaxFdsOut) (ha : ∀ a ∈ l.addrs, a.length ≤ Consts.scmMaxAddressLen)
    (hp : ∀ a ∈ l.addrs, parseOk a = true) :
    recv parseOk (send Sock.empty l).1 = (Sock.empty, .recvOk l) := by
  first | exact c10_handover_total | (apply c10_handover_total <;> assumption)

example : ∃ l : Listeners, l.count = 2 ∧ (∀ a ∈ l.addrs, a.length ≤ Consts.scmMaxAddressLen) :=
  ⟨{ tcp := [([49, 50, 55], 7), (addrLongest, 8)] }, by decide⟩

/-- regression of F18: the witness needs 4202 bytes — more than the 4096-byte
    buffer the code had, within the buffer it has now — and is handed over intact -/
theorem C10_f18_regression :
    encLen f18Witness = 4202 ∧ ¬ encLen f18Witness ≤ 4096 ∧ encLen f18Witness ≤ Consts.scmMaxBytesOut ∧
    (recv (fun _ => true) (send Sock.empty f18Witness).1).2 = .recvOk f18Witness := by
  first | exact c10_f18_regression | (apply c10_f18_regression <;> assumption)

/-- the address-length hypothesis of `C10_capacity` is needed, and what happens
    without it: 200 entries of 60 bytes (no `SocketAddr` prints that long) exceed
    the buffer; the whole hand-over then fails with a decode error, no listener
    arrives, the received descriptors are stranded in the receiver and the rest
    of the manifest stays in the socket (this was F18 with real addresses) -/
theorem C10_oversize_manifest_outcome :
    let l : Listeners := { tcp := (List.range Consts.scmMaxFdsOut).map fun i => (addrLongest ++ [48, 48], i) }
    Consts.scmMaxBytesOut < encLen l ∧
    (recv (fun _ => true) (send Sock.empty l).1).2 = .recvErr .decode ∧
    (recv (fun _ => true) (send Sock.empty l).1).1.leaked = Consts.scmMaxFdsOut ∧
    (recv (fun _ => true) (send Sock.empty l).1).1.bytes.length = encLen l - Consts.scmMaxBytesOut := by
  first | exact c10_oversize_manifest_outcome | (apply c10_oversize_manifest_outcome <;> assumption)

/-- **Relay chains.** However many times a listener set (≤ MAX_FDS_OUT
    listeners, socket-address texts) is received and sent on, over the same
    socket pair, the last receiver holds exactly the original set — every
    address still paired with its own descriptor — and the socket is left clean. -/
theorem C10_relay_chain (parseOk : Addr → Bool) (n : Nat) (l : Listeners)
    (hc : l.count ≤ Consts.scmMaxFdsOut) (ha : ∀ a ∈ l.addrs, a.length ≤ Consts.scmMaxAddressLen)
    (hp : ∀ a ∈ l.addrs, parseOk a = true) :
    relayChain parseOk n Sock.empty l = some (l, Sock.empty) := by
  first | exact c10_relay_chain | (apply c10_relay_chain <;> assumption)

example : relayChain (fun _ => true) 3 Sock.empty { http := [([49, 50, 55], 7)], udp := [([49], 4)] }
    = some ({ http := [([49, 50, 55], 7)], udp := [([49], 4)] }, Sock.empty) := by decide

/-- **The receiver never pairs beyond what arrived**, whatever the peer wrote on
    the socket (any manifest, any number of descriptors, any address texts —
    `sendRaw`): a successful receive yields at most MAX_FDS_OUT listeners, no more
    than descriptors delivered, pairs the addresses with the first descriptors in
    order (no descriptor used twice, none invented), and every address parsed. -/
theorem C10_recv_pairs_within_fds (parseOk : Addr → Bool) (s s' : Sock) (l : Listeners)
    (h : recv parseOk s = (s', .recvOk l)) :
    l.count ≤ Consts.scmMaxFdsOut ∧ l.count ≤ s.fds.length ∧
    l.fds = (s.fds.take Consts.scmMaxFdsOut).take l.count ∧ (∀ a ∈ l.addrs, parseOk a = true) :=
  c10_recv_pairs_within_fds parseOk s s' l h

example :
    (recv (fun _ => true) (sendRaw Sock.empty { http := [[49], [50]] } [7]).1).2 = .recvErr .count ∧
    (recv (fun a => a != [50]) (sendRaw Sock.empty { http := [[49], [50]] } [7, 8]).1).2 = .recvErr .addr ∧
    (recv (fun _ => true) (sendRaw Sock.empty { http := [[49]], udp := [[50]] } [7, 8, 9]).1).2
      = .recvOk { http := [([49], 7)], udp := [([50], 8)] } := by decide

namespace SoftStop
/-- **Exactly one acknowledgement.** Whatever the sequence of SoftStop requests,
    event-loop ticks, connection attempts, listener additions / removals and
    `ReturnListenSockets`, a worker writes at most one final Ok, and it has
    written exactly one iff it has exited. -/
theorem C10_softstop_acks_once (base slab : Nat) (ops : List Op) :
    let w := run { base := base, slab := slab } ops
    w.acks.length ≤ 1 ∧ (w.exited = true ↔ w.acks.length = 1) := by
  first | exact c10_softstop_acks_once | (apply c10_softstop_acks_once <;> assumption)

/-- **The accounting survives every history without `DeactivateListener`**,
    hand-over included: from a fresh worker, after any sequence of the other
    operations (listeners added, removed, handed back with `ReturnListenSockets`,
    connections, ticks, stops) the slab still is the base plus the client
    sessions. -/
theorem C10_accounting_invariant_partial (b : Nat) (ops : List Op)
    (hd : ∀ o ∈ ops, o ≠ Op.deactivateListener) : Acc (run (W.fresh b) ops) :=
  c10_accounting_invariant_partial b ops hd

/-- **The excluded operation (open finding).** `DeactivateListener` removes the
    listener's slab entry but leaves `base_sessions_count` alone: after two of
    them a SoftStop is acknowledged at once although a request (its frontend and
    backend entries) is still in flight. Reproduced on a real worker by the
    handover run (class `softstop-ack-before-drain:after-deactivate-listener`). -/
theorem C10_accounting_counterexample_deactivate :
    let w := run (W.fresh 1) [.addListener, .addListener, .connect, .connect,
                               .deactivateListener, .deactivateListener, .softStop 9]
    w.sessions = 2 ∧ ¬ Acc w ∧ (step w (.tick 0)).2 = .ack 9 :=
  c10_accounting_counterexample_deactivate

/-- **Hand-over, then stop: the stop waits for the sessions and for nothing
    else.** In any history of a worker — whatever listeners were added, removed
    or handed back with `ReturnListenSockets` before or after the SoftStop — a
    tick acknowledges the stop exactly when the worker is stopping and every
    client session has ended on that tick; in particular never while a session
    is left, and always once none is. -/
theorem C10_handover_then_stop_waits_for_sessions_partial (b : Nat) (ops : List Op) (closed : Nat)
    (hd : ∀ o ∈ ops, o ≠ Op.deactivateListener) :
    let w := run (W.fresh b) ops
    (∃ id, (step w (.tick closed)).2 = .ack id) ↔
      (w.exited = false ∧ w.shutting.isSome = true ∧ w.sessions ≤ closed) := by
  exact c10_handover_then_stop_waits_for_sessions_partial b ops closed hd

example :
    let w := run (W.fresh 3) [.addListener, .addListener, .connect, .connect, .returnListeners, .softStop 9, .tick 1]
    w.sessions = 1 ∧ w.exited = false ∧ (step w (.tick 1)).2 = .ack 9 ∧ (step w (.tick 0)).2 = .none := by
  decide

/-- the acknowledgement carries the id of the SoftStop being served, is written
    on the first tick at which the slab is back to its base, and ends the worker -/
theorem C10_softstop_ack_when_drained (w : W) (id closed : Nat)
    (hs : w.shutting = some id) (he : w.exited = false) :
    (w.slab - min closed w.sessions ≤ w.base →
      (step w (.tick closed)).2 = .ack id ∧ (step w (.tick closed)).1.exited = true) ∧
    (¬ w.slab - min closed w.sessions ≤ w.base →
      (step w (.tick closed)).2 = .none ∧ (step w (.tick closed)).1.exited = false ∧
      (step w (.tick closed)).1.shutting = some id) := by
  first | exact c10_softstop_ack_when_drained | (apply c10_softstop_ack_when_drained <;> assumption)

/-- **No new connection after the stop.** After a SoftStop request has been
    read, no later connection attempt is accepted — before the acknowledgement
    (listeners deregistered) or after it (worker gone). -/
theorem C10_softstop_no_accept_after_stop (w : W) (id : Nat) (post : List Op) :
    Out.accepted ∉ outs (step w (.softStop id)).1 post := by
  first | exact c10_softstop_no_accept_after_stop | (apply c10_softstop_no_accept_after_stop <;> assumption)

/-- **No new connection after the hand-over.** Once the listen sockets were
    returned, the old worker accepts nothing any more (the successor does). -/
theorem C10_no_accept_after_handover (w : W) (post : List Op) (he : w.exited = false) :
    Out.accepted ∉ outs (step w .returnListeners).1 post := by
  first | exact c10_no_accept_after_handover | (apply c10_no_accept_after_handover <;> assumption)

example : (run { base := 2, slab := 5, sessions := 3 } [.connect, .softStop 7, .tick 1, .connect, .tick 3]).acks = [7] := by
  decide

example : outs (W.fresh 1) [.connect, .returnListeners, .connect] = [.accepted, .none, .refused] := by decide

end SoftStop
end Sozu.Scm