import Sozu.Scm.Lemmas
/-
C10 — proofs of the property statements of Props.lean (`c10_x` here proves
`C10_x` there).
-/
namespace Sozu.Scm
open Sozu

/-- the receive buffer is far below the 2^70 bytes a ten-byte varint can announce -/
theorem maxBytes_lt_varint : Consts.scmMaxBytesOut < 128 ^ 10 := by decide

theorem encode_length (m : Manifest) :
    (encode m).length = (varint (encBody m).length).length + (encBody m).length := by
  simp [encode]

/-- **Round trip.** A listener set whose manifest fits the receive buffer and
    whose size fits the fd array (and the kernel's per-message fd limit) is
    received exactly as sent: same addresses in the same protocol lists, every
    address paired with its own descriptor, nothing left in the socket. -/
theorem c10_manifest_roundtrip (parseOk : Addr → Bool) (l : Listeners)
    (hb : encLen l ≤ Consts.scmMaxBytesOut) (hc : l.count ≤ Consts.scmMaxFdsOut)
    (hk : l.count ≤ kernelMaxFds) (hp : ∀ a ∈ l.addrs, parseOk a = true) :
    (send Sock.empty l).2 = .sent (encLen l) l.count ∧
    recv parseOk (send Sock.empty l).1 = (Sock.empty, .recvOk l) := by
  have hsend : send Sock.empty l =
      ({ bytes := encode l.manifest, fds := l.fds }, .sent (encLen l) l.count) := by
    have : ¬ l.count > kernelMaxFds := by omega
    simp [send, Sock.empty, this, encLen]
  rw [hsend]
  refine ⟨rfl, ?_⟩
  have hne : encode l.manifest ≠ [] := by
    have := varint_ne_nil (encBody l.manifest).length
    simp [encode, this]
  have hbody : (encBody l.manifest).length < 128 ^ 10 := by
    have := encode_length l.manifest
    have := maxBytes_lt_varint
    simp only [encLen] at hb
    omega
  have hfds : l.fds.length = l.count := by
    simp [Listeners.fds, Listeners.count, Nat.add_assoc]
  have htot : l.manifest.total = l.count := by
    simp [Manifest.total, Listeners.manifest, Listeners.count]
  have haddrs : l.manifest.addrs = l.addrs := by
    simp [Manifest.addrs, Listeners.manifest, Listeners.addrs]
  have hall : l.manifest.addrs.all parseOk = true := by
    rw [haddrs]; exact List.all_eq_true.mpr hp
  have htake : List.take Consts.scmMaxBytesOut (encode l.manifest) = encode l.manifest :=
    List.take_of_length_le hb
  have hdrop : List.drop Consts.scmMaxBytesOut (encode l.manifest) = [] :=
    List.drop_of_length_le hb
  have hgot : List.take Consts.scmMaxFdsOut l.fds = l.fds :=
    List.take_of_length_le (by omega)
  have h3 : ¬ Consts.scmMaxFdsOut < l.count := by omega
  simp only [recv, hne, htake, hdrop, hgot, decode_encode _ hbody, hall, htot, hfds,
    pair_manifest_fds, Sock.empty]
  simp [h3]

/-- size of the manifest when no address is longer than `L` bytes -/
theorem encEntries_length_le (field L : Nat) (hf : field * 8 + 2 < 128) (hL : L < 128)
    (as : List Addr) (h : ∀ a ∈ as, a.length ≤ L) :
    (encEntries field as).length ≤ (L + 2) * as.length := by
  induction as with
  | nil => simp [encEntries]
  | cons x xs ih =>
    have hx := h x (by simp)
    have ih' := ih (fun a ha => h a (by simp [ha]))
    simp only [encEntries, List.flatMap_cons, List.length_append, List.length_cons] at ih' ⊢
    rw [encEntry_length, varint_small _ hf, varint_small x.length (by omega)]
    simp only [List.length_cons, List.length_nil]
    rw [Nat.mul_add]
    omega

/-- **Capacity, parametric form.** Every listener set up to the fd limit whose
    addresses are at most `L` bytes long fits the receive buffer, provided
    `(L + 2) * MAX_FDS_OUT + 2 ≤ MAX_BYTES_OUT`. -/
theorem c10_capacity_partial (L : Nat) (l : Listeners)
    (hL : L < 128) (hfit : (L + 2) * Consts.scmMaxFdsOut + 2 ≤ Consts.scmMaxBytesOut)
    (hsmall : Consts.scmMaxBytesOut < 16384)
    (hc : l.count ≤ Consts.scmMaxFdsOut) (ha : ∀ a ∈ l.addrs, a.length ≤ L) :
    encLen l ≤ Consts.scmMaxBytesOut := by
  have haddrs : l.manifest.addrs = l.addrs := by
    simp [Manifest.addrs, Listeners.manifest, Listeners.addrs]
  have hm : ∀ a ∈ l.manifest.addrs, a.length ≤ L := by rw [haddrs]; exact ha
  have e1 := encEntries_length_le 1 L (by decide) hL l.manifest.http
    (fun a h => hm a (by simp [Manifest.addrs, h]))
  have e2 := encEntries_length_le 2 L (by decide) hL l.manifest.tls
    (fun a h => hm a (by simp [Manifest.addrs, h]))
  have e3 := encEntries_length_le 3 L (by decide) hL l.manifest.tcp
    (fun a h => hm a (by simp [Manifest.addrs, h]))
  have e4 := encEntries_length_le 4 L (by decide) hL l.manifest.udp
    (fun a h => hm a (by simp [Manifest.addrs, h]))
  have hbody : (encBody l.manifest).length ≤ (L + 2) * l.count := by
    simp only [encBody, List.length_append, Listeners.count]
    simp only [Listeners.manifest, List.length_map] at e1 e2 e3 e4
    simp only [Listeners.manifest]
    rw [Nat.mul_add, Nat.mul_add, Nat.mul_add]
    omega
  have hmul : (L + 2) * l.count ≤ (L + 2) * Consts.scmMaxFdsOut := Nat.mul_le_mul_left _ hc
  have hv := varint_length_le2 (encBody l.manifest).length (by omega)
  simp only [encLen, encode_length]
  omega

/-- **Capacity.** Every listener set of at most `MAX_FDS_OUT` listeners whose
    address texts are at most `MAX_ADDRESS_LEN` bytes long — every
    `SocketAddr::to_string()` is: `[ffff:…:ffff%4294967295]:65535` has 58 — fits
    the `MAX_BYTES_OUT` receive buffer. The side conditions are facts about the
    constants extracted from the source, re-checked on every run. (False before
    the repair fd7301c of finding F18, when the buffer was 4096 bytes.) -/
theorem c10_capacity (l : Listeners)
    (hc : l.count ≤ Consts.scmMaxFdsOut) (ha : ∀ a ∈ l.addrs, a.length ≤ Consts.scmMaxAddressLen) :
    encLen l ≤ Consts.scmMaxBytesOut :=
  c10_capacity_partial Consts.scmMaxAddressLen l (by decide) (by decide) (by decide) hc ha

/-- the documented longest address text really is `MAX_ADDRESS_LEN` bytes:
    "[ffff:ffff:ffff:ffff:ffff:ffff:ffff:ffff%4294967295]:65535" -/
def addrLongest : Addr :=
  [91, 102, 102, 102, 102, 58, 102, 102, 102, 102, 58, 102, 102, 102, 102, 58, 102, 102, 102, 102, 58,
   102, 102, 102, 102, 58, 102, 102, 102, 102, 58, 102, 102, 102, 102, 58, 102, 102, 102, 102,
   37, 52, 50, 57, 52, 57, 54, 55, 50, 57, 53, 93, 58, 54, 53, 53, 51, 53]

/-- capacity and round trip together: such a set is handed over intact -/
theorem c10_handover_total (parseOk : Addr → Bool) (l : Listeners)
    (hc : l.count ≤ Consts.scmMaxFdsOut) (ha : ∀ a ∈ l.addrs, a.length ≤ Consts.scmMaxAddressLen)
    (hp : ∀ a ∈ l.addrs, parseOk a = true) :
    recv parseOk (send Sock.empty l).1 = (Sock.empty, .recvOk l) :=
  (c10_manifest_roundtrip parseOk l (c10_capacity l hc ha) hc
    (Nat.le_trans hc (by decide)) hp).2

/-- "127.100.10.10:10000" — a 19-byte loopback address -/
def addr19 : Addr := [49, 50, 55, 46, 49, 48, 48, 46, 49, 48, 46, 49, 48, 58, 49, 48, 48, 48, 48]

/-- `MAX_FDS_OUT` TCP listeners on 19-byte addresses: the witness of finding F18 -/
def f18Witness : Listeners :=
  { tcp := (List.range Consts.scmMaxFdsOut).map fun i => (addr19, i) }

/-- regression of F18: the witness needs 4202 bytes — more than the 4096-byte
    buffer the code had, within the buffer it has now — and is handed over intact -/
theorem c10_f18_regression :
    encLen f18Witness = 4202 ∧ ¬ encLen f18Witness ≤ 4096 ∧ encLen f18Witness ≤ Consts.scmMaxBytesOut ∧
    (recv (fun _ => true) (send Sock.empty f18Witness).1).2 = .recvOk f18Witness := by
  decide +kernel

/-- the address-length hypothesis of `c10_capacity` is needed, and what happens
    without it: 200 entries of 60 bytes (no `SocketAddr` prints that long) exceed
    the buffer; the whole hand-over then fails with a decode error, no listener
    arrives, the received descriptors are stranded in the receiver and the rest
    of the manifest stays in the socket (this was F18 with real addresses) -/
theorem c10_oversize_manifest_outcome :
    let l : Listeners := { tcp := (List.range Consts.scmMaxFdsOut).map fun i => (addrLongest ++ [48, 48], i) }
    Consts.scmMaxBytesOut < encLen l ∧
    (recv (fun _ => true) (send Sock.empty l).1).2 = .recvErr .decode ∧
    (recv (fun _ => true) (send Sock.empty l).1).1.leaked = Consts.scmMaxFdsOut ∧
    (recv (fun _ => true) (send Sock.empty l).1).1.bytes.length = encLen l - Consts.scmMaxBytesOut := by
  decide +kernel

/-- one hand-over over a socket: what the receiver ends up with -/
def handOver (parseOk : Addr → Bool) (s : Sock) (l : Listeners) : Option (Listeners × Sock) :=
  match recv parseOk (send s l).1 with
  | (s', .recvOk l') => some (l', s')
  | _ => none

/-- a relay chain (old worker → main process → new worker → …): every hop sends
    what it received -/
def relayChain (parseOk : Addr → Bool) : Nat → Sock → Listeners → Option (Listeners × Sock)
  | 0, s, l => some (l, s)
  | n + 1, s, l =>
    match handOver parseOk s l with
    | some (l', s') => relayChain parseOk n s' l'
    | none => none

/-- **Relay chains.** However many times a listener set (≤ MAX_FDS_OUT
    listeners, socket-address texts) is received and sent on, over the same
    socket pair, the last receiver holds exactly the original set — every
    address still paired with its own descriptor — and the socket is left clean. -/
theorem c10_relay_chain (parseOk : Addr → Bool) (n : Nat) (l : Listeners)
    (hc : l.count ≤ Consts.scmMaxFdsOut) (ha : ∀ a ∈ l.addrs, a.length ≤ Consts.scmMaxAddressLen)
    (hp : ∀ a ∈ l.addrs, parseOk a = true) :
    relayChain parseOk n Sock.empty l = some (l, Sock.empty) := by
  induction n with
  | zero => rfl
  | succ n ih =>
    have h := c10_handover_total parseOk l hc ha hp
    simp only [relayChain, handOver, h]
    exact ih

theorem map_snd_zip_take {α β : Type} (as : List α) (bs : List β) (h : as.length ≤ bs.length) :
    (as.zip (bs.take as.length)).map (·.2) = bs.take as.length := by
  induction as generalizing bs with
  | nil => simp
  | cons a as ih =>
    cases bs with
    | nil => simp at h
    | cons b bs => simp at h ⊢; exact ih bs h

theorem map_fst_zip_take {α β : Type} (as : List α) (bs : List β) (h : as.length ≤ bs.length) :
    (as.zip (bs.take as.length)).map (·.1) = as := by
  induction as generalizing bs with
  | nil => simp
  | cons a as ih =>
    cases bs with
    | nil => simp at h
    | cons b bs => simp at h ⊢; exact ih bs h

theorem pair_fds (m : Manifest) (fds : List Fd) (h : m.total ≤ fds.length) :
    (pair m fds).fds = fds.take m.total ∧ (pair m fds).manifest = m := by
  simp only [Manifest.total] at h
  have h1 : m.http.length ≤ fds.length := by omega
  have h2 : m.tls.length ≤ (fds.drop m.http.length).length := by simp; omega
  have h3 : m.tcp.length ≤ (fds.drop (m.http.length + m.tls.length)).length := by simp; omega
  have h4 : m.udp.length ≤ (fds.drop (m.http.length + m.tls.length + m.tcp.length)).length := by simp; omega
  constructor
  · simp only [pair, Listeners.fds, map_snd_zip_take _ _ h1, map_snd_zip_take _ _ h2,
      map_snd_zip_take _ _ h3, map_snd_zip_take _ _ h4, Manifest.total, List.drop_zero]
    rw [List.take_add, List.take_add, List.take_add]
  · simp only [pair, Listeners.manifest, List.drop_zero, map_fst_zip_take _ _ h1, map_fst_zip_take _ _ h2,
      map_fst_zip_take _ _ h3, map_fst_zip_take _ _ h4]

theorem c10_recv_pairs_within_fds (parseOk : Addr → Bool) (s s' : Sock) (l : Listeners)
    (h : recv parseOk s = (s', .recvOk l)) :
    l.count ≤ Consts.scmMaxFdsOut ∧ l.count ≤ s.fds.length ∧
    l.fds = (s.fds.take Consts.scmMaxFdsOut).take l.count ∧ (∀ a ∈ l.addrs, parseOk a = true) := by
  unfold recv at h
  split at h
  · cases h
  · split at h
    · cases h
    · simp only at h
      split at h
      · cases h
      · split at h
        · cases h
        · cases h
        · next m hm =>
          split at h
          · cases h
          · next hc =>
            split at h
            · next hall =>
              cases h
              have hc' : m.total ≤ (List.take Consts.scmMaxFdsOut s.fds).length ∧ m.total ≤ Consts.scmMaxFdsOut := by omega
              obtain ⟨hf, hman⟩ := pair_fds m _ hc'.1
              have hcount : (pair m (List.take Consts.scmMaxFdsOut s.fds)).count = m.total := by
                have := congrArg Manifest.total hman
                simp only [Manifest.total, Listeners.manifest, List.length_map] at this
                simp only [Listeners.count]; exact this
              refine ⟨by omega, ?_, by rw [hcount]; exact hf, ?_⟩
              · rw [hcount]
                have hh : (List.take Consts.scmMaxFdsOut s.fds).length ≤ s.fds.length := by
                  simp [List.length_take]; omega
                have := hc'.1; omega
              · intro a ha
                have e : (pair m (List.take Consts.scmMaxFdsOut s.fds)).addrs
                    = (pair m (List.take Consts.scmMaxFdsOut s.fds)).manifest.addrs := by
                  simp [Listeners.addrs, Manifest.addrs, Listeners.manifest]
                have : a ∈ m.addrs := by rw [e, hman] at ha; exact ha
                exact List.all_eq_true.mp hall a this
            · cases h

/-! ### soft stop -/
namespace SoftStop

/-- invariant of the acknowledgement accounting -/
structure Inv (w : W) : Prop where
  live : w.exited = false → w.acks = []
  done : w.exited = true → w.acks.length = 1 ∧ w.shutting = none

theorem inv_step (w : W) (op : Op) (h : Inv w) : Inv (step w op).1 := by
  cases op with
  | softStop id =>
    simp only [step]; split
    · exact h
    · next he => exact ⟨fun _ => h.live (by simpa using he), fun e => by simp_all⟩
  | tick closed =>
    simp only [step]; split
    · exact h
    · next he =>
      have he' : w.exited = false := by simpa using he
      split
      · exact ⟨fun _ => h.live he', fun e => by simp_all⟩
      · split
        · refine ⟨fun e => by simp at e, fun _ => ?_⟩
          simp [h.live he']
        · exact ⟨fun _ => h.live he', fun e => by simp_all⟩
  | connect =>
    simp only [step]; split
    · exact h
    · exact ⟨fun e => h.live e, fun e => h.done e⟩
  | addListener =>
    simp only [step]; split
    · exact h
    · exact ⟨fun e => h.live e, fun e => h.done e⟩
  | removeListener =>
    simp only [step]; split
    · exact h
    · exact ⟨fun e => h.live e, fun e => h.done e⟩
  | returnListeners =>
    simp only [step]; split
    · exact h
    · exact ⟨fun e => h.live e, fun e => h.done e⟩
  | deactivateListener =>
    simp only [step]; split
    · exact h
    · exact ⟨fun e => h.live e, fun e => h.done e⟩

theorem inv_run (w : W) (ops : List Op) (h : Inv w) : Inv (run w ops) := by
  induction ops generalizing w with
  | nil => exact h
  | cons o os ih => exact ih _ (inv_step w o h)

/-- **Exactly one acknowledgement.** Whatever the sequence of SoftStop requests,
    event-loop ticks, connection attempts, listener additions / removals and
    `ReturnListenSockets`, a worker writes at most one final Ok, and it has
    written exactly one iff it has exited. -/
theorem c10_softstop_acks_once (base slab : Nat) (ops : List Op) :
    let w := run { base := base, slab := slab } ops
    w.acks.length ≤ 1 ∧ (w.exited = true ↔ w.acks.length = 1) := by
  have h := inv_run { base := base, slab := slab } ops ⟨fun _ => rfl, fun e => by simp at e⟩
  intro w
  cases he : w.exited with
  | false => have := h.live he; simp [w] at this ⊢; simp [this]
  | true => have := (h.done he).1; simp [w] at this ⊢; omega

/-- the slab accounting: `slab = base_sessions_count + client sessions`, and
    every listener entry is counted in the base -/
structure Acc (w : W) : Prop where
  slab : w.slab = w.base + w.sessions
  lis : w.listeners ≤ w.base

theorem acc_step (w : W) (op : Op) (h : Acc w) (hop : op ≠ .deactivateListener) : Acc (step w op).1 := by
  obtain ⟨h1, h2⟩ := h
  cases op with
  | softStop id => simp only [step]; split <;> exact ⟨h1, h2⟩
  | tick closed =>
    simp only [step]; split
    · exact ⟨h1, h2⟩
    · split
      · exact ⟨by simp only []; omega, h2⟩
      · split
        · exact ⟨by simp only []; omega, h2⟩
        · exact ⟨by simp only []; omega, h2⟩
  | connect => simp only [step]; split; exact ⟨h1, h2⟩; exact ⟨by simp only []; omega, h2⟩
  | addListener => simp only [step]; split; exact ⟨h1, h2⟩; exact ⟨by simp only []; omega, by simp only []; omega⟩
  | removeListener =>
    simp only [step]; split
    · exact ⟨h1, h2⟩
    · next hc =>
      have : w.listeners ≠ 0 := by intro e; exact hc (Or.inr e)
      exact ⟨by simp only []; omega, by simp only []; omega⟩
  | returnListeners => simp only [step]; split <;> exact ⟨h1, h2⟩
  | deactivateListener => exact absurd rfl hop

/-- **The accounting survives every history without `DeactivateListener`**,
    hand-over included: from a fresh worker, after any sequence of the other
    operations (listeners added, removed, handed back with `ReturnListenSockets`,
    connections, ticks, stops) the slab still is the base plus the client
    sessions. `DeactivateListener` breaks it: see the counterexample. -/
theorem c10_accounting_invariant_partial (b : Nat) (ops : List Op)
    (hd : ∀ o ∈ ops, o ≠ Op.deactivateListener) : Acc (run (W.fresh b) ops) := by
  have : ∀ (w : W), Acc w → Acc (run w ops) := by
    induction ops with
    | nil => intro w h; exact h
    | cons o os ih =>
      intro w h
      exact ih (fun x hx => hd x (by simp [hx])) _ (acc_step w o h (hd o (by simp)))
  exact this _ ⟨by simp [W.fresh], by simp [W.fresh]⟩

/-- two listeners deactivated, one request in flight (its frontend and backend
    entries): the SoftStop is acknowledged at once, with both entries still there -/
theorem c10_accounting_counterexample_deactivate :
    let w := run (W.fresh 1) [.addListener, .addListener, .connect, .connect,
                               .deactivateListener, .deactivateListener, .softStop 9]
    w.sessions = 2 ∧ ¬ Acc w ∧ (step w (.tick 0)).2 = .ack 9 := by
  refine ⟨by decide, ?_, by decide⟩
  intro h
  have := h.slab
  revert this
  decide

/-- what a tick does in a state that satisfies the accounting -/
theorem tick_ack_iff (w : W) (closed : Nat) (h : Acc w) :
    (∃ id, (step w (.tick closed)).2 = .ack id) ↔
      (w.exited = false ∧ w.shutting.isSome = true ∧ w.sessions ≤ closed) := by
  obtain ⟨h1, _⟩ := h
  simp only [step]
  cases he : w.exited with
  | true => simp
  | false =>
    cases hs : w.shutting with
    | none => simp
    | some id =>
      simp only [Bool.false_eq_true, if_false, Option.isSome_some, true_and]
      by_cases hc : w.slab - min closed w.sessions ≤ w.base
      · simp only [hc, if_true]
        constructor
        · intro _; omega
        · intro _; exact ⟨id, rfl⟩
      · simp only [hc, if_false]
        constructor
        · intro ⟨_, h⟩; cases h
        · intro h; exfalso; apply hc; omega

/-- **Hand-over, then stop: the stop waits for the sessions and for nothing
    else.** In any history of a worker — whatever listeners were added, removed
    or handed back with `ReturnListenSockets` before or after the SoftStop — a
    tick acknowledges the stop exactly when the worker is stopping and every
    client session has ended on that tick; in particular never while a session
    is left, and always once none is. -/
theorem c10_handover_then_stop_waits_for_sessions_partial (b : Nat) (ops : List Op) (closed : Nat)
    (hd : ∀ o ∈ ops, o ≠ Op.deactivateListener) :
    let w := run (W.fresh b) ops
    (∃ id, (step w (.tick closed)).2 = .ack id) ↔
      (w.exited = false ∧ w.shutting.isSome = true ∧ w.sessions ≤ closed) :=
  tick_ack_iff _ closed (c10_accounting_invariant_partial b ops hd)

/-- the acknowledgement carries the id of the SoftStop being served, is written
    on the first tick at which the slab is back to its base, and ends the worker -/
theorem c10_softstop_ack_when_drained (w : W) (id closed : Nat)
    (hs : w.shutting = some id) (he : w.exited = false) :
    (w.slab - min closed w.sessions ≤ w.base →
      (step w (.tick closed)).2 = .ack id ∧ (step w (.tick closed)).1.exited = true) ∧
    (¬ w.slab - min closed w.sessions ≤ w.base →
      (step w (.tick closed)).2 = .none ∧ (step w (.tick closed)).1.exited = false ∧
      (step w (.tick closed)).1.shutting = some id) := by
  constructor <;> intro h <;> simp [step, hs, he, h]

/-- once a SoftStop has been read, the worker is stopping or gone for good -/
theorem stopping_step (w : W) (op : Op) (h : w.exited = true ∨ w.shutting.isSome = true) :
    (step w op).1.exited = true ∨ (step w op).1.shutting.isSome = true := by
  cases op with
  | softStop id => simp only [step]; split <;> simp_all
  | tick closed =>
    simp only [step]; split
    · simp_all
    · split
      · simp_all
      · split <;> simp_all
  | connect => simp only [step]; split <;> simp_all
  | addListener => simp only [step]; split <;> simp_all
  | removeListener => simp only [step]; split <;> simp_all
  | returnListeners => simp only [step]; split <;> simp_all
  | deactivateListener => simp only [step]; split <;> simp_all

theorem step_not_accepted (v : W) (o : Op) (h : v.exited = true ∨ v.shutting.isSome = true ∨ v.listening = false) :
    (step v o).2 ≠ .accepted := by
  cases o with
  | softStop i => simp only [step]; split <;> simp
  | tick c =>
    simp only [step]; split
    · simp
    · split
      · simp
      · split <;> simp
  | connect =>
    simp only [step]
    have : (v.exited = true ∨ v.shutting.isSome = true ∨ v.listening = false) := h
    simp [this]
  | addListener => simp only [step]; split <;> simp
  | removeListener => simp only [step]; split <;> simp
  | returnListeners => simp only [step]; split <;> simp
  | deactivateListener => simp only [step]; split <;> simp

/-- **No new connection after the stop.** After a SoftStop request has been
    read, no later connection attempt is accepted — before the acknowledgement
    (listeners deregistered) or after it (worker gone). -/
theorem c10_softstop_no_accept_after_stop (w : W) (id : Nat) (post : List Op) :
    Out.accepted ∉ outs (step w (.softStop id)).1 post := by
  have h0 : (step w (.softStop id)).1.exited = true ∨ (step w (.softStop id)).1.shutting.isSome = true := by
    simp only [step]; split <;> simp_all
  generalize (step w (.softStop id)).1 = v at h0
  induction post generalizing v with
  | nil => simp [outs]
  | cons o os ih =>
    simp only [outs, List.mem_cons, not_or]
    refine ⟨?_, ih _ (stopping_step v o h0)⟩
    have := step_not_accepted v o (by rcases h0 with h | h; exact Or.inl h; exact Or.inr (Or.inl h))
    exact fun e => this e.symm

/-- handed-back listeners stay handed back -/
theorem returned_step (w : W) (op : Op) (h : w.listening = false) : (step w op).1.listening = false := by
  cases op with
  | softStop id => simp only [step]; split <;> simp_all
  | tick closed =>
    simp only [step]; split
    · simp_all
    · split
      · simp_all
      · split <;> simp_all
  | connect => simp only [step]; split <;> simp_all
  | addListener => simp only [step]; split <;> simp_all
  | removeListener => simp only [step]; split <;> simp_all
  | returnListeners => simp only [step]; split <;> simp_all
  | deactivateListener => simp only [step]; split <;> simp_all

/-- **No new connection after the hand-over.** Once the listen sockets were
    returned, the old worker accepts nothing any more (the successor does). -/
theorem c10_no_accept_after_handover (w : W) (post : List Op) (he : w.exited = false) :
    Out.accepted ∉ outs (step w .returnListeners).1 post := by
  have h0 : (step w .returnListeners).1.listening = false := by simp [step, he]
  generalize (step w .returnListeners).1 = v at h0
  induction post generalizing v with
  | nil => simp [outs]
  | cons o os ih =>
    simp only [outs, List.mem_cons, not_or]
    refine ⟨?_, ih _ (returned_step v o h0)⟩
    have := step_not_accepted v o (Or.inr (Or.inr h0))
    exact fun e => this e.symm

end SoftStop

end Sozu.Scm
