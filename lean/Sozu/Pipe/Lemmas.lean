import Sozu.Pipe.Model
import Sozu.ProxyProto.Lemmas
/-
C18 — helper lemmas about the Pipe model (no property statements here).
-/
set_option linter.unusedSimpArgs false
set_option linter.unusedVariables false
namespace Sozu.Pipe
open Sozu Sozu.ProxyProto

/-- each direction is a FIFO: everything read from one side is what was written
    to the other side followed by what is still buffered -/
def Fifo (p : Pipe) : Prop :=
  p.readF = p.wroteB ++ p.fbuf.data ∧ p.readB = p.wroteF ++ p.bbuf.data

theorem fifo_new (cap : Nat) (hb : Bool) : Fifo (Pipe.new cap hb) := by
  simp [Fifo, Pipe.new]

theorem fifo_of_eq {p q : Pipe} (h : Fifo p) (h1 : q.readF = p.readF) (h2 : q.wroteB = p.wroteB)
    (h3 : q.fbuf = p.fbuf) (h4 : q.readB = p.readB) (h5 : q.wroteF = p.wroteF) (h6 : q.bbuf = p.bbuf) :
    Fifo q := by
  unfold Fifo at *; rw [h1, h2, h3, h4, h5, h6]; exact h

theorem fifo_readable (p : Pipe) (g : Bytes) (r : SR) (h : Fifo p) : Fifo (p.readable g r).1 := by
  obtain ⟨h1, h2⟩ := h
  unfold Pipe.readable
  simp only [Pipe.resetForClose]
  repeat' split
  all_goals
    simp_all [Fifo, fill_data, List.take_take]

theorem fifo_writeFrontOnce (p : Pipe) (n : Nat) (r : SR) (h : Fifo p) : Fifo (p.writeFrontOnce n r) := by
  obtain ⟨h1, h2⟩ := h
  unfold Pipe.writeFrontOnce
  simp only
  split <;> simp_all [Fifo, consume_data, Nat.min_assoc]

theorem fifo_writeBackOnce (p : Pipe) (n : Nat) (r : SR) (h : Fifo p) : Fifo (p.writeBackOnce n r) := by
  obtain ⟨h1, h2⟩ := h
  unfold Pipe.writeBackOnce
  simp only
  split <;> simp_all [Fifo, consume_data, Nat.min_assoc]

theorem fifo_writableAfter (p : Pipe) (t : Nat) (r : SR) (h : Fifo p) : Fifo (p.writableAfter t r).1 := by
  unfold Pipe.writableAfter
  simp only [Pipe.resetForClose]
  repeat' split
  all_goals exact fifo_of_eq h rfl rfl rfl rfl rfl rfl

theorem fifo_backWritableAfter (p : Pipe) (r : SR) (h : Fifo p) : Fifo (p.backWritableAfter r).1 := by
  unfold Pipe.backWritableAfter
  simp only [Pipe.resetForClose]
  repeat' split
  all_goals exact fifo_of_eq h rfl rfl rfl rfl rfl rfl

theorem fifo_writableLoop : ∀ (s : List (Nat × SR)) (p : Pipe) (sz : Nat), Fifo p → Fifo (p.writableLoop sz s).1 := by
  intro s
  induction s with
  | nil =>
    intro p sz h
    unfold Pipe.writableLoop
    split
    · exact fifo_of_eq h rfl rfl rfl rfl rfl rfl
    · simp only
      split
      · exact fifo_of_eq (fifo_writeFrontOnce p 0 .wouldBlock h) rfl rfl rfl rfl rfl rfl
      · exact fifo_writableAfter _ _ _ (fifo_writeFrontOnce p 0 .wouldBlock h)
  | cons x t ih =>
    intro p sz h
    obtain ⟨n0, res⟩ := x
    unfold Pipe.writableLoop
    split
    · exact fifo_of_eq h rfl rfl rfl rfl rfl rfl
    · simp only
      split
      · exact fifo_of_eq (fifo_writeFrontOnce p n0 res h) rfl rfl rfl rfl rfl rfl
      · split
        · exact ih _ _ (fifo_writeFrontOnce p n0 res h)
        · exact fifo_writableAfter _ _ _ (fifo_writeFrontOnce p n0 res h)

theorem fifo_backWritableLoop : ∀ (s : List (Nat × SR)) (p : Pipe), Fifo p → Fifo (p.backWritableLoop s).1 := by
  intro s
  induction s with
  | nil =>
    intro p h
    unfold Pipe.backWritableLoop
    split
    · exact fifo_of_eq h rfl rfl rfl rfl rfl rfl
    · exact fifo_backWritableAfter _ _ (fifo_writeBackOnce p 0 .wouldBlock h)
  | cons x t ih =>
    intro p h
    obtain ⟨n0, res⟩ := x
    unfold Pipe.backWritableLoop
    split
    · exact fifo_of_eq h rfl rfl rfl rfl rfl rfl
    · simp only
      split
      · exact ih _ (fifo_writeBackOnce p n0 res h)
      · exact fifo_backWritableAfter _ _ (fifo_writeBackOnce p n0 res h)

theorem fifo_backendWritable (p : Pipe) (s : List (Nat × SR)) (h : Fifo p) : Fifo (p.backendWritable s).1 := by
  unfold Pipe.backendWritable
  simp only [Pipe.resetForClose]
  repeat' split
  any_goals exact fifo_of_eq h rfl rfl rfl rfl rfl rfl
  exact fifo_backWritableLoop s p h

theorem fifo_backendReadableAfter (p : Pipe) (n : Nat) (r : SR) (h : Fifo p) :
    Fifo (p.backendReadableAfter n r).1 := by
  unfold Pipe.backendReadableAfter
  simp only [Pipe.resetForClose]
  repeat' split
  all_goals exact fifo_of_eq h rfl rfl rfl rfl rfl rfl

theorem fifo_backendReadable (p : Pipe) (g : Bytes) (r : SR) (h : Fifo p) : Fifo (p.backendReadable g r).1 := by
  unfold Pipe.backendReadable
  split
  · exact fifo_of_eq h rfl rfl rfl rfl rfl rfl
  · split
    · exact h
    · apply fifo_backendReadableAfter
      obtain ⟨h1, h2⟩ := h
      simp_all [Fifo, fill_data, List.take_take]

theorem fifo_backendHup (p : Pipe) (h : Fifo p) : Fifo p.backendHup.1 := by
  unfold Pipe.backendHup
  simp only
  repeat' split
  all_goals exact fifo_of_eq h rfl rfl rfl rfl rfl rfl

theorem fifo_step (p : Pipe) (op : Op) (h : Fifo p) : Fifo (p.step op).1 := by
  cases op with
  | readable g r => exact fifo_readable p g r h
  | writable s => exact fifo_writableLoop s p 0 h
  | backendReadable g r => exact fifo_backendReadable p g r h
  | backendWritable s => exact fifo_backendWritable p s h
  | backendHup => exact fifo_backendHup p h
  | frontendHup => exact fifo_of_eq h rfl rfl rfl rfl rfl rfl
  | frontEvent r w => exact fifo_of_eq h rfl rfl rfl rfl rfl rfl
  | backEvent r w => exact fifo_of_eq h rfl rfl rfl rfl rfl rfl

theorem fifo_run : ∀ (ops : List Op) (p : Pipe), Fifo p → Fifo (p.run ops).1 := by
  intro ops
  induction ops with
  | nil => intro p h; exact h
  | cons op ops ih =>
    intro p h
    unfold Pipe.run
    have := fifo_step p op h
    rcases hx : p.step op with ⟨p', r⟩
    rw [hx] at this
    cases r <;> simp only <;> first | exact ih p' this | exact this

theorem check_false_drained (p : Pipe) (hf : p.fst = .normal ∨ p.fst = .writeOpen)
    (hc : p.check = false) : p.bbuf.data = [] ∧ p.br.eR = false := by
  unfold Pipe.check at hc
  rcases hf with hf | hf <;> rw [hf] at hc <;> cases hb : p.bst <;> rw [hb] at hc <;>
    simp at hc <;> first | exact hc | exact hc.2

theorem backendReadableAfter_close (p : Pipe) (n : Nat) (r : SR)
    (hf : p.fst = .normal ∨ p.fst = .writeOpen) (hr : r ≠ .error)
    (hc : (p.backendReadableAfter n r).2 = .close) :
    (p.backendReadableAfter n r).1.bbuf.data = [] := by
  unfold Pipe.backendReadableAfter at hc ⊢
  simp only at hc ⊢
  generalize hp4 : (if n = 0 ∧ r = SR.closed then _ else _ : Pipe) = p4 at hc ⊢
  have hp4f : p4.fst = .normal ∨ p4.fst = .writeOpen := by
    rw [← hp4]; repeat' split
    all_goals simpa using hf
  have key : ∀ q : Pipe, q.resetForClose.bbuf = q.bbuf := fun _ => rfl
  split at hc
  · next h =>
    rw [if_pos h, key]
    exact (check_false_drained p4 hp4f (by simpa using h.2.2)).1
  · next h =>
    rw [if_neg h]
    cases r with
    | error => exact absurd rfl hr
    | cont => simp at hc
    | wouldBlock => simp at hc
    | closed =>
      simp only at hc ⊢
      split at hc
      · next h2 => rw [if_pos h2, key]; exact (check_false_drained p4 hp4f (by simpa using h2)).1
      · cases hc

end Sozu.Pipe
