import Sozu.Pipe.Model
import Sozu.ProxyProto.Lemmas
/-
C18 — helper lemmas about the Pipe model (no property statements here).
-/
set_option linter.unusedSimpArgs false
set_option linter.unusedVariables false
namespace Sozu.Pipe
open Sozu Sozu.ProxyProto

/-- each direction is a FIFO: everything read from one side is what was written
    to the other side followed by what is still buffered -/
def Fifo (p : Pipe) : Prop :=
  p.readF = p.wroteB ++ p.fbuf.data ∧ p.readB = p.wroteF ++ p.bbuf.data

theorem fifo_new (cap : Nat) (hb : Bool) : Fifo (Pipe.new cap hb) := by
  simp [Fifo, Pipe.new]

theorem fifo_of_eq {p q : Pipe} (h : Fifo p) (h1 : q.readF = p.readF) (h2 : q.wroteB = p.wroteB)
    (h3 : q.fbuf = p.fbuf) (h4 : q.readB = p.readB) (h5 : q.wroteF = p.wroteF) (h6 : q.bbuf = p.bbuf) :
    Fifo q := by
  unfold Fifo at *; rw [h1, h2, h3, h4, h5, h6]; exact h

theorem fifo_readable (p : Pipe) (g : Bytes) (r : SR) (h : Fifo p) : Fifo (p.readable g r).1 := by
  obtain ⟨h1, h2⟩ := h
  unfold Pipe.readable
  simp only [Pipe.resetForClose]
  repeat' split
  all_goals
    simp_all [Fifo, fill_data, List.take_take]

theorem fifo_writeFrontOnce (p : Pipe) (n : Nat) (r : SR) (h : Fifo p) : Fifo (p.writeFrontOnce n r) := by
  obtain ⟨h1, h2⟩ := h
  unfold Pipe.writeFrontOnce
  simp only
  split <;> simp_all [Fifo, consume_data, Nat.min_assoc]

theorem fifo_writeBackOnce (p : Pipe) (n : Nat) (r : SR) (h : Fifo p) : Fifo (p.writeBackOnce n r) := by
  obtain ⟨h1, h2⟩ := h
  unfold Pipe.writeBackOnce
  simp only
  split <;> simp_all [Fifo, consume_data, Nat.min_assoc]

theorem fifo_writableAfter (p : Pipe) (t : Nat) (r : SR) (h : Fifo p) : Fifo (p.writableAfter t r).1 := by
  unfold Pipe.writableAfter
  simp only [Pipe.resetForClose]
  repeat' split
  all_goals exact fifo_of_eq h rfl rfl rfl rfl rfl rfl

theorem fifo_backWritableAfter (p : Pipe) (r : SR) (h : Fifo p) : Fifo (p.backWritableAfter r).1 := by
  unfold Pipe.backWritableAfter
  simp only [Pipe.resetForClose]
  repeat' split
  all_goals exact fifo_of_eq h rfl rfl rfl rfl rfl rfl

theorem fifo_writableLoop : ∀ (s : List (Nat × SR)) (p : Pipe) (sz : Nat), Fifo p → Fifo (p.writableLoop sz s).1 := by
  intro s
  induction s with
  | nil =>
    intro p sz h
    unfold Pipe.writableLoop
    split
    · exact fifo_of_eq h rfl rfl rfl rfl rfl rfl
    · simp only
      split
      · exact fifo_of_eq (fifo_writeFrontOnce p 0 .wouldBlock h) rfl rfl rfl rfl rfl rfl
      · exact fifo_writableAfter _ _ _ (fifo_writeFrontOnce p 0 .wouldBlock h)
  | cons x t ih =>
    intro p sz h
    obtain ⟨n0, res⟩ := x
    unfold Pipe.writableLoop
    split
    · exact fifo_of_eq h rfl rfl rfl rfl rfl rfl
    · simp only
      split
      · exact fifo_of_eq (fifo_writeFrontOnce p n0 res h) rfl rfl rfl rfl rfl rfl
      · split
        · exact ih _ _ (fifo_writeFrontOnce p n0 res h)
        · exact fifo_writableAfter _ _ _ (fifo_writeFrontOnce p n0 res h)

theorem fifo_backWritableLoop : ∀ (s : List (Nat × SR)) (p : Pipe), Fifo p → Fifo (p.backWritableLoop s).1 := by
  intro s
  induction s with
  | nil =>
    intro p h
    unfold Pipe.backWritableLoop
    split
    · exact fifo_of_eq h rfl rfl rfl rfl rfl rfl
    · exact fifo_backWritableAfter _ _ (fifo_writeBackOnce p 0 .wouldBlock h)
  | cons x t ih =>
    intro p h
    obtain ⟨n0, res⟩ := x
    unfold Pipe.backWritableLoop
    split
    · exact fifo_of_eq h rfl rfl rfl rfl rfl rfl
    · simp only
      split
      · exact ih _ (fifo_writeBackOnce p n0 res h)
      · exact fifo_backWritableAfter _ _ (fifo_writeBackOnce p n0 res h)

theorem fifo_backendWritable (p : Pipe) (s : List (Nat × SR)) (h : Fifo p) : Fifo (p.backendWritable s).1 := by
  unfold Pipe.backendWritable
  simp only [Pipe.resetForClose]
  repeat' split
  any_goals exact fifo_of_eq h rfl rfl rfl rfl rfl rfl
  exact fifo_backWritableLoop s p h

theorem fifo_backendReadableAfter (p : Pipe) (n : Nat) (r : SR) (h : Fifo p) :
    Fifo (p.backendReadableAfter n r).1 := by
  unfold Pipe.backendReadableAfter
  simp only [Pipe.resetForClose]
  repeat' split
  all_goals exact fifo_of_eq h rfl rfl rfl rfl rfl rfl

theorem fifo_backendReadable (p : Pipe) (g : Bytes) (r : SR) (h : Fifo p) : Fifo (p.backendReadable g r).1 := by
  unfold Pipe.backendReadable
  split
  · exact fifo_of_eq h rfl rfl rfl rfl rfl rfl
  · split
    · exact h
    · apply fifo_backendReadableAfter
      obtain ⟨h1, h2⟩ := h
      simp_all [Fifo, fill_data, List.take_take]

theorem fifo_backendHup (p : Pipe) (h : Fifo p) : Fifo p.backendHup.1 := by
  unfold Pipe.backendHup
  simp only
  repeat' split
  all_goals exact fifo_of_eq h rfl rfl rfl rfl rfl rfl

theorem fifo_step (p : Pipe) (op : Op) (h : Fifo p) : Fifo (p.step op).1 := by
  cases op with
  | readable g r => exact fifo_readable p g r h
  | writable s => exact fifo_writableLoop s p 0 h
  | backendReadable g r => exact fifo_backendReadable p g r h
  | backendWritable s => exact fifo_backendWritable p s h
  | backendHup => exact fifo_backendHup p h
  | frontendHup => exact fifo_of_eq h rfl rfl rfl rfl rfl rfl
  | frontEvent r w => exact fifo_of_eq h rfl rfl rfl rfl rfl rfl
  | backEvent r w => exact fifo_of_eq h rfl rfl rfl rfl rfl rfl

theorem fifo_run : ∀ (ops : List Op) (p : Pipe), Fifo p → Fifo (p.run ops).1 := by
  intro ops
  induction ops with
  | nil => intro p h; exact h
  | cons op ops ih =>
    intro p h
    unfold Pipe.run
    have := fifo_step p op h
    rcases hx : p.step op with ⟨p', r⟩
    rw [hx] at this
    cases r <;> simp only <;> first | exact ih p' this | exact this

theorem check_false_drained (p : Pipe) (hf : p.fst = .normal ∨ p.fst = .writeOpen)
    (hc : p.check = false) : p.bbuf.data = [] ∧ p.br.eR = false := by
  unfold Pipe.check at hc
  rcases hf with hf | hf <;> rw [hf] at hc <;> cases hb : p.bst <;> rw [hb] at hc <;>
    simp at hc <;> first | exact hc | exact hc.2

theorem backendReadableAfter_close (p : Pipe) (n : Nat) (r : SR)
    (hf : p.fst = .normal ∨ p.fst = .writeOpen) (hr : r ≠ .error)
    (hc : (p.backendReadableAfter n r).2 = .close) :
    (p.backendReadableAfter n r).1.bbuf.data = [] := by
  unfold Pipe.backendReadableAfter at hc ⊢
  simp only at hc ⊢
  generalize hp4 : (if n = 0 ∧ r = SR.closed then _ else _ : Pipe) = p4 at hc ⊢
  have hp4f : p4.fst = .normal ∨ p4.fst = .writeOpen := by
    rw [← hp4]; repeat' split
    all_goals simpa using hf
  have key : ∀ q : Pipe, q.resetForClose.bbuf = q.bbuf := fun _ => rfl
  split at hc
  · next h =>
    rw [if_pos h, key]
    exact (check_false_drained p4 hp4f (by simpa using h.2.2)).1
  · next h =>
    rw [if_neg h]
    cases r with
    | error => exact absurd rfl hr
    | cont => simp at hc
    | wouldBlock => simp at hc
    | closed =>
      simp only at hc ⊢
      split at hc
      · next h2 => rw [if_pos h2, key]; exact (check_false_drained p4 hp4f (by simpa using h2)).1
      · cases hc


/-! ## session level -/

/-! ### what each handler does to the two "read" histories -/

theorem readable_readF (p : Pipe) (g : Bytes) (r : SR) :
    (p.readable g r).1.readF = if p.fbuf.space = 0 then p.readF else p.readF ++ g.take p.fbuf.space := by
  unfold Pipe.readable
  simp only [Pipe.resetForClose]
  repeat' split
  all_goals simp_all

theorem readable_readB (p : Pipe) (g : Bytes) (r : SR) : (p.readable g r).1.readB = p.readB := by
  unfold Pipe.readable
  simp only [Pipe.resetForClose]
  repeat' split
  all_goals simp_all

theorem backendReadableAfter_reads (p : Pipe) (n : Nat) (r : SR) :
    (p.backendReadableAfter n r).1.readB = p.readB ∧ (p.backendReadableAfter n r).1.readF = p.readF := by
  unfold Pipe.backendReadableAfter
  simp only [Pipe.resetForClose]
  repeat' split
  all_goals exact ⟨rfl, rfl⟩

theorem backendReadable_readB (p : Pipe) (g : Bytes) (r : SR) :
    (p.backendReadable g r).1.readB =
      if p.bbuf.space = 0 ∨ p.hasBackend = false then p.readB else p.readB ++ g.take p.bbuf.space := by
  unfold Pipe.backendReadable
  by_cases h1 : p.bbuf.space = 0
  · simp [h1]
  · by_cases h2 : p.hasBackend = true
    · simp only [h1, h2, not_true_eq_false, ↓reduceIte, Bool.true_eq_false, or_self]
      rw [(backendReadableAfter_reads _ _ _).1]
    · simp [h1, h2]

theorem backendReadable_readF (p : Pipe) (g : Bytes) (r : SR) : (p.backendReadable g r).1.readF = p.readF := by
  unfold Pipe.backendReadable
  split
  · rfl
  · split
    · rfl
    · rw [(backendReadableAfter_reads _ _ _).2]

/-- the handler leaves both read histories alone -/
def SameReads (p q : Pipe) : Prop := q.readF = p.readF ∧ q.readB = p.readB

theorem SameReads.trans {p q r : Pipe} (h1 : SameReads p q) (h2 : SameReads q r) : SameReads p r :=
  ⟨h2.1.trans h1.1, h2.2.trans h1.2⟩

theorem sameReads_writeFrontOnce (p : Pipe) (n : Nat) (r : SR) : SameReads p (p.writeFrontOnce n r) := by
  unfold Pipe.writeFrontOnce; simp only; split <;> exact ⟨rfl, rfl⟩

theorem sameReads_writeBackOnce (p : Pipe) (n : Nat) (r : SR) : SameReads p (p.writeBackOnce n r) := by
  unfold Pipe.writeBackOnce; simp only; split <;> exact ⟨rfl, rfl⟩

theorem sameReads_writableAfter (p : Pipe) (t : Nat) (r : SR) : SameReads p (p.writableAfter t r).1 := by
  unfold Pipe.writableAfter; simp only [Pipe.resetForClose]
  repeat' split
  all_goals exact ⟨rfl, rfl⟩

theorem sameReads_backWritableAfter (p : Pipe) (r : SR) : SameReads p (p.backWritableAfter r).1 := by
  unfold Pipe.backWritableAfter; simp only [Pipe.resetForClose]
  repeat' split
  all_goals exact ⟨rfl, rfl⟩

theorem sameReads_writableLoop : ∀ (s : List (Nat × SR)) (p : Pipe) (sz : Nat), SameReads p (p.writableLoop sz s).1 := by
  intro s
  induction s with
  | nil =>
    intro p sz
    unfold Pipe.writableLoop
    split
    · exact ⟨rfl, rfl⟩
    · simp only
      split
      · exact sameReads_writeFrontOnce p 0 .wouldBlock
      · exact (sameReads_writeFrontOnce p 0 .wouldBlock).trans (sameReads_writableAfter _ _ _)
  | cons x t ih =>
    intro p sz
    obtain ⟨n0, res⟩ := x
    unfold Pipe.writableLoop
    split
    · exact ⟨rfl, rfl⟩
    · simp only
      split
      · exact sameReads_writeFrontOnce p n0 res
      · split
        · exact (sameReads_writeFrontOnce p n0 res).trans (ih _ _)
        · exact (sameReads_writeFrontOnce p n0 res).trans (sameReads_writableAfter _ _ _)

theorem sameReads_backWritableLoop : ∀ (s : List (Nat × SR)) (p : Pipe), SameReads p (p.backWritableLoop s).1 := by
  intro s
  induction s with
  | nil =>
    intro p
    unfold Pipe.backWritableLoop
    split
    · exact ⟨rfl, rfl⟩
    · exact (sameReads_writeBackOnce p 0 .wouldBlock).trans (sameReads_backWritableAfter _ _)
  | cons x t ih =>
    intro p
    obtain ⟨n0, res⟩ := x
    unfold Pipe.backWritableLoop
    split
    · exact ⟨rfl, rfl⟩
    · simp only
      split
      · exact (sameReads_writeBackOnce p n0 res).trans (ih _)
      · exact (sameReads_writeBackOnce p n0 res).trans (sameReads_backWritableAfter _ _)

theorem sameReads_backendWritable (p : Pipe) (s : List (Nat × SR)) : SameReads p (p.backendWritable s).1 := by
  unfold Pipe.backendWritable; simp only [Pipe.resetForClose]
  repeat' split
  any_goals exact ⟨rfl, rfl⟩
  exact sameReads_backWritableLoop s p

theorem sameReads_backendHup (p : Pipe) : SameReads p p.backendHup.1 := by
  unfold Pipe.backendHup; simp only
  repeat' split
  all_goals exact ⟨rfl, rfl⟩

/-! ### the session level: kernel queues + pipe -/

/-- everything each peer has sent so far and sozu has not lost track of:
    read history followed by what still waits in the kernel -/
def Sess.streamC (s : Sess) : Bytes := s.p.readF ++ s.k.cIn
def Sess.streamB (s : Sess) : Bytes := s.p.readB ++ s.k.bIn

/-- a step of the session that neither receives nor invents bytes -/
def Keeps (f : Sess → Sess × Res) : Prop :=
  ∀ s, Fifo s.p → (Fifo (f s).1.p ∧ (f s).1.streamC = s.streamC ∧ (f s).1.streamB = s.streamB)

theorem take_drop_take (l : Bytes) (n : Nat) : l.take n ++ l.drop (l.take n).length = l := by
  rw [List.length_take]
  by_cases h : n ≤ l.length
  · rw [Nat.min_eq_left h, List.take_append_drop]
  · rw [Nat.min_eq_right (by omega), List.take_of_length_le (by omega), List.drop_of_length_le (Nat.le_refl _)]
    simp

theorem keeps_doReadable : Keeps Sess.doReadable := by
  intro s hf
  unfold Sess.doReadable kernelRead
  simp only
  refine ⟨fifo_readable _ _ _ hf, ?_, ?_⟩
  · unfold Sess.streamC
    simp only
    rw [readable_readF]
    by_cases h : s.p.fbuf.space = 0
    · simp [h]
    · simp only [h, ↓reduceIte, List.take_take, Nat.min_self, List.append_assoc]
      rw [take_drop_take]
  · unfold Sess.streamB; simp only; rw [readable_readB]

theorem keeps_doBackReadable : Keeps Sess.doBackReadable := by
  intro s hf
  unfold Sess.doBackReadable kernelRead
  simp only
  refine ⟨fifo_backendReadable _ _ _ hf, ?_, ?_⟩
  · unfold Sess.streamC; simp only; rw [backendReadable_readF]
  · unfold Sess.streamB
    simp only
    rw [backendReadable_readB]
    by_cases h : s.p.bbuf.space = 0 ∨ s.p.hasBackend = false
    · have h' : s.p.bbuf.space = 0 ∨ ¬ s.p.hasBackend = true := by simpa using h
      simp [h, h']
    · have h' : ¬ (s.p.bbuf.space = 0 ∨ ¬ s.p.hasBackend = true) := by simpa using h
      simp only [h, h', ↓reduceIte, List.take_take, Nat.min_self, List.append_assoc]
      rw [take_drop_take]

theorem keeps_doBackWritable : Keeps Sess.doBackWritable := by
  intro s hf
  unfold Sess.doBackWritable kernelWrite
  simp only
  have sr := sameReads_backendWritable s.p
  refine ⟨fifo_backendWritable _ _ hf, ?_, ?_⟩
  · unfold Sess.streamC; split <;> simp only <;> rw [(sr _).1]
  · unfold Sess.streamB; split <;> simp only <;> rw [(sr _).2]

theorem keeps_doWritable : Keeps Sess.doWritable := by
  intro s hf
  unfold Sess.doWritable kernelWrite Pipe.writable
  simp only
  have sr := fun sc => sameReads_writableLoop sc s.p 0
  refine ⟨?_, ?_, ?_⟩
  · split <;> exact fifo_writableLoop _ _ _ hf
  · unfold Sess.streamC; split <;> simp only <;> rw [(sr _).1]
  · unfold Sess.streamB; split <;> simp only <;> rw [(sr _).2]

/-- the session state `x` still accounts for exactly the bytes `s0` accounted for -/
def Acc (s0 : Sess) (x : Sess × Res) : Prop :=
  Fifo x.1.p ∧ x.1.streamC = s0.streamC ∧ x.1.streamB = s0.streamB

theorem acc_step (s0 : Sess) (c : Bool) (f : Sess → Sess × Res) (hk : Keeps f) (x : Sess × Res)
    (hx : Acc s0 x) : Acc s0 (Sess.stepIf c f x) := by
  unfold Sess.stepIf
  split
  · exact hx
  · obtain ⟨h1, h2, h3⟩ := hk x.1 hx.1
    exact ⟨h1, h2.trans hx.2.1, h3.trans hx.2.2⟩

theorem keeps_hup : Keeps Sess.hupStep := by
  intro s hf
  have sr := sameReads_backendHup s.p
  refine ⟨fifo_backendHup _ hf, ?_, ?_⟩
  · simp only [Sess.hupStep, Sess.streamC]; rw [sr.1]
  · simp only [Sess.hupStep, Sess.streamB]; rw [sr.2]

theorem keeps_clear : Keeps Sess.frontErrStep := by
  intro s hf
  exact ⟨fifo_of_eq hf rfl rfl rfl rfl rfl rfl, rfl, rfl⟩

theorem keeps_hupErr : Keeps Sess.backErrStep := by
  intro s hf
  have sr := sameReads_backendHup s.p
  have hf' := fifo_backendHup _ hf
  unfold Sess.backErrStep
  simp only
  split
  · refine ⟨fifo_of_eq hf' rfl rfl rfl rfl rfl rfl, ?_, ?_⟩
    · simp only [Sess.streamC, Pipe.clearInterest]; rw [sr.1]
    · simp only [Sess.streamB, Pipe.clearInterest]; rw [sr.2]
  · refine ⟨hf', ?_, ?_⟩
    · simp only [Sess.streamC]; rw [sr.1]
    · simp only [Sess.streamB]; rw [sr.2]

theorem acc_turnBody (s : Sess) (hf : Fifo s.p) : Acc s s.turnBody := by
  unfold Sess.turnBody
  have a0 : Acc s (s, Res.cont) := ⟨hf, rfl, rfl⟩
  exact acc_step s _ _ keeps_hupErr _ (acc_step s _ _ keeps_clear _ (acc_step s _ _ keeps_hup _
    (acc_step s _ _ keeps_doWritable _ (acc_step s _ _ keeps_doBackReadable _
      (acc_step s _ _ keeps_doBackWritable _ (acc_step s _ _ keeps_doReadable _ a0))))))

theorem acc_turn (s : Sess) (hf : Fifo s.p) : ∀ x, s.turn = some x → Acc s x := by
  intro x hx
  unfold Sess.turn at hx
  dsimp only at hx
  split at hx
  · cases hx
  · split at hx
    · cases hx
    · cases hx; exact acc_turnBody s hf

theorem acc_loop : ∀ (fuel : Nat) (s : Sess), Fifo s.p → Acc s (Sess.loop fuel s) := by
  intro fuel
  induction fuel with
  | zero => intro s hf; exact ⟨hf, rfl, rfl⟩
  | succ n ih =>
    intro s hf
    unfold Sess.loop
    cases ht : s.turn with
    | none => exact ⟨hf, rfl, rfl⟩
    | some x =>
      obtain ⟨s', r⟩ := x
      have a := acc_turn s hf _ ht
      simp only
      split
      · exact a
      · have b := ih s' a.1
        exact ⟨b.1, b.2.1.trans a.2.1, b.2.2.trans a.2.2⟩

theorem acc_ready (s : Sess) (hf : Fifo s.p) : Acc s s.ready := by
  unfold Sess.ready
  split
  · exact ⟨fifo_of_eq hf rfl rfl rfl rfl rfl rfl, rfl, rfl⟩
  · exact acc_loop _ s hf

theorem sentC_append : ∀ (a b : List Ev), sentC (a ++ b) = sentC a ++ sentC b := by
  intro a b; induction a with
  | nil => rfl
  | cons e t iha => cases e <;> simp [sentC, iha]

theorem sentB_append : ∀ (a b : List Ev), sentB (a ++ b) = sentB a ++ sentB b := by
  intro a b; induction a with
  | nil => rfl
  | cons e t iha => cases e <;> simp [sentB, iha]

theorem apply_streams : ∀ (evs : List Ev) (s : Sess), Fifo s.p →
    Fifo (evs.foldl Sess.apply s).p ∧
    (evs.foldl Sess.apply s).streamC = s.streamC ++ sentC evs ∧
    (evs.foldl Sess.apply s).streamB = s.streamB ++ sentB evs := by
  intro evs
  induction evs with
  | nil => intro s hf; simp [sentC, sentB, hf]
  | cons e t ih =>
    intro s hf
    simp only [List.foldl_cons]
    have hf' : Fifo (s.apply e).p := by
      cases e <;> exact fifo_of_eq hf rfl rfl rfl rfl rfl rfl
    obtain ⟨h1, h2, h3⟩ := ih (s.apply e) hf'
    refine ⟨h1, ?_, ?_⟩
    · rw [h2]; cases e <;> simp [Sess.apply, Sess.streamC, sentC]
    · rw [h3]; cases e <;> simp [Sess.apply, Sess.streamB, sentB]

/-- over a whole schedule of wake-ups: the bytes accounted for are the initial ones plus
    what the peers sent in the wake-ups that were processed (all of them unless the session ended) -/
theorem runWakes_streams : ∀ (wakes : List (List Ev)) (s : Sess), Fifo s.p →
    ∃ n, n ≤ wakes.length ∧
      Fifo (s.runWakes wakes).1.p ∧
      (s.runWakes wakes).1.streamC = s.streamC ++ sentC (wakes.take n).flatten ∧
      (s.runWakes wakes).1.streamB = s.streamB ++ sentB (wakes.take n).flatten ∧
      ((s.runWakes wakes).2 = .cont → n = wakes.length) := by
  intro wakes
  induction wakes with
  | nil => intro s hf; exact ⟨0, Nat.le_refl _, hf, by simp [Sess.runWakes, sentC], by simp [Sess.runWakes, sentB], fun _ => rfl⟩
  | cons evs rest ih =>
    intro s hf
    unfold Sess.runWakes
    obtain ⟨a1, a2, a3⟩ := apply_streams evs s hf
    have ar := acc_ready _ a1
    rcases hx : (evs.foldl Sess.apply s).ready with ⟨s', r⟩
    rw [hx] at ar
    have hC : s'.streamC = s.streamC ++ sentC evs := ar.2.1.trans a2
    have hB : s'.streamB = s.streamB ++ sentB evs := ar.2.2.trans a3
    have sentC_app : ∀ (a b : List Ev), sentC (a ++ b) = sentC a ++ sentC b := by
      intro a b; induction a with
      | nil => rfl
      | cons e t iha => cases e <;> simp [sentC, iha]
    have sentB_app : ∀ (a b : List Ev), sentB (a ++ b) = sentB a ++ sentB b := by
      intro a b; induction a with
      | nil => rfl
      | cons e t iha => cases e <;> simp [sentB, iha]
    cases r with
    | cont =>
      simp only
      obtain ⟨n, hn, h1, h2, h3, h4⟩ := ih s' ar.1
      refine ⟨n + 1, by simp; omega, h1, ?_, ?_, ?_⟩
      · rw [h2, hC]; simp [sentC_app]
      · rw [h3, hB]; simp [sentB_app]
      · intro hc; have := h4 hc; simp; omega
    | close => exact ⟨1, by simp, ar.1, by simp [hC], by simp [hB], fun h => by cases h⟩
    | upgrade => exact ⟨1, by simp, ar.1, by simp [hC], by simp [hB], fun h => by cases h⟩
    | loopCap => exact ⟨1, by simp, ar.1, by simp [hC], by simp [hB], fun h => by cases h⟩
    | spin => exact ⟨1, by simp, ar.1, by simp [hC], by simp [hB], fun h => by cases h⟩

/-! ## timers -/

theorem timers_act_armed (t : Timers) (last now : Nat) (a : TAct) (h : t.ArmedAt last) :
    (t.act now a).ArmedAt (if a = .writeOnly then last else now) ∧
    (t.act now a).frontDur = t.frontDur ∧ (t.act now a).backDur = t.backDur := by
  cases a <;> simp [Timers.act, Timers.ArmedAt] at h ⊢ <;> exact h

theorem timers_paced_never_fire : ∀ (tl : List (Nat × TAct)) (t : Timers) (last : Nat),
    t.ArmedAt last → paced (min t.frontDur t.backDur) last tl → t.run tl = none := by
  intro tl
  induction tl with
  | nil => intro t last _ _; rfl
  | cons x rest ih =>
    intro t last ha hp
    obtain ⟨now, a⟩ := x
    obtain ⟨h1, h2⟩ := hp
    unfold Timers.run
    have hf : t.fires now = false := by
      unfold Timers.fires
      rw [ha.1, ha.2]
      simp only [Bool.or_eq_false_iff, decide_eq_false_iff_not]
      omega
    rw [hf]
    simp only [Bool.false_eq_true, ↓reduceIte]
    obtain ⟨a1, a2, a3⟩ := timers_act_armed t last now a ha
    apply ih _ _ a1
    rw [a2, a3]; exact h2

theorem timers_not_early : ∀ (tl : List (Nat × TAct)) (t : Timers) (last T : Nat),
    t.ArmedAt last → t.run tl = some T →
    ∃ l, T = l + min t.frontDur t.backDur ∧ (l = last ∨ ∃ a, a ≠ TAct.writeOnly ∧ (l, a) ∈ tl) := by
  intro tl
  induction tl with
  | nil => intro t last T _ h; cases h
  | cons x rest ih =>
    intro t last T ha h
    obtain ⟨now, a⟩ := x
    unfold Timers.run at h
    split at h
    · cases h
      refine ⟨last, ?_, Or.inl rfl⟩
      rw [ha.1, ha.2]; omega
    · obtain ⟨a1, a2, a3⟩ := timers_act_armed t last now a ha
      obtain ⟨l, h1, h2⟩ := ih _ _ T a1 h
      rw [a2, a3] at h1
      refine ⟨l, h1, ?_⟩
      rcases h2 with h2 | ⟨b, hb, hm⟩
      · by_cases hw : a = .writeOnly
        · left; simpa [hw] using h2
        · right; exact ⟨a, hw, by simp [hw] at h2; rw [h2]; exact List.mem_cons_self⟩
      · right; exact ⟨b, hb, List.mem_cons_of_mem _ hm⟩

/-! ## histories -/

theorem run_cons (p : Pipe) (o : Op) (t : List Op) :
    p.run (o :: t) = if (p.step o).2 = .cont then (p.step o).1.run t else p.step o := by
  rw [Pipe.run]
  rcases p.step o with ⟨p', r⟩
  cases r <;> rfl

theorem run_snoc : ∀ (ops : List Op) (p : Pipe) (op : Op),
    p.run (ops ++ [op]) = if (p.run ops).2 = .cont then (p.run ops).1.step op else p.run ops := by
  intro ops
  induction ops with
  | nil =>
    intro p op
    rw [List.nil_append, run_cons]
    simp only [Pipe.run]
    split
    · next h => simp only [↓reduceIte]; rcases hx : p.step op with ⟨p', r⟩; rw [hx] at h; simp only at h; rw [h]
    · simp
  | cons o t ih =>
    intro p op
    rw [List.cons_append, run_cons, run_cons]
    split
    · exact ih _ _
    · next h => simp [h]

/-- prefix bookkeeping of a whole wake-up schedule: what the backend (client) got is a prefix
    of what the client (backend) had sent, and all of it when that direction is drained -/
theorem runWakes_exact (wakes : List (List Ev)) (s : Sess) (hf : Fifo s.p) :
    (s.runWakes wakes).1.p.wroteB <+: s.p.wroteB ++ s.p.fbuf.data ++ s.k.cIn ++ sentC wakes.flatten ∧
    (s.runWakes wakes).1.p.wroteF <+: s.p.wroteF ++ s.p.bbuf.data ++ s.k.bIn ++ sentB wakes.flatten ∧
    ((s.runWakes wakes).2 = .cont → (s.runWakes wakes).1.p.fbuf.data = [] → (s.runWakes wakes).1.k.cIn = [] →
      (s.runWakes wakes).1.p.wroteB = s.p.wroteB ++ s.p.fbuf.data ++ s.k.cIn ++ sentC wakes.flatten) ∧
    ((s.runWakes wakes).2 = .cont → (s.runWakes wakes).1.p.bbuf.data = [] → (s.runWakes wakes).1.k.bIn = [] →
      (s.runWakes wakes).1.p.wroteF = s.p.wroteF ++ s.p.bbuf.data ++ s.k.bIn ++ sentB wakes.flatten) := by
  obtain ⟨n, hn, hfifo, hC, hB, hall⟩ := runWakes_streams wakes s hf
  obtain ⟨f1, f2⟩ := hfifo
  obtain ⟨g1, g2⟩ := hf
  have split : wakes.flatten = (wakes.take n).flatten ++ (wakes.drop n).flatten := by
    rw [← List.flatten_append, List.take_append_drop]
  simp only [Sess.streamC, Sess.streamB] at hC hB
  rw [f1, g1] at hC
  rw [f2, g2] at hB
  refine ⟨?_, ?_, ?_, ?_⟩
  · refine ⟨(s.runWakes wakes).1.p.fbuf.data ++ (s.runWakes wakes).1.k.cIn ++ sentC (wakes.drop n).flatten, ?_⟩
    rw [split, sentC_append]
    have := congrArg (· ++ sentC (wakes.drop n).flatten) hC
    simpa [List.append_assoc] using this
  · refine ⟨(s.runWakes wakes).1.p.bbuf.data ++ (s.runWakes wakes).1.k.bIn ++ sentB (wakes.drop n).flatten, ?_⟩
    rw [split, sentB_append]
    have := congrArg (· ++ sentB (wakes.drop n).flatten) hB
    simpa [List.append_assoc] using this
  · intro hc e1 e2
    have := hall hc
    subst this
    rw [List.take_length, e1, e2] at hC
    simpa using hC
  · intro hc e1 e2
    have := hall hc
    subst this
    rw [List.take_length, e1, e2] at hB
    simpa using hB
theorem send_session_exact_all (peer loc : SockAddr) (wss : List (List WRes)) (cap : Nat)
    (wakes : List (List Ev)) :
    ((sendSession peer loc wss cap wakes).1.length < (encode (Header.new .proxy peer loc)).length ∧
      (sendSession peer loc wss cap wakes).1 <+: encode (Header.new .proxy peer loc)) ∨
    (∃ pre, (sendSession peer loc wss cap wakes).1 = encode (Header.new .proxy peer loc) ++ pre ∧
      pre <+: sentC wakes.flatten) := by
  obtain ⟨h1, h2, h3, h4, h5⟩ := send_exactly_once_all peer loc wss
  unfold sendSession
  rcases hx : (Send.new peer loc).run wss with ⟨s', r, out⟩
  rw [hx] at h1 h3 h4
  simp only at h1 h3 h4
  cases r with
  | upgrade =>
    right
    refine ⟨_, ?_, (runWakes_exact wakes { p := Pipe.new cap } (fifo_new cap true)).1⟩
    simp only
    rw [h3 rfl]
  | cont => left; exact ⟨h4 (by simp), by rw [h1]; exact List.take_prefix _ _⟩
  | close => left; exact ⟨h4 (by simp), by rw [h1]; exact List.take_prefix _ _⟩
  | loopCap => left; exact ⟨h4 (by simp), by rw [h1]; exact List.take_prefix _ _⟩
  | spin => left; exact ⟨h4 (by simp), by rw [h1]; exact List.take_prefix _ _⟩



theorem acc_readyWs (s : Sess) (hf : Fifo s.p) : Acc s s.readyWs := by
  unfold Sess.readyWs
  split
  · exact ⟨hf, rfl, rfl⟩
  · exact acc_loop _ s hf


/-- a turn that changes nothing and says `Continue` repeats until the iteration cap -/
theorem loop_fixed_point (s : Sess) (h : s.turn = some (s, .cont)) : ∀ n, Sess.loop n s = (s, .loopCap) := by
  intro n
  induction n with
  | zero => rfl
  | succ k ih => unfold Sess.loop; rw [h]; simpa using ih

end Sozu.Pipe
