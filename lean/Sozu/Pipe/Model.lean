import Sozu.ProxyProto.Model
/-
C18 — executable model of `lib/src/protocol/pipe.rs` (the two-buffer relay used
by TCP sessions and upgraded WebSockets; non-splice paths) and of the part of
`TcpSession::ready_inner` (lib/src/tcp.rs) that drives it.

Handler level: `readable / writable / backend_readable / backend_writable /
backend_hup / frontend_hup / check_connections`, branch for branch, with what
the sockets answered as inputs. The ghost fields `readF/wroteB/readB/wroteF`
record every byte that crossed each socket; they influence nothing.

Session level: `Sess.ready` = the readiness loop of `ready_inner` over a kernel
model (in-order queues with FIN flags and send-buffer room on both sockets).
-/
namespace Sozu.Pipe
open Sozu Sozu.ProxyProto

/-- `ConnectionStatus` -/
inductive CS where
  | normal | readOpen | writeOpen | closed
  deriving DecidableEq, Repr

/-- `Readiness` (interest / event, four bits each) -/
structure Rd where
  iR : Bool := true
  iW : Bool := true
  iH : Bool := true
  iE : Bool := true
  eR : Bool := false
  eW : Bool := false
  eH : Bool := false
  eE : Bool := false
  deriving DecidableEq, Repr

def Rd.reset (_ : Rd) : Rd :=
  { iR := false, iW := false, iH := false, iE := false, eR := false, eW := false, eH := false, eE := false }

structure Pipe where
  /-- `frontend_buffer`: read from the client, to be written to the backend -/
  fbuf : Buf
  /-- `backend_buffer`: read from the backend, to be written to the client -/
  bbuf : Buf
  fst : CS := .normal
  bst : CS := .normal
  fr : Rd := {}
  br : Rd := {}
  hasBackend : Bool := true
  -- ghost history
  readF : Bytes := []
  wroteB : Bytes := []
  readB : Bytes := []
  wroteF : Bytes := []
  deriving DecidableEq, Repr

def Pipe.new (cap : Nat) (hasBackend : Bool := true) : Pipe :=
  { fbuf := { cap := cap }, bbuf := { cap := cap }, hasBackend := hasBackend,
    bst := if hasBackend then .normal else .closed }

/-- `check_connections` (16-row table) -/
def Pipe.check (p : Pipe) : Bool :=
  let req := decide (p.fbuf.data.length > 0) || p.fr.eR
  let resp := decide (p.bbuf.data.length > 0) || p.br.eR
  match p.fst, p.bst with
  | .normal, .normal => true
  | .normal, .readOpen => true
  | .normal, .writeOpen => req || resp
  | .normal, .closed => resp
  | .writeOpen, .normal => req || resp
  | .writeOpen, .readOpen => true
  | .writeOpen, .writeOpen => req || resp
  | .writeOpen, .closed => resp
  | .readOpen, .normal => true
  | .readOpen, .readOpen => false
  | .readOpen, .writeOpen => true
  | .readOpen, .closed => false
  | .closed, .normal => req
  | .closed, .readOpen => false
  | .closed, .writeOpen => req
  | .closed, .closed => false

def Pipe.resetForClose (p : Pipe) : Pipe := { p with fr := p.fr.reset, br := p.br.reset }

def readHalfClose : CS → CS
  | .normal => .writeOpen
  | .readOpen => .closed
  | s => s

def writeHalfClose : CS → CS
  | .normal => .readOpen
  | .writeOpen => .closed
  | s => s

/-- `Pipe::readable` given what `frontend.socket_read(buffer.space())` returned -/
def Pipe.readable (p : Pipe) (got0 : Bytes) (res : SR) : Pipe × Res :=
  if p.fbuf.space = 0 then
    ({ p with fr := { p.fr with iR := false }, br := { p.br with iW := true } }, .cont)
  else
    let got := got0.take p.fbuf.space
    let p1 : Pipe :=
      if got.length > 0 then
        let a := { p with fbuf := p.fbuf.fill got, readF := p.readF ++ got }
        let b := if a.fbuf.space = 0 then { a with fr := { a.fr with iR := false } } else a
        { b with br := { b.br with iW := true } }
      else
        let a := { p with fr := { p.fr with eR := false } }
        if res = .cont then { a with fst := readHalfClose a.fst } else a
    if ¬ p1.check then (p1.resetForClose, .close)
    else
      match res with
      | .error => (p1.resetForClose, .close)
      | .closed => (p1.resetForClose, .close)
      | .wouldBlock =>
        ({ p1 with fr := { p1.fr with eR := false }, br := { p1.br with iW := true } }, .cont)
      | .cont => ({ p1 with br := { p1.br with iW := true } }, .cont)

/-- one iteration of the `while res == Continue` loop of `Pipe::writable`: the
    write of `min n0 |data|` bytes and the half-close bookkeeping -/
def Pipe.writeFrontOnce (p : Pipe) (n0 : Nat) (res : SR) : Pipe :=
  let n := min n0 p.bbuf.data.length
  let p1 := { p with wroteF := p.wroteF ++ p.bbuf.data.take n, bbuf := p.bbuf.consume n }
  if n = 0 ∧ res = .cont then { p1 with fst := writeHalfClose p1.fst } else p1

/-- what `Pipe::writable` does after the loop ended on a result other than `Continue` -/
def Pipe.writableAfter (p2 : Pipe) (total : Nat) (res : SR) : Pipe × Res :=
  let p3 := if total > 0 then { p2 with br := { p2.br with iR := true } } else p2
  match res with
  | .error => (p3.resetForClose, .close)
  | .closed => (p3.resetForClose, .close)
  | .wouldBlock => ({ p3 with fr := { p3.fr with eW := false } }, .cont)
  | .cont => (p3, .cont)

def Pipe.writableDone (p : Pipe) : Pipe × Res :=
  ({ p with br := { p.br with iR := true }, fr := { p.fr with iW := false } }, .cont)

/-- the loop of `Pipe::writable`; `script` are the answers of the successive
    `frontend.socket_write` calls (`(0, WouldBlock)` once exhausted); `sz` is
    the running total -/
def Pipe.writableLoop (p : Pipe) (sz : Nat) : List (Nat × SR) → Pipe × Res
  | [] =>
    if p.bbuf.data.length = 0 then p.writableDone
    else
      let p2 := p.writeFrontOnce 0 .wouldBlock
      if ¬ p2.check then (p2.resetForClose, .close) else p2.writableAfter sz .wouldBlock
  | (n0, res) :: t =>
    if p.bbuf.data.length = 0 then p.writableDone
    else
      let p2 := p.writeFrontOnce n0 res
      let total := sz + min n0 p.bbuf.data.length
      if ¬ p2.check then (p2.resetForClose, .close)
      else if res = .cont then Pipe.writableLoop p2 total t
      else p2.writableAfter total res

/-- `Pipe::writable` -/
def Pipe.writable (p : Pipe) (script : List (Nat × SR)) : Pipe × Res :=
  p.writableLoop 0 script

def Pipe.writeBackOnce (p : Pipe) (n0 : Nat) (res : SR) : Pipe :=
  let n := min n0 p.fbuf.data.length
  let p1 := { p with wroteB := p.wroteB ++ p.fbuf.data.take n, fbuf := p.fbuf.consume n }
  if n = 0 ∧ res = .cont then { p1 with bst := writeHalfClose p1.bst } else p1

def Pipe.backWritableAfter (p2 : Pipe) (res : SR) : Pipe × Res :=
  if ¬ p2.check then (p2.resetForClose, .close)
  else
    match res with
    | .error => (p2.resetForClose, .close)
    | .closed => (p2.resetForClose, .close)
    | .wouldBlock => ({ p2 with br := { p2.br with eW := false } }, .cont)
    | .cont => (p2, .cont)

def Pipe.backWritableDone (p : Pipe) : Pipe × Res :=
  ({ p with fr := { p.fr with iR := true }, br := { p.br with iW := false } }, .cont)

/-- the loop of `Pipe::backend_writable` (no `check_connections` inside the loop) -/
def Pipe.backWritableLoop (p : Pipe) : List (Nat × SR) → Pipe × Res
  | [] =>
    if p.fbuf.data.length = 0 then p.backWritableDone
    else (p.writeBackOnce 0 .wouldBlock).backWritableAfter .wouldBlock
  | (n0, res) :: t =>
    if p.fbuf.data.length = 0 then p.backWritableDone
    else
      let p2 := p.writeBackOnce n0 res
      if res = .cont then Pipe.backWritableLoop p2 t else p2.backWritableAfter res

/-- `Pipe::backend_writable` -/
def Pipe.backendWritable (p : Pipe) (script : List (Nat × SR)) : Pipe × Res :=
  if p.fbuf.data.length = 0 then
    ({ p with fr := { p.fr with iR := true }, br := { p.br with iW := false } }, .cont)
  else if p.hasBackend then p.backWritableLoop script
  else if ¬ p.check then (p.resetForClose, .close) else (p, .cont)

/-- the readiness / status bookkeeping of `Pipe::backend_readable` after the
    `size` bytes were put in the buffer -/
def Pipe.backendReadableAfter (p1 : Pipe) (size : Nat) (res : SR) : Pipe × Res :=
  let p2 := if res ≠ .cont ∨ size = 0 then { p1 with br := { p1.br with eR := false } } else p1
  let p3 := if size > 0 then { p2 with fr := { p2.fr with iW := true } } else p2
  let p4 := if size = 0 ∧ res = .closed then { p3 with bst := readHalfClose p3.bst } else p3
  if size = 0 ∧ res = .closed ∧ ¬ p4.check then (p4.resetForClose, .close)
  else
    match res with
    | .error => (p4.resetForClose, .close)
    | .closed => if ¬ p4.check then (p4.resetForClose, .close) else (p4, .cont)
    | .wouldBlock => ({ p4 with br := { p4.br with eR := false } }, .cont)
    | .cont => (p4, .cont)

/-- `Pipe::backend_readable` -/
def Pipe.backendReadable (p : Pipe) (got0 : Bytes) (res : SR) : Pipe × Res :=
  if p.bbuf.space = 0 then ({ p with br := { p.br with iR := false } }, .cont)
  else if ¬ p.hasBackend then (p, .cont)
  else
    let got := got0.take p.bbuf.space
    Pipe.backendReadableAfter { p with bbuf := p.bbuf.fill got, readB := p.readB ++ got } got.length res

/-- `Pipe::backend_hup` -/
def Pipe.backendHup (p : Pipe) : Pipe × Res :=
  let p1 := { p with bst := .closed }
  if p1.bbuf.data.length = 0 then
    if p1.br.eR then ({ p1 with br := { p1.br with iR := true } }, .cont) else (p1, .close)
  else
    let p2 := { p1 with fr := { p1.fr with iW := true } }
    (if p2.br.eR then { p2 with br := { p2.br with iR := true } } else p2, .cont)

/-- `Pipe::frontend_hup` -/
def Pipe.frontendHup (p : Pipe) : Pipe × Res := ({ p with fst := .closed }, .close)

/-- handler-level operations (what the correspondence harness drives) -/
inductive Op where
  | readable (got : Bytes) (res : SR)
  | writable (script : List (Nat × SR))
  | backendReadable (got : Bytes) (res : SR)
  | backendWritable (script : List (Nat × SR))
  | backendHup
  | frontendHup
  | frontEvent (r w : Bool)
  | backEvent (r w : Bool)
  deriving Repr

def Pipe.step (p : Pipe) : Op → Pipe × Res
  | .readable g r => p.readable g r
  | .writable s => p.writable s
  | .backendReadable g r => p.backendReadable g r
  | .backendWritable s => p.backendWritable s
  | .backendHup => p.backendHup
  | .frontendHup => p.frontendHup
  | .frontEvent r w => ({ p with fr := { p.fr with eR := p.fr.eR || r, eW := p.fr.eW || w } }, .cont)
  | .backEvent r w => ({ p with br := { p.br with eR := p.br.eR || r, eW := p.br.eW || w } }, .cont)

/-- run a sequence of handler calls; stops at the first `Close` -/
def Pipe.run (p : Pipe) : List Op → Pipe × Res
  | [] => (p, .cont)
  | op :: ops =>
    match p.step op with
    | (p', .cont) => Pipe.run p' ops
    | (p', r) => (p', r)

/-! ## session level: `TcpSession::ready_inner` over a kernel model -/

/-- kernel side of the two sockets -/
structure Kern where
  /-- bytes the client sent that sozu has not read yet; FIN queued behind them -/
  cIn : Bytes := []
  cFin : Bool := false
  /-- same for the backend -/
  bIn : Bytes := []
  bFin : Bool := false
  /-- room in the send buffers towards the client / the backend -/
  cRoom : Nat := 0
  bRoom : Nat := 0
  deriving DecidableEq, Repr

structure Sess where
  p : Pipe
  k : Kern := {}
  deriving DecidableEq, Repr

/-- `tcp_socket_write` against `room` bytes of send buffer -/
def kernelWrite (len room : Nat) : Nat × SR :=
  if len ≤ room then (len, .cont) else (room, .wouldBlock)

def Sess.doReadable (s : Sess) : Sess × Res :=
  let (got, res) := kernelRead s.k.cIn s.k.cFin s.p.fbuf.space
  let taken := if s.p.fbuf.space = 0 then 0 else got.length
  let (p', r) := s.p.readable got res
  ({ p := p', k := { s.k with cIn := s.k.cIn.drop taken } }, r)

def Sess.doBackReadable (s : Sess) : Sess × Res :=
  let (got, res) := kernelRead s.k.bIn s.k.bFin s.p.bbuf.space
  let taken := if s.p.bbuf.space = 0 ∨ ¬ s.p.hasBackend then 0 else got.length
  let (p', r) := s.p.backendReadable got res
  ({ p := p', k := { s.k with bIn := s.k.bIn.drop taken } }, r)

def Sess.doBackWritable (s : Sess) : Sess × Res :=
  let (n, res) := kernelWrite s.p.fbuf.data.length s.k.bRoom
  let (p', r) := s.p.backendWritable [(n, res)]
  ({ p := p', k := { s.k with bRoom := s.k.bRoom - (p'.wroteB.length - s.p.wroteB.length) } }, r)

def Sess.doWritable (s : Sess) : Sess × Res :=
  let (n, res) := kernelWrite s.p.bbuf.data.length s.k.cRoom
  let (p', r) := s.p.writable [(n, res)]
  ({ p := p', k := { s.k with cRoom := s.k.cRoom - (p'.wroteF.length - s.p.wroteF.length) } }, r)

def Pipe.clearInterest (p : Pipe) : Pipe :=
  { p with fr := { p.fr with iR := false, iW := false, iH := false, iE := false },
           br := { p.br with iR := false, iW := false, iH := false, iE := false } }

/-- `if <interest bit> { let r = handler(); if r != Continue { return r } }` -/
def Sess.stepIf (c : Bool) (f : Sess → Sess × Res) (x : Sess × Res) : Sess × Res :=
  if x.2 ≠ .cont ∨ ¬ c then x else f x.1

def Sess.hupStep (t : Sess) : Sess × Res :=
  let (p', r) := t.p.backendHup
  ({ t with p := p' }, r)

def Sess.frontErrStep (t : Sess) : Sess × Res := ({ t with p := t.p.clearInterest }, .close)

def Sess.backErrStep (t : Sess) : Sess × Res :=
  let (p', r) := t.p.backendHup
  if r = .close then ({ t with p := p'.clearInterest }, .close) else ({ t with p := p' }, .cont)

/-- the handler calls of one turn of the readiness loop, in the order of `ready_inner`
    (the interests are sampled once, at the top of the turn) -/
def Sess.turnBody (s : Sess) : Sess × Res :=
  let fi_r := s.p.fr.iR && s.p.fr.eR
  let fi_w := s.p.fr.iW && s.p.fr.eW
  let fi_e := s.p.fr.iE && s.p.fr.eE
  let bi_r := s.p.br.iR && s.p.br.eR
  let bi_w := s.p.br.iW && s.p.br.eW
  let bi_h := s.p.br.iH && s.p.br.eH
  let bi_e := s.p.br.iE && s.p.br.eE
  Sess.stepIf bi_e Sess.backErrStep
    (Sess.stepIf fi_e Sess.frontErrStep
      (Sess.stepIf bi_h Sess.hupStep
        (Sess.stepIf fi_w Sess.doWritable
          (Sess.stepIf bi_r Sess.doBackReadable
            (Sess.stepIf bi_w Sess.doBackWritable
              (Sess.stepIf fi_r Sess.doReadable (s, .cont)))))))

/-- one turn of the `while counter < MAX_LOOP_ITERATIONS` loop of `ready_inner`
    (`none` = the loop breaks) -/
def Sess.turn (s : Sess) : Option (Sess × Res) :=
  let fi := (s.p.fr.iR && s.p.fr.eR) || (s.p.fr.iW && s.p.fr.eW) || (s.p.fr.iE && s.p.fr.eE) || (s.p.fr.iH && s.p.fr.eH)
  let bi := (s.p.br.iR && s.p.br.eR) || (s.p.br.iW && s.p.br.eW) || (s.p.br.iH && s.p.br.eH) || (s.p.br.iE && s.p.br.eE)
  if ¬ fi ∧ ¬ bi then none
  else if s.p.br.eH ∧ s.p.fr.iW ∧ ¬ s.p.fr.eW then none
  else some s.turnBody

def Sess.loop : Nat → Sess → Sess × Res
  | 0, s => (s, .loopCap)
  | fuel + 1, s =>
    match s.turn with
    | none => (s, .cont)
    | some (s', r) => if r ≠ .cont then (s', r) else Sess.loop fuel s'

/-- `ready_inner` once the backend is connected: a front HUP event (which is
    what mio reports for a client FIN: `is_read_closed`) closes at once -/
def Sess.ready (s : Sess) : Sess × Res :=
  if s.p.fr.eH then
    let (p', r) := s.p.frontendHup
    ({ s with p := p' }, r)
  else Sess.loop Consts.maxLoopIterations s

/-- `Pipe::ready` (`SessionState` impl: the loop an upgraded WebSocket runs): the same turns
    as `ready_inner`, but a front HUP event returns `Close` at once without touching the state -/
def Sess.readyWs (s : Sess) : Sess × Res :=
  if s.p.fr.eH then (s, .close) else Sess.loop Consts.maxLoopIterations s

/-- what the outside world does between two wake-ups -/
inductive Ev where
  | clientSend (bs : Bytes)
  | clientFin
  | backendSend (bs : Bytes)
  | backendFin
  | clientRoom (n : Nat)
  | backendRoom (n : Nat)
  /-- the backend's send buffer is full from now on (no readiness event) -/
  | backendBlock
  /-- epoll reports ERROR on the front / the backend socket -/
  | frontErr
  | backErr
  deriving Repr

def Sess.apply (s : Sess) : Ev → Sess
  | .clientSend bs => { s with k := { s.k with cIn := s.k.cIn ++ bs }, p := { s.p with fr := { s.p.fr with eR := true } } }
  | .clientFin => { s with k := { s.k with cFin := true }, p := { s.p with fr := { s.p.fr with eR := true, eH := true } } }
  | .backendSend bs => { s with k := { s.k with bIn := s.k.bIn ++ bs }, p := { s.p with br := { s.p.br with eR := true } } }
  | .backendFin => { s with k := { s.k with bFin := true }, p := { s.p with br := { s.p.br with eR := true, eH := true } } }
  | .clientRoom n => { s with k := { s.k with cRoom := s.k.cRoom + n }, p := { s.p with fr := { s.p.fr with eW := true } } }
  | .backendRoom n => { s with k := { s.k with bRoom := s.k.bRoom + n }, p := { s.p with br := { s.p.br with eW := true } } }
  | .backendBlock => { s with k := { s.k with bRoom := 0 } }
  | .frontErr => { s with p := { s.p with fr := { s.p.fr with eE := true } } }
  | .backErr => { s with p := { s.p with br := { s.p.br with eE := true } } }

/-- a schedule = a list of wake-ups, each preceded by a batch of outside events -/
def Sess.runWakes (s : Sess) : List (List Ev) → Sess × Res
  | [] => (s, .cont)
  | evs :: rest =>
    match (evs.foldl Sess.apply s).ready with
    | (s', .cont) => Sess.runWakes s' rest
    | (s', r) => (s', r)


/-! ## whole sessions: proxy-protocol state, then the pipe -/

/-- the pipe a TCP session starts after `ExpectProxyProtocol` upgraded: empty
    buffers, the READABLE event carried over (`into_pipe` copies the front
    readiness), the bytes the expect state left unread still in the kernel -/
def Sess.afterExpect (cap : Nat) (unread : Bytes) : Sess :=
  { p := { Pipe.new cap with fr := { eR := true } }, k := { cIn := unread } }

/-- the bytes the client / the backend send in a batch of outside events -/
def sentC : List Ev → Bytes
  | [] => []
  | .clientSend bs :: t => bs ++ sentC t
  | _ :: t => sentC t

def sentB : List Ev → Bytes
  | [] => []
  | .backendSend bs :: t => bs ++ sentB t
  | _ :: t => sentB t

/-- a send-mode session seen from the backend socket: the header phase over the
    write schedule `wss`, then — only after `Upgrade` — the pipe over the
    wake-up schedule `wakes`. Returns every byte the backend socket received. -/
def sendSession (peer loc : SockAddr) (wss : List (List WRes)) (cap : Nat) (wakes : List (List Ev)) :
    Bytes × Res :=
  match (Send.new peer loc).run wss with
  | (_, .upgrade, out) =>
    let r := ({ p := Pipe.new cap } : Sess).runWakes wakes
    (out ++ r.1.p.wroteB, r.2)
  | (_, r, out) => (out, r)

/-! ## the session's idle timers (`TimeoutContainer`s of `TcpSession`), virtual time -/

/-- `container_frontend_timeout` / `container_backend_timeout` once the backend is
    connected: their current deadlines -/
structure Timers where
  frontDur : Nat
  backDur : Nat
  frontDeadline : Nat
  backDeadline : Nat
  deriving DecidableEq, Repr

/-- bytes crossed a socket (what the session's `readable` / `back_readable` see) -/
inductive TAct where
  /-- `TcpSession::readable`: resets the front timer, and the back timer when connected -/
  | clientBytes
  /-- `TcpSession::back_readable`: resets both -/
  | backendBytes
  /-- `writable` / `back_writable` alone: no timer is touched -/
  | writeOnly
  deriving DecidableEq, Repr

def Timers.start (fd bd now : Nat) : Timers :=
  { frontDur := fd, backDur := bd, frontDeadline := now + fd, backDeadline := now + bd }

def Timers.fires (t : Timers) (now : Nat) : Bool := decide (t.frontDeadline ≤ now) || decide (t.backDeadline ≤ now)

def Timers.act (t : Timers) (now : Nat) : TAct → Timers
  | .clientBytes => { t with frontDeadline := now + t.frontDur, backDeadline := now + t.backDur }
  | .backendBytes => { t with frontDeadline := now + t.frontDur, backDeadline := now + t.backDur }
  | .writeOnly => t

/-- run a timeline of `(time, activity)`; `some T` = the timer closed the session at time `T`
    (the earlier of the two deadlines), before the activity that came too late -/
def Timers.run (t : Timers) : List (Nat × TAct) → Option Nat
  | [] => none
  | (now, a) :: rest =>
    if t.fires now then some (min t.frontDeadline t.backDeadline)
    else (t.act now a).run rest

/-- both timers were (re-)armed at time `last` -/
def Timers.ArmedAt (t : Timers) (last : Nat) : Prop :=
  t.frontDeadline = last + t.frontDur ∧ t.backDeadline = last + t.backDur

/-- every activity of the timeline comes less than `m` after the previous *byte* activity -/
def paced (m : Nat) : Nat → List (Nat × TAct) → Prop
  | _, [] => True
  | last, (now, a) :: rest => now < last + m ∧ paced m (if a = .writeOnly then last else now) rest

end Sozu.Pipe
