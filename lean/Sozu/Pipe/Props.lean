import Sozu.Pipe.Lemmas
import Sozu.ProxyProto.Props
/-
C18 — property theorems for the Pipe two-buffer relay. Only property
statements (`C18_*`) and their non-vacuity `example`s live here.
-/
set_option linter.unusedVariables false
namespace Sozu.Pipe
open Sozu Sozu.ProxyProto

/-- Byte-exact relay, for **every** schedule of handler calls (`readable`,
    `writable`, `backend_readable`, `backend_writable`, hups, readiness events)
    and every sequence of socket answers (partial reads, partial writes,
    would-blocks, zero-length writes, closes, errors), on any buffer size: the
    bytes written to each side are a prefix of the bytes read from the other
    side, in order, and equal them whenever that direction's buffer is drained. -/
theorem C18_pipe_exact (cap : Nat) (hasBackend : Bool) (ops : List Op) :
    let p := ((Pipe.new cap hasBackend).run ops).1
    p.readF = p.wroteB ++ p.fbuf.data ∧ p.readB = p.wroteF ++ p.bbuf.data ∧
    p.wroteB <+: p.readF ∧ p.wroteF <+: p.readB ∧
    (p.fbuf.data = [] → p.wroteB = p.readF) ∧ (p.bbuf.data = [] → p.wroteF = p.readB) := by
  intro p
  have h : Fifo p := fifo_run ops _ (fifo_new cap hasBackend)
  obtain ⟨h1, h2⟩ := h
  refine ⟨h1, h2, ⟨_, h1.symm⟩, ⟨_, h2.symm⟩, ?_, ?_⟩
  · intro e; rw [h1, e, List.append_nil]
  · intro e; rw [h2, e, List.append_nil]

example : ((Pipe.new 8).run [.readable [1, 2, 3, 4, 5] .wouldBlock, .backendWritable [(2, .wouldBlock)],
    .readable [6, 7, 8, 9, 10, 11] .wouldBlock, .backendWritable [(100, .cont)]]).1.wroteB =
    [1, 2, 3, 4, 5, 6, 7, 8] := by decide +kernel

/-- Backend end-of-stream is passed to the client only after the backend's
    pending bytes were written to it: whenever `backend_readable` decides to
    close (any result except a socket error) while the client side can still
    be written, the backend→client buffer is empty. -/
theorem C18_eof_after_drain_partial (p : Pipe) (got : Bytes) (res : SR)
    (hf : p.fst = .normal ∨ p.fst = .writeOpen) (hres : res ≠ .error)
    (hc : (p.backendReadable got res).2 = .close) :
    (p.backendReadable got res).1.bbuf.data = [] := by
  unfold Pipe.backendReadable at hc ⊢
  split
  · next h => rw [if_pos h] at hc; cases hc
  · next h =>
    rw [if_neg h] at hc
    split
    · next h2 => rw [if_pos h2] at hc; cases hc
    · next h2 =>
      rw [if_neg h2] at hc
      exact backendReadableAfter_close _ _ _ hf hres hc

/-- the same for `backend_hup`: it closes only with an empty backend→client buffer -/
theorem C18_eof_after_drain_hup (p : Pipe) (hc : p.backendHup.2 = .close) :
    p.backendHup.1.bbuf.data = [] := by
  unfold Pipe.backendHup at hc ⊢
  simp only at hc ⊢
  split
  · next h =>
    rw [if_pos h] at hc
    split
    · next h2 => rw [if_pos h2] at hc; cases hc
    · exact List.eq_nil_of_length_eq_zero h
  · next h => rw [if_neg h] at hc; cases hc

example : ((Pipe.new 16).run [.backendReadable [1, 2, 3] .wouldBlock, .backendReadable [] .closed]).2 = .cont ∧
    ((Pipe.new 16).run [.backendReadable [1, 2, 3] .wouldBlock, .backendReadable [] .closed,
      .writable [(3, .cont)]]).2 = .close := by decide +kernel

/-- F14, handler level: `readable` gets the client's last 11 bytes together with
    its FIN (`(11, Closed)`): the session closes with the 11 bytes still in the
    buffer — read from the client, never written to the backend. -/
theorem C18_eof_after_drain_counterexample :
    let r := (Pipe.new 16384).readable [104, 101, 108, 108, 111, 32, 119, 111, 114, 108, 100] .closed
    r.2 = .close ∧ r.1.fbuf.data.length = 11 ∧ r.1.wroteB = [] ∧ r.1.readF.length = 11 := by
  decide +kernel

/-- F14, session level (the dominant path): the client's bytes and its FIN are
    reported by one epoll wake-up; mio reports `is_read_closed`, sozu maps it to
    HUP, and `ready_inner` closes before reading anything: the backend gets
    nothing although it is writable. With a wake-up in between, the same bytes
    are delivered. -/
theorem C18_session_fin_counterexample :
    let s0 : Sess := { p := Pipe.new 16384 }
    let lost := s0.runWakes [[.backendRoom 65536], [.clientSend [104, 105], .clientFin]]
    let fine := s0.runWakes [[.backendRoom 65536], [.clientSend [104, 105]], [.clientFin]]
    (lost.2 = .close ∧ lost.1.p.wroteB = [] ∧ lost.1.k.cIn = [104, 105]) ∧
    (fine.2 = .close ∧ fine.1.p.wroteB = [104, 105]) := by
  decide +kernel

/-- the 16 rows of `check_connections` agree with the reading "keep the session
    while some still-deliverable direction has bytes in flight" on the rows where
    both peers are fully open or fully closed -/
theorem C18_check_connections_corners (p : Pipe) :
    (p.fst = .normal → p.bst = .normal → p.check = true) ∧
    (p.fst = .closed → p.bst = .closed → p.check = false) := by
  constructor <;> intro h1 h2 <;> simp [Pipe.check, h1, h2]


/-! ## whole histories at session level (kernel queues, FINs, readiness loop) -/

/-- `C18_pipe_exact` lifted to the session: for **every** schedule of wake-ups,
    each preceded by any batch of outside events (client / backend sends, FINs
    from either side, send-buffer room on either side) and driven through the
    readiness loop of `ready_inner`: what the backend received is a prefix of
    what the client sent, what the client received is a prefix of what the
    backend sent, and each equals it when the session is still open and that
    direction is drained (buffer and kernel queue empty). -/
theorem C18_session_exact (cap : Nat) (wakes : List (List Ev)) :
    let r := ({ p := Pipe.new cap } : Sess).runWakes wakes
    r.1.p.wroteB <+: sentC wakes.flatten ∧ r.1.p.wroteF <+: sentB wakes.flatten ∧
    (r.2 = .cont → r.1.p.fbuf.data = [] → r.1.k.cIn = [] → r.1.p.wroteB = sentC wakes.flatten) ∧
    (r.2 = .cont → r.1.p.bbuf.data = [] → r.1.k.bIn = [] → r.1.p.wroteF = sentB wakes.flatten) := by
  have h := runWakes_exact wakes { p := Pipe.new cap } (fifo_new cap true)
  simpa [Pipe.new] using h

example : (({ p := Pipe.new 8 } : Sess).runWakes
    [[.backendRoom 3, .clientSend [1, 2, 3, 4, 5]], [.backendRoom 100, .backendSend [9, 8], .clientRoom 1],
     [.clientRoom 10, .backendFin]]).1.p.wroteB = [1, 2, 3, 4, 5] := by decide +kernel

/-- End-of-stream only after drain, backend → client, over whole histories: take
    any history of handler calls that left the session open with the client side
    still writable; if the next `backend_readable` (any result but a socket
    error) or `backend_hup` closes the session, then every byte ever read from
    the backend has been written to the client. (The client → backend mirror is
    false in the code: `C18_eof_after_drain_counterexample`,
    `C18_session_fin_counterexample`.) -/
theorem C18_eof_after_drain_history (cap : Nat) (ops : List Op) (last : Op)
    (hlast : (∃ g r, r ≠ SR.error ∧ last = .backendReadable g r) ∨ last = .backendHup)
    (hopen : ((Pipe.new cap).run ops).2 = .cont)
    (hf : ((Pipe.new cap).run ops).1.fst = .normal ∨ ((Pipe.new cap).run ops).1.fst = .writeOpen)
    (hclose : ((Pipe.new cap).run (ops ++ [last])).2 = .close) :
    ((Pipe.new cap).run (ops ++ [last])).1.wroteF = ((Pipe.new cap).run (ops ++ [last])).1.readB := by
  have hfifo := fifo_run (ops ++ [last]) _ (fifo_new cap true)
  rw [run_snoc, if_pos hopen] at hclose hfifo ⊢
  have hd : (((Pipe.new cap).run ops).1.step last).1.bbuf.data = [] := by
    rcases hlast with ⟨g, r, hr, rfl⟩ | rfl
    · exact C18_eof_after_drain_partial _ g r hf hr hclose
    · exact C18_eof_after_drain_hup _ hclose
  rw [hfifo.2, hd, List.append_nil]

example : ((Pipe.new 16).run ([.backendReadable [1, 2, 3] .wouldBlock, .writable [(2, .wouldBlock)],
    .backendReadable [] .closed, .writable [(5, .cont)]] ++ [.backendHup])).2 = .close ∧
    ((Pipe.new 16).run ([.backendReadable [1, 2, 3] .wouldBlock, .writable [(2, .wouldBlock)],
    .backendReadable [] .closed, .writable [(5, .cont)]] ++ [.backendHup])).1.wroteF = [1, 2, 3] := by decide +kernel

/-! ## composition: proxy-protocol state, then the pipe -/

/-- Send mode, whole session, every write schedule of the header phase and every
    wake-up schedule of the pipe phase: the backend socket receives either a
    strict prefix of the header and nothing else (the session did not upgrade),
    or **exactly one** header built from the true client and listener addresses
    followed by a prefix of the bytes the client sent. -/
theorem C18_send_session_exact (peer loc : SockAddr) (wss : List (List WRes)) (cap : Nat)
    (wakes : List (List Ev)) :
    ((sendSession peer loc wss cap wakes).1.length < (encode (Header.new .proxy peer loc)).length ∧
      (sendSession peer loc wss cap wakes).1 <+: encode (Header.new .proxy peer loc)) ∨
    (∃ pre, (sendSession peer loc wss cap wakes).1 = encode (Header.new .proxy peer loc) ++ pre ∧
      pre <+: sentC wakes.flatten) :=
  send_session_exact_all peer loc wss cap wakes

example : (sendSession (.v4 [127, 0, 0, 1] 40000) (.v4 [127, 0, 0, 1] 8080) [[.ok 10, .wouldBlock], [.ok 18]] 64
    [[.backendRoom 100, .clientSend [104, 105]]]).1 =
    encode (Header.new .proxy (.v4 [127, 0, 0, 1] 40000) (.v4 [127, 0, 0, 1] 8080)) ++ [104, 105] := by decide +kernel

/-- Expect mode, whole session, when the header ends on a read-window boundary
    (28 / 52 / 232 bytes — the hypothesis that excludes the open over-read F12):
    for every fragmentation of `header ++ payload` the state upgrades with the
    header's addresses having dropped nothing, and whatever pipe schedule follows
    (the later arrivals delivered by any wake-ups), the backend receives a prefix
    of exactly the payload — no header byte, no lost byte, no reordering. -/
theorem C18_expect_session_exact_partial (H payload : Bytes) (h : Header) (chunks : List Bytes)
    (hv : parse H = .ok h H.length) (hb : H.length = 28 ∨ H.length = 52 ∨ H.length = 232)
    (hc : chunks.flatten = H ++ payload) :
    ∃ unread later,
      ({} : ExpectK).run chunks = .upgraded (some h.addr) H.length [] unread later ∧
      ∀ (cap : Nat) (wakes : List (List Ev)), sentC wakes.flatten = later.flatten →
        ((Sess.afterExpect cap unread).runWakes wakes).1.p.wroteB <+: payload := by
  obtain ⟨unread, later, h1, h2⟩ := C18_expect_any_fragmentation_partial H payload h chunks hv hb hc
  refine ⟨unread, later, h1, ?_⟩
  intro cap wakes hs
  have hx := (runWakes_exact wakes (Sess.afterExpect cap unread)
    (fifo_of_eq (fifo_new cap true) rfl rfl rfl rfl rfl rfl)).1
  simp only [Sess.afterExpect, Pipe.new, List.nil_append] at hx
  rw [hs, h2] at hx
  exact hx

/-- F12 at session level: behind a 16-byte LOCAL header the five payload bytes that
    shared its segment never reach the pipe: its kernel queue starts empty, so no
    schedule can make the backend receive them. -/
theorem C18_expect_session_exact_counterexample :
    ({} : ExpectK).run [encode ⟨.loc, 0, .unspec⟩ ++ [71, 69, 84, 32, 47]] =
      .upgraded (some .unspec) 16 [71, 69, 84, 32, 47] [] [] ∧
    ((Sess.afterExpect 16384 []).runWakes [[.backendRoom 65536], [.backendRoom 65536]]).1.p.wroteB = [] := by
  decide +kernel

example : ∃ unread later, ({} : ExpectK).run
      [(encode (Header.new .proxy (.v4 [1, 2, 3, 4] 5) (.v4 [6, 7, 8, 9] 10))) ++ [71, 69], [84]] =
      .upgraded (some (.v4 [1, 2, 3, 4] [6, 7, 8, 9] 5 10)) 28 [] unread later ∧
      ((Sess.afterExpect 64 unread).runWakes [[.backendRoom 100], later.map Ev.clientSend]).1.p.wroteB = [71, 69, 84] :=
  ⟨[71, 69], [[84]], by decide +kernel, by decide +kernel⟩

/-! ## idle timers -/

/-- The timers are re-armed by every byte in either direction: on a timeline in
    which each activity comes less than `min(front_timeout, back_timeout)` after
    the previous byte activity (client→backend or backend→client), the timers
    never close the session — however long the stream and whichever side is silent. -/
theorem C18_timer_rearmed (fd bd t0 : Nat) (tl : List (Nat × TAct))
    (hp : paced (min fd bd) t0 tl) : (Timers.start fd bd t0).run tl = none :=
  timers_paced_never_fire tl _ t0 ⟨rfl, rfl⟩ hp

example : (Timers.start 2000 2000 0).run
    [(100, .backendBytes), (1900, .backendBytes), (3800, .backendBytes), (5700, .writeOnly), (5750, .clientBytes)] = none :=
  C18_timer_rearmed 2000 2000 0 _ (by simp [paced])

/-- An idle session is closed no earlier than the timeout: when the timers close
    the session at time `T`, `T` is exactly `min(front_timeout, back_timeout)`
    after the last byte activity (or after the start when there was none). -/
theorem C18_timer_not_early (fd bd t0 : Nat) (tl : List (Nat × TAct)) (T : Nat)
    (h : (Timers.start fd bd t0).run tl = some T) :
    ∃ l, T = l + min fd bd ∧ (l = t0 ∨ ∃ a, a ≠ TAct.writeOnly ∧ (l, a) ∈ tl) :=
  timers_not_early tl _ t0 T ⟨rfl, rfl⟩ h

example : (Timers.start 2000 2000 0).run [(100, .backendBytes), (1500, .writeOnly), (2200, .clientBytes)] = some 2100 := by
  decide


/-! ## the loop of an upgraded WebSocket (`Pipe::ready`), tied in-process to the real code -/

/-- One wake-up of `Pipe::ready` after any batch of outside events (sends, FINs, room,
    a full backend send buffer, socket errors), from any state whose histories are
    consistent: no byte is invented, lost from the books, duplicated or reordered — each
    direction still reads `sent = written ++ buffered ++ queued in the kernel` — whether
    the wake-up ends in `Continue`, `Close` or the `MAX_LOOP_ITERATIONS` cap. -/
theorem C18_ws_ready_exact (s : Sess) (evs : List Ev) (hf : Fifo s.p) :
    let r := (evs.foldl Sess.apply s).readyWs
    Fifo r.1.p ∧ r.1.streamC = s.streamC ++ sentC evs ∧ r.1.streamB = s.streamB ++ sentB evs := by
  intro r
  obtain ⟨a1, a2, a3⟩ := apply_streams evs s hf
  have ar := acc_readyWs _ a1
  exact ⟨ar.1, ar.2.1.trans a2, ar.2.2.trans a3⟩

example : (([Ev.backendRoom 100, .clientSend [1, 2, 3]].foldl Sess.apply ({ p := Pipe.new 8 } : Sess)).readyWs).1.p.wroteB
    = [1, 2, 3] := by decide +kernel

/-- A backend ERROR event while response bytes are still buffered: `backend_hup` keeps the
    session (`Continue`), nothing clears the event, and the loop turns until the
    `MAX_LOOP_ITERATIONS` cap closes the session (the code logs "probable infinite loop
    bug"); the buffered bytes are dropped. Differentially confirmed on the real `Pipe::ready`. -/
theorem C18_ws_backend_error_spins_to_cap :
    let s0 := [Ev.backendSend [1, 2], .backErr].foldl Sess.apply ({ p := Pipe.new 32 } : Sess)
    let s1 := (Sess.loop 1 s0).1
    (Sess.loop 1 s0).2 = .loopCap ∧ s1.p.bbuf.data = [1, 2] ∧ ∀ n, Sess.loop n s1 = (s1, .loopCap) := by
  intro s0 s1
  refine ⟨by decide +kernel, by decide +kernel, ?_⟩
  apply loop_fixed_point
  decide +kernel


/-- New finding (class `pipe-backend-write-error-drops-response`): the backend has answered
    and closed; its answer is buffered, not yet written to the client; the next write of
    client bytes towards the backend fails (`EPIPE` → `Closed`) and `backend_writable`
    closes the session at once: the buffered answer is dropped. -/
theorem C18_backend_write_error_counterexample :
    let r := (Pipe.new 64).run [.backendReadable [1, 2, 3] .wouldBlock, .readable [9] .wouldBlock,
      .backendWritable [(0, .closed)]]
    r.2 = .close ∧ r.1.bbuf.data = [1, 2, 3] ∧ r.1.wroteF = [] ∧ r.1.fst = .normal := by decide +kernel

end Sozu.Pipe
