import Sozu.Pipe.Lemmas
/-
C18 — property theorems for the Pipe two-buffer relay. Only property
statements (`C18_*`) and their non-vacuity `example`s live here.
-/
set_option linter.unusedVariables false
namespace Sozu.Pipe
open Sozu Sozu.ProxyProto

/-- Byte-exact relay, for **every** schedule of handler calls (`readable`,
    `writable`, `backend_readable`, `backend_writable`, hups, readiness events)
    and every sequence of socket answers (partial reads, partial writes,
    would-blocks, zero-length writes, closes, errors), on any buffer size: the
    bytes written to each side are a prefix of the bytes read from the other
    side, in order, and equal them whenever that direction's buffer is drained. -/
theorem C18_pipe_exact (cap : Nat) (hasBackend : Bool) (ops : List Op) :
    let p := ((Pipe.new cap hasBackend).run ops).1
    p.readF = p.wroteB ++ p.fbuf.data ∧ p.readB = p.wroteF ++ p.bbuf.data ∧
    p.wroteB <+: p.readF ∧ p.wroteF <+: p.readB ∧
    (p.fbuf.data = [] → p.wroteB = p.readF) ∧ (p.bbuf.data = [] → p.wroteF = p.readB) := by
  intro p
  have h : Fifo p := fifo_run ops _ (fifo_new cap hasBackend)
  obtain ⟨h1, h2⟩ := h
  refine ⟨h1, h2, ⟨_, h1.symm⟩, ⟨_, h2.symm⟩, ?_, ?_⟩
  · intro e; rw [h1, e, List.append_nil]
  · intro e; rw [h2, e, List.append_nil]

example : ((Pipe.new 8).run [.readable [1, 2, 3, 4, 5] .wouldBlock, .backendWritable [(2, .wouldBlock)],
    .readable [6, 7, 8, 9, 10, 11] .wouldBlock, .backendWritable [(100, .cont)]]).1.wroteB =
    [1, 2, 3, 4, 5, 6, 7, 8] := by decide +kernel

/-- Backend end-of-stream is passed to the client only after the backend's
    pending bytes were written to it: whenever `backend_readable` decides to
    close (any result except a socket error) while the client side can still
    be written, the backend→client buffer is empty. -/
theorem C18_eof_after_drain_partial (p : Pipe) (got : Bytes) (res : SR)
    (hf : p.fst = .normal ∨ p.fst = .writeOpen) (hres : res ≠ .error)
    (hc : (p.backendReadable got res).2 = .close) :
    (p.backendReadable got res).1.bbuf.data = [] := by
  unfold Pipe.backendReadable at hc ⊢
  split
  · next h => rw [if_pos h] at hc; cases hc
  · next h =>
    rw [if_neg h] at hc
    split
    · next h2 => rw [if_pos h2] at hc; cases hc
    · next h2 =>
      rw [if_neg h2] at hc
      exact backendReadableAfter_close _ _ _ hf hres hc

/-- the same for `backend_hup`: it closes only with an empty backend→client buffer -/
theorem C18_eof_after_drain_hup (p : Pipe) (hc : p.backendHup.2 = .close) :
    p.backendHup.1.bbuf.data = [] := by
  unfold Pipe.backendHup at hc ⊢
  simp only at hc ⊢
  split
  · next h =>
    rw [if_pos h] at hc
    split
    · next h2 => rw [if_pos h2] at hc; cases hc
    · exact List.eq_nil_of_length_eq_zero h
  · next h => rw [if_neg h] at hc; cases hc

example : ((Pipe.new 16).run [.backendReadable [1, 2, 3] .wouldBlock, .backendReadable [] .closed]).2 = .cont ∧
    ((Pipe.new 16).run [.backendReadable [1, 2, 3] .wouldBlock, .backendReadable [] .closed,
      .writable [(3, .cont)]]).2 = .close := by decide +kernel

/-- F14, handler level: `readable` gets the client's last 11 bytes together with
    its FIN (`(11, Closed)`): the session closes with the 11 bytes still in the
    buffer — read from the client, never written to the backend. -/
theorem C18_eof_after_drain_counterexample :
    let r := (Pipe.new 16384).readable [104, 101, 108, 108, 111, 32, 119, 111, 114, 108, 100] .closed
    r.2 = .close ∧ r.1.fbuf.data.length = 11 ∧ r.1.wroteB = [] ∧ r.1.readF.length = 11 := by
  decide +kernel

/-- F14, session level (the dominant path): the client's bytes and its FIN are
    reported by one epoll wake-up; mio reports `is_read_closed`, sozu maps it to
    HUP, and `ready_inner` closes before reading anything: the backend gets
    nothing although it is writable. With a wake-up in between, the same bytes
    are delivered. -/
theorem C18_session_fin_counterexample :
    let s0 : Sess := { p := Pipe.new 16384 }
    let lost := s0.runWakes [[.backendRoom 65536], [.clientSend [104, 105], .clientFin]]
    let fine := s0.runWakes [[.backendRoom 65536], [.clientSend [104, 105]], [.clientFin]]
    (lost.2 = .close ∧ lost.1.p.wroteB = [] ∧ lost.1.k.cIn = [104, 105]) ∧
    (fine.2 = .close ∧ fine.1.p.wroteB = [104, 105]) := by
  decide +kernel

/-- the 16 rows of `check_connections` agree with the reading "keep the session
    while some still-deliverable direction has bytes in flight" on the rows where
    both peers are fully open or fully closed -/
theorem C18_check_connections_corners (p : Pipe) :
    (p.fst = .normal → p.bst = .normal → p.check = true) ∧
    (p.fst = .closed → p.bst = .closed → p.check = false) := by
  constructor <;> intro h1 h2 <;> simp [Pipe.check, h1, h2]

end Sozu.Pipe
