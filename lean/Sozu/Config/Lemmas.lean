import Sozu.Config.Model
/-
C20 — lemmas and proofs for the configuration loader model (the property
statements are in Props.lean; `c20_x` here proves `C20_x` there).
-/
set_option linter.unusedSimpArgs false
namespace Sozu.Config
open Sozu

/-! ### ids -/

theorem ids_eq_range (n : Nat) (h : n ≤ counterMod) : ids n = List.range n := by
  unfold ids
  have : ∀ i ∈ List.range n, i % counterMod = id i := by
    intro i hi
    have := List.mem_range.mp hi
    exact Nat.mod_eq_of_lt (by omega)
  rw [List.map_congr_left this, List.map_id]

theorem messages_ids (c : Cfg) : (messages c).map (·.1) = ids (contents c).length := by
  unfold messages
  rw [List.map_fst_zip]
  simp [ids]

/-- the counter is at least 64 bits wide (the width is extracted from the source:
    `let mut count = 0usize;` since the repair 0ff9883 of finding F19) -/
theorem counter_wide : 2 ^ 64 ≤ counterMod := by decide

/-- **Message ids are unique** for every list shorter than the range of the
    counter — with the counter in the source that is 2^64 messages, more than a
    process can hold. -/
theorem c20_ids_unique (c : Cfg) (h : (contents c).length ≤ 2 ^ 64) :
    ((messages c).map (·.1)).Nodup := by
  rw [messages_ids, ids_eq_range _ (Nat.le_trans h counter_wide)]
  exact List.nodup_range

/-- one tcp cluster with one frontend (no listener declared) and 253 backends:
    1 listener + 1 cluster + 1 frontend + 253 backends + 1 activation = 257 messages -/
def f19Witness : Decl :=
  { clusters := [{ id := 1, tcp := true, fronts := [{ addr := 2, key := 3 }],
                   backends := (List.range 253).map fun i => { addr := 10 + i } }] }

/-- regression of finding F19: this accepted file has 257 messages; with the
    8-bit counter the code had, `CONFIG-0` was used twice (a build with overflow
    checks panicked instead); with the counter it has now the ids are distinct -/
theorem c20_f19_regression :
    ∃ c, build f19Witness = .ok c ∧ (contents c).length = 257 ∧
      ¬ ((List.range 257).map (· % 2 ^ 8)).Nodup ∧ ((messages c).map (·.1)).Nodup := by
  refine ⟨_, rfl, ?_, ?_, ?_⟩ <;> decide +kernel

/-! ### one Add per declared object, nothing else -/

def asListener : Msg → Option (Proto × Nat)
  | .addListener p a => some (p, a)
  | _ => none
def asActivate : Msg → Option (Proto × Nat)
  | .activate p a => some (p, a)
  | _ => none
def asCluster : Msg → Option Nat
  | .addCluster c _ => some c
  | _ => none
/-- (cluster, key, https / udp flag) of a frontend message -/
def asFront : Msg → Option (Nat × Nat × Bool)
  | .addFront h c k => some (c, k, h)
  | .addTcpFront u c k => some (c, k, u)
  | _ => none
def asBackend : Msg → Option (Nat × Nat)
  | .addBackend c _ a => some (c, a)
  | _ => none

@[simp] theorem asListener_addListener {p : _} {a : _} : asListener (.addListener p a) = some (p, a) := rfl
@[simp] theorem asListener_addCluster {c : _} {b : _} : asListener (.addCluster c b) = none := rfl
@[simp] theorem asListener_addCert {a : _} {k : _} : asListener (.addCert a k) = none := rfl
@[simp] theorem asListener_addFront {h : _} {c : _} {k : _} : asListener (.addFront h c k) = none := rfl
@[simp] theorem asListener_addTcpFront {u : _} {c : _} {k : _} : asListener (.addTcpFront u c k) = none := rfl
@[simp] theorem asListener_addBackend {c : _} {i : _} {a : _} : asListener (.addBackend c i a) = none := rfl
@[simp] theorem asListener_activate {p : _} {a : _} : asListener (.activate p a) = none := rfl
@[simp] theorem asListener_metricsOff  : asListener (.metricsOff ) = none := rfl
@[simp] theorem asActivate_addListener {p : _} {a : _} : asActivate (.addListener p a) = none := rfl
@[simp] theorem asActivate_addCluster {c : _} {b : _} : asActivate (.addCluster c b) = none := rfl
@[simp] theorem asActivate_addCert {a : _} {k : _} : asActivate (.addCert a k) = none := rfl
@[simp] theorem asActivate_addFront {h : _} {c : _} {k : _} : asActivate (.addFront h c k) = none := rfl
@[simp] theorem asActivate_addTcpFront {u : _} {c : _} {k : _} : asActivate (.addTcpFront u c k) = none := rfl
@[simp] theorem asActivate_addBackend {c : _} {i : _} {a : _} : asActivate (.addBackend c i a) = none := rfl
@[simp] theorem asActivate_activate {p : _} {a : _} : asActivate (.activate p a) = some (p, a) := rfl
@[simp] theorem asActivate_metricsOff  : asActivate (.metricsOff ) = none := rfl
@[simp] theorem asCluster_addListener {p : _} {a : _} : asCluster (.addListener p a) = none := rfl
@[simp] theorem asCluster_addCluster {c : _} {b : _} : asCluster (.addCluster c b) = some c := rfl
@[simp] theorem asCluster_addCert {a : _} {k : _} : asCluster (.addCert a k) = none := rfl
@[simp] theorem asCluster_addFront {h : _} {c : _} {k : _} : asCluster (.addFront h c k) = none := rfl
@[simp] theorem asCluster_addTcpFront {u : _} {c : _} {k : _} : asCluster (.addTcpFront u c k) = none := rfl
@[simp] theorem asCluster_addBackend {c : _} {i : _} {a : _} : asCluster (.addBackend c i a) = none := rfl
@[simp] theorem asCluster_activate {p : _} {a : _} : asCluster (.activate p a) = none := rfl
@[simp] theorem asCluster_metricsOff  : asCluster (.metricsOff ) = none := rfl
@[simp] theorem asFront_addListener {p : _} {a : _} : asFront (.addListener p a) = none := rfl
@[simp] theorem asFront_addCluster {c : _} {b : _} : asFront (.addCluster c b) = none := rfl
@[simp] theorem asFront_addCert {a : _} {k : _} : asFront (.addCert a k) = none := rfl
@[simp] theorem asFront_addFront {h : _} {c : _} {k : _} : asFront (.addFront h c k) = some (c, k, h) := rfl
@[simp] theorem asFront_addTcpFront {u : _} {c : _} {k : _} : asFront (.addTcpFront u c k) = some (c, k, u) := rfl
@[simp] theorem asFront_addBackend {c : _} {i : _} {a : _} : asFront (.addBackend c i a) = none := rfl
@[simp] theorem asFront_activate {p : _} {a : _} : asFront (.activate p a) = none := rfl
@[simp] theorem asFront_metricsOff  : asFront (.metricsOff ) = none := rfl
@[simp] theorem asBackend_addListener {p : _} {a : _} : asBackend (.addListener p a) = none := rfl
@[simp] theorem asBackend_addCluster {c : _} {b : _} : asBackend (.addCluster c b) = none := rfl
@[simp] theorem asBackend_addCert {a : _} {k : _} : asBackend (.addCert a k) = none := rfl
@[simp] theorem asBackend_addFront {h : _} {c : _} {k : _} : asBackend (.addFront h c k) = none := rfl
@[simp] theorem asBackend_addTcpFront {u : _} {c : _} {k : _} : asBackend (.addTcpFront u c k) = none := rfl
@[simp] theorem asBackend_addBackend {c : _} {i : _} {a : _} : asBackend (.addBackend c i a) = some (c, a) := rfl
@[simp] theorem asBackend_activate {p : _} {a : _} : asBackend (.activate p a) = none := rfl
@[simp] theorem asBackend_metricsOff  : asBackend (.metricsOff ) = none := rfl

theorem flatMap_single {α β : Type} (l : List α) (g : α → β) : (l.flatMap fun x => [g x]) = l.map g := by
  induction l with
  | nil => rfl
  | cons x xs ih => simp [ih]

theorem filterMap_flatMap {α β γ : Type} (f : β → Option γ) (g : α → List β) (l : List α) :
    (l.flatMap g).filterMap f = l.flatMap fun x => (g x).filterMap f := by
  induction l with
  | nil => rfl
  | cons x xs ih => simp [List.flatMap_cons, List.filterMap_append, ih]

theorem backendMsgs_other (k : Cluster) (f : Msg → Option α)
    (hf : ∀ c i a, f (.addBackend c i a) = none) : ∀ (i : Nat) (bs : List Backend),
    (backendMsgs k i bs).filterMap f = [] := by
  intro i bs
  induction bs generalizing i with
  | nil => rfl
  | cons b bs ih => simp [backendMsgs, hf, ih]

theorem backendMsgs_backends (k : Cluster) : ∀ (i : Nat) (bs : List Backend),
    (backendMsgs k i bs).filterMap asBackend = bs.map fun b => (k.id, b.addr) := by
  intro i bs
  induction bs generalizing i with
  | nil => rfl
  | cons b bs ih => simp [backendMsgs, asBackend, ih]

theorem frontMsgs_other (k : Cluster) (f : Msg → Option α)
    (h1 : ∀ h c key, f (.addFront h c key) = none) (h2 : ∀ u c key, f (.addTcpFront u c key) = none)
    (h3 : ∀ a c, f (.addCert a c) = none) (fs : List Front) :
    (fs.flatMap (frontMsgs k)).filterMap f = [] := by
  induction fs with
  | nil => rfl
  | cons x xs ih =>
    simp only [List.flatMap_cons, List.filterMap_append, ih, List.append_nil]
    unfold frontMsgs
    split
    · simp [h2]
    · split <;> simp [h1, h3]

theorem clusterMsgs_listener (k : Cluster) : (clusterMsgs k).filterMap asListener = [] := by
  unfold clusterMsgs
  rw [List.filterMap_cons, List.filterMap_append,
    frontMsgs_other k asListener (by simp) (by simp) (by simp), backendMsgs_other k asListener (by simp)]
  simp

theorem clusterMsgs_activate (k : Cluster) : (clusterMsgs k).filterMap asActivate = [] := by
  unfold clusterMsgs
  rw [List.filterMap_cons, List.filterMap_append,
    frontMsgs_other k asActivate (by simp) (by simp) (by simp), backendMsgs_other k asActivate (by simp)]
  simp

theorem clusterMsgs_cluster (k : Cluster) : (clusterMsgs k).filterMap asCluster = [k.id] := by
  unfold clusterMsgs
  rw [List.filterMap_cons, List.filterMap_append,
    frontMsgs_other k asCluster (by simp) (by simp) (by simp), backendMsgs_other k asCluster (by simp)]
  simp

theorem clusterMsgs_backend (k : Cluster) :
    (clusterMsgs k).filterMap asBackend = k.backends.map fun b => (k.id, b.addr) := by
  unfold clusterMsgs
  rw [List.filterMap_cons, List.filterMap_append,
    frontMsgs_other k asBackend (by simp) (by simp) (by simp), backendMsgs_backends]
  simp

/-- the frontend entries of a cluster as the messages carry them -/
def declaredFronts (k : Cluster) : List (Nat × Nat × Bool) :=
  k.fronts.map fun f => (k.id, f.key, if k.tcp then f.udp else decide (f.cert ≠ 0))

theorem frontMsgs_front (k : Cluster) (fs : List Front) :
    (fs.flatMap (frontMsgs k)).filterMap asFront =
      fs.map fun f => (k.id, f.key, if k.tcp then f.udp else decide (f.cert ≠ 0)) := by
  induction fs with
  | nil => rfl
  | cons x xs ih =>
    simp only [List.flatMap_cons, List.filterMap_append, ih, List.map_cons]
    unfold frontMsgs
    split
    · next h => simp [h]
    · next h =>
      split
      · next h2 => simp [List.filterMap_cons, h, h2]
      · next h2 => simp [List.filterMap_cons, h, h2]

theorem clusterMsgs_front (k : Cluster) : (clusterMsgs k).filterMap asFront = declaredFronts k := by
  unfold clusterMsgs
  rw [List.filterMap_cons, List.filterMap_append, frontMsgs_front, backendMsgs_other k asFront (by simp)]
  simp [declaredFronts]

theorem listenerMsgs_listener (c : Cfg) :
    (listenerMsgs c).filterMap asListener = c.listeners.map fun l => (l.proto, l.addr) := by
  simp [listenerMsgs, List.filterMap_map, asListener, Function.comp_def]

theorem activateMsgs_activate (c : Cfg) :
    (activateMsgs c).filterMap asActivate = c.listeners.map fun l => (l.proto, l.addr) := by
  simp [activateMsgs, List.filterMap_map, asActivate, Function.comp_def]

theorem listenerMsgs_none (c : Cfg) (f : Msg → Option α) (h : ∀ p a, f (.addListener p a) = none) :
    (listenerMsgs c).filterMap f = [] := by
  simp [listenerMsgs, List.filterMap_map, Function.comp_def, h]

theorem activateMsgs_none (c : Cfg) (f : Msg → Option α) (h : ∀ p a, f (.activate p a) = none) :
    (activateMsgs c).filterMap f = [] := by
  simp [activateMsgs, List.filterMap_map, Function.comp_def, h]

theorem flatMap_nil' {α β : Type} (l : List α) (g : α → List β) (h : ∀ x, g x = []) :
    l.flatMap g = [] := by
  induction l with
  | nil => rfl
  | cons x xs ih => simp [h, ih]

/-- **Declared = loaded, at the level of the command list.** For every
    configuration and every iteration order of its clusters, the generated list
    contains exactly one `Add…Listener` per listener (in vector order), one
    `AddCluster` per cluster, one frontend message per declared frontend, one
    `AddBackend` per declared backend — nothing duplicated, nothing dropped —
    and one `ActivateListener` per listener iff `activate_listeners`. -/
theorem c20_declared_equals_loaded (c : Cfg) :
    (contents c).filterMap asListener = c.listeners.map (fun l => (l.proto, l.addr)) ∧
    (contents c).filterMap asCluster = c.clusters.map (·.id) ∧
    (contents c).filterMap asFront = c.clusters.flatMap declaredFronts ∧
    (contents c).filterMap asBackend = c.clusters.flatMap (fun k => k.backends.map fun b => (k.id, b.addr)) ∧
    (contents c).filterMap asActivate =
      (if c.activate then c.listeners.map (fun l => (l.proto, l.addr)) else []) := by
  refine ⟨?_, ?_, ?_, ?_, ?_⟩
  · simp only [contents, List.filterMap_append, listenerMsgs_listener, filterMap_flatMap,
      clusterMsgs_listener]
    rw [flatMap_nil' _ _ (fun _ => rfl)]
    split <;> split <;> simp [activateMsgs_none c asListener (by simp [asListener]), asListener]
  · simp only [contents, List.filterMap_append, filterMap_flatMap, clusterMsgs_cluster,
      listenerMsgs_none c asCluster (by simp [asCluster])]
    split <;> split <;>
      simp [activateMsgs_none c asCluster (by simp [asCluster]), asCluster, flatMap_single]
  · simp only [contents, List.filterMap_append, filterMap_flatMap, clusterMsgs_front,
      listenerMsgs_none c asFront (by simp [asFront])]
    split <;> split <;> simp [activateMsgs_none c asFront (by simp [asFront]), asFront]
  · simp only [contents, List.filterMap_append, filterMap_flatMap, clusterMsgs_backend,
      listenerMsgs_none c asBackend (by simp [asBackend])]
    split <;> split <;> simp [activateMsgs_none c asBackend (by simp [asBackend]), asBackend]
  · simp only [contents, List.filterMap_append, filterMap_flatMap, clusterMsgs_activate,
      listenerMsgs_none c asActivate (by simp [asActivate])]
    rw [flatMap_nil' _ _ (fun _ => rfl)]
    split <;> split <;> simp [activateMsgs_activate, asActivate]

/-! ### order -/

/-- every `ActivateListener` is preceded by the `Add…Listener` of the same
    protocol and address (`seen` = the messages before, latest first) -/
def actsCovered : List Msg → List Msg → Bool
  | _, [] => true
  | seen, m :: ms =>
    (match m with
     | .activate p a => seen.contains (.addListener p a)
     | _ => true) && actsCovered (m :: seen) ms

theorem actsCovered_append (xs : List Msg) : ∀ (seen ys : List Msg),
    actsCovered seen (xs ++ ys) = (actsCovered seen xs && actsCovered (xs.reverse ++ seen) ys) := by
  induction xs with
  | nil => intro seen ys; simp [actsCovered]
  | cons x xs ih => intro seen ys; simp [actsCovered, ih, Bool.and_assoc]

theorem actsCovered_noAct (xs : List Msg) (h : ∀ m ∈ xs, asActivate m = none) :
    ∀ seen, actsCovered seen xs = true := by
  induction xs with
  | nil => intro seen; rfl
  | cons x xs ih =>
    intro seen
    have hx := h x (by simp)
    have := ih (fun m hm => h m (by simp [hm])) (x :: seen)
    cases x <;> simp_all [actsCovered]

theorem actsCovered_acts (ls : List Listener) : ∀ (seen : List Msg),
    (∀ l ∈ ls, Msg.addListener l.proto l.addr ∈ seen) →
    actsCovered seen (ls.map fun l => Msg.activate l.proto l.addr) = true := by
  induction ls with
  | nil => intro seen _; rfl
  | cons l ls ih =>
    intro seen h
    have h0 := h l (by simp)
    have := ih (Msg.activate l.proto l.addr :: seen) (fun l' hl' => by
      have := h l' (by simp [hl']); simp [this])
    simp [actsCovered, h0, this]

theorem clusters_noAct (c : Cfg) : ∀ m ∈ c.clusters.flatMap clusterMsgs, asActivate m = none := by
  have : (c.clusters.flatMap clusterMsgs).filterMap asActivate = [] := by
    rw [filterMap_flatMap]; exact flatMap_nil' _ _ clusterMsgs_activate
  exact List.filterMap_eq_nil_iff.mp this

/-- **Order.** In the generated list every listener is added before anything
    refers to it: all `Add…Listener` come first, and each `ActivateListener` is
    preceded by the `Add…Listener` of the same protocol and address (so a fresh
    instance never answers "not found" to an activation). -/
theorem c20_order (c : Cfg) : actsCovered [] (contents c) = true := by
  have hL : ∀ m ∈ listenerMsgs c, asActivate m = none := by
    intro m hm; simp [listenerMsgs] at hm; obtain ⟨l, _, rfl⟩ := hm; rfl
  have hK := clusters_noAct c
  have hA : actsCovered ((c.clusters.flatMap clusterMsgs).reverse ++ (listenerMsgs c).reverse)
      (activateMsgs c) = true := by
    apply actsCovered_acts
    intro l hl
    simp only [List.mem_append, List.mem_reverse]
    right
    simp only [listenerMsgs, List.mem_map]
    exact ⟨l, hl, rfl⟩
  unfold contents
  rw [actsCovered_append, actsCovered_append, actsCovered_append, actsCovered_noAct _ hL,
    actsCovered_noAct _ hK]
  split <;> split <;> simp [hA, actsCovered]

/-! ### applying the list again changes nothing -/

/-- the state already holds what the message asks for -/
def absorbed (s : St) : Msg → Prop
  | .addListener p a => hasListener s p a = true
  | .addCluster c bad => bad = true ∨ s.clusters.contains c = true
  | .addCert a k => s.certs.contains (a, k) = true
  | .addFront h _ key => s.fronts.any (fun f => f.1 == h && f.2.1 == key) = true
  | .addTcpFront u c key => s.tfronts.contains (u, c, key) = true
  | .addBackend c id a => s.backends.contains (c, id, a) = true
  | .activate p a => hasListener s p a = true ∧
      ∀ l ∈ s.listeners, (l.1 == p && l.2.1 == a) = true → l.2.2 = true
  | .metricsOff => True

theorem map_id_of {α : Type} (f : α → α) (l : List α) (h : ∀ x ∈ l, f x = x) : l.map f = l := by
  induction l with
  | nil => rfl
  | cons x xs ih => simp [h x (by simp), ih (fun y hy => h y (by simp [hy]))]

theorem absorbed_fix (s : St) (m : Msg) (h : absorbed s m) : (dispatch s m).1 = s := by
  cases m with
  | addListener p a => simp [absorbed] at h; simp [dispatch, h]
  | addCluster c bad =>
    simp only [absorbed] at h
    simp only [dispatch]
    rcases h with h | h
    · simp [h]
    · split
      · rfl
      · simp [h]
  | addCert a k => simp [absorbed] at h; simp [dispatch, h]
  | addFront hh c key => simp only [absorbed] at h; simp [dispatch, h]
  | addTcpFront u c key => simp [absorbed] at h; simp [dispatch, h]
  | addBackend c i a => simp [absorbed] at h; simp [dispatch, h]
  | activate p a =>
    obtain ⟨h1, h2⟩ := h
    simp only [dispatch, h1, if_true]
    have : s.listeners.map (fun l => if (l.1 == p && l.2.1 == a) = true then (l.1, l.2.1, true) else l) = s.listeners := by
      apply map_id_of
      intro l hl
      split
      · next hc => have := h2 l hl hc; cases l with | mk x y => cases y with | mk y z => simp_all
      · rfl
    rw [this]
  | metricsOff => rfl

theorem any_key_map (ls : List (Proto × Nat × Bool)) (p' : Proto) (a' : Nat) (p : Proto) (a : Nat) :
    (ls.map fun l => if (l.1 == p' && l.2.1 == a') = true then (l.1, l.2.1, true) else l).any
        (fun l => l.1 == p && l.2.1 == a) = ls.any (fun l => l.1 == p && l.2.1 == a) := by
  induction ls with
  | nil => rfl
  | cons x xs ih =>
    simp only [List.map_cons, List.any_cons, ih]
    split <;> rfl

/-- right after a message was dispatched the state holds what it asked for
    (an activation needs its listener to be there) -/
theorem absorbed_after (s : St) (m : Msg)
    (h : ∀ p a, m = .activate p a → hasListener s p a = true) : absorbed (dispatch s m).1 m := by
  cases m with
  | addListener p a =>
    simp only [dispatch]; split
    · next hc => simpa [absorbed] using hc
    · simp [absorbed, hasListener]
  | addCluster c bad =>
    simp only [dispatch]; split
    · next hb => exact Or.inl hb
    · split
      · next hc => exact Or.inr hc
      · simp [absorbed]
  | addCert a k =>
    simp only [dispatch]; split
    · next hc => simpa [absorbed] using hc
    · simp [absorbed]
  | addFront hh c key =>
    simp only [dispatch]; split
    · next hc => simpa [absorbed] using hc
    · simp [absorbed]
  | addTcpFront u c key =>
    simp only [dispatch]; split
    · next hc => simpa [absorbed] using hc
    · simp [absorbed]
  | addBackend c i a =>
    simp only [dispatch]; split
    · next hc => simpa [absorbed] using hc
    · simp [absorbed]
  | activate p a =>
    have hl := h p a rfl
    simp only [dispatch, hl, if_true, absorbed]
    constructor
    · simp only [hasListener]; rw [any_key_map]; exact hl
    · intro l hm hc
      simp only [List.mem_map] at hm
      obtain ⟨l0, _, rfl⟩ := hm
      by_cases hcnd : (l0.1 == p && l0.2.1 == a) = true
      · rw [if_pos hcnd]
      · rw [if_neg hcnd] at hc; exact absurd hc hcnd
  | metricsOff => simp [absorbed]

theorem absorbed_mono_activate (s : St) (p : Proto) (a : Nat) (m' : Msg)
    (h : absorbed s (.activate p a)) : absorbed (dispatch s m').1 (.activate p a) := by
  obtain ⟨h1, h2⟩ := h
  cases m' with
  | addListener p' a' =>
    simp only [dispatch]; split
    · exact ⟨h1, h2⟩
    · next hn =>
      refine ⟨?_, ?_⟩
      · simp only [hasListener, List.any_append] at h1 ⊢; simp [h1]
      · intro l hl hc
        simp only [List.mem_append, List.mem_singleton] at hl
        rcases hl with hl | rfl
        · exact h2 l hl hc
        · exfalso
          simp only [Bool.and_eq_true, beq_iff_eq] at hc
          obtain ⟨rfl, rfl⟩ := hc
          exact hn h1
  | activate p' a' =>
    simp only [dispatch]; split
    · refine ⟨?_, ?_⟩
      · simp only [hasListener]; rw [any_key_map]; exact h1
      · intro l hl hc
        simp only [List.mem_map] at hl
        obtain ⟨l0, hm, rfl⟩ := hl
        by_cases hcnd : (l0.1 == p' && l0.2.1 == a') = true
        · rw [if_pos hcnd]
        · rw [if_neg hcnd] at hc ⊢; exact h2 l0 hm hc
    · exact ⟨h1, h2⟩
  | addCluster c b =>
    simp only [dispatch]; split
    · exact ⟨h1, h2⟩
    · split <;> exact ⟨h1, h2⟩
  | addCert a0 k => simp only [dispatch]; split <;> exact ⟨h1, h2⟩
  | addFront hh c key => simp only [dispatch]; split <;> exact ⟨h1, h2⟩
  | addTcpFront u c key => simp only [dispatch]; split <;> exact ⟨h1, h2⟩
  | addBackend c i a0 => simp only [dispatch]; split <;> exact ⟨h1, h2⟩
  | metricsOff => exact ⟨h1, h2⟩

/-- nothing a later message does takes it away again -/
theorem absorbed_mono (s : St) (m m' : Msg) (h : absorbed s m) : absorbed (dispatch s m').1 m := by
  cases m with
  | activate p a => exact absorbed_mono_activate s p a m' h
  | metricsOff => trivial
  | addListener p a =>
    simp only [absorbed] at h ⊢
    cases m' with
    | activate p' a' =>
      simp only [dispatch]; split
      · simp only [hasListener]; rw [any_key_map]; exact h
      · exact h
    | _ =>
      simp only [dispatch] <;> (repeat' split) <;>
        simp_all [hasListener, List.any_append, any_key_map]
  | addCluster c b =>
    simp only [absorbed] at h ⊢
    cases m' <;> simp only [dispatch] <;> (repeat' split) <;>
      simp_all [hasListener, List.any_append, any_key_map] <;>
      (try (rcases h with h | h <;> simp [h]))
  | addCert a0 k =>
    simp only [absorbed] at h ⊢
    cases m' <;> simp only [dispatch] <;> (repeat' split) <;>
      simp_all [hasListener, List.any_append, any_key_map]
  | addFront hh c key =>
    simp only [absorbed] at h ⊢
    cases m' <;> simp only [dispatch] <;> (repeat' split) <;>
      simp_all [hasListener, List.any_append, any_key_map]
  | addTcpFront u c key =>
    simp only [absorbed] at h ⊢
    cases m' <;> simp only [dispatch] <;> (repeat' split) <;>
      simp_all [hasListener, List.any_append, any_key_map]
  | addBackend c i a0 =>
    simp only [absorbed] at h ⊢
    cases m' <;> simp only [dispatch] <;> (repeat' split) <;>
      simp_all [hasListener, List.any_append, any_key_map]

theorem runMsgs_cons (s : St) (m : Msg) (ms : List Msg) :
    runMsgs s (m :: ms) = runMsgs (dispatch s m).1 ms := rfl

theorem absorbed_all : ∀ (ms seen : List Msg) (s : St),
    (∀ m ∈ seen, absorbed s m) → actsCovered seen ms = true →
    ∀ m, (m ∈ seen ∨ m ∈ ms) → absorbed (runMsgs s ms) m := by
  intro ms
  induction ms with
  | nil => intro seen s hs _ m hm; rcases hm with hm | hm; exact hs m hm; cases hm
  | cons m0 rest ih =>
    intro seen s hs hcov m hm
    simp only [actsCovered, Bool.and_eq_true] at hcov
    rw [runMsgs_cons]
    have h0 : absorbed (dispatch s m0).1 m0 := by
      apply absorbed_after
      intro p a he
      subst he
      have : Msg.addListener p a ∈ seen := by simpa using hcov.1
      exact hs _ this
    apply ih (m0 :: seen) (dispatch s m0).1 _ hcov.2 m
    · rcases hm with hm | hm
      · exact Or.inl (by simp [hm])
      · rcases List.mem_cons.mp hm with rfl | hm
        · exact Or.inl (by simp)
        · exact Or.inr hm
    · intro x hx
      rcases List.mem_cons.mp hx with rfl | hx
      · exact h0
      · exact absorbed_mono s x m0 (hs x hx)

theorem runMsgs_fix : ∀ (ms : List Msg) (s : St), (∀ m ∈ ms, absorbed s m) → runMsgs s ms = s := by
  intro ms
  induction ms with
  | nil => intro s _; rfl
  | cons m rest ih =>
    intro s h
    rw [runMsgs_cons, absorbed_fix s m (h m (by simp))]
    exact ih s (fun x hx => h x (by simp [hx]))

/-- **Reload is idempotent.** Applying the command list of a configuration a
    second time over the state it produced (from any starting state, in
    particular a fresh one) leaves that state unchanged: the second pass only
    meets "already exists" / upsert-with-equal-value / already-active. -/
theorem c20_reload_idempotent (c : Cfg) (s : St) :
    runMsgs (runMsgs s (contents c)) (contents c) = runMsgs s (contents c) := by
  apply runMsgs_fix
  intro m hm
  exact absorbed_all (contents c) [] s (by simp) (c20_order c) m (Or.inr hm)

def sampleCfg : Cfg :=
  { http := [{ proto := .http, addr := 1 }],
    clusters := [{ id := 3, tcp := false, fronts := [{ addr := 1, key := 4 }], backends := [{ addr := 5 }] }] }

/-- the order matters for this: an activation that comes before its listener is
    refused the first time and succeeds the second time -/
theorem c20_reload_needs_order :
    runMsgs (runMsgs {} [.activate .http 1, .addListener .http 1]) [.activate .http 1, .addListener .http 1]
      ≠ runMsgs {} [.activate .http 1, .addListener .http 1] := by decide

/-! ### a fresh instance accepts the list in full — only for files without the
    three hazards the loader does not check -/

/-- two clusters declare the same route (same address, hostname, path, method):
    the loader accepts the file, `dispatch` refuses the second `AddHttpFrontend` -/
def dupFrontWitness : Decl :=
  { clusters := [{ id := 1, tcp := false, fronts := [{ addr := 5, key := 7 }], backends := [] },
                 { id := 2, tcp := false, fronts := [{ addr := 5, key := 7 }], backends := [] }] }

theorem c20_accepted_in_full_counterexample_duplicate_frontend :
    ∃ c, build dupFrontWitness = .ok c ∧ rejected {} (contents c) = [.addFront false 2 7] := by
  exact ⟨_, rfl, by decide⟩

/-- a `[clusters.x.health_check]` block the state refuses -/
def badHcWitness : Decl :=
  { clusters := [{ id := 1, tcp := false, hcBad := true, fronts := [{ addr := 5, key := 7 }], backends := [{ addr := 9 }] }] }

/-- regression of finding F31 (repaired by d349d36): such a file is rejected at
    load time. Before, it loaded, `AddCluster` was refused by the state and the
    cluster's frontends and backends were added to a cluster that did not exist:
    that is what `dispatch` does with the list the old loader produced. -/
theorem c20_f31_regression :
    build badHcWitness = .error .invalidHealthCheck ∧
    rejected {} (clusterMsgs { id := 1, tcp := false, hcBad := true, fronts := [{ addr := 5, key := 7 }], backends := [{ addr := 9 }] })
      = [.addCluster 1 true] :=
  ⟨rfl, by decide⟩

/-- two backends of one cluster with the same `backend_id` and address: both
    messages are accepted, one backend is loaded -/
def dupBackendWitness : Decl :=
  { clusters := [{ id := 1, tcp := true, fronts := [], backends := [{ addr := 9, id := 4 }, { addr := 9, id := 4 }] }] }

theorem c20_declared_equals_loaded_counterexample_duplicate_backend :
    ∃ c, build dupBackendWitness = .ok c ∧ rejected {} (contents c) = [] ∧
      ((contents c).filterMap asBackend).length = 2 ∧ (runMsgs {} (contents c)).backends.length = 1 := by
  exact ⟨_, rfl, by decide⟩

/-! ### acceptance in full, under the hypotheses the loader does not establish -/

inductive RKey where
  | listener (p : Proto) (a : Nat)
  | front (https : Bool) (key : Nat)
  | tfront (udp : Bool) (c key : Nat)
  deriving DecidableEq

/-- the key under which `dispatch` can refuse an Add as "already exists" -/
def rejKey : Msg → Option RKey
  | .addListener p a => some (.listener p a)
  | .addFront h _ k => some (.front h k)
  | .addTcpFront u c k => some (.tfront u c k)
  | _ => none

def isBadCluster : Msg → Bool
  | .addCluster _ bad => bad
  | _ => false

/-- what is in the state came from a message already dispatched -/
structure Sound (seen : List Msg) (s : St) : Prop where
  listeners : ∀ p a, hasListener s p a = true → RKey.listener p a ∈ seen.filterMap rejKey
  fronts : ∀ h k, s.fronts.any (fun f => f.1 == h && f.2.1 == k) = true → RKey.front h k ∈ seen.filterMap rejKey
  tfronts : ∀ u c k, s.tfronts.contains (u, c, k) = true → RKey.tfront u c k ∈ seen.filterMap rejKey

theorem mem_keys_cons (m : Msg) (seen : List Msg) (k : RKey) (h : k ∈ seen.filterMap rejKey) :
    k ∈ (m :: seen).filterMap rejKey := by
  rw [List.filterMap_cons]; split
  · exact h
  · exact List.mem_cons_of_mem _ h

theorem mem_keys_head (m : Msg) (seen : List Msg) (k : RKey) (h : rejKey m = some k) :
    k ∈ (m :: seen).filterMap rejKey := by
  rw [List.filterMap_cons, h]; exact List.mem_cons_self

theorem sound_of_same {seen : List Msg} {s s' : St} (m : Msg) (h : Sound seen s)
    (hl : ∀ p a, hasListener s' p a = hasListener s p a) (hf : s'.fronts = s.fronts)
    (ht : s'.tfronts = s.tfronts) : Sound (m :: seen) s' :=
  ⟨fun p a hh => mem_keys_cons _ _ _ (h.listeners p a (by rw [← hl]; exact hh)),
   fun hh k hq => mem_keys_cons _ _ _ (h.fronts hh k (by rw [← hf]; exact hq)),
   fun u c k hq => mem_keys_cons _ _ _ (h.tfronts u c k (by rw [← ht]; exact hq))⟩

theorem sound_step (seen : List Msg) (s : St) (m : Msg) (h : Sound seen s) :
    Sound (m :: seen) (dispatch s m).1 := by
  cases m with
  | addListener p a =>
    simp only [dispatch]; split
    · exact sound_of_same _ h (fun _ _ => rfl) rfl rfl
    · refine ⟨?_, fun hh k hq => mem_keys_cons _ _ _ (h.fronts hh k hq),
        fun u c k hq => mem_keys_cons _ _ _ (h.tfronts u c k hq)⟩
      intro p' a' hh
      simp only [hasListener, List.any_append, Bool.or_eq_true] at hh
      rcases hh with hh | hh
      · exact mem_keys_cons _ _ _ (h.listeners p' a' hh)
      · apply mem_keys_head
        simp at hh
        simp [rejKey, hh.1, hh.2]
  | addFront hh0 c key =>
    simp only [dispatch]; split
    · exact sound_of_same _ h (fun _ _ => rfl) rfl rfl
    · refine ⟨fun p a hq => mem_keys_cons _ _ _ (h.listeners p a hq), ?_,
        fun u c k hq => mem_keys_cons _ _ _ (h.tfronts u c k hq)⟩
      intro h' k hh
      simp only [List.any_append, Bool.or_eq_true] at hh
      rcases hh with hh | hh
      · exact mem_keys_cons _ _ _ (h.fronts h' k hh)
      · apply mem_keys_head
        simp at hh
        simp [rejKey, hh.1, hh.2]
  | addTcpFront u0 c0 k0 =>
    simp only [dispatch]; split
    · exact sound_of_same _ h (fun _ _ => rfl) rfl rfl
    · refine ⟨fun p a hq => mem_keys_cons _ _ _ (h.listeners p a hq),
        fun hh k hq => mem_keys_cons _ _ _ (h.fronts hh k hq), ?_⟩
      intro u c k hh
      by_cases he : (u, c, k) = (u0, c0, k0)
      · apply mem_keys_head
        simp only [Prod.mk.injEq] at he
        simp [rejKey, he.1, he.2.1, he.2.2]
      · apply mem_keys_cons
        apply h.tfronts
        simp only [List.contains_eq_mem, List.mem_append, List.mem_singleton, decide_eq_true_eq] at hh ⊢
        rcases hh with hh | hh
        · exact hh
        · exact absurd hh he
  | activate p a =>
    simp only [dispatch]; split
    · exact sound_of_same _ h (fun p' a' => by simp only [hasListener]; rw [any_key_map]) rfl rfl
    · exact sound_of_same _ h (fun _ _ => rfl) rfl rfl
  | addCluster c b =>
    simp only [dispatch]
    split
    · exact sound_of_same _ h (fun _ _ => rfl) rfl rfl
    · split <;> exact sound_of_same _ h (fun _ _ => rfl) rfl rfl
  | addCert a k0 =>
    simp only [dispatch]
    split <;> exact sound_of_same _ h (fun _ _ => rfl) rfl rfl
  | addBackend c i a =>
    simp only [dispatch]
    split <;> exact sound_of_same _ h (fun _ _ => rfl) rfl rfl
  | metricsOff => exact sound_of_same _ h (fun _ _ => rfl) rfl rfl

theorem key_not_seen {seen ms : List Msg} {m0 : Msg} {k : RKey}
    (hn : (seen.filterMap rejKey ++ (m0 :: ms).filterMap rejKey).Nodup) (hk : rejKey m0 = some k) :
    k ∉ seen.filterMap rejKey := by
  intro hmem
  rw [List.filterMap_cons, hk] at hn
  have := (List.nodup_append.mp hn).2.2 k hmem k List.mem_cons_self
  exact this rfl

theorem nodup_shift {seen ms : List Msg} {m0 : Msg}
    (hn : (seen.filterMap rejKey ++ (m0 :: ms).filterMap rejKey).Nodup) :
    ((m0 :: seen).filterMap rejKey ++ ms.filterMap rejKey).Nodup := by
  rw [List.filterMap_cons] at hn ⊢
  cases hk : rejKey m0 with
  | none => simpa [hk] using hn
  | some k =>
    simp only [hk] at hn ⊢
    exact (List.perm_middle.nodup_iff).mp hn

theorem accepted_all : ∀ (ms seen : List Msg) (s : St),
    Sound seen s → (∀ m ∈ seen, absorbed s m) →
    (seen.filterMap rejKey ++ ms.filterMap rejKey).Nodup →
    (∀ m ∈ ms, isBadCluster m = false) → actsCovered seen ms = true →
    rejected s ms = [] := by
  intro ms
  induction ms with
  | nil => intros; rfl
  | cons m0 rest ih =>
    intro seen s hs habs hn hbad hcov
    simp only [actsCovered, Bool.and_eq_true] at hcov
    have hacc : (dispatch s m0).2 = true := by
      cases m0 with
      | addListener p a =>
        have hk := key_not_seen hn (k := .listener p a) rfl
        have : hasListener s p a = false := by
          cases hq : hasListener s p a with
          | false => rfl
          | true => exact absurd (hs.listeners p a hq) hk
        simp [dispatch, this]
      | addFront h c key =>
        have hk := key_not_seen hn (k := .front h key) rfl
        have : s.fronts.any (fun f => f.1 == h && f.2.1 == key) = false := by
          cases hq : s.fronts.any (fun f => f.1 == h && f.2.1 == key) with
          | false => rfl
          | true => exact absurd (hs.fronts h key hq) hk
        simp only [dispatch, this]; rfl
      | addTcpFront u c key =>
        have hk := key_not_seen hn (k := .tfront u c key) rfl
        have : s.tfronts.contains (u, c, key) = false := by
          cases hq : s.tfronts.contains (u, c, key) with
          | false => rfl
          | true => exact absurd (hs.tfronts u c key hq) hk
        simp only [dispatch, this]; rfl
      | addCluster c b =>
        have : b = false := by simpa [isBadCluster] using hbad (.addCluster c b) (by simp)
        subst this
        simp only [dispatch, Bool.false_eq_true, if_false]; split <;> rfl
      | activate p a =>
        have hmem : Msg.addListener p a ∈ seen := by simpa using hcov.1
        have : hasListener s p a = true := habs _ hmem
        simp [dispatch, this]
      | addCert a k => simp only [dispatch]; split <;> rfl
      | addBackend c i a => simp only [dispatch]; split <;> rfl
      | metricsOff => rfl
    have h0 : absorbed (dispatch s m0).1 m0 := by
      apply absorbed_after
      intro p a he
      subst he
      have : Msg.addListener p a ∈ seen := by simpa using hcov.1
      exact habs _ this
    have := ih (m0 :: seen) (dispatch s m0).1 (sound_step seen s m0 hs)
      (fun x hx => by
        rcases List.mem_cons.mp hx with rfl | hx
        · exact h0
        · exact absorbed_mono s x m0 (habs x hx))
      (nodup_shift hn) (fun m hm => hbad m (by simp [hm])) hcov.2
    simp [rejected, hacc, this]

/-- **A fresh instance accepts the whole list** — provided no two messages carry
    the same listener key, route key or tcp frontend, and no cluster carries a
    health check the state refuses. The loader establishes the last (see
    `c20_build_no_bad_cluster`) and unique listener addresses, but not unique
    route keys: see `c20_accepted_in_full_counterexample_duplicate_frontend`. -/
theorem c20_accepted_in_full_partial (c : Cfg)
    (hkeys : ((contents c).filterMap rejKey).Nodup)
    (hhc : ∀ m ∈ contents c, isBadCluster m = false) :
    rejected {} (contents c) = [] := by
  apply accepted_all (contents c) [] {} ⟨by simp [hasListener], by simp, by simp⟩ (by simp)
    (by simpa using hkeys) hhc (c20_order c)

/-! ### what the loader establishes -/

theorem push_clusters (c : Cfg) (l : Listener) : (c.push l).clusters = c.clusters := by
  unfold Cfg.push; split <;> rfl

theorem httpFronts_clusters (c : Cfg) (acc fs : List Front) (c' : Cfg) (fs' : List Front)
    (h : httpFronts c acc fs = .ok (c', fs')) : c'.clusters = c.clusters := by
  fun_induction httpFronts c acc fs <;> simp_all [push_clusters]

theorem tcpFronts_clusters (c : Cfg) (acc fs : List Front) (c' : Cfg) (fs' : List Front)
    (h : tcpFronts c acc fs = .ok (c', fs')) : c'.clusters = c.clusters := by
  fun_induction tcpFronts c acc fs <;> simp_all [push_clusters]

theorem addListeners_clusters (c : Cfg) (ls : List Listener) (c' : Cfg)
    (h : addListeners c ls = .ok c') : c'.clusters = c.clusters := by
  fun_induction addListeners c ls <;> simp_all [push_clusters]

theorem addClusters_noBad (c : Cfg) (ks : List Cluster) (c' : Cfg)
    (h : addClusters c ks = .ok c') (h0 : ∀ k ∈ c.clusters, k.hcBad = false) :
    ∀ k ∈ c'.clusters, k.hcBad = false := by
  induction ks generalizing c with
  | nil => simp [addClusters] at h; subst h; exact h0
  | cons k ks ih =>
    simp only [addClusters] at h
    split at h
    · cases h
    · next hb =>
      split at h
      · split at h
        · cases h
        · split at h
          · cases h
          · next c1 fs heq =>
            apply ih _ h
            intro x hx
            simp only [List.mem_append, List.mem_singleton] at hx
            rcases hx with hx | rfl
            · rw [tcpFronts_clusters _ _ _ _ _ heq] at hx; exact h0 x hx
            · simpa using hb
      · split at h
        · cases h
        · next c1 fs heq =>
          apply ih _ h
          intro x hx
          simp only [List.mem_append, List.mem_singleton] at hx
          rcases hx with hx | rfl
          · rw [httpFronts_clusters _ _ _ _ _ heq] at hx; exact h0 x hx
          · simpa using hb

/-- **The loader refuses health checks the state would refuse**: no `AddCluster`
    of an accepted file carries one. -/
theorem c20_build_no_bad_cluster (d : Decl) (c : Cfg) (h : build d = .ok c) :
    ∀ m ∈ contents c, isBadCluster m = false := by
  have hk : ∀ k ∈ c.clusters, k.hcBad = false := by
    unfold build at h
    split at h
    · cases h
    · next c0 h0 =>
      split at h
      · cases h
      · next c1 h1 =>
        split at h
        · cases h
        · cases h
          apply addClusters_noBad _ _ _ h1
          rw [addListeners_clusters _ _ _ h0]
          intro k hk; cases hk
  intro m hm
  cases m with
  | addCluster id bad =>
    simp only [isBadCluster]
    simp only [contents, List.mem_append, List.mem_flatMap] at hm
    rcases hm with ((hm | ⟨k, hkm, hm⟩) | hm) | hm
    · simp [listenerMsgs] at hm
    · simp only [clusterMsgs, List.mem_cons, List.mem_append, List.mem_flatMap] at hm
      rcases hm with hm | ⟨f, _, hm⟩ | hm
      · cases hm; exact hk k hkm
      · exfalso; unfold frontMsgs at hm; split at hm <;> (try split at hm) <;> simp at hm
      · exfalso
        have : ∀ (i : Nat) (bs : List Backend), Msg.addCluster id bad ∉ backendMsgs k i bs := by
          intro i bs
          induction bs generalizing i with
          | nil => simp [backendMsgs]
          | cons b bs ih => simp [backendMsgs, ih]
        exact this _ _ hm
    · split at hm <;> simp [activateMsgs] at hm
    · split at hm <;> simp at hm
  | _ => rfl

/-- acceptance in full for an accepted file: only the route-key hypothesis is left -/
theorem c20_accepted_in_full_of_build (d : Decl) (c : Cfg) (h : build d = .ok c)
    (hkeys : ((contents c).filterMap rejKey).Nodup) : rejected {} (contents c) = [] :=
  c20_accepted_in_full_partial c hkeys (c20_build_no_bad_cluster d c h)

theorem push_perm (c : Cfg) (l : Listener) : (c.push l).listeners.Perm (c.listeners ++ [l]) := by
  unfold Cfg.push Cfg.listeners
  split <;> simp only [List.append_assoc]
  · refine List.Perm.append_left _ ?_
    exact (List.perm_append_comm (l₁ := [l]) (l₂ := c.https ++ (c.tcp ++ c.udp))).trans (by simp)
  · refine List.Perm.append_left _ (List.Perm.append_left _ ?_)
    exact (List.perm_append_comm (l₁ := [l]) (l₂ := (c.tcp ++ c.udp))).trans (by simp)
  · refine List.Perm.append_left _ (List.Perm.append_left _ (List.Perm.append_left _ ?_))
    exact List.perm_append_comm
  · exact List.Perm.refl _

theorem push_https (c : Cfg) (l : Listener) :
    (c.push l).https = if l.proto = .https then c.https ++ [l] else c.https := by
  unfold Cfg.push; split <;> simp_all

/-- what `populate_listeners` / `populate_clusters` maintain about the listener vectors -/
structure LInv (c : Cfg) : Prop where
  nodup : (c.listeners.map (·.addr)).Nodup
  dh2 : ∀ l ∈ c.https, l.dflt = true → l.h2 = true

theorem known_none (c : Cfg) (a : Nat) (h : known c a = none) : a ∉ c.listeners.map (·.addr) := by
  unfold known at h
  rw [List.find?_eq_none] at h
  intro hm
  obtain ⟨l, hl, rfl⟩ := List.mem_map.mp hm
  exact h l hl (by simp)

theorem linv_push (c : Cfg) (l : Listener) (h : LInv c) (hk : known c l.addr = none)
    (hd : l.proto = .https → l.dflt = true → l.h2 = true) : LInv (c.push l) := by
  refine ⟨?_, ?_⟩
  · have hp := (push_perm c l).map (·.addr)
    rw [hp.nodup_iff]
    simp only [List.map_append, List.map_cons, List.map_nil]
    rw [List.nodup_append]
    refine ⟨h.nodup, by simp, ?_⟩
    intro a ha b hb
    simp at hb; subst hb
    intro e; subst e
    exact known_none c _ hk ha
  · intro x hx hdx
    rw [push_https] at hx
    split at hx
    · next hp =>
      rcases List.mem_append.mp hx with hx | hx
      · exact h.dh2 x hx hdx
      · simp at hx; subst hx; exact hd hp hdx
    · exact h.dh2 x hx hdx

theorem linv_clusters (c : Cfg) (ks : List Cluster) (h : LInv c) : LInv { c with clusters := ks } :=
  ⟨h.nodup, h.dh2⟩

theorem addListeners_linv (c : Cfg) (ls : List Listener) (c' : Cfg)
    (hl : ∀ l ∈ ls, l.dflt = true → l.h2 = true)
    (h : addListeners c ls = .ok c') (h0 : LInv c) : LInv c' := by
  induction ls generalizing c with
  | nil => simp [addListeners] at h; subst h; exact h0
  | cons l ls ih =>
    simp only [addListeners] at h
    split at h
    · cases h
    · next hk =>
      split at h
      · cases h
      · refine ih _ (fun x hx => hl x (by simp [hx])) h (linv_push c l h0 ?_ (fun _ => hl l (by simp)))
        cases hkn : known c l.addr with
        | none => rfl
        | some _ => simp [hkn] at hk

theorem httpFronts_linv (c : Cfg) (acc fs : List Front) (c' : Cfg) (fs' : List Front)
    (h : httpFronts c acc fs = .ok (c', fs')) (h0 : LInv c) : LInv c' := by
  fun_induction httpFronts c acc fs <;> simp_all
  all_goals (rename_i c0 acc0 f0 fs0 hk hcert ih; exact ih (linv_push _ _ h0 hk (by simp)))

theorem tcpFronts_linv (c : Cfg) (acc fs : List Front) (c' : Cfg) (fs' : List Front)
    (h : tcpFronts c acc fs = .ok (c', fs')) (h0 : LInv c) : LInv c' := by
  fun_induction tcpFronts c acc fs <;> simp_all
  all_goals (rename_i c0 acc0 f0 fs0 hk ih; exact ih (linv_push _ _ h0 hk (by simp)))

theorem addClusters_linv (c : Cfg) (ks : List Cluster) (c' : Cfg)
    (h : addClusters c ks = .ok c') (h0 : LInv c) : LInv c' := by
  induction ks generalizing c with
  | nil => simp [addClusters] at h; subst h; exact h0
  | cons k ks ih =>
    simp only [addClusters] at h
    split at h
    · cases h
    · split at h
      · split at h
        · cases h
        · split at h
          · cases h
          · next c1 fs heq => exact ih _ h (linv_clusters _ _ (tcpFronts_linv _ _ _ _ _ heq h0))
      · split at h
        · cases h
        · next c1 fs heq => exact ih _ h (linv_clusters _ _ (httpFronts_linv _ _ _ _ _ heq h0))

theorem build_linv (d : Decl) (c : Cfg) (h : build d = .ok c)
    (hd : ∀ l ∈ d.listeners, l.dflt = false) : LInv c := by
  unfold build at h
  split at h
  · cases h
  · next c0 h0 =>
    split at h
    · cases h
    · next c1 h1 =>
      split at h
      · cases h
      · cases h
        apply addClusters_linv _ _ _ h1
        apply addListeners_linv _ _ _ (fun l hl e => by simp [hd l hl] at e) h0
        exact ⟨by simp [Cfg.listeners], by intro l hl; cases hl⟩

theorem build_h2_rule (d : Decl) (c : Cfg) (h : build d = .ok c) :
    ¬ ((c.https.any (·.h2)) = true ∧ d.bufferSize < Consts.cfgH2MinBufferSize) := by
  unfold build at h
  split at h
  · cases h
  · split at h
    · cases h
    · split at h
      · cases h
      · next hc => cases h; simpa using hc

theorem h2_rule_implicit (d : Decl) (c : Cfg) (h : build d = .ok c)
    (hd : ∀ l ∈ d.listeners, l.dflt = false) (hs : d.bufferSize < Consts.cfgH2MinBufferSize) :
    ∀ l ∈ c.https, l.h2 = false ∧ l.dflt = false := by
  intro l hl
  have h1 : l.h2 = false := by
    cases hh : l.h2 with
    | false => rfl
    | true =>
      exfalso
      apply build_h2_rule d c h
      exact ⟨List.any_eq_true.mpr ⟨l, hl, hh⟩, hs⟩
  refine ⟨h1, ?_⟩
  cases hdl : l.dflt with
  | false => rfl
  | true => have := (build_linv d c h hd).dh2 l hl hdl; simp [h1] at this

/-! ### acceptance in full for accepted files without duplicate routes -/

/-- the key under which `dispatch` files a frontend of cluster `k` -/
def frontKey (k : Cluster) (f : Front) : RKey :=
  if k.tcp then .tfront f.udp k.id f.key else .front (decide (f.cert ≠ 0)) f.key

theorem frontMsgs_rejKey (k : Cluster) (fs : List Front) :
    (fs.flatMap (frontMsgs k)).filterMap rejKey = fs.map (frontKey k) := by
  induction fs with
  | nil => rfl
  | cons x xs ih =>
    simp only [List.flatMap_cons, List.filterMap_append, ih, List.map_cons]
    unfold frontMsgs frontKey
    split
    · next h => simp [rejKey, h, List.filterMap_cons]
    · next h =>
      split
      · next h2 => simp [rejKey, List.filterMap_cons, h, h2]
      · next h2 => simp [rejKey, List.filterMap_cons, h, h2]

theorem clusterMsgs_rejKey (k : Cluster) : (clusterMsgs k).filterMap rejKey = k.fronts.map (frontKey k) := by
  unfold clusterMsgs
  rw [List.filterMap_cons, List.filterMap_append, frontMsgs_rejKey,
    backendMsgs_other k rejKey (by intros; rfl)]
  simp [rejKey]

/-- the route keys an accepted file declares -/
def routeKeys (c : Cfg) : List RKey := c.clusters.flatMap fun k => k.fronts.map (frontKey k)

theorem contents_rejKey (c : Cfg) :
    (contents c).filterMap rejKey = (c.listeners.map fun l => RKey.listener l.proto l.addr) ++ routeKeys c := by
  simp only [contents, List.filterMap_append, filterMap_flatMap, clusterMsgs_rejKey, routeKeys]
  have h1 : (listenerMsgs c).filterMap rejKey = c.listeners.map fun l => RKey.listener l.proto l.addr := by
    simp [listenerMsgs, List.filterMap_map, rejKey, Function.comp_def]
  have h2 : (activateMsgs c).filterMap rejKey = [] := activateMsgs_none c rejKey (by intros; rfl)
  rw [h1]
  split <;> split <;> simp [h2, rejKey]

theorem nodup_map_of_nodup_map {α β γ : Type} (f : α → β) (g : α → γ) (l : List α)
    (h : ∀ x y, f x = f y → g x = g y) (hn : (l.map g).Nodup) : (l.map f).Nodup := by
  induction l with
  | nil => simp
  | cons x xs ih =>
    simp only [List.map_cons, List.nodup_cons, List.mem_map] at hn ⊢
    refine ⟨?_, ih hn.2⟩
    rintro ⟨y, hy, e⟩
    exact hn.1 ⟨y, hy, h y x e⟩

theorem routeKeys_not_listener (c : Cfg) : ∀ k ∈ routeKeys c, ∀ p a, k ≠ RKey.listener p a := by
  intro k hk p a
  simp only [routeKeys, List.mem_flatMap, List.mem_map] at hk
  obtain ⟨cl, _, f, _, rfl⟩ := hk
  unfold frontKey; split <;> simp

theorem accepted_in_full (d : Decl) (c : Cfg) (h : build d = .ok c)
    (hd : ∀ l ∈ d.listeners, l.dflt = false) (hr : (routeKeys c).Nodup) :
    rejected {} (contents c) = [] := by
  apply c20_accepted_in_full_of_build d c h
  rw [contents_rejKey, List.nodup_append]
  refine ⟨?_, hr, ?_⟩
  · exact nodup_map_of_nodup_map _ (·.addr) _ (by intro x y e; injection e) (build_linv d c h hd).nodup
  · intro a ha b hb e
    obtain ⟨l, _, rfl⟩ := List.mem_map.mp ha
    exact routeKeys_not_listener c b hb _ _ e.symm



/-- one HTTP cluster with a certificate-bearing frontend on an address nobody
    declared a listener for -/
def implicitHttpsDecl (buffer : Nat) : Decl :=
  { bufferSize := buffer,
    clusters := [{ id := 1, tcp := false, fronts := [{ addr := 5, key := 7, cert := 3 }], backends := [] }] }

/-- a declared HTTP listener, one frontend on it and one certificate-bearing
    frontend on an undeclared address -/
def mixedDecl : Decl :=
  { listeners := [{ proto := .http, addr := 1 }],
    clusters := [{ id := 3, tcp := false, fronts := [{ addr := 1, key := 4 }, { addr := 2, key := 5, cert := 9 }],
                   backends := [{ addr := 5 }] }] }


/-- one machine declared once per address family: two backends of one cluster
    share the `backend_id` 7 (identity is (backend_id, address)) -/
def sharedBackendIdCfg : Cfg :=
  { http := [{ proto := .http, addr := 1 }],
    clusters := [{ id := 3, tcp := false, fronts := [{ addr := 1, key := 4 }],
                   backends := [{ addr := 40, id := 7 }, { addr := 60, id := 7 }, { addr := 41 }] }] }


/-- load the file `n` times over a state -/
def reloadN (c : Cfg) : Nat → St → St
  | 0, s => s
  | n + 1, s => reloadN c n (runMsgs s (contents c))

theorem c20_reload_any_number_of_times (c : Cfg) (n : Nat) : ∀ s : St,
    reloadN c (n + 1) s = runMsgs s (contents c) := by
  induction n with
  | zero => intro s; rfl
  | succ n ih =>
    intro s
    show reloadN c (n + 1) (runMsgs s (contents c)) = runMsgs s (contents c)
    rw [ih, c20_reload_idempotent]

end Sozu.Config
