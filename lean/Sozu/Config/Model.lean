import Sozu.Generated.Consts
/-
Config — structural model of `command/src/config.rs`:
  declared content (`FileConfig`: [[listeners]], [clusters.*] with frontends and
  backends)  --build-->  `Config` (listener vectors incl. the default listeners
  created for frontends without one, protocol pairing, H2 buffer rule)
  --messages-->  the `WorkerRequest` list of `generate_config_messages` (order
  and ids, id counter as written: a fixed-width unsigned integer)
  --dispatch-->  a minimal model of what `ConfigState::dispatch` does with those
  messages (objects keyed as the code keys them).

Names (addresses, hostnames, cluster ids, frontend keys, certificates) are
opaque naturals: the driver interns the strings. TOML parsing, file reading and
the field-by-field defaulting of `ConfigBuilder` are not modelled. The iteration
order of the two `HashMap<String, _>` of clusters is a parameter: `build` and
`messages` take the clusters in the order given.
-/
namespace Sozu.Config
open Sozu

inductive Proto where
  | http | https | tcp | udp
  deriving DecidableEq, Repr

/-- a `[[listeners]]` entry (or a default listener created by the builder) -/
structure Listener where
  proto : Proto
  addr : Nat
  /-- https: the ALPN list contains "h2" (it does by default) -/
  h2 : Bool := false
  /-- https: listener-level certificate and key (0 = none) -/
  cert : Nat := 0
  expectProxy : Bool := false
  publicAddr : Bool := false
  /-- created by `populate_clusters` for a frontend without listener -/
  dflt : Bool := false
  deriving DecidableEq, Repr

/-- an entry of `frontends = [...]` -/
structure Front where
  addr : Nat
  /-- `RequestHttpFrontend::to_string()`: address;hostname;kind+path[;method]
      (http clusters) or address+tags (tcp clusters), interned -/
  key : Nat
  /-- certificate+key pair given on the frontend (0 = none) -/
  cert : Nat := 0
  /-- tcp cluster frontend resolved to a `protocol = "udp"` listener -/
  udp : Bool := false
  deriving DecidableEq, Repr

structure Backend where
  addr : Nat
  /-- explicit `backend_id` (0 = none: `{cluster}-{index}-{address}`) -/
  id : Nat := 0
  deriving DecidableEq, Repr

structure Cluster where
  id : Nat
  tcp : Bool
  fronts : List Front
  backends : List Backend
  /-- a `[clusters.<id>.health_check]` block that `validate_health_check_config`
      refuses (`to_cluster_config` and `ConfigState::add_cluster` both call it) -/
  hcBad : Bool := false
  deriving DecidableEq, Repr

/-- what the file declares (after TOML parsing) -/
structure Decl where
  listeners : List Listener := []
  clusters : List Cluster := []
  bufferSize : Nat := 16393
  activate : Bool := true
  metricsOff : Bool := false
  deriving DecidableEq, Repr

/-- `Config` as far as `generate_config_messages` reads it -/
structure Cfg where
  http : List Listener := []
  https : List Listener := []
  tcp : List Listener := []
  udp : List Listener := []
  clusters : List Cluster := []
  activate : Bool := true
  metricsOff : Bool := false
  deriving DecidableEq, Repr

inductive LoadErr where
  | addressInUse          -- ListenerAddressAlreadyInUse
  | publicAddrExpectProxy -- Incompatible{PublicAddress}
  | wrongFrontendProtocol -- WrongFrontendProtocol(_)
  | proxyProtocolMix      -- Incompatible{ProxyProtocol}
  | bufferTooSmallForH2   -- BufferSizeTooSmallForH2
  | invalidHealthCheck    -- InvalidHealthCheck (validate_health_check_config at load)
  deriving DecidableEq, Repr

def Cfg.listeners (c : Cfg) : List Listener := c.http ++ c.https ++ c.tcp ++ c.udp

def Cfg.push (c : Cfg) (l : Listener) : Cfg :=
  match l.proto with
  | .http => { c with http := c.http ++ [l] }
  | .https => { c with https := c.https ++ [l] }
  | .tcp => { c with tcp := c.tcp ++ [l] }
  | .udp => { c with udp := c.udp ++ [l] }

/-- `known_addresses.get(addr)` -/
def known (c : Cfg) (a : Nat) : Option Listener := c.listeners.find? (·.addr == a)

/-- `FileConfig::load_from_path` + `populate_listeners` -/
def addListeners : Cfg → List Listener → Except LoadErr Cfg
  | c, [] => .ok c
  | c, l :: ls =>
    if (known c l.addr).isSome then .error .addressInUse
    else if l.publicAddr && l.expectProxy then .error .publicAddrExpectProxy
    else addListeners (c.push l) ls

/-- the frontend loop of `populate_clusters` for an HTTP cluster; returns the
    configuration (with default listeners) and the frontends (certificates
    inherited from the listener) -/
def httpFronts : Cfg → List Front → List Front → Except LoadErr (Cfg × List Front)
  | c, acc, [] => .ok (c, acc.reverse)
  | c, acc, f :: fs =>
    match known c f.addr with
    | some l =>
      match l.proto with
      | .tcp => .error .wrongFrontendProtocol
      | .udp => .error .wrongFrontendProtocol
      | .http => if f.cert ≠ 0 then .error .wrongFrontendProtocol else httpFronts c (f :: acc) fs
      | .https =>
        if f.cert ≠ 0 then httpFronts c (f :: acc) fs
        else if l.cert ≠ 0 then httpFronts c ({ f with cert := l.cert } :: acc) fs
        else .error .wrongFrontendProtocol
    | none =>
      if f.cert ≠ 0 then
        httpFronts (c.push { proto := .https, addr := f.addr, h2 := true, dflt := true }) (f :: acc) fs
      else
        httpFronts (c.push { proto := .http, addr := f.addr, dflt := true }) (f :: acc) fs

/-- the frontend loop of `populate_clusters` for a TCP cluster -/
def tcpFronts : Cfg → List Front → List Front → Except LoadErr (Cfg × List Front)
  | c, acc, [] => .ok (c, acc.reverse)
  | c, acc, f :: fs =>
    match known c f.addr with
    | some l =>
      match l.proto with
      | .http => .error .wrongFrontendProtocol
      | .https => .error .wrongFrontendProtocol
      | .udp => tcpFronts c ({ f with udp := true } :: acc) fs
      | .tcp => tcpFronts c (f :: acc) fs
    | none => tcpFronts (c.push { proto := .tcp, addr := f.addr, dflt := true }) (f :: acc) fs

/-- `to_cluster_config` (TCP): all frontends on expect_proxy listeners or none -/
def proxyMixOk (c : Cfg) (fs : List Front) : Bool :=
  let ep := fun (f : Front) => (c.listeners.any fun l => l.addr == f.addr && l.expectProxy)
  fs.all ep || fs.all (fun f => !ep f)

def addClusters : Cfg → List Cluster → Except LoadErr Cfg
  | c, [] => .ok c
  | c, k :: ks =>
    if k.hcBad then .error .invalidHealthCheck
    else if k.tcp then
      if !proxyMixOk c k.fronts then .error .proxyProtocolMix else
      match tcpFronts c [] k.fronts with
      | .error e => .error e
      | .ok (c', fs) => addClusters { c' with clusters := c'.clusters ++ [{ k with fronts := fs }] } ks
    else
      match httpFronts c [] k.fronts with
      | .error e => .error e
      | .ok (c', fs) => addClusters { c' with clusters := c'.clusters ++ [{ k with fronts := fs }] } ks

/-- `ConfigBuilder::into_config` -/
def build (d : Decl) : Except LoadErr Cfg :=
  match addListeners { activate := d.activate, metricsOff := d.metricsOff } d.listeners with
  | .error e => .error e
  | .ok c =>
    match addClusters c d.clusters with
    | .error e => .error e
    | .ok c' =>
      if (c'.https.any (·.h2)) && d.bufferSize < Consts.cfgH2MinBufferSize then .error .bufferTooSmallForH2
      else .ok c'

/-! ### messages -/

inductive BackendId where
  | explicit (n : Nat)
  | dflt (cluster index addr : Nat)
  deriving DecidableEq, Repr

inductive Msg where
  | addListener (p : Proto) (addr : Nat)
  | addCluster (c : Nat) (hcBad : Bool)
  | addCert (addr cert : Nat)
  | addFront (https : Bool) (c key : Nat)
  | addTcpFront (udp : Bool) (c key : Nat)
  | addBackend (c : Nat) (id : BackendId) (addr : Nat)
  | activate (p : Proto) (addr : Nat)
  | metricsOff
  deriving DecidableEq, Repr

def frontMsgs (k : Cluster) (f : Front) : List Msg :=
  if k.tcp then [.addTcpFront f.udp k.id f.key]
  else if f.cert ≠ 0 then [.addCert f.addr f.cert, .addFront true k.id f.key]
  else [.addFront false k.id f.key]

def backendMsgs (k : Cluster) : Nat → List Backend → List Msg
  | _, [] => []
  | i, b :: bs =>
    .addBackend k.id (if b.id ≠ 0 then .explicit b.id else .dflt k.id i b.addr) b.addr
      :: backendMsgs k (i + 1) bs

/-- `ClusterConfig::generate_requests` -/
def clusterMsgs (k : Cluster) : List Msg :=
  .addCluster k.id k.hcBad :: (k.fronts.flatMap (frontMsgs k) ++ backendMsgs k 0 k.backends)

def listenerMsgs (c : Cfg) : List Msg := c.listeners.map fun l => .addListener l.proto l.addr
def activateMsgs (c : Cfg) : List Msg := c.listeners.map fun l => .activate l.proto l.addr

/-- the contents of `generate_config_messages`, in order -/
def contents (c : Cfg) : List Msg :=
  listenerMsgs c ++ c.clusters.flatMap clusterMsgs ++
    (if c.activate then activateMsgs c else []) ++ (if c.metricsOff then [.metricsOff] else [])

/-- the id counter: `let mut count = 0u8; … count += 1` wraps (release build) -/
def counterMod : Nat := 2 ^ Consts.cfgMsgCounterBits

def ids (n : Nat) : List Nat := (List.range n).map (· % counterMod)

/-- `generate_config_messages`: ("CONFIG-{id}", content) -/
def messages (c : Cfg) : List (Nat × Msg) := (ids (contents c).length).zip (contents c)

/-! ### what `ConfigState::dispatch` does with those messages -/

structure St where
  /-- the four listener maps: (protocol, address, active) -/
  listeners : List (Proto × Nat × Bool) := []
  clusters : List Nat := []
  /-- http_fronts / https_fronts, keyed by the route key: (https, key, cluster) -/
  fronts : List (Bool × Nat × Nat) := []
  /-- tcp_fronts / udp_fronts buckets: (udp, cluster, key) -/
  tfronts : List (Bool × Nat × Nat) := []
  /-- backend buckets (kept sorted by the code; a set here): (cluster, id, addr) -/
  backends : List (Nat × BackendId × Nat) := []
  /-- certificates: (address, fingerprint) -/
  certs : List (Nat × Nat) := []
  deriving DecidableEq, Repr

def hasListener (s : St) (p : Proto) (a : Nat) : Bool :=
  s.listeners.any fun l => l.1 == p && l.2.1 == a

/-- returns the new state and whether the request was accepted -/
def dispatch (s : St) : Msg → St × Bool
  | .addListener p a =>
    if hasListener s p a then (s, false) else ({ s with listeners := s.listeners ++ [(p, a, false)] }, true)
  | .addCluster c bad =>
    if bad then (s, false)
    else if s.clusters.contains c then (s, true) else ({ s with clusters := s.clusters ++ [c] }, true)
  | .addCert a k =>
    if s.certs.contains (a, k) then (s, true) else ({ s with certs := s.certs ++ [(a, k)] }, true)
  | .addFront h c key =>
    if s.fronts.any (fun f => f.1 == h && f.2.1 == key) then (s, false)
    else ({ s with fronts := s.fronts ++ [(h, key, c)] }, true)
  | .addTcpFront u c key =>
    if s.tfronts.contains (u, c, key) then (s, false)
    else ({ s with tfronts := s.tfronts ++ [(u, c, key)] }, true)
  | .addBackend c id a =>
    if s.backends.contains (c, id, a) then (s, true)
    else ({ s with backends := s.backends ++ [(c, id, a)] }, true)
  | .activate p a =>
    if hasListener s p a then
      ({ s with listeners := s.listeners.map fun l => if l.1 == p && l.2.1 == a then (l.1, l.2.1, true) else l }, true)
    else (s, false)
  | .metricsOff => (s, true)

def runMsgs (s : St) (ms : List Msg) : St := ms.foldl (fun s m => (dispatch s m).1) s

/-- the messages `dispatch` refused, in order -/
def rejected : St → List Msg → List Msg
  | _, [] => []
  | s, m :: ms => (if (dispatch s m).2 then [] else [m]) ++ rejected (dispatch s m).1 ms

end Sozu.Config
