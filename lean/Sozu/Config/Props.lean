import Sozu.Config.Lemmas
/-
C20 — property statements for the configuration loader model. Only `C20_*`
statements and non-vacuity examples; every proof is in Lemmas.lean (`c20_x`
proves `C20_x`).
-/
set_option linter.unusedSimpArgs false
namespace Sozu.Config
open Sozu
/-- **Message ids are unique** for every list shorter than the range of the
    counter — with the counter in the source that is 2^64 messages, more than a
    process can hold. -/
theorem C20_ids_unique (c : Cfg) (h : (contents c).length ≤ 2 ^ 64) :
    ((messages c).map (·.1)).Nodup := by
  first | exact c20_ids_unique | (apply c20_ids_unique <;> assumption)

example : ∃ c : Cfg, (contents c).length = 5 ∧ (contents c).length ≤ 2 ^ 64 :=
  ⟨{ tcp := [{ proto := .tcp, addr := 1 }],
     clusters := [{ id := 2, tcp := true, fronts := [{ addr := 1, key := 3 }], backends := [{ addr := 4 }] }] },
   by decide⟩

/-- regression of finding F19: this accepted file has 257 messages; with the
    8-bit counter the code had, `CONFIG-0` was used twice (a build with overflow
    checks panicked instead); with the counter it has now the ids are distinct -/
theorem C20_f19_regression :
    ∃ c, build f19Witness = .ok c ∧ (contents c).length = 257 ∧
      ¬ ((List.range 257).map (· % 2 ^ 8)).Nodup ∧ ((messages c).map (·.1)).Nodup := by
  first | exact c20_f19_regression | (apply c20_f19_regression <;> assumption)

/-- **Declared = loaded, at the level of the command list.** For every
    configuration and every iteration order of its clusters, the generated list
    contains exactly one `Add…Listener` per listener (in vector order), one
    `AddCluster` per cluster, one frontend message per declared frontend, one
    `AddBackend` per declared backend — nothing duplicated, nothing dropped —
    and one `ActivateListener` per listener iff `activate_listeners`. -/
theorem C20_declared_equals_loaded (c : Cfg) :
    (contents c).filterMap asListener = c.listeners.map (fun l => (l.proto, l.addr)) ∧
    (contents c).filterMap asCluster = c.clusters.map (·.id) ∧
    (contents c).filterMap asFront = c.clusters.flatMap declaredFronts ∧
    (contents c).filterMap asBackend = c.clusters.flatMap (fun k => k.backends.map fun b => (k.id, b.addr)) ∧
    (contents c).filterMap asActivate =
      (if c.activate then c.listeners.map (fun l => (l.proto, l.addr)) else []) := by
  first | exact c20_declared_equals_loaded | (apply c20_declared_equals_loaded <;> assumption)

example : ∃ c : Cfg, c.listeners.length = 2 ∧ c.clusters.length = 1 ∧ c.activate = true :=
  ⟨{ http := [{ proto := .http, addr := 1 }], tcp := [{ proto := .tcp, addr := 2 }],
     clusters := [{ id := 3, tcp := false, fronts := [{ addr := 1, key := 4 }], backends := [{ addr := 5 }] }] },
   by decide⟩

/-- **Order.** In the generated list every listener is added before anything
    refers to it: all `Add…Listener` come first, and each `ActivateListener` is
    preceded by the `Add…Listener` of the same protocol and address (so a fresh
    instance never answers "not found" to an activation). -/
theorem C20_order (c : Cfg) : actsCovered [] (contents c) = true := by
  first | exact c20_order | (apply c20_order <;> assumption)

/-- **Reload is idempotent.** Applying the command list of a configuration a
    second time over the state it produced (from any starting state, in
    particular a fresh one) leaves that state unchanged: the second pass only
    meets "already exists" / upsert-with-equal-value / already-active. -/
theorem C20_reload_idempotent (c : Cfg) (s : St) :
    runMsgs (runMsgs s (contents c)) (contents c) = runMsgs s (contents c) := by
  first | exact c20_reload_idempotent | (apply c20_reload_idempotent <;> assumption)

example : runMsgs {} (contents sampleCfg) ≠ ({} : St) := by decide

/-- **Reloading any number of times is loading once**: the command list of a
    configuration dispatched `n + 1` times over any state gives the state of the
    first pass (what `load_static_config` does on every reload). -/
theorem C20_reload_any_number_of_times (c : Cfg) (n : Nat) (s : St) :
    reloadN c (n + 1) s = runMsgs s (contents c) :=
  c20_reload_any_number_of_times c n s

/-- backends sharing a `backend_id` across addresses: the first load holds all
    three, the reload (once, twice) leaves exactly that state -/
example :
    (runMsgs {} (contents sharedBackendIdCfg)).backends =
      [(3, .explicit 7, 40), (3, .explicit 7, 60), (3, .dflt 3 2 41, 41)] ∧
    runMsgs (runMsgs {} (contents sharedBackendIdCfg)) (contents sharedBackendIdCfg)
      = runMsgs {} (contents sharedBackendIdCfg) ∧
    runMsgs (runMsgs (runMsgs {} (contents sharedBackendIdCfg)) (contents sharedBackendIdCfg))
        (contents sharedBackendIdCfg) = runMsgs {} (contents sharedBackendIdCfg) := by decide

/-- the order matters for this: an activation that comes before its listener is
    refused the first time and succeeds the second time -/
theorem C20_reload_needs_order :
    runMsgs (runMsgs {} [.activate .http 1, .addListener .http 1]) [.activate .http 1, .addListener .http 1]
      ≠ runMsgs {} [.activate .http 1, .addListener .http 1] := by
  first | exact c20_reload_needs_order | (apply c20_reload_needs_order <;> assumption)

theorem C20_accepted_in_full_counterexample_duplicate_frontend :
    ∃ c, build dupFrontWitness = .ok c ∧ rejected {} (contents c) = [.addFront false 2 7] := by
  first | exact c20_accepted_in_full_counterexample_duplicate_frontend | (apply c20_accepted_in_full_counterexample_duplicate_frontend <;> assumption)

/-- regression of finding F31 (repaired by d349d36): such a file is rejected at
    load time. Before, it loaded, `AddCluster` was refused by the state and the
    cluster's frontends and backends were added to a cluster that did not exist:
    that is what `dispatch` does with the list the old loader produced. -/
theorem C20_f31_regression :
    build badHcWitness = .error .invalidHealthCheck ∧
    rejected {} (clusterMsgs { id := 1, tcp := false, hcBad := true, fronts := [{ addr := 5, key := 7 }], backends := [{ addr := 9 }] })
      = [.addCluster 1 true] := by
  first | exact c20_f31_regression | (apply c20_f31_regression <;> assumption)

theorem C20_declared_equals_loaded_counterexample_duplicate_backend :
    ∃ c, build dupBackendWitness = .ok c ∧ rejected {} (contents c) = [] ∧
      ((contents c).filterMap asBackend).length = 2 ∧ (runMsgs {} (contents c)).backends.length = 1 := by
  first | exact c20_declared_equals_loaded_counterexample_duplicate_backend | (apply c20_declared_equals_loaded_counterexample_duplicate_backend <;> assumption)

/-- **A fresh instance accepts the whole list** — provided no two messages carry
    the same listener key, route key or tcp frontend, and no cluster carries a
    health check the state refuses. The loader establishes the last (see
    `C20_build_no_bad_cluster`) and unique listener addresses, but not unique
    route keys: see `C20_accepted_in_full_counterexample_duplicate_frontend`. -/
theorem C20_accepted_in_full_partial (c : Cfg)
    (hkeys : ((contents c).filterMap rejKey).Nodup)
    (hhc : ∀ m ∈ contents c, isBadCluster m = false) :
    rejected {} (contents c) = [] := by
  first | exact c20_accepted_in_full_partial | (apply c20_accepted_in_full_partial <;> assumption)

example : ((contents sampleCfg).filterMap rejKey).Nodup ∧ ∀ m ∈ contents sampleCfg, isBadCluster m = false := by
  decide

/-- **The loader refuses health checks the state would refuse**: no `AddCluster`
    of an accepted file carries one. -/
theorem C20_build_no_bad_cluster (d : Decl) (c : Cfg) (h : build d = .ok c) :
    ∀ m ∈ contents c, isBadCluster m = false := by
  first | exact c20_build_no_bad_cluster | (apply c20_build_no_bad_cluster <;> assumption)

/-- acceptance in full for an accepted file: only the route-key hypothesis is left -/
theorem C20_accepted_in_full_of_build (d : Decl) (c : Cfg) (h : build d = .ok c)
    (hkeys : ((contents c).filterMap rejKey).Nodup) : rejected {} (contents c) = [] := by
  first | exact c20_accepted_in_full_of_build | (apply c20_accepted_in_full_of_build <;> assumption)


/-- **The loader keeps listener addresses unique and marks what it invented.**
    In an accepted file no two listeners (declared, or created for a frontend
    without listener) share an address, and every HTTPS listener the loader
    created itself advertises h2 (the default ALPN list). -/
theorem C20_build_listener_invariant (d : Decl) (c : Cfg) (h : build d = .ok c)
    (hd : ∀ l ∈ d.listeners, l.dflt = false) :
    (c.listeners.map (·.addr)).Nodup ∧ ∀ l ∈ c.https, l.dflt = true → l.h2 = true :=
  ⟨(build_linv d c h hd).nodup, (build_linv d c h hd).dh2⟩

/-- **The HTTP/2 buffer rule covers implicit listeners.** A file accepted with
    `buffer_size` below `H2_MIN_BUFFER_SIZE` has no HTTPS listener advertising
    h2 — and, because the listeners the loader creates for certificate-bearing
    frontends without listener do advertise it, no implicit HTTPS listener at all. -/
theorem C20_h2_buffer_rule_covers_implicit_listeners (d : Decl) (c : Cfg) (h : build d = .ok c)
    (hd : ∀ l ∈ d.listeners, l.dflt = false) (hs : d.bufferSize < Consts.cfgH2MinBufferSize) :
    ∀ l ∈ c.https, l.h2 = false ∧ l.dflt = false :=
  h2_rule_implicit d c h hd hs

/-- a certificate-bearing frontend on an address without listener, buffer one
    byte short: rejected; with the documented minimum: accepted, with one
    implicit HTTPS listener -/
example :
    (match build (implicitHttpsDecl (Consts.cfgH2MinBufferSize - 1)) with
     | .error .bufferTooSmallForH2 => true | _ => false) = true ∧
    (match build (implicitHttpsDecl Consts.cfgH2MinBufferSize) with
     | .ok c => c.https.length == 1 | _ => false) = true := by decide

/-- **A fresh instance accepts every command of an accepted file** whose
    clusters do not declare the same route twice (`routeKeys`: address;hostname;
    path;method per HTTP/HTTPS map, address+tags per TCP cluster). The open
    duplicate-route finding is exactly the excluded case
    (`C20_accepted_in_full_counterexample_duplicate_frontend`); nothing else is
    assumed: unique listeners, valid health checks and the order of the list are
    established by the loader. -/
theorem C20_accepted_in_full (d : Decl) (c : Cfg) (h : build d = .ok c)
    (hd : ∀ l ∈ d.listeners, l.dflt = false) (hr : (routeKeys c).Nodup) :
    rejected {} (contents c) = [] :=
  accepted_in_full d c h hd hr

example : ∃ c, build mixedDecl = .ok c ∧ (routeKeys c).Nodup ∧ c.https.length = 1 := ⟨_, rfl, by decide⟩

end Sozu.Config
