import Sozu.Config.Model
/-
C20 — property theorems for the configuration loader model: message ids,
"one Add per declared object", order, and idempotence of re-applying the list.
Only `C20_*` statements, the lemmas they need and non-vacuity examples.
-/
set_option linter.unusedSimpArgs false
namespace Sozu.Config
open Sozu

/-! ### ids -/

theorem ids_eq_range (n : Nat) (h : n ≤ counterMod) : ids n = List.range n := by
  unfold ids
  have : ∀ i ∈ List.range n, i % counterMod = id i := by
    intro i hi
    have := List.mem_range.mp hi
    exact Nat.mod_eq_of_lt (by omega)
  rw [List.map_congr_left this, List.map_id]

theorem messages_ids (c : Cfg) : (messages c).map (·.1) = ids (contents c).length := by
  unfold messages
  rw [List.map_fst_zip]
  simp [ids]

/-- **Message ids are unique — as long as the counter does not wrap.** With the
    counter as written (`u8`) that is: at most 256 messages. -/
theorem C20_ids_unique_partial (c : Cfg) (h : (contents c).length ≤ counterMod) :
    ((messages c).map (·.1)).Nodup := by
  rw [messages_ids, ids_eq_range _ h]
  exact List.nodup_range

example : ∃ c : Cfg, (contents c).length = 5 ∧ (contents c).length ≤ counterMod :=
  ⟨{ tcp := [{ proto := .tcp, addr := 1 }],
     clusters := [{ id := 2, tcp := true, fronts := [{ addr := 1, key := 3 }], backends := [{ addr := 4 }] }] },
   by decide⟩

/-- one tcp cluster with one frontend (no listener declared) and 253 backends:
    1 listener + 1 cluster + 1 frontend + 253 backends + 1 activation = 257 messages -/
def f19Witness : Decl :=
  { clusters := [{ id := 1, tcp := true, fronts := [{ addr := 2, key := 3 }],
                   backends := (List.range 253).map fun i => { addr := 10 + i } }] }

/-- **The excluded point (F19).** A file the loader accepts whose message list
    has 257 entries: `CONFIG-0` is used twice. (With overflow checks the real
    code panics at `count += 1` instead.) A repair that widens the counter makes
    this theorem fail to compile — the signal to drop the hypothesis above. -/
theorem C20_ids_unique_counterexample :
    ∃ c, build f19Witness = .ok c ∧ (contents c).length = 257 ∧ ¬ ((messages c).map (·.1)).Nodup := by
  refine ⟨_, rfl, ?_, ?_⟩ <;> decide +kernel

/-! ### one Add per declared object, nothing else -/

def asListener : Msg → Option (Proto × Nat)
  | .addListener p a => some (p, a)
  | _ => none
def asActivate : Msg → Option (Proto × Nat)
  | .activate p a => some (p, a)
  | _ => none
def asCluster : Msg → Option Nat
  | .addCluster c _ => some c
  | _ => none
/-- (cluster, key, https / udp flag) of a frontend message -/
def asFront : Msg → Option (Nat × Nat × Bool)
  | .addFront h c k => some (c, k, h)
  | .addTcpFront u c k => some (c, k, u)
  | _ => none
def asBackend : Msg → Option (Nat × Nat)
  | .addBackend c _ a => some (c, a)
  | _ => none

@[simp] theorem asListener_addListener {p : _} {a : _} : asListener (.addListener p a) = some (p, a) := rfl
@[simp] theorem asListener_addCluster {c : _} {b : _} : asListener (.addCluster c b) = none := rfl
@[simp] theorem asListener_addCert {a : _} {k : _} : asListener (.addCert a k) = none := rfl
@[simp] theorem asListener_addFront {h : _} {c : _} {k : _} : asListener (.addFront h c k) = none := rfl
@[simp] theorem asListener_addTcpFront {u : _} {c : _} {k : _} : asListener (.addTcpFront u c k) = none := rfl
@[simp] theorem asListener_addBackend {c : _} {i : _} {a : _} : asListener (.addBackend c i a) = none := rfl
@[simp] theorem asListener_activate {p : _} {a : _} : asListener (.activate p a) = none := rfl
@[simp] theorem asListener_metricsOff  : asListener (.metricsOff ) = none := rfl
@[simp] theorem asActivate_addListener {p : _} {a : _} : asActivate (.addListener p a) = none := rfl
@[simp] theorem asActivate_addCluster {c : _} {b : _} : asActivate (.addCluster c b) = none := rfl
@[simp] theorem asActivate_addCert {a : _} {k : _} : asActivate (.addCert a k) = none := rfl
@[simp] theorem asActivate_addFront {h : _} {c : _} {k : _} : asActivate (.addFront h c k) = none := rfl
@[simp] theorem asActivate_addTcpFront {u : _} {c : _} {k : _} : asActivate (.addTcpFront u c k) = none := rfl
@[simp] theorem asActivate_addBackend {c : _} {i : _} {a : _} : asActivate (.addBackend c i a) = none := rfl
@[simp] theorem asActivate_activate {p : _} {a : _} : asActivate (.activate p a) = some (p, a) := rfl
@[simp] theorem asActivate_metricsOff  : asActivate (.metricsOff ) = none := rfl
@[simp] theorem asCluster_addListener {p : _} {a : _} : asCluster (.addListener p a) = none := rfl
@[simp] theorem asCluster_addCluster {c : _} {b : _} : asCluster (.addCluster c b) = some c := rfl
@[simp] theorem asCluster_addCert {a : _} {k : _} : asCluster (.addCert a k) = none := rfl
@[simp] theorem asCluster_addFront {h : _} {c : _} {k : _} : asCluster (.addFront h c k) = none := rfl
@[simp] theorem asCluster_addTcpFront {u : _} {c : _} {k : _} : asCluster (.addTcpFront u c k) = none := rfl
@[simp] theorem asCluster_addBackend {c : _} {i : _} {a : _} : asCluster (.addBackend c i a) = none := rfl
@[simp] theorem asCluster_activate {p : _} {a : _} : asCluster (.activate p a) = none := rfl
@[simp] theorem asCluster_metricsOff  : asCluster (.metricsOff ) = none := rfl
@[simp] theorem asFront_addListener {p : _} {a : _} : asFront (.addListener p a) = none := rfl
@[simp] theorem asFront_addCluster {c : _} {b : _} : asFront (.addCluster c b) = none := rfl
@[simp] theorem asFront_addCert {a : _} {k : _} : asFront (.addCert a k) = none := rfl
@[simp] theorem asFront_addFront {h : _} {c : _} {k : _} : asFront (.addFront h c k) = some (c, k, h) := rfl
@[simp] theorem asFront_addTcpFront {u : _} {c : _} {k : _} : asFront (.addTcpFront u c k) = some (c, k, u) := rfl
@[simp] theorem asFront_addBackend {c : _} {i : _} {a : _} : asFront (.addBackend c i a) = none := rfl
@[simp] theorem asFront_activate {p : _} {a : _} : asFront (.activate p a) = none := rfl
@[simp] theorem asFront_metricsOff  : asFront (.metricsOff ) = none := rfl
@[simp] theorem asBackend_addListener {p : _} {a : _} : asBackend (.addListener p a) = none := rfl
@[simp] theorem asBackend_addCluster {c : _} {b : _} : asBackend (.addCluster c b) = none := rfl
@[simp] theorem asBackend_addCert {a : _} {k : _} : asBackend (.addCert a k) = none := rfl
@[simp] theorem asBackend_addFront {h : _} {c : _} {k : _} : asBackend (.addFront h c k) = none := rfl
@[simp] theorem asBackend_addTcpFront {u : _} {c : _} {k : _} : asBackend (.addTcpFront u c k) = none := rfl
@[simp] theorem asBackend_addBackend {c : _} {i : _} {a : _} : asBackend (.addBackend c i a) = some (c, a) := rfl
@[simp] theorem asBackend_activate {p : _} {a : _} : asBackend (.activate p a) = none := rfl
@[simp] theorem asBackend_metricsOff  : asBackend (.metricsOff ) = none := rfl

theorem flatMap_single {α β : Type} (l : List α) (g : α → β) : (l.flatMap fun x => [g x]) = l.map g := by
  induction l with
  | nil => rfl
  | cons x xs ih => simp [ih]

theorem filterMap_flatMap {α β γ : Type} (f : β → Option γ) (g : α → List β) (l : List α) :
    (l.flatMap g).filterMap f = l.flatMap fun x => (g x).filterMap f := by
  induction l with
  | nil => rfl
  | cons x xs ih => simp [List.flatMap_cons, List.filterMap_append, ih]

theorem backendMsgs_other (k : Cluster) (f : Msg → Option α)
    (hf : ∀ c i a, f (.addBackend c i a) = none) : ∀ (i : Nat) (bs : List Backend),
    (backendMsgs k i bs).filterMap f = [] := by
  intro i bs
  induction bs generalizing i with
  | nil => rfl
  | cons b bs ih => simp [backendMsgs, hf, ih]

theorem backendMsgs_backends (k : Cluster) : ∀ (i : Nat) (bs : List Backend),
    (backendMsgs k i bs).filterMap asBackend = bs.map fun b => (k.id, b.addr) := by
  intro i bs
  induction bs generalizing i with
  | nil => rfl
  | cons b bs ih => simp [backendMsgs, asBackend, ih]

theorem frontMsgs_other (k : Cluster) (f : Msg → Option α)
    (h1 : ∀ h c key, f (.addFront h c key) = none) (h2 : ∀ u c key, f (.addTcpFront u c key) = none)
    (h3 : ∀ a c, f (.addCert a c) = none) (fs : List Front) :
    (fs.flatMap (frontMsgs k)).filterMap f = [] := by
  induction fs with
  | nil => rfl
  | cons x xs ih =>
    simp only [List.flatMap_cons, List.filterMap_append, ih, List.append_nil]
    unfold frontMsgs
    split
    · simp [h2]
    · split <;> simp [h1, h3]

theorem clusterMsgs_listener (k : Cluster) : (clusterMsgs k).filterMap asListener = [] := by
  unfold clusterMsgs
  rw [List.filterMap_cons, List.filterMap_append,
    frontMsgs_other k asListener (by simp) (by simp) (by simp), backendMsgs_other k asListener (by simp)]
  simp

theorem clusterMsgs_activate (k : Cluster) : (clusterMsgs k).filterMap asActivate = [] := by
  unfold clusterMsgs
  rw [List.filterMap_cons, List.filterMap_append,
    frontMsgs_other k asActivate (by simp) (by simp) (by simp), backendMsgs_other k asActivate (by simp)]
  simp

theorem clusterMsgs_cluster (k : Cluster) : (clusterMsgs k).filterMap asCluster = [k.id] := by
  unfold clusterMsgs
  rw [List.filterMap_cons, List.filterMap_append,
    frontMsgs_other k asCluster (by simp) (by simp) (by simp), backendMsgs_other k asCluster (by simp)]
  simp

theorem clusterMsgs_backend (k : Cluster) :
    (clusterMsgs k).filterMap asBackend = k.backends.map fun b => (k.id, b.addr) := by
  unfold clusterMsgs
  rw [List.filterMap_cons, List.filterMap_append,
    frontMsgs_other k asBackend (by simp) (by simp) (by simp), backendMsgs_backends]
  simp

/-- the frontend entries of a cluster as the messages carry them -/
def declaredFronts (k : Cluster) : List (Nat × Nat × Bool) :=
  k.fronts.map fun f => (k.id, f.key, if k.tcp then f.udp else decide (f.cert ≠ 0))

theorem frontMsgs_front (k : Cluster) (fs : List Front) :
    (fs.flatMap (frontMsgs k)).filterMap asFront =
      fs.map fun f => (k.id, f.key, if k.tcp then f.udp else decide (f.cert ≠ 0)) := by
  induction fs with
  | nil => rfl
  | cons x xs ih =>
    simp only [List.flatMap_cons, List.filterMap_append, ih, List.map_cons]
    unfold frontMsgs
    split
    · next h => simp [h]
    · next h =>
      split
      · next h2 => simp [List.filterMap_cons, h, h2]
      · next h2 => simp [List.filterMap_cons, h, h2]

theorem clusterMsgs_front (k : Cluster) : (clusterMsgs k).filterMap asFront = declaredFronts k := by
  unfold clusterMsgs
  rw [List.filterMap_cons, List.filterMap_append, frontMsgs_front, backendMsgs_other k asFront (by simp)]
  simp [declaredFronts]

theorem listenerMsgs_listener (c : Cfg) :
    (listenerMsgs c).filterMap asListener = c.listeners.map fun l => (l.proto, l.addr) := by
  simp [listenerMsgs, List.filterMap_map, asListener, Function.comp_def]

theorem activateMsgs_activate (c : Cfg) :
    (activateMsgs c).filterMap asActivate = c.listeners.map fun l => (l.proto, l.addr) := by
  simp [activateMsgs, List.filterMap_map, asActivate, Function.comp_def]

theorem listenerMsgs_none (c : Cfg) (f : Msg → Option α) (h : ∀ p a, f (.addListener p a) = none) :
    (listenerMsgs c).filterMap f = [] := by
  simp [listenerMsgs, List.filterMap_map, Function.comp_def, h]

theorem activateMsgs_none (c : Cfg) (f : Msg → Option α) (h : ∀ p a, f (.activate p a) = none) :
    (activateMsgs c).filterMap f = [] := by
  simp [activateMsgs, List.filterMap_map, Function.comp_def, h]

theorem flatMap_nil' {α β : Type} (l : List α) (g : α → List β) (h : ∀ x, g x = []) :
    l.flatMap g = [] := by
  induction l with
  | nil => rfl
  | cons x xs ih => simp [h, ih]

/-- **Declared = loaded, at the level of the command list.** For every
    configuration and every iteration order of its clusters, the generated list
    contains exactly one `Add…Listener` per listener (in vector order), one
    `AddCluster` per cluster, one frontend message per declared frontend, one
    `AddBackend` per declared backend — nothing duplicated, nothing dropped —
    and one `ActivateListener` per listener iff `activate_listeners`. -/
theorem C20_declared_equals_loaded (c : Cfg) :
    (contents c).filterMap asListener = c.listeners.map (fun l => (l.proto, l.addr)) ∧
    (contents c).filterMap asCluster = c.clusters.map (·.id) ∧
    (contents c).filterMap asFront = c.clusters.flatMap declaredFronts ∧
    (contents c).filterMap asBackend = c.clusters.flatMap (fun k => k.backends.map fun b => (k.id, b.addr)) ∧
    (contents c).filterMap asActivate =
      (if c.activate then c.listeners.map (fun l => (l.proto, l.addr)) else []) := by
  refine ⟨?_, ?_, ?_, ?_, ?_⟩
  · simp only [contents, List.filterMap_append, listenerMsgs_listener, filterMap_flatMap,
      clusterMsgs_listener]
    rw [flatMap_nil' _ _ (fun _ => rfl)]
    split <;> split <;> simp [activateMsgs_none c asListener (by simp [asListener]), asListener]
  · simp only [contents, List.filterMap_append, filterMap_flatMap, clusterMsgs_cluster,
      listenerMsgs_none c asCluster (by simp [asCluster])]
    split <;> split <;>
      simp [activateMsgs_none c asCluster (by simp [asCluster]), asCluster, flatMap_single]
  · simp only [contents, List.filterMap_append, filterMap_flatMap, clusterMsgs_front,
      listenerMsgs_none c asFront (by simp [asFront])]
    split <;> split <;> simp [activateMsgs_none c asFront (by simp [asFront]), asFront]
  · simp only [contents, List.filterMap_append, filterMap_flatMap, clusterMsgs_backend,
      listenerMsgs_none c asBackend (by simp [asBackend])]
    split <;> split <;> simp [activateMsgs_none c asBackend (by simp [asBackend]), asBackend]
  · simp only [contents, List.filterMap_append, filterMap_flatMap, clusterMsgs_activate,
      listenerMsgs_none c asActivate (by simp [asActivate])]
    rw [flatMap_nil' _ _ (fun _ => rfl)]
    split <;> split <;> simp [activateMsgs_activate, asActivate]

example : ∃ c : Cfg, c.listeners.length = 2 ∧ c.clusters.length = 1 ∧ c.activate = true :=
  ⟨{ http := [{ proto := .http, addr := 1 }], tcp := [{ proto := .tcp, addr := 2 }],
     clusters := [{ id := 3, tcp := false, fronts := [{ addr := 1, key := 4 }], backends := [{ addr := 5 }] }] },
   by decide⟩

end Sozu.Config
