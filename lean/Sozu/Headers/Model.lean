import Sozu.Generated.Consts
/-
Headers area, part 1: what sozu does with an HTTP/2 request header list.

Transcribes, branch for branch,
  * `lib/src/protocol/mux/pkawa.rs`: `classify_invalid_h2_header`,
    `classify_invalid_value_byte`, `store_pseudo_header`, `write_regular_header`
    (`set_content_length`), `decode_headers_with_budget`, the request arm of
    `handle_header` (pseudo-headers, cookie crumbs, literal `host`, `:path`
    form, END_STREAM vs Content-Length, framing choice), `strip_port`,
    `host_matches_authority`, `handle_trailer`;
  * kawa 0.6.8 `H1BlockConverter` (what is written to an HTTP/1.1 backend);
  * the header arm of `lib/src/protocol/mux/converter.rs::H2BlockConverter`
    (what crosses into an HTTP/2 backend).

Bytes are `Nat`s (< 256 on every path the driver feeds). HPACK is outside the
model: it starts from the decoded `(name, value)` list. The byte classes
(`is_tchar`, forbidden value bytes, connection-specific names, trailer elision
list) come from `Sozu.Generated.Consts`, i.e. from the source text.
Import-free apart from the generated constants (the driver must link).
-/
namespace Sozu.Headers

abbrev Bytes := List Nat

-- ------------------------------------------------------------- literals --
def sMethod : Bytes := [58, 109, 101, 116, 104, 111, 100]  -- ':method'
def sScheme : Bytes := [58, 115, 99, 104, 101, 109, 101]  -- ':scheme'
def sPath : Bytes := [58, 112, 97, 116, 104]  -- ':path'
def sAuthority : Bytes := [58, 97, 117, 116, 104, 111, 114, 105, 116, 121]  -- ':authority'
def sHttp : Bytes := [104, 116, 116, 112]  -- 'http'
def sHttps : Bytes := [104, 116, 116, 112, 115]  -- 'https'
def sCookie : Bytes := [99, 111, 111, 107, 105, 101]  -- 'cookie'
def sHost : Bytes := [104, 111, 115, 116]  -- 'host'
def sTe : Bytes := [116, 101]  -- 'te'
def sTrailers : Bytes := [116, 114, 97, 105, 108, 101, 114, 115]  -- 'trailers'
def sContentLength : Bytes := [99, 111, 110, 116, 101, 110, 116, 45, 108, 101, 110, 103, 116, 104]  -- 'content-length'
def sTransferEncoding : Bytes := [116, 114, 97, 110, 115, 102, 101, 114, 45, 101, 110, 99, 111, 100, 105, 110, 103]  -- 'transfer-encoding'
def sOptions : Bytes := [79, 80, 84, 73, 79, 78, 83]  -- 'OPTIONS'
def sChunked : Bytes := [99, 104, 117, 110, 107, 101, 100]  -- 'chunked'
def sTrailer : Bytes := [116, 114, 97, 105, 108, 101, 114]  -- 'trailer'
def sHttp2Settings : Bytes := [104, 116, 116, 112, 50, 45, 115, 101, 116, 116, 105, 110, 103, 115]  -- 'http2-settings'
def cHost : Bytes := [72, 111, 115, 116]  -- 'Host'
def cCookie : Bytes := [67, 111, 111, 107, 105, 101]  -- 'Cookie'
def cContentLength : Bytes := [67, 111, 110, 116, 101, 110, 116, 45, 76, 101, 110, 103, 116, 104]  -- 'Content-Length'
def cTransferEncoding : Bytes := [84, 114, 97, 110, 115, 102, 101, 114, 45, 69, 110, 99, 111, 100, 105, 110, 103]  -- 'Transfer-Encoding'
def sHttp11 : Bytes := [72, 84, 84, 80, 47, 49, 46, 49]  -- 'HTTP/1.1'
def sColonSp : Bytes := [58, 32]  -- ': '
def sSemiSp : Bytes := [59, 32]  -- '; '
def crlf : Bytes := [13, 10]

-- -------------------------------------------------------- byte classes --
def isDigit (b : Nat) : Bool := 48 ≤ b && b ≤ 57
def isUpper (b : Nat) : Bool := 65 ≤ b && b ≤ 90
def isOws (b : Nat) : Bool := b == 32 || b == 9
/-- `is_tchar` (set extracted from pkawa.rs) -/
def isTchar (b : Nat) : Bool := Consts.hdrTchar.contains b
def lowerB (b : Nat) : Nat := if isUpper b then b + 32 else b
def lower (s : Bytes) : Bytes := s.map lowerB
/-- `compare_no_case`: equal length, bytes equal up to ASCII case -/
def eqNoCase (a b : Bytes) : Bool := lower a == lower b

/-- `has_invalid_name_byte` -/
def hasInvalidNameByte (name : Bytes) : Bool := name.any fun b => isUpper b || !isTchar b
/-- `is_connection_specific_header` (names extracted from pkawa.rs) -/
def isConnectionSpecific (name : Bytes) : Bool := Consts.hdrConnectionSpecific.any (eqNoCase name ·)
/-- a byte `classify_invalid_value_byte` reports as CR/LF/CTL -/
def isCtlValueByte (b : Nat) : Bool := Consts.hdrValueCrLf.contains b || Consts.hdrValueCtlImmediate.contains b
/-- any byte `classify_invalid_value_byte` rejects -/
def isBadValueByte (b : Nat) : Bool := b == 0 || isCtlValueByte b
/-- `has_invalid_pseudo_value_byte` -/
def isBadPseudoByte (b : Nat) : Bool := Consts.hdrPseudoValueForbidden.contains b

-- -------------------------------------------------------------- rejects --
/-- what the caller of `handle_header` sees -/
inductive RejectClass | protocol | calm
deriving DecidableEq, Repr

/-- why (the metric label in the code; informative, used by the theorems) -/
inductive Reason
  | invalidNameByte | connectionSpecific | teNotTrailers | crlfInValue | nulInValue
  | badPseudoValue | invalidMethod | invalidScheme | invalidPath
  | clTeConflict | duplicateCl | duplicatePseudo | pseudoAfterRegular | unknownPseudo | emptyPseudo
  | overBudget | tooManyFields
  | pathForm | missingPseudo | hostConflict | hostMismatch | endStreamWithLength | trailerNotEnd
  /-- kawa storage exhausted while a header was being stored (`OversizedPseudoValue` in the code) -/
  | storageFull
  /-- `:status` is not exactly three ASCII digits -/
  | invalidStatus
deriving DecidableEq, Repr

def Reason.cls : Reason → RejectClass
  | .overBudget | .tooManyFields => .calm
  | _ => .protocol

-- ------------------------------------------------- per-header validity --
/-- `classify_invalid_value_byte`: an "other CTL" byte or CR/LF gives
    `CrlfInValue`, a lone NUL gives `NulInValue`. -/
def classifyValue (v : Bytes) : Option Reason :=
  if v.any isCtlValueByte then some .crlfInValue
  else if v.any (· == 0) then some .nulInValue
  else none

/-- `classify_invalid_h2_header` -/
def classifyHeader (name value : Bytes) : Option Reason :=
  if name.isEmpty then some .invalidNameByte
  else if name.head? != some 58 && hasInvalidNameByte name then some .invalidNameByte
  else if isConnectionSpecific name then some .connectionSpecific
  else if eqNoCase name sTe && !eqNoCase value sTrailers then some .teNotTrailers
  else classifyValue value

-- ---------------------------------------------------- request structure --
inductive Field
  | hdr (k v : Bytes)
  /-- `Block::Cookies`: the place where the (joined) cookie jar is emitted -/
  | cookies
deriving DecidableEq, Repr

structure Crumb where
  key : Bytes
  val : Bytes
  elided : Bool := false
deriving DecidableEq, Repr

inductive BodySize | empty | length (n : Nat) | chunked
deriving DecidableEq, Repr

/-- the kawa representation of a request after the header phase -/
structure Req where
  method : Bytes
  target : Bytes
  host : Bytes
  fields : List Field
  jar : List Crumb
  body : BodySize
deriving DecidableEq, Repr

-- ------------------------------------------------------ small utilities --
def trimOws (s : Bytes) : Bytes := ((s.dropWhile isOws).reverse.dropWhile isOws).reverse

/-- `slice.split(|b| b == sep)` -/
def splitBy (sep : Nat) : Bytes → List Bytes
  | [] => [[]]
  | b :: bs =>
    match splitBy sep bs with
    | [] => [[b]]
    | seg :: rest => if b == sep then [] :: seg :: rest else (b :: seg) :: rest

/-- `iter().rposition(p)` -/
def rpos (p : Nat → Bool) : Bytes → Option Nat
  | [] => none
  | b :: bs =>
    match rpos p bs with
    | some i => some (i + 1)
    | none => if p b then some 0 else none

/-- `strip_port` -/
def stripPort (v : Bytes) : Bytes :=
  if v.contains 91 then
    match rpos (· == 93) v with
    | some i =>
      if v[i + 1]? == some 58 && i + 2 < v.length && (v.drop (i + 2)).all isDigit then v.take (i + 1) else v
    | none => v
  else
    match rpos (· == 58) v with
    | some i => if i + 1 < v.length && (v.drop (i + 1)).all isDigit then v.take i else v
    | none => v

/-- `host_matches_authority` -/
def hostMatchesAuthority (host authority : Bytes) : Bool :=
  if eqNoCase host authority then true
  else
    let hs := stripPort host
    let as := stripPort authority
    let hp := hs.length != host.length
    let ap := as.length != authority.length
    if hp && ap then false else eqNoCase hs as

/-- decimal value of an all-digit string -/
def decVal (v : Bytes) : Nat := v.foldl (fun acc b => acc * 10 + (b - 48)) 0

-- --------------------------------------------------------- configuration --
structure Limits where
  /-- `max_header_list_size` -/
  maxListSize : Nat
  /-- `max_header_fields` -/
  maxFields : Nat
  /-- `usize::MAX + 1` of the platform: a longer Content-Length fails `parse::<usize>()` -/
  usizeBound : Nat := 18446744073709551616
deriving Repr

-- ----------------------------------------------------- validation state --
structure VS where
  method : Option Bytes := none
  authority : Option Bytes := none
  path : Option Bytes := none
  scheme : Option Bytes := none
  regular : Bool := false
  cookiesAdded : Bool := false
  fields : List Field := []
  jar : List Crumb := []
  hostValue : Option Bytes := none
  hostConflict : Bool := false
  body : BodySize := .empty
  decoded : Nat := 0
  count : Nat := 0
deriving Repr

/-- `store_pseudo_header` (storage exhaustion is not modelled: buffers are a parameter of the tie) -/
def storePseudo (dest : Option Bytes) (regular : Bool) (v : Bytes) : Except Reason Bytes :=
  if dest.isSome then .error .duplicatePseudo
  else if regular then .error .pseudoAfterRegular
  else if v.isEmpty then .error .emptyPseudo
  else if v.any isBadPseudoByte then .error .badPseudoValue
  else .ok v

/-- `set_content_length` on `kawa.body_size` -/
def setContentLength (b : BodySize) (n : Nat) : Option BodySize :=
  match b with
  | .length e => if e != n then none else some (.length n)
  | _ => some (.length n)

/-- `write_regular_header` -/
def writeRegular (lim : Limits) (s : VS) (k v : Bytes) : Except Reason VS :=
  if eqNoCase k sContentLength then
    if v.isEmpty || !v.all isDigit then .error .duplicateCl
    else if decVal v ≥ lim.usizeBound then .error .duplicateCl
    else match setContentLength s.body (decVal v) with
      | none => .error .clTeConflict
      | some b =>
        -- an equal duplicate is not written a second time (`already_declared`)
        if s.body == .length (decVal v) then .ok s
        else .ok { s with body := b, fields := s.fields ++ [.hdr k v] }
  else .ok { s with fields := s.fields ++ [.hdr k v] }

/-- one cookie-pair of the `cookie` branch: `(key, value)` split on the first `=` -/
def splitCrumb (t : Bytes) : Bytes × Bytes :=
  match t.idxOf? 61 with
  | some i => (t.take i, t.drop (i + 1))
  | none => (t, [])

/-- the crumb loop of the `cookie` branch. `first` = no crumb materialised yet
    for this HPACK field. -/
def cookieLoop (lim : Limits) : List Bytes → Bool → VS → Except Reason VS
  | [], _, s => .ok s
  | seg :: rest, first, s =>
    let t := trimOws seg
    if t.isEmpty then cookieLoop lim rest first s
    else
      let (ck, cv) := splitCrumb t
      match (classifyValue ck).orElse (fun _ => classifyValue cv) with
      | some r => .error r
      | none =>
        let count := if first then s.count else s.count + 1
        if count > lim.maxFields then .error .tooManyFields
        else
          let s' := { s with count := count
                             fields := if s.cookiesAdded then s.fields else s.fields ++ [.cookies]
                             cookiesAdded := true
                             jar := s.jar ++ [{ key := ck, val := cv }] }
          cookieLoop lim rest false s'

/-- the closure passed to `decode_headers_with_budget` by the request arm -/
def perHeader (lim : Limits) (s : VS) (k v : Bytes) : Except Reason VS :=
  if eqNoCase k sMethod then
    if !v.all isTchar then .error .invalidMethod
    else (storePseudo s.method s.regular v).map fun x => { s with method := some x }
  else if eqNoCase k sScheme then
    if v != sHttp && v != sHttps then .error .invalidScheme
    else (storePseudo s.scheme s.regular v).map fun x => { s with scheme := some x }
  else if eqNoCase k sPath then
    if v.contains 35 || v.contains 32 then .error .invalidPath
    else (storePseudo s.path s.regular v).map fun x => { s with path := some x }
  else if eqNoCase k sAuthority then
    (storePseudo s.authority s.regular v).map fun x => { s with authority := some x }
  else if k.head? == some 58 then .error .unknownPseudo
  else if eqNoCase k sCookie then
    cookieLoop lim (splitBy 59 v) true { s with regular := true }
  else if eqNoCase k sHost then
    match s.hostValue with
    | some _ => .ok { s with regular := true, hostConflict := true }
    | none => .ok { s with regular := true, hostValue := some v }
  else writeRegular lim { s with regular := true } k v

/-- one callback of `decode_headers_with_budget`: byte budget, field count,
    `classify_invalid_h2_header`, then the closure. The first failure decides
    (later pairs are skipped by the code). -/
def stepHeader (lim : Limits) (s : VS) (kv : Bytes × Bytes) : Except Reason VS :=
  let decoded := s.decoded + kv.1.length + kv.2.length + Consts.hdrFieldSizeOverhead
  if decoded > lim.maxListSize then .error .overBudget
  else
    let count := s.count + 1
    if count > lim.maxFields then .error .tooManyFields
    else match classifyHeader kv.1 kv.2 with
      | some r => .error r
      | none => perHeader lim { s with decoded := decoded, count := count } kv.1 kv.2

def foldHeaders (lim : Limits) : List (Bytes × Bytes) → VS → Except Reason VS
  | [], s => .ok s
  | kv :: rest, s =>
    match stepHeader lim s kv with
    | .error r => .error r
    | .ok s' => foldHeaders lim rest s'

/-- the checks of `handle_header` after the decode loop, up to the status line -/
def finishDecode (s : VS) : Except Reason Req :=
  let pathOk := match s.path with
    | some p => p.head? == some 47 || (p == [42] && s.method == some sOptions)
    | none => true
  if !pathOk then .error .pathForm
  else match s.method, s.authority, s.path, s.scheme with
    | some m, some a, some p, some _ =>
      if s.hostConflict then .error .hostConflict
      else match s.hostValue with
        | some h =>
          if hostMatchesAuthority h a then
            .ok { method := m, target := p, host := a, fields := s.fields, jar := s.jar, body := s.body }
          else .error .hostMismatch
        | none => .ok { method := m, target := p, host := a, fields := s.fields, jar := s.jar, body := s.body }
    | _, _, _, _ => .error .missingPseudo

/-- header decoding + validation (before the `on_headers` callback) -/
def decodeRequest (lim : Limits) (hl : List (Bytes × Bytes)) : Except Reason Req :=
  match foldHeaders lim hl {} with
  | .error r => .error r
  | .ok s => finishDecode s

/-- the END_STREAM / framing part of `handle_header`, after the callback -/
def finishFraming (endStream : Bool) (r : Req) : Except Reason Req :=
  if endStream then
    match r.body with
    | .length n => if n > 0 then .error .endStreamWithLength else .ok r
    | .empty => .ok { r with body := .length 0, fields := r.fields ++ [.hdr cContentLength [48]] }
    | .chunked => .ok r
  else
    match r.body with
    | .empty => .ok { r with body := .chunked, fields := r.fields ++ [.hdr cTransferEncoding sChunked] }
    | _ => .ok r

/-- `handle_header` for a request with a no-op `on_headers` callback:
    what sozu understood of an HTTP/2 request header list. -/
def validateRequest (lim : Limits) (endStream : Bool) (hl : List (Bytes × Bytes)) : Except Reason Req :=
  match decodeRequest lim hl with
  | .error r => .error r
  | .ok r => finishFraming endStream r

-- -------------------------------------------------------------- trailers --
def trailerStep (lim : Limits) (maxDecoded : Nat) (st : Nat × Nat × List (Bytes × Bytes)) (kv : Bytes × Bytes) :
    Except Reason (Nat × Nat × List (Bytes × Bytes)) :=
  let decoded := st.1 + kv.1.length + kv.2.length + Consts.hdrFieldSizeOverhead
  if decoded > maxDecoded then .error .overBudget
  else
    let count := st.2.1 + 1
    if count > lim.maxFields then .error .tooManyFields
    else if kv.1.head? == some 58 then .error .unknownPseudo
    else match classifyHeader kv.1 kv.2 with
      | some r => .error r
      | none =>
        if Consts.hdrTrailerElided.contains kv.1 then .ok (decoded, count, st.2.2)
        else .ok (decoded, count, st.2.2 ++ [kv])

def trailerFold (lim : Limits) (maxDecoded : Nat) :
    List (Bytes × Bytes) → Nat × Nat × List (Bytes × Bytes) → Except Reason (List (Bytes × Bytes))
  | [], st => .ok st.2.2
  | kv :: rest, st =>
    match trailerStep lim maxDecoded st kv with
    | .error r => .error r
    | .ok st' => trailerFold lim maxDecoded rest st'

/-- `handle_trailer`: the trailer fields appended to the stream -/
def handleTrailer (lim : Limits) (endStream : Bool) (hl : List (Bytes × Bytes)) : Except Reason (List (Bytes × Bytes)) :=
  if !endStream then .error .trailerNotEnd
  else trailerFold lim (min lim.maxListSize Consts.hdrMaxTrailerBytes) hl (0, 0, [])

-- ------------------------------------------------------ H1 serialisation --
/-- the `Cookie:` value: non-elided crumbs joined with `"; "` -/
def joinCrumbs : List Crumb → Bytes
  | [] => []
  | [c] => c.key ++ [61] ++ c.val
  | c :: rest => c.key ++ [61] ++ c.val ++ sSemiSp ++ joinCrumbs rest

def liveCrumbs (jar : List Crumb) : List Crumb := jar.filter (!·.elided)

/-- header lines emitted for the block list; the first `Block::Cookies` drains the jar -/
def emitFields : List Field → List Crumb → List (Bytes × Bytes)
  | [], _ => []
  | .hdr k v :: rest, jar => (k, v) :: emitFields rest jar
  | .cookies :: rest, jar =>
    if jar.isEmpty then emitFields rest jar
    else (cCookie, joinCrumbs (liveCrumbs jar)) :: emitFields rest []

/-- every header line written to an HTTP/1.1 backend, `Host` first -/
def emitted (r : Req) : List (Bytes × Bytes) := (cHost, r.host) :: emitFields r.fields r.jar

def headerLine (kv : Bytes × Bytes) : Bytes := kv.1 ++ sColonSp ++ kv.2 ++ crlf

def requestLine (r : Req) : Bytes := r.method ++ [32] ++ r.target ++ [32] ++ sHttp11 ++ crlf

/-- kawa `H1BlockConverter` on the header phase: request line, `Host`, header
    lines, blank line -/
def serializeH1 (r : Req) : Bytes :=
  requestLine r ++ (emitted r).flatMap headerLine ++ crlf

-- ------------------------------------------------------------------ body --
def hexDigit (d : Nat) : Nat := if d < 10 then 48 + d else 87 + d

/-- `write!(buf, "{n:x}")` -/
def hexOf (n : Nat) : Bytes :=
  if _h : n < 16 then [hexDigit n] else hexOf (n / 16) ++ [hexDigit (n % 16)]
decreasing_by omega

/-- DATA frames of a chunked-framed request as `h2.rs` + `H1BlockConverter`
    write them: an empty DATA frame emits nothing -/
def encodeChunks : List Bytes → Bytes
  | [] => []
  | c :: rest => (if c.isEmpty then [] else hexOf c.length ++ crlf ++ c ++ crlf) ++ encodeChunks rest

/-- the body bytes written after the header section. `trailers = none`: the
    stream ended with END_STREAM on DATA; `some t`: it ended with a trailer
    HEADERS frame (`handle_trailer` output `t`). As the code does it: the
    trailer blocks are converted like header blocks whatever the framing — no
    last-chunk line precedes them on a chunked body, and they follow the body
    of a Content-Length framed request too. -/
def wireBody (r : Req) (chunks : List Bytes) (trailers : Option (List (Bytes × Bytes))) : Bytes :=
  match r.body with
  | .chunked =>
    match trailers with
    | none => encodeChunks chunks ++ [48] ++ crlf ++ crlf
    | some t => encodeChunks chunks ++ t.flatMap headerLine ++ crlf
  | _ =>
    match trailers with
    | none => chunks.flatten
    | some t => chunks.flatten ++ t.flatMap headerLine ++ crlf

-- ------------------------------------------------- toward an H2 backend --
/-- the skip rule of the `Block::Header` arm of `H2BlockConverter::call` -/
def h2Skip (k v : Bytes) : Bool :=
  isConnectionSpecific k || eqNoCase k sHost || eqNoCase k sHttp2Settings ||
  eqNoCase k sTrailer || (eqNoCase k sTe && !eqNoCase v sTrailers)

def isBadH2OutValueByte (b : Nat) : Bool := Consts.hdrH2OutValueForbidden.contains b

/-- one header toward HTTP/2: skipped, or lower-cased name + value -/
def toH2Header (k v : Bytes) : Option (Bytes × Bytes) :=
  if h2Skip k v then none
  else if (lower k).any (fun b => b ≤ 32 || b ≥ 127) then none
  else if v.any isBadH2OutValueByte then none
  else some (lower k, v)

def h2Fields : List Field → List Crumb → List (Bytes × Bytes)
  | [], _ => []
  | .hdr k v :: rest, jar =>
    match toH2Header k v with
    | some h => h :: h2Fields rest jar
    | none => h2Fields rest jar
  | .cookies :: rest, jar =>
    (liveCrumbs jar).map (fun c => (sCookie, c.key ++ [61] ++ c.val)) ++ h2Fields rest []

/-- the header list `H2BlockConverter` encodes for a request (`scheme` is the converter's) -/
def toH2 (scheme : Bytes) (r : Req) : List (Bytes × Bytes) :=
  [(sMethod, r.method), (sAuthority, r.host), (sPath, r.target), (sScheme, scheme)] ++ h2Fields r.fields r.jar

-- ------------------------------------------------------ storage exhaustion --
/-
`store_pseudo_header`, `write_regular_header`, the cookie branch and
`handle_trailer` copy names / values into the stream's kawa buffer with
`write_all`; when the buffer (pool `buffer_size`) is full the header is
rejected like any other invalid header (`OversizedPseudoValue`, the stream
gets PROTOCOL_ERROR). The header list may be within MAX_HEADER_LIST_SIZE and
still not fit. This is a pure *additional* rejection: it is modelled as a scan
that runs beside the validation fold (same states), so the functions above —
and everything proved about them — are untouched.
-/

/-- bytes the request closure writes to storage for one successfully handled header,
    from state `s` (before) to `s'` (after) -/
def writtenBy (s s' : VS) (k v : Bytes) : Nat :=
  if eqNoCase k sMethod || eqNoCase k sScheme || eqNoCase k sPath || eqNoCase k sAuthority then v.length
  else if eqNoCase k sCookie then ((s'.jar.drop s.jar.length).map fun c => c.key.length + c.val.length).sum
  else if eqNoCase k sHost then 0
  else v.length + (if eqNoCase k sContentLength && s.body == .length (decVal v) then 0 else k.length)

/-- bytes of the crumbs a cookie header had stored before its crumb count hit the field cap
    (`s` = the state the cookie branch starts from; those crumbs had all passed validation) -/
def crumbBytesBeforeCap (lim : Limits) (s : VS) (v : Bytes) : Nat :=
  let crumbs := (splitBy 59 v).filterMap fun seg =>
    let t := trimOws seg
    if t.isEmpty then none else some (splitCrumb t)
  ((crumbs.take (lim.maxFields + 1 - s.count)).map fun c => c.1.length + c.2.length).sum

/-- does the buffer of `cap` bytes (with `used` already taken) overflow before
    anything else rejects the header list? -/
def storageScan (lim : Limits) (cap : Nat) : List (Bytes × Bytes) → VS → Nat → Bool
  | [], _, _ => false
  | kv :: rest, s, used =>
    match stepHeader lim s kv with
    | .error e =>
      -- a crumb-count overrun inside a cookie header: the earlier crumbs were stored first
      e == .tooManyFields && eqNoCase kv.1 sCookie && s.count + 1 ≤ lim.maxFields &&
        decide (used + crumbBytesBeforeCap lim { s with count := s.count + 1, regular := true } kv.2 > cap)
    | .ok s' =>
      let used' := used + writtenBy s s' kv.1 kv.2
      if used' > cap then true else storageScan lim cap rest s' used'

/-- bytes in storage after an accepted header list -/
def storageUsed (lim : Limits) : List (Bytes × Bytes) → VS → Nat → Nat
  | [], _, used => used
  | kv :: rest, s, used =>
    match stepHeader lim s kv with
    | .error _ => used
    | .ok s' => storageUsed lim rest s' (used + writtenBy s s' kv.1 kv.2)

/-- `handle_header` (no-op callback) on a stream whose buffer holds `cap` bytes -/
def validateRequestS (lim : Limits) (cap : Nat) (endStream : Bool) (hl : List (Bytes × Bytes)) : Except Reason Req :=
  if storageScan lim cap hl {} 0 then .error .storageFull else validateRequest lim endStream hl

/-- the trailer fold with storage: `used` bytes already taken -/
def trailerScan (lim : Limits) (maxDecoded cap : Nat) :
    List (Bytes × Bytes) → Nat × Nat × List (Bytes × Bytes) → Nat → Bool
  | [], _, _ => false
  | kv :: rest, st, used =>
    match trailerStep lim maxDecoded st kv with
    | .error _ => false
    | .ok st' =>
      let used' := if st'.2.2.length > st.2.2.length then used + kv.1.length + kv.2.length else used
      if used' > cap then true else trailerScan lim maxDecoded cap rest st' used'

def handleTrailerS (lim : Limits) (cap used : Nat) (endStream : Bool) (hl : List (Bytes × Bytes)) :
    Except Reason (List (Bytes × Bytes)) :=
  if endStream && trailerScan lim (min lim.maxListSize Consts.hdrMaxTrailerBytes) cap hl (0, 0, []) used then
    .error .storageFull
  else handleTrailer lim endStream hl

-- ------------------------------------------- HTTP/2 response header block --
/-
The response arm of `handle_header` (an HTTP/2 backend answering): `:status`
exactly three digits, pseudo-header order / uniqueness, regular headers through
`write_regular_header`, then the END_STREAM / framing choice with the
body-exempt status codes (1xx, 204, 304).
-/
def sStatus : Bytes := [58, 115, 116, 97, 116, 117, 115]  -- ':status'
def sFromH2 : Bytes := [70, 114, 111, 109, 72, 50]  -- 'FromH2'

structure Resp where
  status : Bytes
  fields : List Field
  body : BodySize
deriving DecidableEq, Repr

/-- the closure of the response arm; the `method` slot of the state holds `:status` -/
def perHeaderResp (lim : Limits) (s : VS) (k v : Bytes) : Except Reason VS :=
  if eqNoCase k sStatus then
    if v.length != 3 || !v.all isDigit then .error .invalidStatus
    else (storePseudo s.method s.regular v).map fun x => { s with method := some x }
  else if k.head? == some 58 then .error .unknownPseudo
  else writeRegular lim { s with regular := true } k v

def stepHeaderResp (lim : Limits) (s : VS) (kv : Bytes × Bytes) : Except Reason VS :=
  let decoded := s.decoded + kv.1.length + kv.2.length + Consts.hdrFieldSizeOverhead
  if decoded > lim.maxListSize then .error .overBudget
  else
    let count := s.count + 1
    if count > lim.maxFields then .error .tooManyFields
    else match classifyHeader kv.1 kv.2 with
      | some r => .error r
      | none => perHeaderResp lim { s with decoded := decoded, count := count } kv.1 kv.2

def foldHeadersResp (lim : Limits) : List (Bytes × Bytes) → VS → Except Reason VS
  | [], s => .ok s
  | kv :: rest, s =>
    match stepHeaderResp lim s kv with
    | .error r => .error r
    | .ok s' => foldHeadersResp lim rest s'

/-- 1xx, 204, 304: no body by definition -/
def bodyExempt (status : Bytes) : Bool :=
  let code := decVal status
  (100 ≤ code && code < 200) || code == 204 || code == 304

/-- the END_STREAM / framing part for a response (`edit` = the `on_headers` callback) -/
def finishResp (endStream : Bool) (edit : List Field → List Field) (s : VS) : Except Reason Resp :=
  match s.method with
  | none => .error .missingPseudo
  | some st =>
    let fields := edit s.fields
    if endStream then
      match s.body with
      | .length n => if n > 0 && !bodyExempt st then .error .endStreamWithLength else .ok { status := st, fields, body := s.body }
      | .empty =>
        if bodyExempt st then .ok { status := st, fields, body := .empty }
        else .ok { status := st, fields := fields ++ [.hdr cContentLength [48]], body := .length 0 }
      | .chunked => .ok { status := st, fields, body := .chunked }
    else
      match s.body with
      | .empty => .ok { status := st, fields := fields ++ [.hdr cTransferEncoding sChunked], body := .chunked }
      | b => .ok { status := st, fields, body := b }

/-- `handle_header` on a response stream -/
def validateResponse (lim : Limits) (endStream : Bool) (edit : List Field → List Field) (hl : List (Bytes × Bytes)) :
    Except Reason Resp :=
  match foldHeadersResp lim hl {} with
  | .error r => .error r
  | .ok s => finishResp endStream edit s

/-- header lines of the response head written to an HTTP/1.1 client -/
def respLines (r : Resp) : List (Bytes × Bytes) := emitFields r.fields []

def serializeResp (r : Resp) : Bytes :=
  sHttp11 ++ [32] ++ r.status ++ [32] ++ sFromH2 ++ crlf ++ (respLines r).flatMap headerLine ++ crlf

end Sozu.Headers
