import Sozu.Headers.Lemmas
/-
Definitions used by the C03 statements (`WF`, `wire`, `understood`, `Clean`,
`BadShape`) and their proofs: the strict reader's round trip on what sozu
writes, and the invariants of the validation fold of `handle_header`.
-/
set_option linter.unusedSimpArgs false
set_option linter.unusedVariables false
namespace Sozu.Headers

def toFraming : BodySize → Framing
  | .chunked => .chunked
  | .length n => .length n
  | .empty => .length 0

/-- a request a strict reader can read back: token method, target without
    SP / CTL / DEL, header lines with token names and clean values, exactly one
    `Host`, exactly one framing -/
structure WF (r : Req) : Prop where
  method_ne : r.method ≠ []
  method_tok : ∀ b ∈ r.method, isTchar b = true
  target_ne : r.target ≠ []
  target_ok : ∀ b ∈ r.target, isTargetByte b = true
  lines_ok : ∀ kv ∈ emitted r, LineOK kv
  one_host : (named sHost (readBack (emitted r))).length = 1
  framing : framingOf (readBack (emitted r)) = some (toFraming r.body)

/-- the DATA frames are consistent with the framing sozu chose (for a declared
    length this is what `h2.rs::handle_data_frame` enforces) -/
def BodyFits (r : Req) (chunks : List Bytes) : Prop :=
  match r.body with
  | .length n => chunks.flatten.length = n
  | .empty => chunks.flatten = []
  | .chunked => True

/-- everything sozu writes to an HTTP/1.1 backend for one request ending with END_STREAM on DATA -/
def wire (r : Req) (chunks : List Bytes) : Bytes := serializeH1 r ++ wireBody r chunks none

/-- what sozu understood, in the strict reader's vocabulary -/
def understood (r : Req) (chunks : List Bytes) : Parsed :=
  { method := r.method, target := r.target, minor := 1, headers := readBack (emitted r),
    chunked := r.body == .chunked, body := chunks.flatten, trailers := [] }

theorem serialize_split (r : Req) (tail : Bytes) :
    serializeH1 r ++ tail = (r.method ++ [32] ++ r.target ++ [32] ++ sHttp11) ++
      13 :: 10 :: ((emitted r).flatMap headerLine ++ crlf ++ tail) := by
  simp [serializeH1, requestLine, crlf]

theorem parseStrict_wire (r : Req) (chunks : List Bytes) (rest : Bytes) (h : WF r) (hb : BodyFits r chunks) :
    parseStrict (wire r chunks ++ rest) = some (understood r chunks, rest) := by
  unfold wire
  rw [List.append_assoc, serialize_split]
  unfold parseStrict
  rw [untilCrlf_line _ _ (requestLine_no_eol _ _ h.method_tok h.target_ok)]
  simp only
  rw [parseRequestLine_line _ _ h.method_ne h.method_tok h.target_ne h.target_ok]
  simp only
  rw [readFields_lines (emitted r) _ h.lines_ok _ (by
    have := flatMap_headerLine_length (emitted r)
    simp only [List.length_append]; omega)]
  simp only [h.one_host, bne_self_eq_false, Bool.false_eq_true, ↓reduceIte, h.framing]
  unfold BodyFits at hb
  unfold understood wireBody
  cases hbody : r.body with
  | empty =>
    simp only [hbody] at hb
    simp [toFraming, hb]
  | length n =>
    simp only [hbody] at hb
    simp only [toFraming]
    have : ¬ (chunks.flatten ++ rest).length < n := by simp [hb]
    simp only [this, ↓reduceIte]
    rw [← hb, List.take_left, List.drop_left]
    simp
  | chunked =>
    simp only [toFraming]
    have e : encodeChunks chunks ++ [48] ++ crlf ++ crlf ++ rest
        = encodeChunks chunks ++ [48] ++ crlf ++ crlf ++ rest := rfl
    rw [readChunks_encoded chunks rest _ (by
      have := encodeChunks_length chunks
      simp only [List.length_append]; omega)]
    simp

theorem wire_ne_nil (r : Req) (chunks : List Bytes) : wire r chunks ≠ [] := by
  simp [wire, serializeH1, requestLine, crlf]

theorem parseSeq_wires (rs : List (Req × List Bytes)) (h : ∀ rc ∈ rs, WF rc.1 ∧ BodyFits rc.1 rc.2) :
    ∀ fuel, rs.length < fuel →
      parseSeq fuel (rs.flatMap fun rc => wire rc.1 rc.2) = (rs.map fun rc => understood rc.1 rc.2, []) := by
  induction rs with
  | nil =>
    intro fuel hf
    cases fuel with
    | zero => simp at hf
    | succ n => simp [parseSeq]
  | cons rc tl ih =>
    intro fuel hf
    cases fuel with
    | zero => simp at hf
    | succ n =>
      have hrc := h rc (by simp)
      have htl : ∀ x ∈ tl, WF x.1 ∧ BodyFits x.1 x.2 := fun x hx => h x (by simp [hx])
      rw [List.flatMap_cons]
      unfold parseSeq
      have hne : (wire rc.1 rc.2 ++ tl.flatMap fun rc => wire rc.1 rc.2).isEmpty = false := by
        have := wire_ne_nil rc.1 rc.2
        cases hw : wire rc.1 rc.2 <;> simp_all
      simp only [hne, Bool.false_eq_true, ↓reduceIte]
      rw [parseStrict_wire _ _ _ hrc.1 hrc.2]
      simp only
      rw [ih htl n (by simp at hf; omega)]
      simp

theorem wires_length (rs : List (Req × List Bytes)) :
    rs.length ≤ (rs.flatMap fun rc => wire rc.1 rc.2).length := by
  induction rs with
  | nil => simp
  | cons rc tl ih =>
    rw [List.flatMap_cons, List.length_append, List.length_cons]
    have := wire_ne_nil rc.1 rc.2
    have : 1 ≤ (wire rc.1 rc.2).length := by cases hw : wire rc.1 rc.2 <;> simp_all
    omega

theorem parseAll_wires (rs : List (Req × List Bytes)) (h : ∀ rc ∈ rs, WF rc.1 ∧ BodyFits rc.1 rc.2) :
    parseAll (rs.flatMap fun rc => wire rc.1 rc.2) = (rs.map fun rc => understood rc.1 rc.2, []) := by
  unfold parseAll
  exact parseSeq_wires rs h _ (by have := wires_length rs; omega)

/-- `POST /a` with a cookie, one regular header, chunked -/
def exampleReq : Req :=
  { method := [80, 79, 83, 84], target := [47, 97], host := [97, 46, 98],
    fields := [.cookies, .hdr [120, 45, 97] [49], .hdr cTransferEncoding sChunked],
    jar := [{ key := [107], val := [118] }], body := .chunked }

theorem exampleReq_wf : WF exampleReq :=
  { method_ne := by decide, method_tok := by decide, target_ne := by decide, target_ok := by decide,
    lines_ok := by decide, one_host := by decide, framing := by decide }

-- ============================================================ rejection ==

/-- the context-free ambiguous shapes: bad name, connection-specific field,
    `te` ≠ trailers, forbidden value byte, `content-length` not 1*DIGIT -/
def BadShape (kv : Bytes × Bytes) : Prop :=
  (kv.1 = [] ∨ (kv.1.head? ≠ some 58 ∧ hasInvalidNameByte kv.1 = true))
  ∨ isConnectionSpecific kv.1 = true
  ∨ (eqNoCase kv.1 sTe = true ∧ eqNoCase kv.2 sTrailers = false)
  ∨ kv.2.any isBadValueByte = true
  ∨ (eqNoCase kv.1 sContentLength = true ∧ (kv.2 = [] ∨ kv.2.all isDigit = false))

theorem classifyValue_bad (v : Bytes) (h : v.any isBadValueByte = true) : classifyValue v ≠ none := by
  unfold classifyValue
  split
  · simp
  · next h1 =>
    split
    · simp
    · next h2 =>
      exfalso
      simp only [List.any_eq_true, isBadValueByte, Bool.or_eq_true, beq_iff_eq] at h h1 h2
      obtain ⟨b, hb, hbad⟩ := h
      rcases hbad with hbad | hbad
      · exact h2 ⟨b, hb, hbad⟩
      · exact h1 ⟨b, hb, hbad⟩

theorem lowerB_eq_58 {c : Nat} (h : lowerB c = 58) : c = 58 := by
  unfold lowerB isUpper at h
  split at h
  · next hu => simp at hu; omega
  · exact h

theorem head_of_eqNoCase {k name : Bytes} (h : eqNoCase k name = true) (hn : name.head? = some 58)
    (hl : lower name = name) : k.head? = some 58 := by
  simp only [eqNoCase, beq_iff_eq, hl] at h
  cases k with
  | nil => simp [lower] at h; subst h; simp at hn
  | cons c t =>
    cases name with
    | nil => simp at hn
    | cons n nt =>
      simp only [lower, List.map_cons, List.cons.injEq] at h
      simp only [List.head?_cons, Option.some.injEq] at hn ⊢
      subst hn
      exact lowerB_eq_58 h.1

theorem eqNoCase_trans_const {k a b : Bytes} (h : eqNoCase k a = true) : eqNoCase k b = (lower a == lower b) := by
  simp only [eqNoCase, beq_iff_eq] at h
  simp [eqNoCase, h]

theorem cl_head {k : Bytes} (h : eqNoCase k sContentLength = true) : (k.head? == some 58) = false := by
  simp only [eqNoCase, beq_iff_eq] at h
  cases k with
  | nil => simp [lower, sContentLength] at h
  | cons c t =>
    simp only [lower, List.map_cons, sContentLength, List.cons.injEq] at h
    have : c ≠ 58 := by
      intro hc; subst hc
      have := h.1
      simp [lowerB, isUpper] at this
    simp [this]

theorem perHeader_cl_bad (lim : Limits) (s : VS) (k v : Bytes) (hk : eqNoCase k sContentLength = true)
    (hv : v = [] ∨ v.all isDigit = false) : ∃ e, perHeader lim s k v = .error e := by
  unfold perHeader
  rw [eqNoCase_trans_const (b := sMethod) hk, eqNoCase_trans_const (b := sScheme) hk,
    eqNoCase_trans_const (b := sPath) hk, eqNoCase_trans_const (b := sAuthority) hk,
    eqNoCase_trans_const (b := sCookie) hk, eqNoCase_trans_const (b := sHost) hk, cl_head hk]
  have e1 : (lower sContentLength == lower sMethod) = false := by decide
  have e2 : (lower sContentLength == lower sScheme) = false := by decide
  have e3 : (lower sContentLength == lower sPath) = false := by decide
  have e4 : (lower sContentLength == lower sAuthority) = false := by decide
  have e5 : (lower sContentLength == lower sCookie) = false := by decide
  have e6 : (lower sContentLength == lower sHost) = false := by decide
  simp only [e1, e2, e3, e4, e5, e6, Bool.false_eq_true, ↓reduceIte]
  unfold writeRegular
  simp only [hk, ↓reduceIte]
  rcases hv with hv | hv
  · subst hv; exact ⟨.duplicateCl, by simp⟩
  · exact ⟨.duplicateCl, by simp [hv]⟩

theorem stepHeader_bad (lim : Limits) (s : VS) (kv : Bytes × Bytes) (h : BadShape kv) :
    ∃ e, stepHeader lim s kv = .error e := by
  unfold stepHeader
  simp only
  split
  · exact ⟨_, rfl⟩
  · split
    · exact ⟨_, rfl⟩
    · cases hc : classifyHeader kv.1 kv.2 with
      | some r => exact ⟨r, rfl⟩
      | none =>
        simp only
        rcases h with h | h | h | h | h
        · exfalso
          unfold classifyHeader at hc
          rcases h with h | ⟨h1, h2⟩
          · simp [h] at hc
          · have : (kv.1.head? != some 58) = true := by simp [h1]
            simp [this, h2] at hc
        · exfalso
          unfold classifyHeader at hc
          simp [h] at hc
          split at hc <;> (try simp at hc)
          split at hc <;> simp at hc
        · exfalso
          unfold classifyHeader at hc
          simp [h.1, h.2] at hc
          split at hc <;> (try simp at hc)
          split at hc <;> (try simp at hc)
          split at hc <;> simp at hc
        · exfalso
          have := classifyValue_bad kv.2 h
          unfold classifyHeader at hc
          split at hc <;> (try simp at hc)
          split at hc <;> (try simp at hc)
          split at hc <;> (try simp at hc)
          split at hc <;> (try simp at hc)
          exact this hc
        · exact perHeader_cl_bad lim _ kv.1 kv.2 h.1 h.2

theorem foldHeaders_error_mem (lim : Limits) (hl : List (Bytes × Bytes)) (kv : Bytes × Bytes) (hm : kv ∈ hl)
    (hbad : ∀ s, ∃ e, stepHeader lim s kv = .error e) : ∀ s, ∃ e, foldHeaders lim hl s = .error e := by
  induction hl with
  | nil => simp at hm
  | cons x tl ih =>
    intro s
    unfold foldHeaders
    cases hs : stepHeader lim s x with
    | error r => exact ⟨r, rfl⟩
    | ok s' =>
      simp only
      rcases List.mem_cons.mp hm with rfl | hm'
      · obtain ⟨e, he⟩ := hbad s; rw [he] at hs; cases hs
      · exact ih hm' s'

theorem validate_error_of_fold (lim : Limits) (es : Bool) (hl : List (Bytes × Bytes))
    (h : ∃ e, foldHeaders lim hl {} = .error e) : ∃ e, validateRequest lim es hl = .error e := by
  obtain ⟨e, he⟩ := h
  exact ⟨e, by simp [validateRequest, decodeRequest, he]⟩

theorem validate_rejects_bad_shape (lim : Limits) (es : Bool) (hl : List (Bytes × Bytes))
    (h : ∃ kv ∈ hl, BadShape kv) : ∃ e, validateRequest lim es hl = .error e := by
  obtain ⟨kv, hm, hb⟩ := h
  exact validate_error_of_fold lim es hl
    (foldHeaders_error_mem lim hl kv hm (fun s => stepHeader_bad lim s kv hb) {})

-- ================================================= what one step changes ==

/-- the part of the state the cookie loop never touches -/
def SameCore (s s' : VS) : Prop :=
  s'.method = s.method ∧ s'.authority = s.authority ∧ s'.path = s.path ∧ s'.scheme = s.scheme ∧
  s'.regular = s.regular ∧ s'.body = s.body ∧ s'.hostValue = s.hostValue ∧ s'.hostConflict = s.hostConflict

theorem cookieLoop_core (lim : Limits) (segs : List Bytes) (first : Bool) (s s' : VS)
    (h : cookieLoop lim segs first s = .ok s') : SameCore s s' := by
  induction segs generalizing first s with
  | nil => simp [cookieLoop] at h; subst h; simp [SameCore]
  | cons seg rest ih =>
    unfold cookieLoop at h
    simp only at h
    repeat' (split at h)
    all_goals first
      | cases h
      | exact ih _ _ h
      | (have := ih _ _ h; simpa [SameCore] using this)

/-- monotone facts of a successful callback: a set pseudo-header stays set with
    the same value, `regular` stays set, a declared length stays the same -/
structure Ext (s s' : VS) : Prop where
  regular : s.regular = true → s'.regular = true
  method : ∀ x, s.method = some x → s'.method = some x
  authority : ∀ x, s.authority = some x → s'.authority = some x
  path : ∀ x, s.path = some x → s'.path = some x
  scheme : ∀ x, s.scheme = some x → s'.scheme = some x
  body : ∀ n, s.body = .length n → s'.body = .length n
  hostConflict : s.hostConflict = true → s'.hostConflict = true

theorem Ext.refl (s : VS) : Ext s s := ⟨id, fun _ => id, fun _ => id, fun _ => id, fun _ => id, fun _ => id, id⟩

theorem Ext.trans {a b c : VS} (h1 : Ext a b) (h2 : Ext b c) : Ext a c :=
  ⟨fun h => h2.regular (h1.regular h), fun x h => h2.method x (h1.method x h),
   fun x h => h2.authority x (h1.authority x h), fun x h => h2.path x (h1.path x h),
   fun x h => h2.scheme x (h1.scheme x h), fun n h => h2.body n (h1.body n h),
   fun h => h2.hostConflict (h1.hostConflict h)⟩

theorem storePseudo_ok {dest : Option Bytes} {reg : Bool} {v x : Bytes} (h : storePseudo dest reg v = .ok x) :
    dest = none ∧ reg = false ∧ x = v ∧ v ≠ [] ∧ v.any isBadPseudoByte = false := by
  unfold storePseudo at h
  split at h; · cases h
  split at h; · cases h
  split at h; · cases h
  split at h; · cases h
  next h1 h2 h3 h4 =>
  cases h
  refine ⟨by cases dest <;> simp_all, by simpa using h2, rfl, by intro e; simp [e] at h3, by simpa using h4⟩

theorem setContentLength_some {b b' : BodySize} {n : Nat} (h : setContentLength b n = some b') :
    b' = .length n ∧ ∀ m, b = .length m → m = n := by
  unfold setContentLength at h
  split at h
  · next e =>
    split at h
    · cases h
    · next hne => cases h; exact ⟨rfl, fun m hm => by cases hm; simpa using hne⟩
  · cases h; exact ⟨rfl, fun m hm => by simp_all⟩

theorem writeRegular_ok {lim : Limits} {s s' : VS} {k v : Bytes} (h : writeRegular lim s k v = .ok s') :
    (s'.fields = s.fields ++ [.hdr k v] ∨ s'.fields = s.fields) ∧ s'.jar = s.jar ∧ s'.method = s.method ∧
    s'.authority = s.authority ∧
    s'.path = s.path ∧ s'.scheme = s.scheme ∧ s'.regular = s.regular ∧ s'.hostValue = s.hostValue ∧
    s'.hostConflict = s.hostConflict ∧ s'.cookiesAdded = s.cookiesAdded ∧
    ((eqNoCase k sContentLength = false ∧ s'.body = s.body ∧ s'.fields = s.fields ++ [.hdr k v]) ∨
     (eqNoCase k sContentLength = true ∧ v ≠ [] ∧ v.all isDigit = true ∧ s'.body = .length (decVal v) ∧
        (∀ m, s.body = .length m → m = decVal v) ∧
        ((s.body ≠ .length (decVal v) ∧ s'.fields = s.fields ++ [.hdr k v]) ∨
         (s.body = .length (decVal v) ∧ s'.fields = s.fields)))) := by
  unfold writeRegular at h
  split at h
  · next hk =>
    split at h; · cases h
    split at h; · cases h
    next h1 h2 =>
    cases hsc : setContentLength s.body (decVal v) with
    | none => simp [hsc] at h
    | some b =>
      simp only [hsc] at h
      have := setContentLength_some hsc
      simp only [Bool.or_eq_true, Bool.not_eq_true', not_or, Bool.not_eq_true, Bool.not_eq_false] at h1
      have hne : v ≠ [] := by intro e; simp [e] at h1
      split at h
      · next hal =>
        cases h
        have hal' : s.body = .length (decVal v) := by simpa using hal
        exact ⟨.inr rfl, rfl, rfl, rfl, rfl, rfl, rfl, rfl, rfl, rfl,
          .inr ⟨hk, hne, h1.2, hal', this.2, .inr ⟨hal', rfl⟩⟩⟩
      · next hal =>
        cases h
        have hal' : s.body ≠ .length (decVal v) := by simpa using hal
        exact ⟨.inl rfl, rfl, rfl, rfl, rfl, rfl, rfl, rfl, rfl, rfl,
          .inr ⟨hk, hne, h1.2, this.1, this.2, .inl ⟨hal', rfl⟩⟩⟩
  · next hk =>
    cases h
    exact ⟨.inl rfl, rfl, rfl, rfl, rfl, rfl, rfl, rfl, rfl, rfl, .inl ⟨by simpa using hk, rfl, rfl⟩⟩

theorem map_ok {ε α β : Type} {f : α → β} {e : Except ε α} {b : β} (h : e.map f = .ok b) :
    ∃ a, e = .ok a ∧ f a = b := by
  cases e with
  | error x => simp [Except.map] at h
  | ok a => exact ⟨a, rfl, by simpa [Except.map] using h⟩

/-- `k` is none of the request pseudo-headers and does not start with `:` -/
def NotPseudo (k : Bytes) : Prop :=
  eqNoCase k sMethod = false ∧ eqNoCase k sScheme = false ∧ eqNoCase k sPath = false ∧
  eqNoCase k sAuthority = false ∧ (k.head? == some 58) = false

/-- the branches of the request closure of `handle_header`, with what each does -/
theorem perHeader_cases {lim : Limits} {s s' : VS} {k v : Bytes} (h : perHeader lim s k v = .ok s') :
    (eqNoCase k sMethod = true ∧ s.method = none ∧ s.regular = false ∧ v ≠ [] ∧ v.all isTchar = true ∧
        s' = { s with method := some v })
    ∨ (eqNoCase k sScheme = true ∧ s.scheme = none ∧ s.regular = false ∧ s' = { s with scheme := some v })
    ∨ (eqNoCase k sPath = true ∧ s.path = none ∧ s.regular = false ∧ v ≠ [] ∧
        (v.any isBadPseudoByte = false ∧ List.contains v 32 = false) ∧ s' = { s with path := some v })
    ∨ (eqNoCase k sAuthority = true ∧ s.authority = none ∧ s.regular = false ∧ v ≠ [] ∧
        v.any isBadPseudoByte = false ∧ s' = { s with authority := some v })
    ∨ (NotPseudo k ∧ eqNoCase k sCookie = true ∧ cookieLoop lim (splitBy 59 v) true { s with regular := true } = .ok s')
    ∨ (NotPseudo k ∧ eqNoCase k sCookie = false ∧ eqNoCase k sHost = true ∧
        (s' = { s with regular := true, hostConflict := true } ∨ s' = { s with regular := true, hostValue := some v }))
    ∨ (NotPseudo k ∧ eqNoCase k sCookie = false ∧ eqNoCase k sHost = false ∧
        writeRegular lim { s with regular := true } k v = .ok s') := by
  unfold perHeader at h
  split at h
  · next h1 =>
    split at h; · cases h
    next h2 =>
    obtain ⟨x, hx, hs⟩ := map_ok h
    obtain ⟨a, b, c, d, e⟩ := storePseudo_ok hx
    subst c
    exact .inl ⟨h1, a, b, d, by simpa using h2, hs.symm⟩
  · next h1 =>
    split at h
    · next h2 =>
      split at h; · cases h
      obtain ⟨x, hx, hs⟩ := map_ok h
      obtain ⟨a, b, c, d, e⟩ := storePseudo_ok hx
      subst c
      exact .inr (.inl ⟨h2, a, b, hs.symm⟩)
    · next h2 =>
      split at h
      · next h3 =>
        split at h; · cases h
        next hsp =>
        have hsp' : List.contains v 32 = false := by
          simp only [Bool.or_eq_true, not_or, Bool.not_eq_true] at hsp; exact hsp.2
        obtain ⟨x, hx, hs⟩ := map_ok h
        obtain ⟨a, b, c, d, e⟩ := storePseudo_ok hx
        subst c
        exact .inr (.inr (.inl ⟨h3, a, b, d, ⟨e, hsp'⟩, hs.symm⟩))
      · next h3 =>
        split at h
        · next h4 =>
          obtain ⟨x, hx, hs⟩ := map_ok h
          obtain ⟨a, b, c, d, e⟩ := storePseudo_ok hx
          subst c
          exact .inr (.inr (.inr (.inl ⟨h4, a, b, d, e, hs.symm⟩)))
        · next h4 =>
          split at h; · cases h
          next h5 =>
          have np : NotPseudo k := ⟨by simpa using h1, by simpa using h2, by simpa using h3, by simpa using h4, by simpa using h5⟩
          split at h
          · next h6 => exact .inr (.inr (.inr (.inr (.inl ⟨np, h6, h⟩))))
          · next h6 =>
            split at h
            · next h7 =>
              split at h
              · cases h; exact .inr (.inr (.inr (.inr (.inr (.inl ⟨np, by simpa using h6, h7, .inl rfl⟩)))))
              · cases h; exact .inr (.inr (.inr (.inr (.inr (.inl ⟨np, by simpa using h6, h7, .inr rfl⟩)))))
            · next h7 =>
              exact .inr (.inr (.inr (.inr (.inr (.inr ⟨np, by simpa using h6, by simpa using h7, h⟩)))))

theorem perHeader_ext {lim : Limits} {s s' : VS} {k v : Bytes} (h : perHeader lim s k v = .ok s') : Ext s s' := by
  rcases perHeader_cases h with ⟨_, a, b, _, _, rfl⟩ | ⟨_, a, b, rfl⟩ | ⟨_, a, b, _, _, rfl⟩ | ⟨_, a, b, _, _, rfl⟩ |
    ⟨_, _, hc⟩ | ⟨_, _, _, rfl | rfl⟩ | ⟨_, _, _, hw⟩
  · exact ⟨by simp, by simp [a], by simp, by simp, by simp, by simp, by simp⟩
  · exact ⟨by simp, by simp, by simp, by simp, by simp [a], by simp, by simp⟩
  · exact ⟨by simp, by simp, by simp, by simp [a], by simp, by simp, by simp⟩
  · exact ⟨by simp, by simp, by simp [a], by simp, by simp, by simp, by simp⟩
  · obtain ⟨c1, c2, c3, c4, c5, c6, c7, c8⟩ := cookieLoop_core _ _ _ _ _ hc
    exact ⟨by simp [c5], by simp [c1], by simp [c2], by simp [c3], by simp [c4], by simp [c6], by simp [c8]⟩
  · exact ⟨by simp, by simp, by simp, by simp, by simp, by simp, by simp⟩
  · exact ⟨by simp, by simp, by simp, by simp, by simp, by simp, by simp⟩
  · obtain ⟨_, _, w1, w2, w3, w4, w5, _, w7, _, w9⟩ := writeRegular_ok hw
    refine ⟨by simp [w5], by simp [w1], by simp [w2], by simp [w3], by simp [w4], ?_, by simp [w7]⟩
    intro n hn
    rcases w9 with ⟨_, hb, _⟩ | ⟨_, _, _, hb, hm, _⟩
    · simpa [hb] using hn
    · have := hm n (by simpa using hn); simp [hb, this]

theorem stepHeader_ok {lim : Limits} {s s' : VS} {kv : Bytes × Bytes} (h : stepHeader lim s kv = .ok s') :
    classifyHeader kv.1 kv.2 = none ∧
    perHeader lim { s with decoded := s.decoded + kv.1.length + kv.2.length + Consts.hdrFieldSizeOverhead,
                           count := s.count + 1 } kv.1 kv.2 = .ok s' := by
  unfold stepHeader at h
  simp only at h
  split at h; · cases h
  split at h; · cases h
  split at h
  · cases h
  · next hc => exact ⟨hc, h⟩

theorem stepHeader_ext {lim : Limits} {s s' : VS} {kv : Bytes × Bytes} (h : stepHeader lim s kv = .ok s') : Ext s s' := by
  have := perHeader_ext (stepHeader_ok h).2
  exact ⟨this.regular, this.method, this.authority, this.path, this.scheme, this.body, this.hostConflict⟩

theorem foldHeaders_ext {lim : Limits} (hl : List (Bytes × Bytes)) : ∀ {s s' : VS}, foldHeaders lim hl s = .ok s' → Ext s s' := by
  induction hl with
  | nil => intro s s' h; simp [foldHeaders] at h; subst h; exact Ext.refl _
  | cons kv tl ih =>
    intro s s' h
    unfold foldHeaders at h
    cases hs : stepHeader lim s kv with
    | error r => simp [hs] at h
    | ok s1 => simp only [hs] at h; exact (stepHeader_ext hs).trans (ih h)

/-- fold over `pre ++ x :: rest`: either an error, or the state reached before `x` -/
theorem foldHeaders_append {lim : Limits} (pre rest : List (Bytes × Bytes)) (s : VS) :
    (∃ e, foldHeaders lim (pre ++ rest) s = .error e) ∨
    (∃ s1, foldHeaders lim pre s = .ok s1 ∧ foldHeaders lim (pre ++ rest) s = foldHeaders lim rest s1) := by
  induction pre generalizing s with
  | nil => exact .inr ⟨s, rfl, rfl⟩
  | cons kv tl ih =>
    simp only [List.cons_append, foldHeaders]
    cases hs : stepHeader lim s kv with
    | error r => exact .inl ⟨r, rfl⟩
    | ok s1 => simpa using ih s1

-- ===================================== context-dependent rejected shapes ==

theorem eqNoCase_excl {k a b : Bytes} (ha : eqNoCase k a = true) (hb : eqNoCase k b = true) : lower a = lower b := by
  simp only [eqNoCase, beq_iff_eq] at ha hb
  rw [← ha, ← hb]

theorem foldHeaders_pres {lim : Limits} (P : VS → Prop)
    (hP : ∀ s s' kv, P s → stepHeader lim s kv = .ok s' → P s') (hl : List (Bytes × Bytes)) :
    ∀ {s s' : VS}, P s → foldHeaders lim hl s = .ok s' → P s' := by
  induction hl with
  | nil => intro s s' hp h; simp [foldHeaders] at h; subst h; exact hp
  | cons kv tl ih =>
    intro s s' hp h
    simp only [foldHeaders] at h
    cases hs : stepHeader lim s kv with
    | error r => simp [hs] at h
    | ok s1 => simp only [hs] at h; exact ih (hP s s1 kv hp hs) h

/-- `x` establishes `P`, every later step keeps it, `y` cannot be taken under `P` -/
theorem foldHeaders_two {lim : Limits} (P : VS → Prop) (x y : Bytes × Bytes)
    (hx : ∀ s s', stepHeader lim s x = .ok s' → P s')
    (hP : ∀ s s' kv, P s → stepHeader lim s kv = .ok s' → P s')
    (hy : ∀ s s', P s → stepHeader lim s y = .ok s' → False)
    (pre mid post : List (Bytes × Bytes)) (s : VS) :
    ∃ e, foldHeaders lim (pre ++ x :: mid ++ y :: post) s = .error e := by
  have e : pre ++ x :: mid ++ y :: post = pre ++ (x :: (mid ++ y :: post)) := by simp
  rw [e]
  rcases foldHeaders_append pre (x :: (mid ++ y :: post)) s with he | ⟨s1, _, h1⟩
  · exact he
  · rw [h1]
    simp only [foldHeaders]
    cases hs : stepHeader lim s1 x with
    | error r => exact ⟨r, rfl⟩
    | ok s2 =>
      simp only
      have p2 := hx s1 s2 hs
      rcases foldHeaders_append mid (y :: post) s2 with he | ⟨s3, h3, h4⟩
      · exact he
      · rw [h4]
        have p3 := foldHeaders_pres P hP mid p2 h3
        simp only [foldHeaders]
        cases hs3 : stepHeader lim s3 y with
        | error r => exact ⟨r, rfl⟩
        | ok s4 => exact (hy s3 s4 p3 hs3).elim

theorem cl_not_others {k : Bytes} (hk : eqNoCase k sContentLength = true) :
    eqNoCase k sMethod = false ∧ eqNoCase k sScheme = false ∧ eqNoCase k sPath = false ∧
    eqNoCase k sAuthority = false ∧ eqNoCase k sCookie = false ∧ eqNoCase k sHost = false := by
  refine ⟨?_, ?_, ?_, ?_, ?_, ?_⟩ <;> (rw [eqNoCase_trans_const hk]; decide)

/-- a successful step on a `content-length` field went through `write_regular_header` -/
theorem step_cl {lim : Limits} {s s' : VS} {k v : Bytes} (hk : eqNoCase k sContentLength = true)
    (h : stepHeader lim s (k, v) = .ok s') :
    s'.body = .length (decVal v) ∧ v ≠ [] ∧ v.all isDigit = true ∧ (∀ m, s.body = .length m → m = decVal v) ∧
    ((s.body ≠ .length (decVal v) ∧ s'.fields = s.fields ++ [.hdr k v]) ∨
     (s.body = .length (decVal v) ∧ s'.fields = s.fields)) ∧ s'.jar = s.jar := by
  obtain ⟨c1, c2, c3, c4, c5, c6⟩ := cl_not_others hk
  rcases perHeader_cases (stepHeader_ok h).2 with ⟨a, _⟩ | ⟨a, _⟩ | ⟨a, _⟩ | ⟨a, _⟩ | ⟨_, a, _⟩ | ⟨_, _, a, _⟩ | ⟨_, _, _, hw⟩
  · simp [c1] at a
  · simp [c2] at a
  · simp [c3] at a
  · simp [c4] at a
  · simp [c5] at a
  · simp [c6] at a
  · obtain ⟨_, w2, _, _, _, _, _, _, _, _, w9⟩ := writeRegular_ok hw
    rcases w9 with ⟨hn, _⟩ | ⟨_, a, b, c, d, e⟩
    · simp [hk] at hn
    · exact ⟨c, a, b, fun m hm => d m (by simpa using hm), by simpa using e, by simpa using w2⟩

theorem validate_rejects_cl_conflict (lim : Limits) (es : Bool) (pre mid post : List (Bytes × Bytes))
    (k1 k2 v1 v2 : Bytes) (h1 : eqNoCase k1 sContentLength = true) (h2 : eqNoCase k2 sContentLength = true)
    (hne : decVal v1 ≠ decVal v2) :
    ∃ e, validateRequest lim es (pre ++ (k1, v1) :: mid ++ (k2, v2) :: post) = .error e := by
  apply validate_error_of_fold
  apply foldHeaders_two (fun s => s.body = .length (decVal v1))
  · intro s s' h; exact (step_cl h1 h).1
  · intro s s' kv hp h; exact (stepHeader_ext h).body _ hp
  · intro s s' hp h; exact hne ((step_cl h2 h).2.2.2.1 _ hp)

theorem step_regular {lim : Limits} {s s' : VS} {k v : Bytes} (hk : k.head? ≠ some 58)
    (h : stepHeader lim s (k, v) = .ok s') : s'.regular = true := by
  have hh : ∀ name, name.head? = some 58 → lower name = name → eqNoCase k name = true → False :=
    fun name hn hl he => hk (head_of_eqNoCase he hn hl)
  rcases perHeader_cases (stepHeader_ok h).2 with ⟨a, _⟩ | ⟨a, _⟩ | ⟨a, _⟩ | ⟨a, _⟩ | ⟨_, _, hc⟩ | ⟨_, _, _, rfl | rfl⟩ | ⟨_, _, _, hw⟩
  · exact (hh sMethod (by decide) (by decide) a).elim
  · exact (hh sScheme (by decide) (by decide) a).elim
  · exact (hh sPath (by decide) (by decide) a).elim
  · exact (hh sAuthority (by decide) (by decide) a).elim
  · have := (cookieLoop_core _ _ _ _ _ hc).2.2.2.2.1; simpa using this
  · rfl
  · rfl
  · have := (writeRegular_ok hw).2.2.2.2.2.2.1; simpa using this

theorem step_pseudo_after_regular {lim : Limits} {s s' : VS} {k v : Bytes} (hk : k.head? = some 58)
    (hr : s.regular = true) (h : stepHeader lim s (k, v) = .ok s') : False := by
  rcases perHeader_cases (stepHeader_ok h).2 with ⟨_, _, b, _⟩ | ⟨_, _, b, _⟩ | ⟨_, _, b, _⟩ | ⟨_, _, b, _⟩ |
    ⟨np, _⟩ | ⟨np, _⟩ | ⟨np, _⟩
  all_goals first
    | (simp [hr] at b)
    | (have := np.2.2.2.2; simp [hk] at this)

theorem validate_rejects_pseudo_after_regular (lim : Limits) (es : Bool) (pre mid post : List (Bytes × Bytes))
    (k v pk pv : Bytes) (hk : k.head? ≠ some 58) (hp : pk.head? = some 58) :
    ∃ e, validateRequest lim es (pre ++ (k, v) :: mid ++ (pk, pv) :: post) = .error e := by
  apply validate_error_of_fold
  apply foldHeaders_two (fun s => s.regular = true)
  · intro s s' h; exact step_regular hk h
  · intro s s' kv hp h; exact (stepHeader_ext h).regular hp
  · intro s s' hr h; exact step_pseudo_after_regular hp hr h

def slot (name : Bytes) (s : VS) : Option Bytes :=
  if name = sMethod then s.method else if name = sScheme then s.scheme
  else if name = sPath then s.path else s.authority

theorem validate_rejects_duplicate_pseudo (lim : Limits) (es : Bool) (pre mid post : List (Bytes × Bytes))
    (k1 k2 v1 v2 name : Bytes) (hn : name ∈ [sMethod, sScheme, sPath, sAuthority])
    (h1 : eqNoCase k1 name = true) (h2 : eqNoCase k2 name = true) :
    ∃ e, validateRequest lim es (pre ++ (k1, v1) :: mid ++ (k2, v2) :: post) = .error e := by
  apply validate_error_of_fold
  have dM : lower sMethod ≠ lower sScheme ∧ lower sMethod ≠ lower sPath ∧ lower sMethod ≠ lower sAuthority ∧
      lower sScheme ≠ lower sPath ∧ lower sScheme ≠ lower sAuthority ∧ lower sPath ≠ lower sAuthority := by decide
  have hhead : ∀ k, eqNoCase k name = true → (k.head? == some 58) = true := by
    intro k hk
    have : name.head? = some 58 ∧ lower name = name := by
      simp only [List.mem_cons, List.mem_nil_iff, or_false] at hn
      rcases hn with rfl | rfl | rfl | rfl <;> decide
    simp [head_of_eqNoCase hk this.1 this.2]
  apply foldHeaders_two (fun s => (slot name s).isSome = true)
  · intro s s' h
    have hh := hhead k1 h1
    simp only [List.mem_cons, List.mem_nil_iff, or_false] at hn
    rcases perHeader_cases (stepHeader_ok h).2 with ⟨a, _, _, _, _, rfl⟩ | ⟨a, _, _, rfl⟩ | ⟨a, _, _, _, _, rfl⟩ | ⟨a, _, _, _, _, rfl⟩ |
      ⟨np, _⟩ | ⟨np, _⟩ | ⟨np, _⟩
    · rcases hn with rfl | rfl | rfl | rfl
      · simp [slot]
      · exact (dM.1 (eqNoCase_excl a h1)).elim
      · exact (dM.2.1 (eqNoCase_excl a h1)).elim
      · exact (dM.2.2.1 (eqNoCase_excl a h1)).elim
    · rcases hn with rfl | rfl | rfl | rfl
      · exact (dM.1 (eqNoCase_excl h1 a)).elim
      · simp [slot, sScheme, sMethod]
      · exact (dM.2.2.2.1 (eqNoCase_excl a h1)).elim
      · exact (dM.2.2.2.2.1 (eqNoCase_excl a h1)).elim
    · rcases hn with rfl | rfl | rfl | rfl
      · exact (dM.2.1 (eqNoCase_excl h1 a)).elim
      · exact (dM.2.2.2.1 (eqNoCase_excl h1 a)).elim
      · simp [slot, sScheme, sMethod, sPath]
      · exact (dM.2.2.2.2.2 (eqNoCase_excl a h1)).elim
    · rcases hn with rfl | rfl | rfl | rfl
      · exact (dM.2.2.1 (eqNoCase_excl h1 a)).elim
      · exact (dM.2.2.2.2.1 (eqNoCase_excl h1 a)).elim
      · exact (dM.2.2.2.2.2 (eqNoCase_excl h1 a)).elim
      · simp [slot, sScheme, sMethod, sPath, sAuthority]
    · have := np.2.2.2.2; simp [hh] at this
    · have := np.2.2.2.2; simp [hh] at this
    · have := np.2.2.2.2; simp [hh] at this
  · intro s s' kv hp h
    have e := stepHeader_ext h
    simp only [slot] at hp ⊢
    split at hp
    · next hn' => simp only [hn', ↓reduceIte]; cases hm : s.method with
      | none => simp [hm] at hp
      | some x => simp [e.method x hm]
    · next hn1 =>
      simp only [hn1, ↓reduceIte]
      split at hp
      · next hn' => simp only [hn', ↓reduceIte]; cases hm : s.scheme with
        | none => simp [hm] at hp
        | some x => simp [e.scheme x hm]
      · next hn2 =>
        simp only [hn2, ↓reduceIte]
        split at hp
        · next hn' => simp only [hn', ↓reduceIte]; cases hm : s.path with
          | none => simp [hm] at hp
          | some x => simp [e.path x hm]
        · next hn3 =>
          simp only [hn3, ↓reduceIte]
          cases hm : s.authority with
          | none => simp [hm] at hp
          | some x => simp [e.authority x hm]
  · intro s s' hp h
    have hh := hhead k2 h2
    simp only [List.mem_cons, List.mem_nil_iff, or_false] at hn
    rcases perHeader_cases (stepHeader_ok h).2 with ⟨a, b, _⟩ | ⟨a, b, _⟩ | ⟨a, b, _⟩ | ⟨a, b, _⟩ |
      ⟨np, _⟩ | ⟨np, _⟩ | ⟨np, _⟩
    · rcases hn with rfl | rfl | rfl | rfl
      · simp [slot] at hp; simp at b; simp [b] at hp
      · exact (dM.1 (eqNoCase_excl a h2)).elim
      · exact (dM.2.1 (eqNoCase_excl a h2)).elim
      · exact (dM.2.2.1 (eqNoCase_excl a h2)).elim
    · rcases hn with rfl | rfl | rfl | rfl
      · exact (dM.1 (eqNoCase_excl h2 a)).elim
      · simp [slot, sScheme, sMethod] at hp; simp at b; simp [b] at hp
      · exact (dM.2.2.2.1 (eqNoCase_excl a h2)).elim
      · exact (dM.2.2.2.2.1 (eqNoCase_excl a h2)).elim
    · rcases hn with rfl | rfl | rfl | rfl
      · exact (dM.2.1 (eqNoCase_excl h2 a)).elim
      · exact (dM.2.2.2.1 (eqNoCase_excl h2 a)).elim
      · simp [slot, sScheme, sMethod, sPath] at hp; simp at b; simp [b] at hp
      · exact (dM.2.2.2.2.2 (eqNoCase_excl a h2)).elim
    · rcases hn with rfl | rfl | rfl | rfl
      · exact (dM.2.2.1 (eqNoCase_excl h2 a)).elim
      · exact (dM.2.2.2.2.1 (eqNoCase_excl h2 a)).elim
      · exact (dM.2.2.2.2.2 (eqNoCase_excl h2 a)).elim
      · simp [slot, sScheme, sMethod, sPath, sAuthority] at hp; simp at b; simp [b] at hp
    · have := np.2.2.2.2; simp [hh] at this
    · have := np.2.2.2.2; simp [hh] at this
    · have := np.2.2.2.2; simp [hh] at this

-- ================================================== accepted ⇒ clean bytes ==

def NameOK (k : Bytes) : Prop := k ≠ [] ∧ ∀ b ∈ k, isTchar b = true
def ValueOK (v : Bytes) : Prop := ∀ b ∈ v, isBadValueByte b = false
instance (v : Bytes) : Decidable (ValueOK v) := by unfold ValueOK; infer_instance

/-- nothing forbidden is emitted -/
structure Clean (r : Req) : Prop where
  method_ne : r.method ≠ []
  method_tok : ∀ b ∈ r.method, isTchar b = true
  target_ne : r.target ≠ []
  target_ok : ∀ b ∈ r.target, isBadPseudoByte b = false
  host_ne : r.host ≠ []
  host_ok : ∀ b ∈ r.host, isBadPseudoByte b = false
  names : ∀ kv ∈ emitted r, NameOK kv.1
  values : ∀ kv ∈ emitted r, ValueOK kv.2
  client_lower : ∀ k v, Field.hdr k v ∈ r.fields →
    (∀ b ∈ k, isUpper b = false) ∨ (k = cContentLength ∧ v = [48]) ∨ (k = cTransferEncoding ∧ v = sChunked)

theorem classifyValue_none {v : Bytes} (h : classifyValue v = none) : ValueOK v := by
  intro b hb
  cases hbad : isBadValueByte b with
  | false => rfl
  | true => exact (classifyValue_bad v (List.any_eq_true.mpr ⟨b, hb, hbad⟩) h).elim

theorem classifyHeader_none {k v : Bytes} (h : classifyHeader k v = none) :
    k ≠ [] ∧ (k.head? = some 58 ∨ hasInvalidNameByte k = false) ∧ isConnectionSpecific k = false ∧ ValueOK v := by
  unfold classifyHeader at h
  split at h; · cases h
  next h1 =>
  split at h; · cases h
  next h2 =>
  split at h; · cases h
  next h3 =>
  split at h; · cases h
  refine ⟨by intro e; simp [e] at h1, ?_, by simpa using h3, classifyValue_none h⟩
  simp only [Bool.and_eq_true, bne_iff_ne, ne_eq, not_and, Bool.not_eq_true] at h2
  by_cases hh : k.head? = some 58
  · exact .inl hh
  · exact .inr (h2 hh)

theorem name_of_valid {k : Bytes} (hne : k ≠ []) (h : hasInvalidNameByte k = false) :
    NameOK k ∧ ∀ b ∈ k, isUpper b = false := by
  simp only [hasInvalidNameByte, List.any_eq_false, Bool.or_eq_true, Bool.not_eq_true', not_or,
    Bool.not_eq_true, Bool.not_eq_false] at h
  exact ⟨⟨hne, fun b hb => (h b hb).2⟩, fun b hb => (h b hb).1⟩

/-- what the cookie loop adds: at most the `Cookies` marker, and clean crumbs -/
theorem cookieLoop_adds (lim : Limits) (segs : List Bytes) (first : Bool) (s s' : VS)
    (h : cookieLoop lim segs first s = .ok s') :
    (∃ extra, s'.fields = s.fields ++ extra ∧ ∀ f ∈ extra, f = Field.cookies) ∧
    ∃ cs, s'.jar = s.jar ++ cs ∧ ∀ c ∈ cs, ValueOK c.key ∧ ValueOK c.val ∧ c.elided = false := by
  induction segs generalizing first s with
  | nil => simp [cookieLoop] at h; subst h; exact ⟨⟨[], by simp, by simp⟩, [], by simp, by simp⟩
  | cons seg rest ih =>
    unfold cookieLoop at h
    cases first <;> simp only [↓reduceIte, Bool.false_eq_true] at h
    all_goals
      split at h
      · exact ih _ _ h
      · split at h
        · cases h
        · next hcl =>
          have hk : ValueOK (splitCrumb (trimOws seg)).1 ∧ ValueOK (splitCrumb (trimOws seg)).2 := by
            cases h1 : classifyValue (splitCrumb (trimOws seg)).1 with
            | some r => simp [h1, Option.orElse] at hcl
            | none =>
              cases h2 : classifyValue (splitCrumb (trimOws seg)).2 with
              | some r => simp [h1, h2, Option.orElse] at hcl
              | none => exact ⟨classifyValue_none h1, classifyValue_none h2⟩
          split at h
          · cases h
          · obtain ⟨hf, cs, hj, hc⟩ := ih _ _ h
            refine ⟨?_, { key := (splitCrumb (trimOws seg)).1, val := (splitCrumb (trimOws seg)).2 } :: cs, ?_, ?_⟩
            · obtain ⟨extra, he, hx⟩ := hf
              by_cases hca : s.cookiesAdded = true
              · exact ⟨extra, by simpa [hca] using he, hx⟩
              · refine ⟨Field.cookies :: extra, by simpa [hca] using he, ?_⟩
                intro f hf'
                rcases List.mem_cons.mp hf' with rfl | hf''
                · rfl
                · exact hx f hf''
            · simpa using hj
            · intro c hc'
              rcases List.mem_cons.mp hc' with rfl | hc''
              · exact ⟨hk.1, hk.2, rfl⟩
              · exact hc c hc''

structure VClean (s : VS) : Prop where
  fields : ∀ k v, Field.hdr k v ∈ s.fields →
    NameOK k ∧ (∀ b ∈ k, isUpper b = false) ∧ ValueOK v ∧ eqNoCase k sHost = false ∧ eqNoCase k sTransferEncoding = false
  jar : ∀ c ∈ s.jar, ValueOK c.key ∧ ValueOK c.val ∧ c.elided = false
  method : ∀ m, s.method = some m → m ≠ [] ∧ ∀ b ∈ m, isTchar b = true
  path : ∀ p, s.path = some p → p ≠ [] ∧ (∀ b ∈ p, isBadPseudoByte b = false) ∧ 32 ∉ p
  authority : ∀ a, s.authority = some a → a ≠ [] ∧ ∀ b ∈ a, isBadPseudoByte b = false

theorem VClean.init : VClean {} := ⟨by simp, by simp, by simp, by simp, by simp⟩

theorem te_of_not_connSpecific {k : Bytes} (h : isConnectionSpecific k = false) : eqNoCase k sTransferEncoding = false := by
  simp only [isConnectionSpecific, List.any_eq_false] at h
  have hm : sTransferEncoding ∈ Consts.hdrConnectionSpecific := by decide
  simpa using h _ hm

theorem VClean.congr {s s' : VS} (h : VClean s) (hf : s'.fields = s.fields) (hj : s'.jar = s.jar)
    (hm : s'.method = s.method) (hp : s'.path = s.path) (ha : s'.authority = s.authority) : VClean s' :=
  ⟨by rw [hf]; exact h.fields, by rw [hj]; exact h.jar, by rw [hm]; exact h.method, by rw [hp]; exact h.path,
   by rw [ha]; exact h.authority⟩

theorem step_clean {lim : Limits} {s s' : VS} {kv : Bytes × Bytes} (hc : VClean s)
    (h : stepHeader lim s kv = .ok s') : VClean s' := by
  obtain ⟨hcl, hp⟩ := stepHeader_ok h
  obtain ⟨kne, kname, kconn, vok⟩ := classifyHeader_none hcl
  have hc0 : VClean { s with decoded := s.decoded + kv.1.length + kv.2.length + Consts.hdrFieldSizeOverhead,
                              count := s.count + 1 } := hc.congr rfl rfl rfl rfl rfl
  rcases perHeader_cases hp with ⟨_, _, _, vne, vt, rfl⟩ | ⟨_, _, _, rfl⟩ | ⟨_, _, _, vne, vb, rfl⟩ | ⟨_, _, _, vne, vb, rfl⟩ |
    ⟨np, _, hloop⟩ | ⟨np, _, _, rfl | rfl⟩ | ⟨np, hnc, hnh, hw⟩
  · exact ⟨hc.fields, hc.jar, by intro m hm; simp at hm; subst hm; exact ⟨vne, by simpa using vt⟩, hc.path, hc.authority⟩
  · exact ⟨hc.fields, hc.jar, hc.method, hc.path, hc.authority⟩
  · exact ⟨hc.fields, hc.jar, hc.method, by intro m hm; simp at hm; subst hm; exact ⟨vne, by simpa using vb.1, by simpa using vb.2⟩, hc.authority⟩
  · exact ⟨hc.fields, hc.jar, hc.method, hc.path, by intro m hm; simp at hm; subst hm; exact ⟨vne, by simpa using vb⟩⟩
  · obtain ⟨⟨extra, he, hx⟩, cs, hj, hcs⟩ := cookieLoop_adds _ _ _ _ _ hloop
    obtain ⟨c1, c2, c3, _⟩ := cookieLoop_core _ _ _ _ _ hloop
    refine ⟨?_, ?_, by rw [c1]; exact hc.method, by rw [c3]; exact hc.path, by rw [c2]; exact hc.authority⟩
    · intro k v hm
      rw [he] at hm
      rcases List.mem_append.mp hm with hm | hm
      · exact hc.fields k v hm
      · have := hx _ hm; cases this
    · intro c hm
      rw [hj] at hm
      rcases List.mem_append.mp hm with hm | hm
      · exact hc.jar c hm
      · exact hcs c hm
  · exact ⟨hc.fields, hc.jar, hc.method, hc.path, hc.authority⟩
  · exact ⟨hc.fields, hc.jar, hc.method, hc.path, hc.authority⟩
  · obtain ⟨w1, w2, w3, w4, w5, _⟩ := writeRegular_ok hw
    refine ⟨?_, by rw [w2]; exact hc.jar, by rw [w3]; exact hc.method, by rw [w5]; exact hc.path, by rw [w4]; exact hc.authority⟩
    intro k v hm
    have hm : Field.hdr k v ∈ s.fields ++ [.hdr kv.1 kv.2] := by
      rcases w1 with w1 | w1
      · rw [w1] at hm; simpa using hm
      · rw [w1] at hm; exact List.mem_append.mpr (.inl (by simpa using hm))
    rcases List.mem_append.mp hm with hm | hm
    · exact hc.fields k v hm
    · simp only [List.mem_cons, Field.hdr.injEq, List.mem_nil_iff, or_false] at hm
      obtain ⟨rfl, rfl⟩ := hm
      have hhead : kv.1.head? ≠ some 58 := by
        intro e; have := np.2.2.2.2; simp [e] at this
      have hv : hasInvalidNameByte kv.1 = false := by
        rcases kname with e | e
        · exact (hhead e).elim
        · exact e
      obtain ⟨n1, n2⟩ := name_of_valid kne hv
      exact ⟨n1, n2, vok, hnh, te_of_not_connSpecific kconn⟩

theorem fold_clean {lim : Limits} (hl : List (Bytes × Bytes)) {s s' : VS} (hc : VClean s)
    (h : foldHeaders lim hl s = .ok s') : VClean s' :=
  foldHeaders_pres VClean (fun _ _ _ hp hs => step_clean hp hs) hl hc h

theorem pseudo_bad_of_value_bad : ∀ b, isBadValueByte b = true → isBadPseudoByte b = true := by
  intro b h
  simp only [isBadValueByte, isCtlValueByte, Bool.or_eq_true, beq_iff_eq, List.contains_eq_mem,
    decide_eq_true_eq] at h
  have hall : ∀ x ∈ (0 :: (Consts.hdrValueCrLf ++ Consts.hdrValueCtlImmediate)), isBadPseudoByte x = true := by decide
  apply hall
  rcases h with h | h | h
  · simp [h]
  · simp [h]
  · simp [h]

theorem valueOK_of_pseudo {v : Bytes} (h : ∀ b ∈ v, isBadPseudoByte b = false) : ValueOK v := by
  intro b hb
  cases hbad : isBadValueByte b with
  | false => rfl
  | true => have := pseudo_bad_of_value_bad b hbad; simp [h b hb] at this

theorem joinCrumbs_ok (cs : List Crumb) (h : ∀ c ∈ cs, ValueOK c.key ∧ ValueOK c.val) : ValueOK (joinCrumbs cs) := by
  induction cs with
  | nil => intro b hb; simp [joinCrumbs] at hb
  | cons c tl ih =>
    have hc := h c (by simp)
    have htl : ∀ x ∈ tl, ValueOK x.key ∧ ValueOK x.val := fun x hx => h x (by simp [hx])
    intro b hb
    cases tl with
    | nil =>
      simp only [joinCrumbs, List.mem_append, List.mem_cons, List.mem_nil_iff, or_false] at hb
      rcases hb with (hb | hb) | hb
      · exact hc.1 b hb
      · subst hb; decide
      · exact hc.2 b hb
    | cons d tl' =>
      simp only [joinCrumbs, sSemiSp, List.mem_append, List.mem_cons, List.mem_nil_iff, or_false] at hb
      rcases hb with (((hb | hb) | hb) | hb) | hb
      · exact hc.1 b hb
      · subst hb; decide
      · exact hc.2 b hb
      · rcases hb with hb | hb <;> (subst hb; decide)
      · exact ih htl b hb

theorem emitFields_mem (fs : List Field) (jar : List Crumb) (kv : Bytes × Bytes) (h : kv ∈ emitFields fs jar) :
    (∃ k v, Field.hdr k v ∈ fs ∧ kv = (k, v)) ∨ (kv.1 = cCookie ∧ ∃ cs, (∀ c ∈ cs, c ∈ jar) ∧ kv.2 = joinCrumbs cs) := by
  induction fs generalizing jar with
  | nil => simp [emitFields] at h
  | cons f tl ih =>
    cases f with
    | hdr k v =>
      simp only [emitFields, List.mem_cons] at h
      rcases h with rfl | h
      · exact .inl ⟨k, v, by simp, rfl⟩
      · rcases ih jar h with ⟨k', v', hm, e⟩ | hr
        · exact .inl ⟨k', v', by simp [hm], e⟩
        · exact .inr hr
    | cookies =>
      simp only [emitFields] at h
      split at h
      · rcases ih jar h with ⟨k', v', hm, e⟩ | hr
        · exact .inl ⟨k', v', by simp [hm], e⟩
        · exact .inr hr
      · simp only [List.mem_cons] at h
        rcases h with rfl | h
        · exact .inr ⟨rfl, liveCrumbs jar, fun c hc => (List.mem_filter.mp hc).1, rfl⟩
        · rcases ih [] h with ⟨k', v', hm, e⟩ | ⟨e1, cs, hcs, e2⟩
          · exact .inl ⟨k', v', by simp [hm], e⟩
          · exact .inr ⟨e1, cs, fun c hc => by have := hcs c hc; simp at this, e2⟩

theorem finishDecode_ok {s : VS} {r : Req} (h : finishDecode s = .ok r) :
    s.method = some r.method ∧ s.path = some r.target ∧ s.authority = some r.host ∧
    r.fields = s.fields ∧ r.jar = s.jar ∧ r.body = s.body := by
  unfold finishDecode at h
  cases hm : s.method <;> cases ha : s.authority <;> cases hp : s.path <;> cases hsc : s.scheme <;>
    simp only [hm, ha, hp, hsc] at h <;> (try (split at h <;> cases h))
  split at h; · cases h
  split at h; · cases h
  split at h
  · split at h
    · cases h; exact ⟨rfl, rfl, rfl, rfl, rfl, rfl⟩
    · cases h
  · cases h; exact ⟨rfl, rfl, rfl, rfl, rfl, rfl⟩

theorem finishFraming_ok {es : Bool} {r r' : Req} (h : finishFraming es r = .ok r') :
    r'.method = r.method ∧ r'.target = r.target ∧ r'.host = r.host ∧ r'.jar = r.jar ∧
    ((r'.fields = r.fields ∧ r'.body = r.body ∧ (r.body = .chunked ∨ ∃ n, r.body = .length n ∧ (es = true → n = 0)))
     ∨ (es = true ∧ r.body = .empty ∧ r'.body = .length 0 ∧ r'.fields = r.fields ++ [.hdr cContentLength [48]])
     ∨ (es = false ∧ r.body = .empty ∧ r'.body = .chunked ∧ r'.fields = r.fields ++ [.hdr cTransferEncoding sChunked])) := by
  unfold finishFraming at h
  split at h
  · next hes =>
    split at h
    · next n hb =>
      split at h
      · cases h
      · next hn => cases h; exact ⟨rfl, rfl, rfl, rfl, .inl ⟨rfl, rfl, .inr ⟨n, hb, fun _ => by omega⟩⟩⟩
    · next hb => cases h; exact ⟨rfl, rfl, rfl, rfl, .inr (.inl ⟨hes, hb, rfl, rfl⟩)⟩
    · next hb => cases h; exact ⟨rfl, rfl, rfl, rfl, .inl ⟨rfl, rfl, .inl hb⟩⟩
  · next hes =>
    have hes' : es = false := by simpa using hes
    split at h
    · next hb => cases h; exact ⟨rfl, rfl, rfl, rfl, .inr (.inr ⟨hes', hb, rfl, rfl⟩)⟩
    · next hnb =>
      cases h
      refine ⟨rfl, rfl, rfl, rfl, .inl ⟨rfl, rfl, ?_⟩⟩
      cases hb : r.body with
      | empty => exact (hnb hb).elim
      | chunked => exact .inl rfl
      | length n => exact .inr ⟨n, rfl, fun e => by simp [hes'] at e⟩

theorem validate_ok {lim : Limits} {es : Bool} {hl : List (Bytes × Bytes)} {r : Req}
    (h : validateRequest lim es hl = .ok r) :
    ∃ s r0, foldHeaders lim hl {} = .ok s ∧ finishDecode s = .ok r0 ∧ finishFraming es r0 = .ok r := by
  unfold validateRequest decodeRequest at h
  cases hf : foldHeaders lim hl {} with
  | error e => simp [hf] at h
  | ok s =>
    simp only [hf] at h
    cases hd : finishDecode s with
    | error e => simp [hd] at h
    | ok r0 => simp only [hd] at h; exact ⟨s, r0, rfl, hd, h⟩

theorem validate_clean (lim : Limits) (es : Bool) (hl : List (Bytes × Bytes)) (r : Req)
    (h : validateRequest lim es hl = .ok r) : Clean r := by
  obtain ⟨s, r0, hf, hd, hfr⟩ := validate_ok h
  have hc := fold_clean hl VClean.init hf
  obtain ⟨d1, d2, d3, d4, d5, d6⟩ := finishDecode_ok hd
  obtain ⟨f1, f2, f3, f4, f5⟩ := finishFraming_ok hfr
  have hfields : ∀ k v, Field.hdr k v ∈ r.fields → (Field.hdr k v ∈ s.fields) ∨
      (k = cContentLength ∧ v = [48]) ∨ (k = cTransferEncoding ∧ v = sChunked) := by
    intro k v hm
    rcases f5 with ⟨e, _⟩ | ⟨_, _, _, e⟩ | ⟨_, _, _, e⟩
    · rw [e, d4] at hm; exact .inl hm
    · rw [e, d4] at hm
      rcases List.mem_append.mp hm with hm | hm
      · exact .inl hm
      · simp at hm; exact .inr (.inl hm)
    · rw [e, d4] at hm
      rcases List.mem_append.mp hm with hm | hm
      · exact .inl hm
      · simp at hm; exact .inr (.inr hm)
  have hm := hc.method _ d1
  have hp := hc.path _ d2
  have ha := hc.authority _ d3
  have hline : ∀ kv ∈ emitted r, NameOK kv.1 ∧ ValueOK kv.2 := by
    intro kv hkv
    simp only [emitted, List.mem_cons] at hkv
    rcases hkv with rfl | hkv
    · have hn : NameOK cHost := ⟨by decide, by decide⟩
      refine ⟨hn, ?_⟩
      show ValueOK r.host
      rw [f3]; exact valueOK_of_pseudo ha.2
    · rcases emitFields_mem _ _ _ hkv with ⟨k, v, hmem, rfl⟩ | ⟨e1, cs, hcs, e2⟩
      · rcases hfields k v hmem with hmem' | ⟨rfl, rfl⟩ | ⟨rfl, rfl⟩
        · have := hc.fields k v hmem'; exact ⟨this.1, this.2.2.1⟩
        · have hn : NameOK cContentLength := ⟨by decide, by decide⟩
          have hv : ValueOK [48] := by decide
          exact ⟨hn, hv⟩
        · have hn : NameOK cTransferEncoding := ⟨by decide, by decide⟩
          have hv : ValueOK sChunked := by decide
          exact ⟨hn, hv⟩
      · have hn : NameOK cCookie := ⟨by decide, by decide⟩
        refine ⟨by rw [e1]; exact hn, ?_⟩
        rw [e2]
        apply joinCrumbs_ok
        intro c hcm
        have := hcs c hcm
        rw [f4, d5] at this
        have := hc.jar c this
        exact ⟨this.1, this.2.1⟩
  exact
    { method_ne := by rw [f1]; exact hm.1, method_tok := by rw [f1]; exact hm.2,
      target_ne := by rw [f2]; exact hp.1, target_ok := by rw [f2]; exact hp.2.1,
      host_ne := by rw [f3]; exact ha.1, host_ok := by rw [f3]; exact ha.2,
      names := fun kv hkv => (hline kv hkv).1, values := fun kv hkv => (hline kv hkv).2,
      client_lower := by
        intro k v hmem
        rcases hfields k v hmem with hmem' | h2 | h3
        · exact .inl (hc.fields k v hmem').2.1
        · exact .inr (.inl h2)
        · exact .inr (.inr h3) }

theorem step_body_shape {lim : Limits} {s s' : VS} {kv : Bytes × Bytes} (hb : s.body ≠ .chunked)
    (h : stepHeader lim s kv = .ok s') : s'.body ≠ .chunked := by
  rcases perHeader_cases (stepHeader_ok h).2 with ⟨_, _, _, _, _, rfl⟩ | ⟨_, _, _, rfl⟩ | ⟨_, _, _, _, _, rfl⟩ | ⟨_, _, _, _, _, rfl⟩ |
    ⟨_, _, hc⟩ | ⟨_, _, _, rfl | rfl⟩ | ⟨_, _, _, hw⟩
  · exact hb
  · exact hb
  · exact hb
  · exact hb
  · have := (cookieLoop_core _ _ _ _ _ hc).2.2.2.2.2.1; rw [this]; exact hb
  · exact hb
  · exact hb
  · rcases (writeRegular_ok hw).2.2.2.2.2.2.2.2.2.2 with ⟨_, e, _⟩ | ⟨_, _, _, e, _⟩
    · rw [e]; exact hb
    · rw [e]; simp

theorem validate_framing (lim : Limits) (es : Bool) (hl : List (Bytes × Bytes)) (r : Req)
    (h : validateRequest lim es hl = .ok r) : (es = true → r.body = .length 0) ∧ r.body ≠ .empty := by
  obtain ⟨s, r0, hf, hd, hfr⟩ := validate_ok h
  have hs : s.body ≠ .chunked :=
    foldHeaders_pres (fun s => s.body ≠ .chunked) (fun _ _ _ hp hs => step_body_shape hp hs) hl (by simp) hf
  obtain ⟨_, _, _, _, _, d6⟩ := finishDecode_ok hd
  obtain ⟨_, _, _, _, f5⟩ := finishFraming_ok hfr
  rcases f5 with ⟨_, e, hsh⟩ | ⟨e1, _, e, _⟩ | ⟨e1, _, e, _⟩
  · rcases hsh with hsh | ⟨n, hn, hz⟩
    · rw [d6] at hsh; exact (hs hsh).elim
    · rw [e, hn]; exact ⟨fun he => by rw [hz he], by simp⟩
  · rw [e]; exact ⟨fun _ => rfl, by simp⟩
  · rw [e]; exact ⟨fun he => by simp [e1] at he, by simp⟩

-- ---------------------------------------------------------------- trailers --

theorem trailerFold_clean (lim : Limits) (maxDecoded : Nat) (hl : List (Bytes × Bytes)) :
    ∀ (st : Nat × Nat × List (Bytes × Bytes)) (t : List (Bytes × Bytes)),
      (∀ kv ∈ st.2.2, LineOK kv ∧ kv.1 ∉ Consts.hdrTrailerElided) →
      trailerFold lim maxDecoded hl st = .ok t → ∀ kv ∈ t, LineOK kv ∧ kv.1 ∉ Consts.hdrTrailerElided := by
  induction hl with
  | nil => intro st t hst h; simp [trailerFold] at h; subst h; exact hst
  | cons x tl ih =>
    intro st t hst h
    simp only [trailerFold] at h
    cases hs : trailerStep lim maxDecoded st x with
    | error e => simp [hs] at h
    | ok st' =>
      simp only [hs] at h
      refine ih st' t ?_ h
      unfold trailerStep at hs
      simp only at hs
      split at hs; · cases hs
      split at hs; · cases hs
      split at hs; · cases hs
      next hhead =>
      split at hs
      · cases hs
      · next hcl =>
        obtain ⟨kne, kname, _, vok⟩ := classifyHeader_none hcl
        split at hs
        · cases hs; exact hst
        · next hel =>
          cases hs
          intro kv hkv
          rcases List.mem_append.mp hkv with hkv | hkv
          · exact hst kv hkv
          · simp only [List.mem_cons, List.mem_nil_iff, or_false] at hkv
            rw [hkv]
            have hv : hasInvalidNameByte x.1 = false := by
              rcases kname with e | e
              · simp [e] at hhead
              · exact e
            obtain ⟨n1, _⟩ := name_of_valid kne hv
            refine ⟨⟨n1.1, n1.2, ?_⟩, by simpa using hel⟩
            intro b hb
            have hnb := vok b hb
            cases hfv : isFieldValueByte b with
            | true => rfl
            | false =>
              exfalso
              simp only [isFieldValueByte, Bool.or_eq_false_iff, beq_eq_false_iff_ne, ne_eq,
                Bool.and_eq_false_iff, decide_eq_false_iff_not, Nat.not_le, bne_eq_false_iff_eq] at hfv
              have hsmall : ∀ c, c < 32 → c ≠ 9 → isBadValueByte c = true := by decide
              rcases hfv.2 with hlt | he
              · have := hsmall b hlt hfv.1; simp [hnb] at this
              · subst he; simp [isBadValueByte, isCtlValueByte, Consts.hdrValueCtlImmediate] at hnb

theorem trailer_clean (lim : Limits) (hl t : List (Bytes × Bytes)) (h : handleTrailer lim true hl = .ok t) :
    ∀ kv ∈ t, LineOK kv ∧ kv.1 ∉ Consts.hdrTrailerElided := by
  unfold handleTrailer at h
  simp only [Bool.not_true, Bool.false_eq_true, ↓reduceIte] at h
  exact trailerFold_clean lim _ hl _ t (by simp) h

-- ============================================== accepted ⇒ well-formed ==

theorem foldHeaders_pres_mem {lim : Limits} (P : VS → Prop) (hl : List (Bytes × Bytes)) :
    ∀ (all : List (Bytes × Bytes)), (∀ kv ∈ hl, kv ∈ all) →
      (∀ s s' kv, kv ∈ all → P s → stepHeader lim s kv = .ok s' → P s') →
      ∀ {s s' : VS}, P s → foldHeaders lim hl s = .ok s' → P s' := by
  induction hl with
  | nil => intro all _ _ s s' hp h; simp [foldHeaders] at h; subst h; exact hp
  | cons kv tl ih =>
    intro all hsub hP s s' hp h
    simp only [foldHeaders] at h
    cases hs : stepHeader lim s kv with
    | error r => simp [hs] at h
    | ok s1 =>
      simp only [hs] at h
      exact ih all (fun x hx => hsub x (by simp [hx])) hP (hP s s1 kv (hsub kv (by simp)) hp hs) h

theorem fieldValue_of_ok {v : Bytes} (h : ValueOK v) : ∀ b ∈ v, isFieldValueByte b = true := by
  intro b hb
  have hnb := h b hb
  cases hfv : isFieldValueByte b with
  | true => rfl
  | false =>
    exfalso
    simp only [isFieldValueByte, Bool.or_eq_false_iff, beq_eq_false_iff_ne, ne_eq,
      Bool.and_eq_false_iff, decide_eq_false_iff_not, Nat.not_le, bne_eq_false_iff_eq] at hfv
    have hsmall : ∀ c, c < 32 → c ≠ 9 → isBadValueByte c = true := by decide
    rcases hfv.2 with hlt | he
    · have := hsmall b hlt hfv.1; simp [hnb] at this
    · subst he; simp [isBadValueByte, isCtlValueByte, Consts.hdrValueCtlImmediate] at hnb

theorem target_of_pseudo {p : Bytes} (h : ∀ b ∈ p, isBadPseudoByte b = false) (hsp : 32 ∉ p) :
    ∀ b ∈ p, isTargetByte b = true := by
  intro b hb
  have hnb := h b hb
  have hsmall : ∀ c, c < 32 → isBadPseudoByte c = true := by decide
  have h127 : isBadPseudoByte 127 = true := by decide
  simp only [isTargetByte, Bool.and_eq_true, decide_eq_true_eq, bne_iff_ne, ne_eq]
  refine ⟨?_, ?_⟩
  · by_cases hlt : b < 32
    · have := hsmall b hlt; simp [hnb] at this
    · have : b ≠ 32 := fun e => hsp (e ▸ hb)
      omega
  · intro e; subst e; simp [hnb] at h127

/-- `(name, trimmed value)` of a header block -/
def pairOf : Field → Option (Bytes × Bytes)
  | .hdr k v => some (k, trimOws v)
  | .cookies => none

theorem named_emitFields (n : Bytes) (hn : eqNoCase cCookie n = false) (fs : List Field) (jar : List Crumb) :
    named n (readBack (emitFields fs jar)) = (fs.filter (isHdrNamed n)).filterMap pairOf := by
  induction fs generalizing jar with
  | nil => simp [emitFields, readBack, named]
  | cons f tl ih =>
    cases f with
    | hdr k v =>
      have := ih jar
      simp only [named, readBack] at this
      simp only [emitFields, readBack, named, List.map_cons, List.filter_cons, isHdrNamed]
      by_cases hk : eqNoCase k n = true
      · simp [hk, pairOf, this]
      · simp [hk, this]
    | cookies =>
      simp only [emitFields]
      split
      · have := ih jar
        simpa [List.filter_cons, isHdrNamed] using this
      · have := ih []
        simp only [named, readBack] at this
        simp [readBack, named, List.filter_cons, isHdrNamed, hn, this]

theorem trimOws_digits {v : Bytes} (h : v.all isDigit = true) : trimOws v = v := by
  have hno : ∀ b ∈ v, isOws b = false := by
    intro b hb
    have := List.all_eq_true.mp h b hb
    simp only [isDigit, Bool.and_eq_true, decide_eq_true_eq] at this
    simp only [isOws, Bool.or_eq_false_iff, beq_eq_false_iff_ne, ne_eq]
    omega
  have hd : ∀ l : Bytes, (∀ b ∈ l, isOws b = false) → l.dropWhile isOws = l := by
    intro l hl
    cases l with
    | nil => rfl
    | cons a t => simp [List.dropWhile, hl a (by simp)]
  unfold trimOws
  rw [hd v hno, hd v.reverse (by intro b hb; exact hno b (by simpa using hb))]
  simp

/-- no `content-length` seen yet -/
def NoCL (s : VS) : Prop := s.body = .empty ∧ ∀ f ∈ s.fields, isHdrNamed sContentLength f = false
/-- exactly one `content-length` seen -/
def OneCL (k v : Bytes) (s : VS) : Prop :=
  s.body = .length (decVal v) ∧ v ≠ [] ∧ v.all isDigit = true ∧ s.fields.filter (isHdrNamed sContentLength) = [.hdr k v]

theorem step_noncl {lim : Limits} {s s' : VS} {kv : Bytes × Bytes} (hk : eqNoCase kv.1 sContentLength = false)
    (h : stepHeader lim s kv = .ok s') :
    s'.body = s.body ∧ ∃ extra, s'.fields = s.fields ++ extra ∧ ∀ f ∈ extra, isHdrNamed sContentLength f = false := by
  rcases perHeader_cases (stepHeader_ok h).2 with ⟨_, _, _, _, _, rfl⟩ | ⟨_, _, _, rfl⟩ | ⟨_, _, _, _, _, rfl⟩ | ⟨_, _, _, _, _, rfl⟩ |
    ⟨_, _, hc⟩ | ⟨_, _, _, rfl | rfl⟩ | ⟨_, _, _, hw⟩
  · exact ⟨rfl, [], by simp, by simp⟩
  · exact ⟨rfl, [], by simp, by simp⟩
  · exact ⟨rfl, [], by simp, by simp⟩
  · exact ⟨rfl, [], by simp, by simp⟩
  · obtain ⟨⟨extra, he, hx⟩, _⟩ := cookieLoop_adds _ _ _ _ _ hc
    have := (cookieLoop_core _ _ _ _ _ hc).2.2.2.2.2.1
    exact ⟨by simpa using this, extra, by simpa using he, fun f hf => by rw [hx f hf]; rfl⟩
  · exact ⟨rfl, [], by simp, by simp⟩
  · exact ⟨rfl, [], by simp, by simp⟩
  · obtain ⟨w1, _, _, _, _, _, _, _, _, _, w9⟩ := writeRegular_ok hw
    rcases w9 with ⟨_, hb, hfld⟩ | ⟨hk', _⟩
    · exact ⟨by simpa using hb, [.hdr kv.1 kv.2], by simpa using hfld, by
        intro f hf; simp at hf; subst hf; simpa [isHdrNamed] using hk⟩
    · simp [hk] at hk'

theorem noCL_step {lim : Limits} {s s' : VS} {kv : Bytes × Bytes} (hk : eqNoCase kv.1 sContentLength = false)
    (hp : NoCL s) (h : stepHeader lim s kv = .ok s') : NoCL s' := by
  obtain ⟨hb, extra, he, hx⟩ := step_noncl hk h
  refine ⟨by rw [hb]; exact hp.1, ?_⟩
  intro f hf
  rw [he] at hf
  rcases List.mem_append.mp hf with hf | hf
  · exact hp.2 f hf
  · exact hx f hf

theorem oneCL_step {lim : Limits} {s s' : VS} {kv : Bytes × Bytes} {k v : Bytes}
    (hk : eqNoCase kv.1 sContentLength = false) (hp : OneCL k v s) (h : stepHeader lim s kv = .ok s') : OneCL k v s' := by
  obtain ⟨hb, extra, he, hx⟩ := step_noncl hk h
  refine ⟨by rw [hb]; exact hp.1, hp.2.1, hp.2.2.1, ?_⟩
  rw [he, List.filter_append, hp.2.2.2]
  have : extra.filter (isHdrNamed sContentLength) = [] := by
    simp only [List.filter_eq_nil_iff, Bool.not_eq_true]
    exact hx
  simp [this]

/-- the content-length bookkeeping is an invariant of every step: either none
    was seen, or exactly one `content-length` line has been written (an equal
    duplicate is dropped, a differing one rejects) -/
theorem cl_step {lim : Limits} {s s' : VS} {kv : Bytes × Bytes}
    (hp : NoCL s ∨ ∃ k v, OneCL k v s) (h : stepHeader lim s kv = .ok s') : NoCL s' ∨ ∃ k v, OneCL k v s' := by
  by_cases hk : eqNoCase kv.1 sContentLength = true
  · obtain ⟨c1, c2, c3, c4, c5, _⟩ := step_cl (k := kv.1) (v := kv.2) hk h
    rcases hp with hno | ⟨k, v, hone⟩
    · rcases c5 with ⟨_, e⟩ | ⟨e, _⟩
      · refine .inr ⟨kv.1, kv.2, c1, c2, c3, ?_⟩
        rw [e, List.filter_append]
        have : s.fields.filter (isHdrNamed sContentLength) = [] := by
          simp only [List.filter_eq_nil_iff, Bool.not_eq_true]; exact hno.2
        simp [this, isHdrNamed, hk]
      · rw [hno.1] at e; cases e
    · have hd := c4 _ hone.1
      rcases c5 with ⟨e, _⟩ | ⟨_, e⟩
      · exact (e (by rw [hone.1, hd])).elim
      · exact .inr ⟨k, v, by rw [c1, hd], hone.2.1, hone.2.2.1, by rw [e]; exact hone.2.2.2⟩
  · have hk' : eqNoCase kv.1 sContentLength = false := by simpa using hk
    rcases hp with hno | ⟨k, v, hone⟩
    · exact .inl (noCL_step hk' hno h)
    · exact .inr ⟨k, v, oneCL_step hk' hone h⟩

theorem fold_cl {lim : Limits} (hl : List (Bytes × Bytes)) (s : VS)
    (h : foldHeaders lim hl {} = .ok s) : NoCL s ∨ ∃ k v, OneCL k v s :=
  foldHeaders_pres (fun s => NoCL s ∨ ∃ k v, OneCL k v s) (fun _ _ _ hp hs => cl_step hp hs) hl
    (.inl ⟨rfl, by simp⟩) h

theorem validate_wf (lim : Limits) (es : Bool) (hl : List (Bytes × Bytes)) (r : Req)
    (h : validateRequest lim es hl = .ok r) : WF r := by
  have hclean := validate_clean lim es hl r h
  obtain ⟨s, r0, hf, hd, hfr⟩ := validate_ok h
  have hc := fold_clean hl VClean.init hf
  obtain ⟨d1, d2, d3, d4, d5, d6⟩ := finishDecode_ok hd
  obtain ⟨f1, f2, f3, f4, f5⟩ := finishFraming_ok hfr
  have hs : s.body ≠ .chunked :=
    foldHeaders_pres (fun s => s.body ≠ .chunked) (fun _ _ _ hp hs => step_body_shape hp hs) hl (by simp) hf
  -- target without SP
  have htarget : ∀ b ∈ r.target, isTargetByte b = true := by
    have hp := hc.path _ d2
    rw [f2]
    exact target_of_pseudo hp.2.1 hp.2.2
  -- no Host / Transfer-Encoding among the client's fields
  have hnoHost : s.fields.filter (isHdrNamed sHost) = [] := by
    simp only [List.filter_eq_nil_iff, Bool.not_eq_true]
    intro f hfm
    cases f with
    | cookies => rfl
    | hdr k v => simpa [isHdrNamed] using (hc.fields k v hfm).2.2.2.1
  have hnoTE : s.fields.filter (isHdrNamed sTransferEncoding) = [] := by
    simp only [List.filter_eq_nil_iff, Bool.not_eq_true]
    intro f hfm
    cases f with
    | cookies => rfl
    | hdr k v => simpa [isHdrNamed] using (hc.fields k v hfm).2.2.2.2
  have ck1 : eqNoCase cCookie sHost = false := by decide
  have ck2 : eqNoCase cCookie sTransferEncoding = false := by decide
  have ck3 : eqNoCase cCookie sContentLength = false := by decide
  have hn1 : ∀ fs : List Field, named sHost (readBack (emitted { r with fields := fs })) =
      (cHost, trimOws r.host) :: (fs.filter (isHdrNamed sHost)).filterMap pairOf := by
    intro fs
    have := named_emitFields sHost ck1 fs r.jar
    simp only [named, readBack] at this
    simp [emitted, readBack, named, this, show eqNoCase cHost sHost = true by decide]
  have hn2 : ∀ (n : Bytes), eqNoCase cHost n = false → eqNoCase cCookie n = false →
      named n (readBack (emitted r)) = (r.fields.filter (isHdrNamed n)).filterMap pairOf := by
    intro n h1 h2
    have := named_emitFields n h2 r.fields r.jar
    simp only [named, readBack] at this
    simp [emitted, readBack, named, this, h1]
  have hTE := hn2 sTransferEncoding (by decide) ck2
  have hCL := hn2 sContentLength (by decide) ck3
  have hHost : (named sHost (readBack (emitted r))).length = 1 := by
    have := hn1 r.fields
    rw [show ({ r with fields := r.fields } : Req) = r from rfl] at this
    rw [this]
    have : r.fields.filter (isHdrNamed sHost) = [] := by
      rcases f5 with ⟨e, _⟩ | ⟨_, _, _, e⟩ | ⟨_, _, _, e⟩
      · rw [e, d4]; exact hnoHost
      · rw [e, d4, List.filter_append, hnoHost]; decide
      · rw [e, d4, List.filter_append, hnoHost]; decide
    simp [this]
  refine
    { method_ne := hclean.method_ne, method_tok := hclean.method_tok, target_ne := hclean.target_ne,
      target_ok := htarget,
      lines_ok := fun kv hkv => ⟨(hclean.names kv hkv).1, (hclean.names kv hkv).2, fieldValue_of_ok (hclean.values kv hkv)⟩,
      one_host := hHost, framing := ?_ }
  unfold framingOf
  rw [hTE, hCL]
  rcases fold_cl hl s hf with hno | ⟨k, v, hone⟩
  · -- no content-length: sozu adds exactly one framing header
    have hnoCL : s.fields.filter (isHdrNamed sContentLength) = [] := by
      simp only [List.filter_eq_nil_iff, Bool.not_eq_true]; exact hno.2
    rcases f5 with ⟨_, _, hsh⟩ | ⟨_, _, eb, e⟩ | ⟨_, _, eb, e⟩
    · rcases hsh with hsh | ⟨n, hn, _⟩
      · rw [d6] at hsh; exact (hs hsh).elim
      · rw [d6, hno.1] at hn; cases hn
    · rw [e, d4, List.filter_append, List.filter_append, hnoTE, hnoCL, eb]
      decide
    · rw [e, d4, List.filter_append, List.filter_append, hnoTE, hnoCL, eb]
      decide
  · -- one content-length line on the wire, nothing added
    rcases f5 with ⟨e, eb, _⟩ | ⟨_, eb0, _, _⟩ | ⟨_, eb0, _, _⟩
    · rw [e, d4, hnoTE, hone.2.2.2, eb, d6, hone.1]
      simp only [List.filterMap_nil, List.filterMap_cons, pairOf, trimOws_digits hone.2.2.1]
      have hne := hone.2.1
      have : v.isEmpty = false := by
        cases hv : v with
        | nil => exact (hne hv).elim
        | cons a t => rfl
      simp [this, hone.2.2.1, toFraming]
    · rw [d6, hone.1] at eb0; cases eb0
    · rw [d6, hone.1] at eb0; cases eb0

-- ===================================================== trailers, as intended ==

/-- the body bytes RFC 9112 asks for when a request ends with trailers: the
    last-chunk line before the trailer section on a chunked body; no trailer
    section after a Content-Length body (HTTP/1.1 cannot carry one there) -/
def intendedBody (r : Req) (chunks : List Bytes) (trailers : List (Bytes × Bytes)) : Bytes :=
  match r.body with
  | .chunked => encodeChunks chunks ++ [48] ++ crlf ++ trailers.flatMap headerLine ++ crlf
  | _ => chunks.flatten

/-- what sozu understood of a request ending with trailers `t` -/
def understoodT (r : Req) (chunks : List Bytes) (t : List (Bytes × Bytes)) : Parsed :=
  { method := r.method, target := r.target, minor := 1, headers := readBack (emitted r),
    chunked := r.body == .chunked, body := chunks.flatten,
    trailers := if r.body == .chunked then readBack t else [] }

theorem readChunks_encoded_trailers (chunks : List Bytes) (t : List (Bytes × Bytes)) (rest : Bytes)
    (ht : ∀ kv ∈ t, LineOK kv) :
    ∀ fuel, (chunks.filter (fun c => !c.isEmpty)).length < fuel →
      readChunks fuel (encodeChunks chunks ++ [48] ++ crlf ++ t.flatMap headerLine ++ crlf ++ rest)
        = some (chunks.flatten, readBack t, rest) := by
  induction chunks with
  | nil =>
    intro fuel hf
    cases fuel with
    | zero => simp at hf
    | succ n =>
      have e : encodeChunks [] ++ [48] ++ crlf ++ t.flatMap headerLine ++ crlf ++ rest
          = [48] ++ 13 :: 10 :: (t.flatMap headerLine ++ crlf ++ rest) := by simp [encodeChunks, crlf]
      rw [e]
      unfold readChunks
      rw [untilCrlf_line [48] _ (by decide)]
      have hz : hexVal [48] = 0 := by decide
      have h1 : ([48] : Bytes).isEmpty = false := rfl
      have h2 : ([48] : Bytes).all isHexDigit = true := by decide
      simp only [h1, h2, hz, Bool.not_true, Bool.or_self, Bool.false_eq_true, ↓reduceIte, beq_self_eq_true]
      rw [readFields_lines t rest ht _ (by
        have := flatMap_headerLine_length t
        simp only [List.length_append]; omega)]
      simp
  | cons c tl ih =>
    intro fuel hf
    by_cases hc : c = []
    · subst hc
      simp only [encodeChunks, List.isEmpty_nil, ↓reduceIte, List.nil_append, List.flatten_cons]
      exact ih fuel (by simpa using hf)
    · cases fuel with
      | zero => simp at hf
      | succ n =>
        have hce : c.isEmpty = false := by cases c <;> simp_all
        have e : encodeChunks (c :: tl) ++ [48] ++ crlf ++ t.flatMap headerLine ++ crlf ++ rest
            = hexOf c.length ++ 13 :: 10 :: (c ++ (13 :: 10 ::
                (encodeChunks tl ++ [48] ++ crlf ++ t.flatMap headerLine ++ crlf ++ rest))) := by
          simp [encodeChunks, hce, crlf]
        rw [e]
        unfold readChunks
        rw [untilCrlf_line _ _ (fun b hb => (hexOf_all_hex _ b hb).2)]
        have h1 : (hexOf c.length).isEmpty = false := by
          have := hexOf_ne_nil c.length
          cases h : hexOf c.length <;> simp_all
        have h2 : (hexOf c.length).all isHexDigit = true := by
          simp only [List.all_eq_true]; exact fun b hb => (hexOf_all_hex _ b hb).1
        have h3 : c.length ≠ 0 := by cases c <;> simp_all
        simp only [h1, h2, hexVal_hexOf, Bool.not_true, Bool.or_self, Bool.false_eq_true, ↓reduceIte,
          beq_iff_eq, h3]
        have h4 : ¬ (c ++ 13 :: 10 :: (encodeChunks tl ++ [48] ++ crlf ++ t.flatMap headerLine ++ crlf ++ rest)).length
            < c.length := by simp
        simp only [h4, ↓reduceIte]
        rw [List.drop_left, List.take_left]
        simp only
        rw [ih n (by simp [hce] at hf; omega)]
        simp

/-- the strict reader on header section + the intended body with trailers -/
theorem parseStrict_intended (r : Req) (chunks : List Bytes) (t : List (Bytes × Bytes)) (rest : Bytes)
    (h : WF r) (hb : BodyFits r chunks) (ht : ∀ kv ∈ t, LineOK kv) :
    parseStrict (serializeH1 r ++ intendedBody r chunks t ++ rest) = some (understoodT r chunks t, rest) := by
  cases hbody : r.body with
  | chunked =>
    rw [List.append_assoc, serialize_split]
    unfold parseStrict
    rw [untilCrlf_line _ _ (requestLine_no_eol _ _ h.method_tok h.target_ok)]
    simp only
    rw [parseRequestLine_line _ _ h.method_ne h.method_tok h.target_ne h.target_ok]
    simp only
    rw [readFields_lines (emitted r) _ h.lines_ok _ (by
      have := flatMap_headerLine_length (emitted r)
      simp only [List.length_append]; omega)]
    simp only [h.one_host, bne_self_eq_false, Bool.false_eq_true, ↓reduceIte, h.framing, hbody, toFraming]
    unfold intendedBody understoodT
    simp only [hbody]
    rw [readChunks_encoded_trailers chunks t rest ht _ (by
      have := encodeChunks_length chunks
      simp only [List.length_append]; omega)]
    simp
  | empty =>
    have := parseStrict_wire r chunks rest h hb
    simp only [wire, wireBody, hbody] at this
    simpa [intendedBody, understoodT, understood, hbody] using this
  | length n =>
    have := parseStrict_wire r chunks rest h hb
    simp only [wire, wireBody, hbody] at this
    simpa [intendedBody, understoodT, understood, hbody] using this

/-- no separator byte in a target the strict reader accepts -/
theorem target_no_separator {r : Req} (h : WF r) :
    ∀ b ∈ r.target, b ≠ 32 ∧ b ≠ 9 ∧ b ≠ 11 ∧ b ≠ 12 ∧ b ≠ 13 ∧ b ≠ 10 ∧ b ≠ 0 ∧ b ≠ 127 := by
  intro b hb
  have := h.target_ok b hb
  simp only [isTargetByte, Bool.and_eq_true, decide_eq_true_eq, bne_iff_ne, ne_eq] at this
  omega

theorem parseStrict_trailers_of_fix (r : Req) (chunks : List Bytes) (t : List (Bytes × Bytes)) (rest : Bytes)
    (h : WF r) (hb : BodyFits r chunks) (ht : ∀ kv ∈ t, LineOK kv)
    (hfix : wireBody r chunks (some t) = intendedBody r chunks t) :
    parseStrict (serializeH1 r ++ wireBody r chunks (some t) ++ rest) = some (understoodT r chunks t, rest) := by
  rw [hfix]; exact parseStrict_intended r chunks t rest h hb ht

/-- a whole connection: every accepted HTTP/2 request with a fitting body, in order -/
theorem parseAll_accepted (lim : Limits) (reqs : List (Bool × List (Bytes × Bytes) × Req × List Bytes))
    (h : ∀ q ∈ reqs, validateRequest lim q.1 q.2.1 = .ok q.2.2.1 ∧ BodyFits q.2.2.1 q.2.2.2) :
    parseAll (reqs.flatMap fun q => wire q.2.2.1 q.2.2.2) = (reqs.map fun q => understood q.2.2.1 q.2.2.2, []) := by
  have := parseAll_wires (reqs.map fun q => (q.2.2.1, q.2.2.2)) (by
    intro rc hrc
    simp only [List.mem_map] at hrc
    obtain ⟨q, hq, rfl⟩ := hrc
    exact ⟨validate_wf lim q.1 q.2.1 q.2.2.1 (h q hq).1, (h q hq).2⟩)
  simpa [List.flatMap_map, List.map_map, Function.comp_def] using this

/-- storage exhaustion is a pure additional rejection -/
theorem validateS_ok {lim : Limits} {cap : Nat} {es : Bool} {hl : List (Bytes × Bytes)} {r : Req}
    (h : validateRequestS lim cap es hl = .ok r) : validateRequest lim es hl = .ok r := by
  unfold validateRequestS at h
  split at h
  · cases h
  · exact h

theorem handleTrailerS_ok {lim : Limits} {cap used : Nat} {es : Bool} {hl t : List (Bytes × Bytes)}
    (h : handleTrailerS lim cap used es hl = .ok t) : handleTrailer lim es hl = .ok t := by
  unfold handleTrailerS at h
  split at h
  · cases h
  · exact h

-- ------------------------------------------------ HTTP/2 response arm --

/-- what the response fold keeps true: the status is a three-digit `:status`
    value of the block, every stored field is one of the block's headers -/
def RespInv (hl : List (Bytes × Bytes)) (s : VS) : Prop :=
  (∀ st, s.method = some st → st.length = 3 ∧ st.all isDigit = true ∧ ∃ kv ∈ hl, eqNoCase kv.1 sStatus = true ∧ kv.2 = st) ∧
  (∀ f ∈ s.fields, ∃ kv ∈ hl, f = Field.hdr kv.1 kv.2 ∧ kv.1.head? ≠ some 58)

theorem respStep_inv {lim : Limits} {hl : List (Bytes × Bytes)} {s s' : VS} {kv : Bytes × Bytes} (hm : kv ∈ hl)
    (hi : RespInv hl s) (h : stepHeaderResp lim s kv = .ok s') : RespInv hl s' := by
  unfold stepHeaderResp at h
  simp only at h
  split at h; · cases h
  split at h; · cases h
  split at h
  · cases h
  · unfold perHeaderResp at h
    split at h
    · next hk =>
      split at h; · cases h
      next hv =>
      obtain ⟨x, hx, hs⟩ := map_ok h
      obtain ⟨_, _, c, _, _⟩ := storePseudo_ok hx
      subst c; subst hs
      simp only [Bool.or_eq_true, bne_iff_ne, ne_eq, Bool.not_eq_true', not_or, Decidable.not_not, Bool.not_eq_false] at hv
      refine ⟨?_, hi.2⟩
      intro st hst
      simp at hst; subst hst
      exact ⟨hv.1, hv.2, kv, hm, hk, rfl⟩
    · split at h
      · cases h
      · next hk hhead =>
        obtain ⟨w1, _, w3, _⟩ := writeRegular_ok h
        refine ⟨by rw [w3]; exact hi.1, ?_⟩
        intro f hf
        rcases w1 with w1 | w1
        · rw [w1] at hf
          rcases List.mem_append.mp hf with hf | hf
          · exact hi.2 f hf
          · simp only [List.mem_cons, List.mem_nil_iff, or_false] at hf
            exact ⟨kv, hm, hf, by simpa using hhead⟩
        · rw [w1] at hf; exact hi.2 f hf

theorem respFold_inv {lim : Limits} (all : List (Bytes × Bytes)) (hl : List (Bytes × Bytes)) (hsub : ∀ kv ∈ hl, kv ∈ all) :
    ∀ {s s' : VS}, RespInv all s → foldHeadersResp lim hl s = .ok s' → RespInv all s' := by
  induction hl with
  | nil => intro s s' hi h; simp [foldHeadersResp] at h; subst h; exact hi
  | cons kv tl ih =>
    intro s s' hi h
    simp only [foldHeadersResp] at h
    cases hs : stepHeaderResp lim s kv with
    | error r => simp [hs] at h
    | ok s1 =>
      simp only [hs] at h
      exact ih (fun x hx => hsub x (by simp [hx])) (respStep_inv (hsub kv (by simp)) hi hs) h

theorem response_intact (lim : Limits) (es : Bool) (hl : List (Bytes × Bytes)) (r : Resp)
    (h : validateResponse lim es id hl = .ok r) :
    (r.status.length = 3 ∧ r.status.all isDigit = true ∧ ∃ kv ∈ hl, eqNoCase kv.1 sStatus = true ∧ kv.2 = r.status) ∧
    (∀ f ∈ r.fields, (∃ kv ∈ hl, f = Field.hdr kv.1 kv.2 ∧ kv.1.head? ≠ some 58) ∨
       f = .hdr cContentLength [48] ∨ f = .hdr cTransferEncoding sChunked) := by
  unfold validateResponse at h
  cases hf : foldHeadersResp lim hl {} with
  | error e => simp [hf] at h
  | ok s =>
    simp only [hf] at h
    have hi : RespInv hl s := respFold_inv hl hl (fun _ x => x) ⟨by simp, by simp⟩ hf
    unfold finishResp at h
    cases hm : s.method with
    | none => simp [hm] at h
    | some st =>
      simp only [hm, id] at h
      have hst := hi.1 st hm
      have old : ∀ f ∈ s.fields, (∃ kv ∈ hl, f = Field.hdr kv.1 kv.2 ∧ kv.1.head? ≠ some 58) ∨
          f = .hdr cContentLength [48] ∨ f = .hdr cTransferEncoding sChunked := fun f hf' => .inl (hi.2 f hf')
      have app : ∀ x, ∀ f ∈ s.fields ++ [x], (x = .hdr cContentLength [48] ∨ x = .hdr cTransferEncoding sChunked) →
          (∃ kv ∈ hl, f = Field.hdr kv.1 kv.2 ∧ kv.1.head? ≠ some 58) ∨
          f = .hdr cContentLength [48] ∨ f = .hdr cTransferEncoding sChunked := by
        intro x f hf' hx
        rcases List.mem_append.mp hf' with hf' | hf'
        · exact old f hf'
        · simp only [List.mem_cons, List.mem_nil_iff, or_false] at hf'; subst hf'; exact .inr hx
      split at h
      · split at h
        · split at h
          · cases h
          · cases h; exact ⟨hst, old⟩
        · split at h
          · cases h; exact ⟨hst, old⟩
          · cases h; exact ⟨hst, fun f hf' => app _ f hf' (.inl rfl)⟩
        · cases h; exact ⟨hst, old⟩
      · split at h
        · cases h; exact ⟨hst, fun f hf' => app _ f hf' (.inr rfl)⟩
        · cases h; exact ⟨hst, old⟩

end Sozu.Headers
