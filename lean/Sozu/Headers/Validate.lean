import Sozu.Headers.Lemmas
/-
Definitions used by the C03 statements (`WF`, `wire`, `understood`, `Clean`,
`BadShape`) and their proofs: the strict reader's round trip on what sozu
writes, and the invariants of the validation fold of `handle_header`.
-/
set_option linter.unusedSimpArgs false
set_option linter.unusedVariables false
namespace Sozu.Headers

def toFraming : BodySize → Framing
  | .chunked => .chunked
  | .length n => .length n
  | .empty => .length 0

/-- a request a strict reader can read back: token method, target without
    SP / CTL / DEL, header lines with token names and clean values, exactly one
    `Host`, exactly one framing -/
structure WF (r : Req) : Prop where
  method_ne : r.method ≠ []
  method_tok : ∀ b ∈ r.method, isTchar b = true
  target_ne : r.target ≠ []
  target_ok : ∀ b ∈ r.target, isTargetByte b = true
  lines_ok : ∀ kv ∈ emitted r, LineOK kv
  one_host : (named sHost (readBack (emitted r))).length = 1
  framing : framingOf (readBack (emitted r)) = some (toFraming r.body)

/-- the DATA frames are consistent with the framing sozu chose (for a declared
    length this is what `h2.rs::handle_data_frame` enforces) -/
def BodyFits (r : Req) (chunks : List Bytes) : Prop :=
  match r.body with
  | .length n => chunks.flatten.length = n
  | .empty => chunks.flatten = []
  | .chunked => True

/-- everything sozu writes to an HTTP/1.1 backend for one request ending with END_STREAM on DATA -/
def wire (r : Req) (chunks : List Bytes) : Bytes := serializeH1 r ++ wireBody r chunks none

/-- what sozu understood, in the strict reader's vocabulary -/
def understood (r : Req) (chunks : List Bytes) : Parsed :=
  { method := r.method, target := r.target, minor := 1, headers := readBack (emitted r),
    chunked := r.body == .chunked, body := chunks.flatten, trailers := [] }

theorem serialize_split (r : Req) (tail : Bytes) :
    serializeH1 r ++ tail = (r.method ++ [32] ++ r.target ++ [32] ++ sHttp11) ++
      13 :: 10 :: ((emitted r).flatMap headerLine ++ crlf ++ tail) := by
  simp [serializeH1, requestLine, crlf]

theorem parseStrict_wire (r : Req) (chunks : List Bytes) (rest : Bytes) (h : WF r) (hb : BodyFits r chunks) :
    parseStrict (wire r chunks ++ rest) = some (understood r chunks, rest) := by
  unfold wire
  rw [List.append_assoc, serialize_split]
  unfold parseStrict
  rw [untilCrlf_line _ _ (requestLine_no_eol _ _ h.method_tok h.target_ok)]
  simp only
  rw [parseRequestLine_line _ _ h.method_ne h.method_tok h.target_ne h.target_ok]
  simp only
  rw [readFields_lines (emitted r) _ h.lines_ok _ (by
    have := flatMap_headerLine_length (emitted r)
    simp only [List.length_append]; omega)]
  simp only [h.one_host, bne_self_eq_false, Bool.false_eq_true, ↓reduceIte, h.framing]
  unfold BodyFits at hb
  unfold understood wireBody
  cases hbody : r.body with
  | empty =>
    simp only [hbody] at hb
    simp [toFraming, hb]
  | length n =>
    simp only [hbody] at hb
    simp only [toFraming]
    have : ¬ (chunks.flatten ++ rest).length < n := by simp [hb]
    simp only [this, ↓reduceIte]
    rw [← hb, List.take_left, List.drop_left]
    simp
  | chunked =>
    simp only [toFraming]
    have e : encodeChunks chunks ++ [48] ++ crlf ++ crlf ++ rest
        = encodeChunks chunks ++ [48] ++ crlf ++ crlf ++ rest := rfl
    rw [readChunks_encoded chunks rest _ (by
      have := encodeChunks_length chunks
      simp only [List.length_append]; omega)]
    simp

theorem wire_ne_nil (r : Req) (chunks : List Bytes) : wire r chunks ≠ [] := by
  simp [wire, serializeH1, requestLine, crlf]

theorem parseSeq_wires (rs : List (Req × List Bytes)) (h : ∀ rc ∈ rs, WF rc.1 ∧ BodyFits rc.1 rc.2) :
    ∀ fuel, rs.length < fuel →
      parseSeq fuel (rs.flatMap fun rc => wire rc.1 rc.2) = (rs.map fun rc => understood rc.1 rc.2, []) := by
  induction rs with
  | nil =>
    intro fuel hf
    cases fuel with
    | zero => simp at hf
    | succ n => simp [parseSeq]
  | cons rc tl ih =>
    intro fuel hf
    cases fuel with
    | zero => simp at hf
    | succ n =>
      have hrc := h rc (by simp)
      have htl : ∀ x ∈ tl, WF x.1 ∧ BodyFits x.1 x.2 := fun x hx => h x (by simp [hx])
      rw [List.flatMap_cons]
      unfold parseSeq
      have hne : (wire rc.1 rc.2 ++ tl.flatMap fun rc => wire rc.1 rc.2).isEmpty = false := by
        have := wire_ne_nil rc.1 rc.2
        cases hw : wire rc.1 rc.2 <;> simp_all
      simp only [hne, Bool.false_eq_true, ↓reduceIte]
      rw [parseStrict_wire _ _ _ hrc.1 hrc.2]
      simp only
      rw [ih htl n (by simp at hf; omega)]
      simp

theorem wires_length (rs : List (Req × List Bytes)) :
    rs.length ≤ (rs.flatMap fun rc => wire rc.1 rc.2).length := by
  induction rs with
  | nil => simp
  | cons rc tl ih =>
    rw [List.flatMap_cons, List.length_append, List.length_cons]
    have := wire_ne_nil rc.1 rc.2
    have : 1 ≤ (wire rc.1 rc.2).length := by cases hw : wire rc.1 rc.2 <;> simp_all
    omega

theorem parseAll_wires (rs : List (Req × List Bytes)) (h : ∀ rc ∈ rs, WF rc.1 ∧ BodyFits rc.1 rc.2) :
    parseAll (rs.flatMap fun rc => wire rc.1 rc.2) = (rs.map fun rc => understood rc.1 rc.2, []) := by
  unfold parseAll
  exact parseSeq_wires rs h _ (by have := wires_length rs; omega)

/-- `POST /a` with a cookie, one regular header, chunked -/
def exampleReq : Req :=
  { method := [80, 79, 83, 84], target := [47, 97], host := [97, 46, 98],
    fields := [.cookies, .hdr [120, 45, 97] [49], .hdr cTransferEncoding sChunked],
    jar := [{ key := [107], val := [118] }], body := .chunked }

theorem exampleReq_wf : WF exampleReq :=
  { method_ne := by decide, method_tok := by decide, target_ne := by decide, target_ok := by decide,
    lines_ok := by decide, one_host := by decide, framing := by decide }

end Sozu.Headers
