import Sozu.Headers.Model
import Sozu.Headers.Editor
import Sozu.Headers.Strict
/-
Helper lemmas for the Headers area: byte-class facts (finite tables, by
`decide`), the strict reader's round trip on well-formed lines, and the
invariants of the validation fold.
-/
set_option linter.unusedSimpArgs false
set_option linter.unusedVariables false
namespace Sozu.Headers

-- ---------------------------------------------------------- byte classes --

theorem tchar_mem {b : Nat} (h : isTchar b = true) : b ∈ Consts.hdrTchar := by
  simpa [isTchar] using h

theorem tchar_props : ∀ b ∈ Consts.hdrTchar,
    isEol b = false ∧ b ≠ 32 ∧ b ≠ 58 ∧ isFieldValueByte b = true ∧ isTargetByte b = true := by decide

theorem tchar_not_eol {b : Nat} (h : isTchar b = true) : isEol b = false := (tchar_props b (tchar_mem h)).1
theorem tchar_ne_sp {b : Nat} (h : isTchar b = true) : b ≠ 32 := (tchar_props b (tchar_mem h)).2.1
theorem tchar_ne_colon {b : Nat} (h : isTchar b = true) : b ≠ 58 := (tchar_props b (tchar_mem h)).2.2.1

theorem not_tchar_sp : isTchar 32 = false := by decide
theorem not_tchar_colon : isTchar 58 = false := by decide
theorem not_target_sp : isTargetByte 32 = false := by decide

theorem fieldValue_not_eol {b : Nat} (h : isFieldValueByte b = true) : isEol b = false := by
  simp only [isFieldValueByte, isEol, Bool.or_eq_true, Bool.and_eq_true, beq_iff_eq, decide_eq_true_eq, bne_iff_ne] at h ⊢
  rcases h with h | ⟨h1, _⟩
  · subst h; decide
  · have : b ≠ 13 := by omega
    have : b ≠ 10 := by omega
    simp [*]

theorem target_not_eol {b : Nat} (h : isTargetByte b = true) : isEol b = false := by
  simp only [isTargetByte, isEol, Bool.and_eq_true, decide_eq_true_eq, bne_iff_ne] at h ⊢
  have : b ≠ 13 := by omega
  have : b ≠ 10 := by omega
  simp [*]

-- ----------------------------------------------------------- line split --

theorem untilCrlf_line (line rest : Bytes) (h : ∀ b ∈ line, isEol b = false) :
    untilCrlf (line ++ 13 :: 10 :: rest) = some (line, rest) := by
  have hp : ∀ b ∈ line, (!isEol b) = true := by intro b hb; simp [h b hb]
  unfold untilCrlf
  rw [List.dropWhile_append_of_pos hp, List.takeWhile_append_of_pos hp]
  simp [List.dropWhile, List.takeWhile, isEol]

theorem untilCrlf_blank (rest : Bytes) : untilCrlf (13 :: 10 :: rest) = some ([], rest) := by
  simpa using untilCrlf_line [] rest (by simp)

-- ---------------------------------------------------------- field lines --

theorem trimOws_sp (v : Bytes) : trimOws (32 :: v) = trimOws v := by
  simp [trimOws, List.dropWhile, isOws]

theorem parseFieldLine_line (k v : Bytes) (hk : k ≠ []) (hkt : ∀ b ∈ k, isTchar b = true)
    (hv : ∀ b ∈ v, isFieldValueByte b = true) :
    parseFieldLine (k ++ sColonSp ++ v) = some (k, trimOws v) := by
  unfold parseFieldLine
  have e : k ++ sColonSp ++ v = k ++ (58 :: 32 :: v) := by simp [sColonSp]
  rw [e, List.takeWhile_append_of_pos hkt, List.dropWhile_append_of_pos hkt]
  simp only [List.takeWhile, List.dropWhile, not_tchar_colon, List.append_nil]
  have h1 : k.isEmpty = false := by cases k <;> simp_all
  have h2 : (32 :: v).all isFieldValueByte = true := by
    simp only [List.all_cons, Bool.and_eq_true, List.all_eq_true]
    exact ⟨by decide, hv⟩
  simp [h1, h2, trimOws_sp]

/-- a header line the strict reader accepts as is -/
def LineOK (kv : Bytes × Bytes) : Prop :=
  kv.1 ≠ [] ∧ (∀ b ∈ kv.1, isTchar b = true) ∧ (∀ b ∈ kv.2, isFieldValueByte b = true)

instance (kv : Bytes × Bytes) : Decidable (LineOK kv) := by unfold LineOK; infer_instance

theorem headerLine_split (kv : Bytes × Bytes) (rest : Bytes) :
    headerLine kv ++ rest = (kv.1 ++ sColonSp ++ kv.2) ++ 13 :: 10 :: rest := by
  simp [headerLine, crlf]

theorem line_no_eol (kv : Bytes × Bytes) (h : LineOK kv) : ∀ b ∈ kv.1 ++ sColonSp ++ kv.2, isEol b = false := by
  intro b hb
  simp only [List.mem_append, sColonSp, List.mem_cons, List.mem_nil_iff, or_false] at hb
  rcases hb with (hb | hb | hb) | hb
  · exact tchar_not_eol (h.2.1 b hb)
  · subst hb; decide
  · subst hb; decide
  · exact fieldValue_not_eol (h.2.2 b hb)

def readBack (lines : List (Bytes × Bytes)) : List (Bytes × Bytes) := lines.map fun kv => (kv.1, trimOws kv.2)

theorem readFields_lines (lines : List (Bytes × Bytes)) (rest : Bytes) (h : ∀ kv ∈ lines, LineOK kv) :
    ∀ fuel, lines.length < fuel →
      readFields fuel (lines.flatMap headerLine ++ crlf ++ rest) = some (readBack lines, rest) := by
  induction lines with
  | nil =>
    intro fuel hf
    cases fuel with
    | zero => omega
    | succ n => simp [readFields, crlf, untilCrlf_blank, readBack]
  | cons kv tl ih =>
    intro fuel hf
    cases fuel with
    | zero => simp at hf
    | succ n =>
      have hkv := h kv (by simp)
      have htl : ∀ x ∈ tl, LineOK x := fun x hx => h x (by simp [hx])
      have e : (kv :: tl).flatMap headerLine ++ crlf ++ rest
          = (kv.1 ++ sColonSp ++ kv.2) ++ 13 :: 10 :: (tl.flatMap headerLine ++ crlf ++ rest) := by
        simp [List.flatMap_cons, headerLine, crlf]
      rw [e]
      unfold readFields
      rw [untilCrlf_line _ _ (line_no_eol kv hkv)]
      have hne : (kv.1 ++ sColonSp ++ kv.2).isEmpty = false := by
        have := hkv.1
        cases hk : kv.1 <;> simp_all
      simp only [hne, Bool.false_eq_true, ↓reduceIte]
      rw [parseFieldLine_line kv.1 kv.2 hkv.1 hkv.2.1 hkv.2.2]
      simp only
      rw [ih htl n (by simp at hf; omega)]
      simp [readBack]

theorem flatMap_headerLine_length (lines : List (Bytes × Bytes)) :
    lines.length ≤ (lines.flatMap headerLine).length := by
  induction lines with
  | nil => simp
  | cons kv tl ih =>
    rw [List.flatMap_cons, List.length_append, List.length_cons]
    have : 1 ≤ (headerLine kv).length := by simp [headerLine, sColonSp, crlf]; omega
    omega

-- ---------------------------------------------------------- request line --

theorem parseRequestLine_line (m t : Bytes) (hm : m ≠ []) (hmt : ∀ b ∈ m, isTchar b = true)
    (ht : t ≠ []) (htt : ∀ b ∈ t, isTargetByte b = true) :
    parseRequestLine (m ++ [32] ++ t ++ [32] ++ sHttp11) = some (m, t, 1) := by
  unfold parseRequestLine
  have e : m ++ [32] ++ t ++ [32] ++ sHttp11 = m ++ (32 :: (t ++ (32 :: sHttp11))) := by simp
  rw [e, List.takeWhile_append_of_pos hmt, List.dropWhile_append_of_pos hmt]
  simp only [List.takeWhile, List.dropWhile, not_tchar_sp, List.append_nil]
  rw [List.takeWhile_append_of_pos htt, List.dropWhile_append_of_pos htt]
  have h1 : m.isEmpty = false := by cases m <;> simp_all
  have h2 : t.isEmpty = false := by cases t <;> simp_all
  simp [List.takeWhile, List.dropWhile, not_target_sp, sHttp11, h1, h2]

theorem requestLine_no_eol (m t : Bytes) (hmt : ∀ b ∈ m, isTchar b = true) (htt : ∀ b ∈ t, isTargetByte b = true) :
    ∀ b ∈ m ++ [32] ++ t ++ [32] ++ sHttp11, isEol b = false := by
  intro b hb
  simp only [List.mem_append, List.mem_cons, List.mem_nil_iff, or_false] at hb
  rcases hb with (((hb | hb) | hb) | hb) | hb
  · exact tchar_not_eol (hmt b hb)
  · subst hb; decide
  · exact target_not_eol (htt b hb)
  · subst hb; decide
  · have : ∀ x ∈ sHttp11, isEol x = false := by decide
    exact this b hb

-- ----------------------------------------------------------------- hex --

theorem hexDigit_props : ∀ d, d < 16 →
    isHexDigit (hexDigit d) = true ∧ hexDigitVal (hexDigit d) = d ∧ isEol (hexDigit d) = false := by decide

theorem hexOf_all_hex (n : Nat) : ∀ b ∈ hexOf n, isHexDigit b = true ∧ isEol b = false := by
  induction n using Nat.strongRecOn with
  | _ n ih =>
    unfold hexOf
    split
    · next h => intro b hb; simp at hb; subst hb; exact ⟨(hexDigit_props n h).1, (hexDigit_props n h).2.2⟩
    · next h =>
      intro b hb
      simp only [List.mem_append, List.mem_cons, List.mem_nil_iff, or_false] at hb
      rcases hb with hb | hb
      · exact ih (n / 16) (by omega) b hb
      · subst hb
        have := hexDigit_props (n % 16) (by omega)
        exact ⟨this.1, this.2.2⟩

theorem hexOf_ne_nil (n : Nat) : hexOf n ≠ [] := by
  unfold hexOf; split <;> simp

theorem hexVal_hexOf (n : Nat) : hexVal (hexOf n) = n := by
  induction n using Nat.strongRecOn with
  | _ n ih =>
    unfold hexOf
    split
    · next h => simp [hexVal, (hexDigit_props n h).2.1]
    · next h =>
      have := ih (n / 16) (by omega)
      simp only [hexVal] at this ⊢
      rw [List.foldl_append, this]
      simp [(hexDigit_props (n % 16) (by omega)).2.1]
      omega

-- -------------------------------------------------------------- chunks --

theorem readChunks_encoded (chunks : List Bytes) (rest : Bytes) :
    ∀ fuel, (chunks.filter (fun c => !c.isEmpty)).length < fuel →
      readChunks fuel (encodeChunks chunks ++ [48] ++ crlf ++ crlf ++ rest) = some (chunks.flatten, [], rest) := by
  induction chunks with
  | nil =>
    intro fuel hf
    cases fuel with
    | zero => simp at hf
    | succ n =>
      have e : encodeChunks [] ++ [48] ++ crlf ++ crlf ++ rest = [48] ++ 13 :: 10 :: (13 :: 10 :: rest) := by
        simp [encodeChunks, crlf]
      rw [e]
      unfold readChunks
      rw [untilCrlf_line [48] _ (by decide)]
      have : hexVal [48] = 0 := by decide
      simp [this, isHexDigit, isDigit, readFields, untilCrlf_blank]
  | cons c tl ih =>
    intro fuel hf
    by_cases hc : c = []
    · subst hc
      simp only [encodeChunks, List.isEmpty_nil, ↓reduceIte, List.nil_append, List.flatten_cons]
      exact ih fuel (by simpa using hf)
    · cases fuel with
      | zero => simp at hf
      | succ n =>
        have hce : c.isEmpty = false := by cases c <;> simp_all
        have e : encodeChunks (c :: tl) ++ [48] ++ crlf ++ crlf ++ rest
            = hexOf c.length ++ 13 :: 10 :: (c ++ (13 :: 10 :: (encodeChunks tl ++ [48] ++ crlf ++ crlf ++ rest))) := by
          simp [encodeChunks, hce, crlf]
        rw [e]
        unfold readChunks
        rw [untilCrlf_line _ _ (fun b hb => (hexOf_all_hex _ b hb).2)]
        have h1 : (hexOf c.length).isEmpty = false := by
          have := hexOf_ne_nil c.length
          cases h : hexOf c.length <;> simp_all
        have h2 : (hexOf c.length).all isHexDigit = true := by
          simp only [List.all_eq_true]; exact fun b hb => (hexOf_all_hex _ b hb).1
        have h3 : c.length ≠ 0 := by cases c <;> simp_all
        simp only [h1, h2, hexVal_hexOf, Bool.not_true, Bool.or_self, Bool.false_eq_true, ↓reduceIte,
          beq_iff_eq, h3]
        have h4 : ¬ (c ++ 13 :: 10 :: (encodeChunks tl ++ [48] ++ crlf ++ crlf ++ rest)).length < c.length := by
          simp
        simp only [h4, ↓reduceIte]
        rw [List.drop_left, List.take_left]
        simp only
        rw [ih n (by simp [hce] at hf; omega)]
        simp

theorem encodeChunks_length (chunks : List Bytes) :
    (chunks.filter (fun c => !c.isEmpty)).length ≤ (encodeChunks chunks).length := by
  induction chunks with
  | nil => simp [encodeChunks]
  | cons c tl ih =>
    by_cases hc : c = []
    · subst hc; simpa [encodeChunks] using ih
    · have hce : c.isEmpty = false := by cases c <;> simp_all
      simp only [encodeChunks, hce, Bool.false_eq_true, ↓reduceIte, List.filter_cons, Bool.not_false,
        List.length_cons, List.length_append]
      have := hexOf_ne_nil c.length
      have : 1 ≤ (hexOf c.length).length := by cases h : hexOf c.length <;> simp_all
      omega

end Sozu.Headers
