import Sozu.Headers.EditorLemmas
import Sozu.Headers.EditorLemmas2
import Sozu.Headers.HstsLemmas
/-
C13 — backends see the client's request plus truthful, unspoofable proxy
metadata. Only property statements (`C13_*`) and their non-vacuity examples;
definitions (`e2e`, `owned`, `lastValue`, `namedFields`, `IdNameOK`) are in
`EditorLemmas.lean`.
-/
set_option linter.unusedSimpArgs false
set_option linter.unusedVariables false
namespace Sozu.Headers

/-- **Fidelity.** For every context and every header block list, the sub-list
    of end-to-end headers (everything whose name is not one of the eight
    proxy-owned names; the cookie block included) is the same after the editor
    as before: same fields, same values, same relative order. -/
theorem C13_fidelity (c : Ctx) (fs : List Field) : e2e c (editRequest c fs) = e2e c fs :=
  e2e_editRequest c fs

/-- cookies: exactly the crumbs named like the sticky cookie disappear, the
    others keep their order, name and value -/
theorem C13_cookie_fidelity (c : Ctx) (jar : List Crumb) (h : ∀ cr ∈ jar, cr.elided = false) :
    liveCrumbs (editJar c jar) = jar.filter (fun cr => cr.key != c.stickyName) :=
  liveCrumbs_editJar c jar h

example : e2e exampleCtx (editRequest exampleCtx exampleFields) =
    [.hdr [97] [49], .cookies, .hdr [98] [50]] := by decide

/-- **X-Forwarded-For / Forwarded / X-Real-IP are truthful.** With a known
    peer address, whatever the client sent (any number of spoofed fields, any
    case): the last `X-Forwarded-For` value ends with the peer address, the
    last `Forwarded` value ends with the element sozu built from the listener
    protocol, the peer address and port and the public address, and with
    `send_x_real_ip` the last `X-Real-IP` is the peer address; with
    `elide_x_real_ip` no client `X-Real-IP` survives. -/
theorem C13_xff_truthful (c : Ctx) (p : Addr) (fs : List Field) (hp : c.peer = some p) (hid : IdNameOK c) :
    (∃ pre, lastValue sXFFor (editRequest c fs) = some (pre ++ p.ip)) ∧
    (∃ pre, lastValue sForwarded (editRequest c fs) = some (pre ++ sProtoEq ++ c.proto ++ forBy p c.publicAddr)) ∧
    (c.sendXRealIp = true → lastValue sXRealIp (editRequest c fs) = some p.ip) ∧
    (c.elideXRealIp = true →
      namedFields sXRealIp (editRequest c fs) = if c.sendXRealIp then [.hdr cXRealIp p.ip] else []) :=
  ⟨xff_last c p fs hp hid, forwarded_last c p fs hp hid, xrealip_last c p fs hp hid, xrealip_elided c p fs hp hid⟩

example : lastValue sXFFor (editRequest exampleCtx exampleFields) = some ([54, 54, 44, 32] ++ [49, 46, 50]) := by decide

/-- **X-Forwarded-Proto / -Port describe the listener only when the client
    sent none**: an existing field is left alone (and nothing is added), a
    missing one is created with the listener's value. -/
theorem C13_proto_port_when_absent (c : Ctx) (fs : List Field) (hid : IdNameOK c) :
    namedFields sXFProto (editRequest c fs) =
      (if hasHdr sXFProto fs then namedFields sXFProto fs else [.hdr cXFProto c.proto]) ∧
    namedFields sXFPort (editRequest c fs) =
      (if hasHdr sXFPort fs then namedFields sXFPort fs else [.hdr cXFPort c.publicAddr.port]) :=
  ⟨proto_when_absent c fs hid, port_when_absent c fs hid⟩

/-- **Exactly one request id and one correlation header** (full strength:
    every context whose correlation header name does not collide with a
    forwarding header, every header block list — any number of client
    `X-Request-Id` fields, any number of client fields named like the
    correlation header, in any case). Exactly one `X-Request-Id` and exactly
    one correlation header reach the backend, the latter carrying sozu's
    request id. (Needed two extra hypotheses before `fix: forward exactly one
    X-Request-Id and never a client-supplied correlation header`; F15.) -/
theorem C13_single_ids (c : Ctx) (fs : List Field) (hid : IdNameOK c) :
    (namedFields sXRequestId (editRequest c fs)).length = 1 ∧
    namedFields c.sozuIdHeader (editRequest c fs) = [.hdr c.sozuIdHeader c.requestId] :=
  single_ids c fs hid

/-- the first client `X-Request-Id` is the one that is kept -/
theorem C13_request_id_first_wins (c : Ctx) (fs : List Field) (hid : IdNameOK c) (k v : Bytes) (rest : List Field)
    (h : namedFields sXRequestId fs = .hdr k v :: rest) :
    namedFields sXRequestId (editRequest c fs) = [.hdr k v] :=
  request_id_first c fs hid k v rest h

/-- regression examples (the former counterexamples of F15): two client
    `X-Request-Id` fields, and a client field named like the correlation header -/
example : namedFields sXRequestId (editRequest exampleCtx [.hdr sXRequestId [49], .hdr sXRequestId [50]])
    = [.hdr sXRequestId [49]] := by decide

example : namedFields exampleCtx.sozuIdHeader (editRequest exampleCtx [.hdr exampleCtx.sozuIdHeader [49]])
    = [.hdr exampleCtx.sozuIdHeader exampleCtx.requestId] := by decide

/-- **Nothing connection-specific crosses into HTTP/2**, for every request:
    no `connection` / `proxy-connection` / `transfer-encoding` / `upgrade` /
    `keep-alive` / `host` / `http2-settings` / `trailer` field, `te` only with
    the value `trailers`, and every name is lower-case. -/
theorem C13_no_conn_specific_to_h2 (r : Req) :
    ∀ kv ∈ h2Fields r.fields r.jar,
      isConnectionSpecific kv.1 = false ∧ eqNoCase kv.1 sHost = false ∧ eqNoCase kv.1 sTrailer = false ∧
      (eqNoCase kv.1 sTe = true → eqNoCase kv.2 sTrailers = true) ∧ (∀ b ∈ kv.1, isUpper b = false) :=
  h2Fields_clean r.fields r.jar

/-- trailers: the four client-attribution fields never pass `handle_trailer` -/
theorem C13_trailer_elision (lim : Limits) (hl t : List (Bytes × Bytes)) (h : handleTrailer lim true hl = .ok t) :
    ∀ kv ∈ t, kv.1 ∉ Consts.hdrTrailerElided :=
  trailer_not_elided lim hl t h

/-- **Responses: additions only.** The response editor keeps every backend
    header in place (a `Connection` value becomes `close` only when the
    session is closing) and appends at most the sticky `Set-Cookie` and the
    correlation header. -/
theorem C13_response_additions_only (c : Ctx) (fs : List Field) :
    ∃ adds, editResponse c fs = walkResponse c fs ++ adds ∧
      (c.closing = false → walkResponse c fs = fs) ∧
      (walkResponse c fs).length = fs.length ∧
      (∀ f ∈ adds, f = .hdr c.sozuIdHeader c.requestId ∨
        ∃ s, c.stickySession = some s ∧ c.stickySession ≠ c.stickyFound ∧ f = .hdr cSetCookie (c.stickyName ++ [61] ++ s ++ sPathSlash)) ∧
      (adds.filter (· == Field.hdr c.sozuIdHeader c.requestId)).length ≥ 1 :=
  editResponse_additions c fs

/-- per-frontend response edits remove only what an operator edit names -/
theorem C13_response_edits_keep_unnamed (es : List HeaderEdit) (fs : List Field) (f : Field) (hf : f ∈ fs)
    (h : ∀ e ∈ es, e.drops = true → fieldKeyLower f ≠ some (lower e.key)) : f ∈ applyEdits es fs :=
  applyEdits_keeps es fs f hf h

/-- **Request-side frontend edits act on all copies** (model of
    `mux/router.rs::apply_request_rewrites_and_headers`). For every rewrite
    configuration, every list of per-frontend request edits and every header
    block list — any number of copies of any header, in any case: (1) a
    header the backend receives under a name some edit deletes is one the
    router itself inserted (so the delete + set "replace" idiom leaves exactly
    the operator's value); (2) with `rewrite_host`, every `Host` and
    `X-Forwarded-Host` the backend receives is router-generated — no client
    copy survives; (3) a header no rule names is never removed. -/
theorem C13_request_edits_all_copies (rh og rp : Option Bytes) (edits : List ReqEdit) (fs : List Field) :
    (∀ e ∈ edits, e.val = [] → ∀ f ∈ routerPass rh og rp edits fs, isHdrNamed e.key f = true →
        f ∈ reqInserted rh og edits) ∧
    (rh.isSome = true → ∀ f ∈ routerPass rh og rp edits fs,
        (isHdrNamed sHost f = true ∨ isHdrNamed sXFHost f = true) → f ∈ reqInserted rh og edits) ∧
    (∀ f ∈ fs, (∀ n ∈ reqDropKeys rh.isSome edits, fieldKeyLower f ≠ some n) → f ∈ routerPass rh og rp edits fs) :=
  request_edits_all_copies rh og rp edits fs

/-- three client copies of a deleted-and-set header, two forged X-Forwarded-Host: only the router's remain -/
example : routerPass (some [98]) (some [97]) none [⟨sXFProto, []⟩, ⟨sXFProto, sHttps⟩]
      [.hdr sXFProto sHttp, .hdr cXFHost [101], .hdr [120] [49], .hdr cXFProto sHttp, .hdr sXFHost [102], .hdr sXFProto [103]]
    = [.hdr [120] [49], .hdr cHost [98], .hdr cXFHost [97], .hdr sXFProto sHttps] := by decide

/-- **End-to-end fidelity toward an HTTP/1.1 backend** (H1→H1 and H2→H1: the
    block list `fs` is what either frontend hands to the editor). For every
    context, rewrite configuration, request edits, block list and cookie jar:
    restricted to the names neither the editor nor the frontend's rules own,
    the header lines written to the backend after `on_request_headers` *and*
    the router's rewrite / edit pass are exactly the lines the client's own
    headers would produce — same names, values, order, cookie line included. -/
theorem C13_fidelity_end_to_end_h1 (c : Ctx) (rh og rp : Option Bytes) (edits : List ReqEdit)
    (fs : List Field) (jar : List Crumb) (hck : keepName c rh edits cCookie = true) :
    (emitFields (routerPass rh og rp edits (editRequest c fs)) jar).filter (keepLine c rh edits)
      = (emitFields fs jar).filter (keepLine c rh edits) :=
  fidelity_h1 c rh og rp edits fs jar hck

/-- **End-to-end fidelity toward an HTTP/2 backend** (H1→H2 and H2→H2): the
    same through the HTTP/2 header filter (`H2BlockConverter`): what crosses
    into HTTP/2 under an end-to-end name is exactly what the client's own
    headers produce through that filter (connection-specific fields dropped,
    names lower-cased), in order. -/
theorem C13_fidelity_end_to_end_h2 (c : Ctx) (rh og rp : Option Bytes) (edits : List ReqEdit)
    (fs : List Field) (jar : List Crumb) (hck : keepName c rh edits sCookie = true) :
    (h2Fields (routerPass rh og rp edits (editRequest c fs)) jar).filter (keepLine c rh edits)
      = (h2Fields fs jar).filter (keepLine c rh edits) :=
  fidelity_h2 c rh og rp edits fs jar hck

example : keepName exampleCtx (some [98]) [⟨sXFProto, []⟩] cCookie = true ∧
    (emitFields (routerPass (some [98]) (some [97]) none [⟨sXFProto, []⟩] (editRequest exampleCtx exampleFields))
        [{ key := [107], val := [118] }]).filter (keepLine exampleCtx (some [98]) [⟨sXFProto, []⟩])
      = [([97], [49]), (cCookie, [107, 61, 118]), ([98], [50])] := by decide

/-- **rewrite_host: the proxy-owned pair.** With `rewrite_host` (and no
    operator edit naming them) the backend receives exactly one `Host` block —
    the rewritten one — and exactly one `X-Forwarded-Host` — the pre-rewrite
    authority: no client-supplied copy of either survives, however many the
    client sent and in whatever case. -/
theorem C13_rewrite_host_owned (h o : Bytes) (rp : Option Bytes) (edits : List ReqEdit) (fs : List Field)
    (hno : ∀ e ∈ edits, eqNoCase e.key sHost = false ∧ eqNoCase e.key sXFHost = false) :
    namedFields sHost (routerPass (some h) (some o) rp edits fs) = [.hdr cHost h] ∧
    namedFields sXFHost (routerPass (some h) (some o) rp edits fs) = [.hdr cXFHost o] :=
  rewrite_host_owned h o rp edits fs hno

/-- non-vacuity examples for the remaining statements -/
example : liveCrumbs (editJar exampleCtx [{ key := [97], val := [49] }, { key := [83], val := [120] }]) =
    [{ key := [97], val := [49] }] := by decide

example : namedFields sXFProto (editRequest exampleCtx exampleFields) = [.hdr cXFProto [104]] ∧
    namedFields sXFPort (editRequest exampleCtx [.hdr cXFPort [55]]) = [.hdr cXFPort [55]] := by decide

example : h2Fields [.hdr cConnection sClose, .hdr [65] [49], .hdr sTe [103], .cookies] [{ key := [107], val := [118] }]
    = [([97], [49]), (sCookie, [107, 61, 118])] := by decide

example : editResponse exampleCtx [.hdr [97] [49]] = [.hdr [97] [49], .hdr [73, 100] [82]] := by decide

example : applyEdits [⟨[97], [], .append⟩, ⟨[98], [50], .set⟩] [.hdr [65] [49], .hdr [99] [51], .hdr [98] [52]]
    = [.hdr [99] [51], .hdr [98] [50]] := by decide

/-- **HSTS: an explicit block wins for ever** (model of `Router::add_http_front_with_hsts_origin`,
    `Frontend::new`, `refresh_inheriting_hsts`, driven as `https.rs` drives
    them). For every earlier history `pre`, every frontend added with its own
    `hsts` block `c` (whatever its other policy fields, position or cluster)
    and every later history `post` of listener HSTS patches, adds and removals
    of other frontends: the `Strict-Transport-Security` edits applied to that
    frontend's responses are exactly those of its own block — its own rendered
    value when enabled, none when disabled — whatever the listener default was,
    is, or becomes. In particular at most one is ever added. -/
theorem C13_hsts_explicit_block_wins (s0 : HState) (pre post : List HOp) (id : Nat) (c : HstsCfg) (p : Bool)
    (o : List HeaderEdit) (d : Bool)
    (hfresh : (hRun s0 pre).routes.any (·.1 == id) = false)
    (ho : ∀ e ∈ o, isStsEdit e = false) (hnr : ∀ op ∈ post, removes id op = false) :
    stsOf (hRun s0 (pre ++ [.add id (some c) p o d] ++ post)) id = (stsEdit c).toList :=
  explicit_block_wins s0 pre post id c p o d hfresh ho hnr

/-- **An explicit HSTS opt-out never inherits**: a frontend that disabled HSTS
    (`enabled` ≠ true in its own block) never gets a proxy-added
    `Strict-Transport-Security`, after any history of listener patches. -/
theorem C13_hsts_explicit_optout_never_inherits (s0 : HState) (pre post : List HOp) (id : Nat) (c : HstsCfg)
    (p : Bool) (o : List HeaderEdit) (d : Bool) (hc : c.enabled ≠ some true)
    (hfresh : (hRun s0 pre).routes.any (·.1 == id) = false)
    (ho : ∀ e ∈ o, isStsEdit e = false) (hnr : ∀ op ∈ post, removes id op = false) :
    stsOf (hRun s0 (pre ++ [.add id (some c) p o d] ++ post)) id = [] :=
  optout_never s0 pre post id c p o d hc hfresh ho hnr

/-- opt-out frontend with no other policy, listener default enabled before and patched twice after -/
example : stsOf (hRun {} [.patch exOn, .add 7 (some exOff) false [] false, .patch exOn2, .patch exOn]) 7 = [] := by decide

example : stsOf (hRun {} [.patch exOn, .add 7 (some exOn2) false [] false, .patch exOff, .patch exOn]) 7
    = (stsEdit exOn2).toList ∧ (stsEdit exOn2).isSome = true := by decide

/-- **The effective HSTS of a frontend without a block is the listener's
    latest default** (`_partial`: for a frontend with no other policy field,
    or one added while the listener already had an `hsts` default). For every
    history before and after, the edits applied are exactly those of the
    default in force at the end — enabled → its rendered value, disabled or
    absent → none: they depend on nothing but the latest default. -/
theorem C13_hsts_effective_after_any_refresh_history_partial (s0 : HState) (pre post : List HOp) (id : Nat)
    (p : Bool) (o : List HeaderEdit) (d : Bool)
    (hfresh : (hRun s0 pre).routes.any (·.1 == id) = false)
    (ho : ∀ e ∈ o, isStsEdit e = false) (hnr : ∀ op ∈ post, removes id op = false)
    (hcond : (p = false ∧ o = []) ∨ (hRun s0 pre).default.isSome = true) :
    stsOf (hRun s0 (pre ++ [.add id none p o d] ++ post)) id =
      ((hRun s0 (pre ++ [.add id none p o d] ++ post)).default.bind stsEdit).toList :=
  follows_default s0 pre post id p o d hfresh ho hnr hcond

/-- the excluded point: a frontend *with* another policy field and no `hsts`
    block, added before the listener had any HSTS default, never picks up a
    later default (it is stored as `Route::Frontend` with
    `inherits_listener_hsts = false`) — an omission, not an addition, so not a
    violation of the response clause; reproduced on the real router -/
theorem C13_hsts_effective_after_any_refresh_history_counterexample :
    stsOf (hRun {} [.add 1 none true [] false, .patch exOn]) 1 = [] ∧
    ((hRun {} [.add 1 none true [] false, .patch exOn]).default.bind stsEdit).isSome = true := by decide

example : stsOf (hRun {} [.add 1 none false [] false, .patch exOn, .patch exOn2]) 1 = (stsEdit exOn2).toList ∧
    stsOf (hRun {} [.patch exOn, .add 1 none true [] false, .patch exOff]) 1 = [] := by decide

/-- **A response of an HTTP/2 backend reaches the client intact** (response arm
    of `handle_header`, no-op callback; the editor's additions are
    `C13_response_additions_only`). For every accepted response header block:
    the status line carries exactly the backend's three-digit `:status`, and
    every header written to the client is one of the backend's own regular
    header fields — or the single framing header sozu adds (`Content-Length: 0`
    / `Transfer-Encoding: chunked`). -/
theorem C13_h2_response_intact (lim : Limits) (es : Bool) (hl : List (Bytes × Bytes)) (r : Resp)
    (h : validateResponse lim es id hl = .ok r) :
    (r.status.length = 3 ∧ r.status.all isDigit = true ∧ ∃ kv ∈ hl, eqNoCase kv.1 sStatus = true ∧ kv.2 = r.status) ∧
    (∀ f ∈ r.fields, (∃ kv ∈ hl, f = Field.hdr kv.1 kv.2 ∧ kv.1.head? ≠ some 58) ∨
       f = .hdr cContentLength [48] ∨ f = .hdr cTransferEncoding sChunked) :=
  response_intact lim es hl r h

/-- a 204 with END_STREAM gets no Content-Length; a 200 does; `:status: 2000` is refused -/
example : (∃ r, validateResponse ⟨65536, 100, 2 ^ 64⟩ true id [(sStatus, [50, 48, 52]), ([120], [49])] = .ok r ∧ r.fields = [.hdr [120] [49]]) ∧
    (∃ r, validateResponse ⟨65536, 100, 2 ^ 64⟩ true id [(sStatus, [50, 48, 48])] = .ok r ∧ r.fields = [.hdr cContentLength [48]]) ∧
    validateResponse ⟨65536, 100, 2 ^ 64⟩ true id [(sStatus, [50, 48, 48, 48])] = .error .invalidStatus :=
  ⟨⟨_, rfl, rfl⟩, ⟨_, rfl, rfl⟩, rfl⟩

end Sozu.Headers
