import Sozu.Headers.Lemmas
import Sozu.Headers.Validate
import Sozu.Headers.Reconcile
/-
C03 — client and backend agree on request boundaries.
Only property statements (`C03_*`) and their non-vacuity examples live here;
the definitions they use (`WF`, `wire`, `understood`) are in `Lemmas.lean` /
`Validate.lean`.
-/
set_option linter.unusedSimpArgs false
set_option linter.unusedVariables false
namespace Sozu.Headers

/-- **The strict reader reads back exactly what sozu understood.** For every
    well-formed request (as `validateRequest` produces them, see
    `C03_valid_is_wellformed`), every body consistent with the framing
    sozu chose, and whatever follows on the connection: a strict RFC 9112
    reader consumes exactly the bytes sozu wrote for this request and reads the
    same method, target, header lines (hence `Host`), framing and payload. -/
theorem C03_unambiguous (r : Req) (chunks : List Bytes) (rest : Bytes)
    (h : WF r) (hb : BodyFits r chunks) :
    parseStrict (wire r chunks ++ rest) = some (understood r chunks, rest) :=
  parseStrict_wire r chunks rest h hb

/-- non-vacuity: a concrete chunked POST with two DATA frames -/
example : WF exampleReq ∧ BodyFits exampleReq [[104, 105], [], [33]] ∧
    (understood exampleReq [[104, 105], [], [33]]).body = [104, 105, 33] := by
  refine ⟨exampleReq_wf, trivial, by decide⟩

/-- **No extra or different request can appear.** For every list of
    well-formed requests with fitting bodies, a strict reader that parses the
    concatenation of what sozu wrote reads exactly that list, in order, and
    nothing is left over. -/
theorem C03_sequence (rs : List (Req × List Bytes))
    (h : ∀ rc ∈ rs, WF rc.1 ∧ BodyFits rc.1 rc.2) :
    parseAll (rs.flatMap fun rc => wire rc.1 rc.2) = (rs.map fun rc => understood rc.1 rc.2, []) :=
  parseAll_wires rs h

example : parseAll ([(exampleReq, [[104, 105], [], [33]]), (exampleReq, [])].flatMap fun rc => wire rc.1 rc.2)
    = ([understood exampleReq [[104, 105], [], [33]], understood exampleReq []], []) :=
  C03_sequence _ (by
    intro rc hrc
    simp only [List.mem_cons, List.mem_nil_iff, or_false] at hrc
    rcases hrc with rfl | rfl <;> exact ⟨exampleReq_wf, trivial⟩)

/-- **Accepted ⇒ nothing forbidden is emitted** (full strength, every header
    list, both END_STREAM values, every limit): the method is a non-empty
    token, the target and the `Host` value are non-empty without CTL / DEL,
    every emitted header name is a non-empty token, every client-supplied name
    is lower-case, and no emitted value contains CR, LF, NUL, another C0
    control (HTAB excepted) or DEL. -/
theorem C03_valid_no_forbidden_bytes (lim : Limits) (es : Bool) (hl : List (Bytes × Bytes)) (r : Req)
    (h : validateRequest lim es hl = .ok r) : Clean r :=
  validate_clean lim es hl r h

/-- **Accepted ⇒ well-formed** (full strength: every header list, every
    limit, both END_STREAM values). The request line, every header line, the
    single `Host` and the single framing header of an accepted request are
    exactly what the strict reader expects, so `C03_unambiguous` applies to
    everything `validateRequest` accepts. (Before the repairs `fix: reject SP
    in an HTTP/2 :path and emit a single Content-Length` this needed the
    hypotheses "no SP in :path" and "at most one content-length".) -/
theorem C03_valid_is_wellformed (lim : Limits) (es : Bool) (hl : List (Bytes × Bytes)) (r : Req)
    (h : validateRequest lim es hl = .ok r) : WF r :=
  validate_wf lim es hl r h

/-- accepted ⇒ read back identically: the two theorems composed -/
theorem C03_accepted_reads_back (lim : Limits) (es : Bool) (hl : List (Bytes × Bytes)) (r : Req)
    (chunks : List Bytes) (rest : Bytes) (h : validateRequest lim es hl = .ok r) (hb : BodyFits r chunks) :
    parseStrict (wire r chunks ++ rest) = some (understood r chunks, rest) :=
  parseStrict_wire r chunks rest (validate_wf lim es hl r h) hb

/-- regression examples (the former counterexamples): SP in `:path` is now
    rejected; an equal duplicate `content-length` is accepted, written once,
    and the request reads back -/
example : validateRequest ⟨65536, 100, 2 ^ 64⟩ true
    [(sMethod, [71, 69, 84]), (sScheme, sHttps), (sPath, [47, 97, 32, 98]), (sAuthority, [97])] = .error .invalidPath := by
  rfl

example : ∃ r, validateRequest ⟨65536, 100, 2 ^ 64⟩ false
      [(sMethod, [71, 69, 84]), (sScheme, sHttps), (sPath, [47]), (sAuthority, [97]),
       (sContentLength, [49]), (sContentLength, [48, 49])] = .ok r ∧
      (emitted r).filter (fun kv => eqNoCase kv.1 sContentLength) = [(sContentLength, [49])] ∧
      parseStrict (wire r [[120]]) = some (understood r [[120]], []) := by
  refine ⟨_, rfl, ?_, ?_⟩ <;> decide

/-- **Trailers.** What `handle_trailer` lets through is clean (token names,
    no CTL in values) and never contains the four client-attribution fields.
    But the bytes written for a request that ends with trailers are *not*
    readable: no last-chunk precedes the trailer section. -/
theorem C03_trailers_clean (lim : Limits) (hl t : List (Bytes × Bytes))
    (h : handleTrailer lim true hl = .ok t) :
    ∀ kv ∈ t, LineOK kv ∧ kv.1 ∉ Consts.hdrTrailerElided :=
  trailer_clean lim hl t h

theorem C03_unambiguous_trailers_counterexample :
    WF exampleReq ∧ parseStrict (serializeH1 exampleReq ++ wireBody exampleReq [] (some [([120], [49])])) = none := by
  refine ⟨exampleReq_wf, ?_⟩
  decide

/-- **Each ambiguous shape named in the property is rejected**, wherever it
    sits in the header list and whatever surrounds it: a name with an
    upper-case letter or a non-token byte, an empty name, a connection-specific
    field (so Content-Length + Transfer-Encoding can never be forwarded
    together), `te` other than `trailers`, CR / LF / NUL / CTL / DEL in a
    value, and a `content-length` that is not 1*DIGIT. -/
theorem C03_reject_listed_shapes (lim : Limits) (es : Bool) (hl : List (Bytes × Bytes))
    (h : ∃ kv ∈ hl, BadShape kv) : ∃ e, validateRequest lim es hl = .error e :=
  validate_rejects_bad_shape lim es hl h

example : BadShape (sTransferEncoding, sChunked) ∧ BadShape ([88], [49]) ∧ BadShape ([120], [97, 13, 10, 98])
    ∧ BadShape (sTe, [103, 122, 105, 112]) ∧ BadShape (sContentLength, [43, 53]) := by
  refine ⟨.inr (.inl (by decide)), .inl (by decide), .inr (.inr (.inr (.inl (by decide)))),
    .inr (.inr (.inl (by decide))), .inr (.inr (.inr (.inr (by decide))))⟩

/-- two `content-length` fields that disagree are rejected -/
theorem C03_reject_conflicting_content_length (lim : Limits) (es : Bool) (pre mid post : List (Bytes × Bytes))
    (k1 k2 v1 v2 : Bytes) (h1 : eqNoCase k1 sContentLength = true) (h2 : eqNoCase k2 sContentLength = true)
    (hne : decVal v1 ≠ decVal v2) :
    ∃ e, validateRequest lim es (pre ++ (k1, v1) :: mid ++ (k2, v2) :: post) = .error e :=
  validate_rejects_cl_conflict lim es pre mid post k1 k2 v1 v2 h1 h2 hne

/-- a request pseudo-header after a regular field, and a repeated
    pseudo-header, are rejected -/
theorem C03_reject_pseudo_order (lim : Limits) (es : Bool) (pre mid post : List (Bytes × Bytes))
    (k v pk pv : Bytes) (hk : k.head? ≠ some 58) (hp : pk.head? = some 58) :
    ∃ e, validateRequest lim es (pre ++ (k, v) :: mid ++ (pk, pv) :: post) = .error e :=
  validate_rejects_pseudo_after_regular lim es pre mid post k v pk pv hk hp

theorem C03_reject_duplicate_pseudo (lim : Limits) (es : Bool) (pre mid post : List (Bytes × Bytes))
    (k1 k2 v1 v2 name : Bytes) (hn : name ∈ [sMethod, sScheme, sPath, sAuthority])
    (h1 : eqNoCase k1 name = true) (h2 : eqNoCase k2 name = true) :
    ∃ e, validateRequest lim es (pre ++ (k1, v1) :: mid ++ (k2, v2) :: post) = .error e :=
  validate_rejects_duplicate_pseudo lim es pre mid post k1 k2 v1 v2 name hn h1 h2

/-- END_STREAM on HEADERS with a non-zero Content-Length is rejected; the
    framing sozu chooses is otherwise total: END_STREAM ⇒ `Length 0`, a
    declared length ⇒ that length, else chunked -/
theorem C03_framing_choice (lim : Limits) (es : Bool) (hl : List (Bytes × Bytes)) (r : Req)
    (h : validateRequest lim es hl = .ok r) :
    (es = true → r.body = .length 0) ∧ r.body ≠ .empty :=
  validate_framing lim es hl r h

/-- **A declared Content-Length is enforced against DATA** (model `rrun` of
    `h2.rs::handle_data_frame` / the trailer path, transcribed from the source —
    the code is not callable in-process — and tied end-to-end: the `cl-matrix`
    cases of `e2ebody` drive a real worker with a TLS HTTP/2 client and a strict
    HTTP/1.1 backend over method × declared length × DATA split × END_STREAM
    placement, and the driver's `recon` verdict (reset / done / forwarded) must
    equal what client and backend observe, class `c03-length-model-disagrees`):
    for every sequence of DATA / trailer frames on a request stream with
    `Content-Length: n` (a request is never `content_length_exempt`: that is for
    HEAD / 1xx / 204 / 304 *responses*), never more than `n` payload bytes are
    forwarded, and if the stream ends without being reset exactly `n` were — the
    `BodyFits` hypothesis of `C03_unambiguous`. -/
theorem C03_declared_length_enforced (n : Nat) (evs : List StreamEv) :
    (rrun (some n) false evs).forwarded ≤ n ∧
    ((rrun (some n) false evs).done = true →
      (rrun (some n) false evs).reset = false ∧ (rrun (some n) false evs).forwarded = n) :=
  ⟨(rrun_inv n evs).1, (rrun_inv n evs).2.2.2⟩

/-- the exemption must not reach requests: with `exempt = true` (what a HEAD
    request would get if `content_length_exempt` ignored the position) a stream
    declaring 5 bytes ends un-reset with 0, or with 9, forwarded -/
theorem C03_declared_length_enforced_needs_no_exemption :
    (rrun (some 5) true [.data 0 true]).done = true ∧ (rrun (some 5) true [.data 0 true]).forwarded = 0 ∧
    (rrun (some 5) true [.data 9 true]).done = true ∧ (rrun (some 5) true [.data 9 true]).forwarded = 9 := by decide

example : (rrun (some 5) false [.data 2 false, .data 3 true]).done = true ∧
    (rrun (some 5) false [.data 2 false, .data 4 true]).reset = true ∧
    (rrun (some 5) false [.data 2 false, .trailers]).reset = true := by decide

/-- **An accepted target contains no separator**: for every accepted header
    list the forwarded request-target holds none of SP, HTAB, VT, FF, CR, LF,
    NUL, DEL — so every RFC 9112 §3 recipient (even one that splits the
    request line on any whitespace) finds the same three components. -/
theorem C03_target_has_no_separator (lim : Limits) (es : Bool) (hl : List (Bytes × Bytes)) (r : Req)
    (h : validateRequest lim es hl = .ok r) :
    ∀ b ∈ r.target, b ≠ 32 ∧ b ≠ 9 ∧ b ≠ 11 ∧ b ≠ 12 ∧ b ≠ 13 ∧ b ≠ 10 ∧ b ≠ 0 ∧ b ≠ 127 :=
  target_no_separator (validate_wf lim es hl r h)

/-- a `:path` with an HTAB is rejected (`has_invalid_pseudo_value_byte`) -/
example : validateRequest ⟨65536, 100, 2 ^ 64⟩ true
    [(sMethod, [71, 69, 84]), (sScheme, sHttps), (sPath, [47, 97, 9, 98]), (sAuthority, [97])] = .error .badPseudoValue := by
  rfl

/-- **Trailers, as RFC 9112 wants them** (`_partial`: the hypothesis `hfix`
    says the bytes sozu writes are the intended ones — last-chunk before the
    trailer section on a chunked body, nothing after a Content-Length body;
    it is exactly what the open findings `c03-trailers-without-last-chunk` /
    `c03-trailers-after-length-body` violate, see
    `C03_unambiguous_trailers_counterexample`). Under it, for every
    well-formed request, fitting body and clean trailer list (what
    `handle_trailer` lets through, `C03_trailers_clean`), the strict reader
    reads back request, payload and trailers and consumes exactly those bytes. -/
theorem C03_unambiguous_trailers_partial (r : Req) (chunks : List Bytes) (t : List (Bytes × Bytes)) (rest : Bytes)
    (h : WF r) (hb : BodyFits r chunks) (ht : ∀ kv ∈ t, LineOK kv)
    (hfix : wireBody r chunks (some t) = intendedBody r chunks t) :
    parseStrict (serializeH1 r ++ wireBody r chunks (some t) ++ rest) = some (understoodT r chunks t, rest) :=
  parseStrict_trailers_of_fix r chunks t rest h hb ht hfix

/-- non-vacuity of the conclusion's right-hand side: the intended bytes of the example request with one trailer -/
example : parseStrict (serializeH1 exampleReq ++ intendedBody exampleReq [] [([120], [49])]) =
    some (understoodT exampleReq [] [([120], [49])], []) := by
  simpa using parseStrict_intended exampleReq [] [([120], [49])] [] exampleReq_wf trivial (by decide)

/-- non-vacuity examples for the rejection and cleanliness theorems -/
example : ∃ r, validateRequest ⟨65536, 100, 2 ^ 64⟩ false
    [(sMethod, [71, 69, 84]), (sScheme, sHttps), (sPath, [47]), (sAuthority, [97]), (sCookie, [97, 61, 49]), ([120], [49])] = .ok r ∧
    r.body = .chunked := ⟨_, rfl, rfl⟩

example : ∃ e, validateRequest ⟨65536, 100, 2 ^ 64⟩ false
    ([(sMethod, [71])] ++ (sContentLength, [49]) :: [] ++ (sContentLength, [50]) :: []) = .error e :=
  C03_reject_conflicting_content_length _ _ _ _ _ _ _ _ _ (by decide) (by decide) (by decide)

example : ∃ e, validateRequest ⟨65536, 100, 2 ^ 64⟩ false
    ([] ++ ([120], [49]) :: [] ++ (sPath, [47]) :: []) = .error e :=
  C03_reject_pseudo_order _ _ _ _ _ _ _ _ _ (by decide) (by decide)

example : ∃ e, validateRequest ⟨65536, 100, 2 ^ 64⟩ false
    ([] ++ (sPath, [47]) :: [] ++ (sPath, [47]) :: []) = .error e :=
  C03_reject_duplicate_pseudo _ _ _ _ _ _ _ _ _ sPath (by decide) (by decide) (by decide)

example : handleTrailer ⟨65536, 100, 2 ^ 64⟩ true [([120], [49]), ([120, 45, 114, 101, 97, 108, 45, 105, 112], [54])]
    = .ok [([120], [49])] := by rfl

/-- **Whole connections** (history form of `C03_accepted_reads_back`): for
    every sequence of header lists sozu accepted, each with a body fitting the
    framing it chose, the strict reader parses everything written on the
    backend connection into exactly that sequence of requests, nothing left. -/
theorem C03_accepted_sequence (lim : Limits) (reqs : List (Bool × List (Bytes × Bytes) × Req × List Bytes))
    (h : ∀ q ∈ reqs, validateRequest lim q.1 q.2.1 = .ok q.2.2.1 ∧ BodyFits q.2.2.1 q.2.2.2) :
    parseAll (reqs.flatMap fun q => wire q.2.2.1 q.2.2.2) = (reqs.map fun q => understood q.2.2.1 q.2.2.2, []) :=
  parseAll_accepted lim reqs h

/-- the hypotheses of `C03_accepted_sequence` are satisfiable: an accepted GET with END_STREAM and no DATA -/
example : ∃ r, validateRequest ⟨65536, 100, 2 ^ 64⟩ true
    [(sMethod, [71, 69, 84]), (sScheme, sHttps), (sPath, [47]), (sAuthority, [97])] = .ok r ∧ BodyFits r [] :=
  ⟨_, rfl, rfl⟩

/-- **Buffer exhaustion can only reject.** With the stream buffer modelled
    (`store_pseudo_header` / `write_regular_header` / the cookie branch /
    `handle_trailer` copy into a buffer of `cap` bytes and reject when it is
    full): whatever the buffer size, a header list (resp. trailer block) that
    is accepted is accepted with exactly the same result as with an unbounded
    buffer — so every theorem above about accepted requests holds for every
    buffer size; a too-small buffer never truncates, it rejects. -/
theorem C03_storage_only_rejects (lim : Limits) (cap used : Nat) (es : Bool) (hl t : List (Bytes × Bytes)) (r : Req) :
    (validateRequestS lim cap es hl = .ok r → validateRequest lim es hl = .ok r ∧ WF r) ∧
    (handleTrailerS lim cap used es hl = .ok t → handleTrailer lim es hl = .ok t) :=
  ⟨fun h => ⟨validateS_ok h, validate_wf lim es hl r (validateS_ok h)⟩, handleTrailerS_ok⟩

/-- 20 bytes are needed (`GET`, `https`, `/`, `a`, `x: 1234567`): a 16-byte buffer rejects, a 24-byte one accepts -/
example : (∃ e, validateRequestS ⟨65536, 100, 2 ^ 64⟩ 16 true
      [(sMethod, [71, 69, 84]), (sScheme, sHttps), (sPath, [47]), (sAuthority, [97]), ([120], [49, 50, 51, 52, 53, 54, 55])] = .error e) ∧
    (∃ r, validateRequestS ⟨65536, 100, 2 ^ 64⟩ 24 true
      [(sMethod, [71, 69, 84]), (sScheme, sHttps), (sPath, [47]), (sAuthority, [97]), ([120], [49, 50, 51, 52, 53, 54, 55])] = .ok r) :=
  ⟨⟨_, rfl⟩, ⟨_, rfl⟩⟩

end Sozu.Headers
