import Sozu.Headers.Model
/-
Headers area, part 2: the request / response editor
(`lib/src/protocol/kawa_h1/editor.rs`, `HttpContext::on_request_headers` and
`on_response_headers`) and the per-frontend response header edits
(`lib/src/protocol/mux/shared.rs::apply_response_header_edits`).

The editor works on the kawa block list; "eliding" a header (key set to
`Store::Empty`) is modelled by removing it, because an elided block is never
emitted by either converter. Rendered addresses (`Display` of `IpAddr`), the
port numbers in decimal and the rendered request ULID are parameters.
-/
namespace Sozu.Headers

def sConnection : Bytes := [99, 111, 110, 110, 101, 99, 116, 105, 111, 110]  -- 'connection'
def sClose : Bytes := [99, 108, 111, 115, 101]  -- 'close'
def sXFProto : Bytes := [120, 45, 102, 111, 114, 119, 97, 114, 100, 101, 100, 45, 112, 114, 111, 116, 111]  -- 'x-forwarded-proto'
def sXFPort : Bytes := [120, 45, 102, 111, 114, 119, 97, 114, 100, 101, 100, 45, 112, 111, 114, 116]  -- 'x-forwarded-port'
def sXFFor : Bytes := [120, 45, 102, 111, 114, 119, 97, 114, 100, 101, 100, 45, 102, 111, 114]  -- 'x-forwarded-for'
def sXRealIp : Bytes := [120, 45, 114, 101, 97, 108, 45, 105, 112]  -- 'x-real-ip'
def sForwarded : Bytes := [102, 111, 114, 119, 97, 114, 100, 101, 100]  -- 'forwarded'
def sUserAgent : Bytes := [117, 115, 101, 114, 45, 97, 103, 101, 110, 116]  -- 'user-agent'
def sXRequestId : Bytes := [120, 45, 114, 101, 113, 117, 101, 115, 116, 45, 105, 100]  -- 'x-request-id'
def cXFFor : Bytes := [88, 45, 70, 111, 114, 119, 97, 114, 100, 101, 100, 45, 70, 111, 114]  -- 'X-Forwarded-For'
def cForwarded : Bytes := [70, 111, 114, 119, 97, 114, 100, 101, 100]  -- 'Forwarded'
def cXRealIp : Bytes := [88, 45, 82, 101, 97, 108, 45, 73, 80]  -- 'X-Real-IP'
def cXFPort : Bytes := [88, 45, 70, 111, 114, 119, 97, 114, 100, 101, 100, 45, 80, 111, 114, 116]  -- 'X-Forwarded-Port'
def cXFProto : Bytes := [88, 45, 70, 111, 114, 119, 97, 114, 100, 101, 100, 45, 80, 114, 111, 116, 111]  -- 'X-Forwarded-Proto'
def cConnection : Bytes := [67, 111, 110, 110, 101, 99, 116, 105, 111, 110]  -- 'Connection'
def cXRequestId : Bytes := [88, 45, 82, 101, 113, 117, 101, 115, 116, 45, 73, 100]  -- 'X-Request-Id'
def cSetCookie : Bytes := [83, 101, 116, 45, 67, 111, 111, 107, 105, 101]  -- 'Set-Cookie'
def sProtoEq : Bytes := [112, 114, 111, 116, 111, 61]  -- 'proto='
def sCommaProto : Bytes := [44, 32, 112, 114, 111, 116, 111, 61]  -- ', proto='
def sForOpen : Bytes := [59, 102, 111, 114, 61, 34]  -- ';for="'
def sByEq : Bytes := [34, 59, 98, 121, 61]  -- '";by='
def sPathSlash : Bytes := [59, 32, 80, 97, 116, 104, 61, 47]  -- '; Path=/'
def sCommaSp : Bytes := [44, 32]  -- ', '

/-- a socket address as the editor renders it -/
structure Addr where
  /-- `format!("{ip}")` -/
  ip : Bytes
  isV6 : Bool
  /-- the port in decimal -/
  port : Bytes
deriving DecidableEq, Repr

/-- the fields of `HttpContext` the editor reads -/
structure Ctx where
  closing : Bool
  /-- "http" / "https" from `protocol` -/
  proto : Bytes
  publicAddr : Addr
  /-- `session_address` -/
  peer : Option Addr
  stickyName : Bytes
  sozuIdHeader : Bytes
  /-- `self.id.to_string()` -/
  requestId : Bytes
  elideXRealIp : Bool
  sendXRealIp : Bool
  /-- response side: `sticky_session` -/
  stickySession : Option Bytes := none
  /-- response side: `sticky_session_found` (set by the request pass) -/
  stickyFound : Option Bytes := none
deriving Repr

/-- `write_ip_literal` -/
def ipLiteral (a : Addr) : Bytes := if a.isV6 then [91] ++ a.ip ++ [93] else a.ip

/-- `write_forwarded_for_by` -/
def forBy (peer pub : Addr) : Bytes :=
  sForOpen ++ ipLiteral peer ++ [58] ++ peer.port ++ sByEq ++
    (if pub.isV6 then [34] ++ ipLiteral pub ++ [34] else pub.ip)

def isHdrNamed (name : Bytes) : Field → Bool
  | .hdr k _ => eqNoCase k name
  | .cookies => false

def hasHdr (name : Bytes) (fs : List Field) : Bool := fs.any (isHdrNamed name)

/-- apply `f` to the last element satisfying `p`; the flag says whether one was found -/
def modifyLast {α : Type} (p : α → Bool) (f : α → α) : List α → List α × Bool
  | [] => ([], false)
  | x :: xs =>
    let r := modifyLast p f xs
    if r.2 then (x :: r.1, true)
    else if p x then (f x :: r.1, true)
    else (x :: r.1, false)

def appendVal (suffix : Bytes) : Field → Field
  | .hdr k v => .hdr k (v ++ suffix)
  | .cookies => .cookies

/-- names matched by a branch of the block walk that leaves the header in place
    (before the `X-Request-Id` and correlation-header branches) -/
def keptByWalk (k : Bytes) : Bool :=
  eqNoCase k sXFProto || eqNoCase k sXFPort || eqNoCase k sXFFor || eqNoCase k sForwarded || eqNoCase k sUserAgent

/-- the block walk of `on_request_headers`: `Connection` rewritten when
    closing, client `X-Real-IP` removed when eliding, every `X-Request-Id`
    after the first removed (`seen` = one was already met), a client field
    named like the correlation header removed -/
def walkRequest (c : Ctx) : Bool → List Field → List Field
  | _, [] => []
  | seen, .cookies :: rest => .cookies :: walkRequest c seen rest
  | seen, .hdr k v :: rest =>
    if eqNoCase k sConnection then
      (if c.closing then .hdr k sClose else .hdr k v) :: walkRequest c seen rest
    else if keptByWalk k then .hdr k v :: walkRequest c seen rest
    else if eqNoCase k sXRealIp && c.elideXRealIp then walkRequest c seen rest
    else if eqNoCase k sXRequestId then
      (if seen then walkRequest c true rest else .hdr k v :: walkRequest c true rest)
    else if eqNoCase k c.sozuIdHeader then walkRequest c seen rest
    else .hdr k v :: walkRequest c seen rest

/-- `on_request_headers` on the cookie jar: the sticky cookie is elided -/
def editJar (c : Ctx) (jar : List Crumb) : List Crumb :=
  jar.map fun cr => if cr.key == c.stickyName then { cr with elided := true } else cr

/-- the headers pushed when a peer address is known -/
def peerAdditions (c : Ctx) (p : Addr) (hadXff hadFwd : Bool) : List Field :=
  (if hadXff then [] else [.hdr cXFFor p.ip]) ++
  (if hadFwd then [] else [.hdr cForwarded (sProtoEq ++ c.proto ++ forBy p c.publicAddr)]) ++
  (if c.sendXRealIp then [.hdr cXRealIp p.ip] else [])

/-- the headers pushed regardless of the peer address; `fs0` is the list the walk saw -/
def tailAdditions (c : Ctx) (fs0 : List Field) : List Field :=
  (if hasHdr sXFPort fs0 then [] else [.hdr cXFPort c.publicAddr.port]) ++
  (if hasHdr sXFProto fs0 then [] else [.hdr cXFProto c.proto]) ++
  (if !hasHdr sConnection fs0 && c.closing then [.hdr cConnection sClose] else []) ++
  (if hasHdr sXRequestId fs0 then [] else [.hdr cXRequestId c.requestId]) ++
  [.hdr c.sozuIdHeader c.requestId]

/-- `HttpContext::on_request_headers` on the header blocks -/
def editRequest (c : Ctx) (fs : List Field) : List Field :=
  let walked := walkRequest c false fs
  match c.peer with
  | none => walked ++ tailAdditions c fs
  | some p =>
    let x := modifyLast (isHdrNamed sXFFor) (appendVal (sCommaSp ++ p.ip)) walked
    let f := modifyLast (isHdrNamed sForwarded) (appendVal (sCommaProto ++ c.proto ++ forBy p c.publicAddr)) x.1
    f.1 ++ peerAdditions c p x.2 f.2 ++ tailAdditions c fs

/-- the sticky-session value the request pass records (`sticky_session_found`):
    the last crumb named like the sticky cookie -/
def stickyFoundIn (c : Ctx) (jar : List Crumb) : Option Bytes :=
  ((jar.filter fun cr => cr.key == c.stickyName).getLast?).map (·.val)

def editReq (c : Ctx) (r : Req) : Req :=
  { r with fields := editRequest c r.fields, jar := editJar c r.jar }

/-- `handle_header` with the real editor as callback -/
def handleRequest (lim : Limits) (c : Ctx) (endStream : Bool) (hl : List (Bytes × Bytes)) : Except Reason Req :=
  match decodeRequest lim hl with
  | .error r => .error r
  | .ok r => finishFraming endStream (editReq c r)

-- -------------------------------------------------------------- response --
def walkResponse (c : Ctx) : List Field → List Field
  | [] => []
  | .cookies :: rest => .cookies :: walkResponse c rest
  | .hdr k v :: rest =>
    if eqNoCase k sConnection && c.closing then .hdr k sClose :: walkResponse c rest
    else .hdr k v :: walkResponse c rest

/-- `HttpContext::on_response_headers` on the header blocks -/
def editResponse (c : Ctx) (fs : List Field) : List Field :=
  walkResponse c fs ++
  (match c.stickySession with
   | some s => if c.stickySession != c.stickyFound then [.hdr cSetCookie (c.stickyName ++ [61] ++ s ++ sPathSlash)] else []
   | none => []) ++
  [.hdr c.sozuIdHeader c.requestId]

-- ------------------------------------------- per-frontend response edits --
inductive EditMode | append | setIfAbsent | set
deriving DecidableEq, Repr

structure HeaderEdit where
  key : Bytes
  val : Bytes
  mode : EditMode
deriving DecidableEq, Repr

def HeaderEdit.drops (e : HeaderEdit) : Bool :=
  e.mode == .set || (e.mode == .append && e.val.isEmpty)

def fieldKeyLower : Field → Option Bytes
  | .hdr k _ => some (lower k)
  | .cookies => none

/-- `apply_response_header_edits` on the header blocks (insertion point = the
    end-of-headers flag, i.e. the end of this list) -/
def applyEdits (edits : List HeaderEdit) (fs : List Field) : List Field :=
  if edits.isEmpty then fs else
  let existing := fs.filterMap fieldKeyLower
  let dropKeys := (edits.filter (·.drops)).map (lower ·.key)
  let kept := fs.filter fun f =>
    match fieldKeyLower f with
    | some k => !dropKeys.contains k
    | none => true
  let inserted := edits.filterMap fun e =>
    match e.mode with
    | .append => if e.val.isEmpty then none else some (Field.hdr e.key e.val)
    | .setIfAbsent => if existing.contains (lower e.key) then none else some (Field.hdr e.key e.val)
    | .set => some (Field.hdr e.key e.val)
  kept ++ inserted

-- -------------------------------- request-side rewrites and header edits --
def sXFHost : Bytes := [120, 45, 102, 111, 114, 119, 97, 114, 100, 101, 100, 45, 104, 111, 115, 116]  -- 'x-forwarded-host'
def cXFHost : Bytes := [88, 45, 70, 111, 114, 119, 97, 114, 100, 101, 100, 45, 72, 111, 115, 116]  -- 'X-Forwarded-Host'

/-- a per-frontend request-position `Header`: empty `val` deletes by name, a
    non-empty one is appended -/
structure ReqEdit where
  key : Bytes
  val : Bytes
deriving DecidableEq, Repr

/-- the lower-cased names the delete pass of
    `mux/router.rs::apply_request_rewrites_and_headers` removes -/
def reqDropKeys (rewriting : Bool) (edits : List ReqEdit) : List Bytes :=
  (edits.filter (·.val.isEmpty)).map (lower ·.key) ++
  (if rewriting || edits.any (eqNoCase ·.key sHost) then [sHost] else []) ++
  (if rewriting || edits.any (eqNoCase ·.key sXFHost) then [sXFHost] else [])

/-- the blocks inserted before the end-of-headers flag: the synthetic `Host` /
    `X-Forwarded-Host` of a host rewrite first, then the operator's non-empty edits -/
def reqInserted (rewrittenHost origAuthority : Option Bytes) (edits : List ReqEdit) : List Field :=
  (match rewrittenHost with
   | some h => [Field.hdr cHost h] ++ (match origAuthority with | some o => [.hdr cXFHost o] | none => [])
   | none => []) ++
  (edits.filter (!·.val.isEmpty)).map fun e => Field.hdr e.key e.val

/-- the `retain` predicate of the delete pass: a block stays unless its lower-cased name is in the drop set -/
def reqKeep (drop : List Bytes) (f : Field) : Bool :=
  match fieldKeyLower f with
  | some k => !drop.contains k
  | none => true

/-- `apply_request_rewrites_and_headers` on the header blocks: every block whose
    lower-cased name is in the drop set is removed (`retain`), then the
    insertions land at the end of the header section -/
def routerPass (rewrittenHost origAuthority rewrittenPath : Option Bytes) (edits : List ReqEdit)
    (fs : List Field) : List Field :=
  if rewrittenHost.isNone && rewrittenPath.isNone && edits.isEmpty then fs else
  fs.filter (reqKeep (reqDropKeys rewrittenHost.isSome edits)) ++ reqInserted rewrittenHost origAuthority edits

/-- the whole request as the router leaves it (status line rewritten too) -/
def routeReq (rewrittenHost origAuthority rewrittenPath : Option Bytes) (edits : List ReqEdit) (r : Req) : Req :=
  if rewrittenHost.isNone && rewrittenPath.isNone && edits.isEmpty then r else
  { r with host := rewrittenHost.getD r.host, target := rewrittenPath.getD r.target,
           fields := routerPass rewrittenHost origAuthority rewrittenPath edits r.fields }

end Sozu.Headers
