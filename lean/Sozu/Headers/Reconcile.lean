import Sozu.Headers.Model
/-
Content-Length vs DATA reconciliation of an HTTP/2 request stream, transcribed
from `lib/src/protocol/mux/h2.rs` (`handle_data_frame`: the running
`data_received` counter, the "received > declared" check on every frame, the
"received != declared" check at END_STREAM; `handle_headers` for a trailer
HEADERS frame: the same equality check). This code lives inside `ConnectionH2`
and cannot be called in-process; this part of the model is tied end-to-end
instead: the `cl-matrix` cases of `harness/src/bin/e2ebody.rs` (real worker, TLS
HTTP/2 client, strict HTTP/1.1 backend) compare reset / done / forwarded of
`rrun` (driver verb `recon`) with what is observed. It connects the framing
chosen by `handle_header` to the `BodyFits` hypothesis of `C03_unambiguous`.
-/
namespace Sozu.Headers

inductive StreamEv
  /-- a DATA frame: unpadded payload length, END_STREAM flag -/
  | data (len : Nat) (endStream : Bool)
  /-- a trailer HEADERS frame (always END_STREAM, `handle_trailer` enforces it) -/
  | trailers
deriving DecidableEq, Repr

structure RSt where
  /-- `data_received` -/
  received : Nat := 0
  /-- payload bytes pushed to the kawa stream, i.e. forwarded to the backend -/
  forwarded : Nat := 0
  /-- the stream ended normally (END_STREAM accepted) -/
  done : Bool := false
  /-- the stream was reset with PROTOCOL_ERROR -/
  reset : Bool := false
deriving DecidableEq, Repr

/-- `declared` = `Some(n)` iff `body_size == Length(n)`; `exempt` = `content_length_exempt` -/
def rstep (declared : Option Nat) (exempt : Bool) (s : RSt) : StreamEv → RSt
  | .data len es =>
    if s.done || s.reset then s else
    let total := s.received + len
    match declared with
    | some n =>
      if !exempt && total > n then { s with received := total, reset := true }
      else if es then
        if !exempt && total != n then { s with received := total, forwarded := s.forwarded + len, reset := true }
        else { s with received := total, forwarded := s.forwarded + len, done := true }
      else { s with received := total, forwarded := s.forwarded + len }
    | none =>
      if es then { s with received := total, forwarded := s.forwarded + len, done := true }
      else { s with received := total, forwarded := s.forwarded + len }
  | .trailers =>
    if s.done || s.reset then s else
    match declared with
    | some n => if !exempt && s.received != n then { s with reset := true } else { s with done := true }
    | none => { s with done := true }

def rrun (declared : Option Nat) (exempt : Bool) (evs : List StreamEv) : RSt :=
  evs.foldl (rstep declared exempt) {}

/-- invariant for a declared, non-exempt length: never more than declared is
    forwarded, forwarded never exceeds received, and a normal end means equality -/
def RInv (n : Nat) (s : RSt) : Prop :=
  s.forwarded ≤ n ∧ s.forwarded ≤ s.received ∧ (s.reset = false → s.forwarded = s.received) ∧
  (s.done = true → s.reset = false ∧ s.forwarded = n)

theorem rstep_inv (n : Nat) (s : RSt) (e : StreamEv) (h : RInv n s) : RInv n (rstep (some n) false s e) := by
  obtain ⟨h1, h2, h3, h4⟩ := h
  cases e with
  | trailers =>
    simp only [rstep]
    split
    · exact ⟨h1, h2, h3, h4⟩
    · next hdr =>
      simp only [Bool.or_eq_true, not_or, Bool.not_eq_true] at hdr
      split
      · exact ⟨h1, h2, by simp, by simp [hdr.1]⟩
      · next hne =>
        simp only [Bool.not_false, Bool.true_and, bne_iff_ne, ne_eq, Decidable.not_not] at hne
        refine ⟨h1, h2, h3, fun _ => ⟨hdr.2, ?_⟩⟩
        rw [h3 hdr.2]; exact hne
  | data len es =>
    simp only [rstep]
    split
    · exact ⟨h1, h2, h3, h4⟩
    · next hdr =>
      simp only [Bool.or_eq_true, not_or, Bool.not_eq_true] at hdr
      have hfr := h3 hdr.2
      split
      · exact ⟨h1, by simp; omega, by simp, by simp [hdr.1]⟩
      · next hle =>
        simp only [Bool.not_false, Bool.true_and, decide_eq_true_eq, Nat.not_lt] at hle
        split
        · split
          · exact ⟨by simp; omega, by simp; omega, by simp, by simp [hdr.1]⟩
          · next heq =>
            simp only [Bool.not_false, Bool.true_and, bne_iff_ne, ne_eq, Decidable.not_not] at heq
            exact ⟨by simp; omega, by simp; omega, by simp; omega, by simp [hdr.2]; omega⟩
        · exact ⟨by simp; omega, by simp; omega, by simp [hdr.2]; omega, by simp [hdr.1]⟩

theorem rrun_inv (n : Nat) (evs : List StreamEv) : RInv n (rrun (some n) false evs) := by
  unfold rrun
  have : ∀ s, RInv n s → RInv n (evs.foldl (rstep (some n) false) s) := by
    induction evs with
    | nil => intro s h; exact h
    | cons e tl ih => intro s h; exact ih _ (rstep_inv n s e h)
  exact this {} ⟨by simp, by simp, by simp, by simp⟩

end Sozu.Headers
