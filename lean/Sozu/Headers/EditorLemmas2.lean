import Sozu.Headers.EditorLemmas
import Sozu.Headers.Validate
/-
Second part of the editor lemmas: the named-field bookkeeping of
`editRequest`, the HTTP/2 output filter, the response editor.
-/
set_option linter.unusedSimpArgs false
set_option linter.unusedVariables false
namespace Sozu.Headers

def exampleCtx : Ctx :=
  { closing := false, proto := [104], publicAddr := { ip := [57], isV6 := false, port := [56, 48] },
    peer := some { ip := [49, 46, 50], isV6 := false, port := [53] }, stickyName := [83], sozuIdHeader := [73, 100],
    requestId := [82], elideXRealIp := true, sendXRealIp := true }

/-- `a: 1`, a spoofed `X-Forwarded-For: 66`, a cookie block, a spoofed `x-real-ip`, `b: 2` -/
def exampleFields : List Field :=
  [.hdr [97] [49], .hdr cXFFor [54, 54], .cookies, .hdr sXRealIp [54], .hdr [98] [50]]

theorem eqNoCase_comm (a b : Bytes) : eqNoCase a b = eqNoCase b a := by
  simp only [eqNoCase]
  cases h : lower a == lower b <;> cases h' : lower b == lower a <;> simp_all

theorem eqNoCase_false_of_lower {k n m : Bytes} (hk : eqNoCase k m = true) (h : lower n ≠ lower m) : eqNoCase k n = false := by
  rw [eqNoCase_lower_const hk n]
  simp only [beq_eq_false_iff_ne, ne_eq]
  exact fun e => h e.symm

-- ------------------------------------------------------------- cookies --

theorem liveCrumbs_editJar (c : Ctx) (jar : List Crumb) (h : ∀ cr ∈ jar, cr.elided = false) :
    liveCrumbs (editJar c jar) = jar.filter (fun cr => cr.key != c.stickyName) := by
  induction jar with
  | nil => rfl
  | cons cr tl ih =>
    have htl := ih (fun x hx => h x (by simp [hx]))
    have hcr := h cr (by simp)
    simp only [liveCrumbs, editJar, beq_iff_eq] at htl ⊢
    simp only [List.map_cons, List.filter_cons]
    by_cases hk : cr.key = c.stickyName
    · simp [hk, htl]
    · simp [hk, hcr, htl]

-- -------------------------------------------------------- named fields --

theorem namedFields_append (n : Bytes) (a b : List Field) : namedFields n (a ++ b) = namedFields n a ++ namedFields n b := by
  simp [namedFields]

theorem kept_not_named {k n : Bytes} (hk : keptByWalk k = true)
    (hn : ∀ m ∈ [sXFProto, sXFPort, sXFFor, sForwarded, sUserAgent], lower n ≠ lower m) : eqNoCase k n = false := by
  simp only [keptByWalk, Bool.or_eq_true] at hk
  rcases hk with (((h | h) | h) | h) | h
  · exact eqNoCase_false_of_lower h (hn _ (by simp))
  · exact eqNoCase_false_of_lower h (hn _ (by simp))
  · exact eqNoCase_false_of_lower h (hn _ (by simp))
  · exact eqNoCase_false_of_lower h (hn _ (by simp))
  · exact eqNoCase_false_of_lower h (hn _ (by simp))

/-- a name the block walk neither rewrites nor removes -/
def WalkPlain (c : Ctx) (n : Bytes) : Prop :=
  lower n ≠ lower sConnection ∧ lower n ≠ lower sXRealIp ∧ lower n ≠ lower sXRequestId ∧
  eqNoCase c.sozuIdHeader n = false

theorem namedFields_walk_other (c : Ctx) (n : Bytes) (hn : WalkPlain c n) (seen : Bool)
    (fs : List Field) : namedFields n (walkRequest c seen fs) = namedFields n fs := by
  induction fs generalizing seen with
  | nil => rfl
  | cons f tl ih =>
    cases f with
    | cookies => have := ih seen; simp only [namedFields] at this; simp [walkRequest, namedFields, List.filter_cons, isHdrNamed, this]
    | hdr k v =>
      have keep : ∀ sn, namedFields n (Field.hdr k v :: walkRequest c sn tl) = namedFields n (Field.hdr k v :: tl) := by
        intro sn; have := ih sn; simp only [namedFields, List.filter_cons] at this ⊢; rw [this]
      have drop : ∀ sn, eqNoCase k n = false → namedFields n (walkRequest c sn tl) = namedFields n (Field.hdr k v :: tl) := by
        intro sn hk; have := ih sn
        simp only [namedFields, List.filter_cons, isHdrNamed, hk, Bool.false_eq_true, ↓reduceIte] at this ⊢; exact this
      simp only [walkRequest]
      split
      · next hk =>
        have hkn := eqNoCase_false_of_lower hk hn.1
        have := ih seen
        simp only [namedFields] at this
        split <;> simp [namedFields, List.filter_cons, isHdrNamed, hkn, this]
      · split
        · exact keep seen
        · split
          · next hk => simp only [Bool.and_eq_true] at hk; exact drop seen (eqNoCase_false_of_lower hk.1 hn.2.1)
          · split
            · next hk =>
              have hkn := eqNoCase_false_of_lower hk hn.2.2.1
              split
              · exact drop true hkn
              · exact keep true
            · split
              · next hk =>
                have hkn : eqNoCase k n = false := by
                  rw [eqNoCase_lower_const hk n]
                  have := hn.2.2.2
                  simpa [eqNoCase] using this
                exact drop seen hkn
              · exact keep seen

theorem namedFields_modifyLast_other (n m suf : Bytes) (hnm : lower n ≠ lower m) (fs : List Field) :
    namedFields n (modifyLast (isHdrNamed m) (appendVal suf) fs).1 = namedFields n fs := by
  induction fs with
  | nil => rfl
  | cons f tl ih =>
    simp only [namedFields] at ih
    simp only [modifyLast]
    split
    · simp [namedFields, List.filter_cons, ih]
    · split
      · next hp =>
        cases f with
        | cookies => simp [isHdrNamed] at hp
        | hdr k v =>
          simp only [isHdrNamed] at hp
          have := eqNoCase_false_of_lower hp hnm
          simp [namedFields, List.filter_cons, isHdrNamed, appendVal, this, ih]
      · simp [namedFields, List.filter_cons, ih]

/-- `n` is none of the names the editor rewrites, removes or de-duplicates -/
def Plain (c : Ctx) (n : Bytes) : Prop :=
  WalkPlain c n ∧ lower n ≠ lower sXFFor ∧ lower n ≠ lower sForwarded

theorem const_named_false {n m cm : Bytes} (hc : lower cm = lower m) (h : lower n ≠ lower m) : eqNoCase cm n = false := by
  simp only [eqNoCase, hc, beq_eq_false_iff_ne, ne_eq]
  exact fun e => h e.symm

theorem peerAdditions_named_nil (c : Ctx) (p : Addr) (a b : Bool) (n : Bytes)
    (h1 : lower n ≠ lower sXFFor) (h2 : lower n ≠ lower sForwarded) (h3 : lower n ≠ lower sXRealIp) :
    namedFields n (peerAdditions c p a b) = [] := by
  have e1 := const_named_false (cm := cXFFor) (by decide) h1
  have e2 := const_named_false (cm := cForwarded) (by decide) h2
  have e3 := const_named_false (cm := cXRealIp) (by decide) h3
  cases a <;> cases b <;> cases hs : c.sendXRealIp <;>
    simp [peerAdditions, namedFields, List.filter_append, List.filter_cons, isHdrNamed, e1, e2, e3, hs]

/-- for a name other than the three forwarding headers: what the walk left,
    plus what is always pushed -/
theorem named_edit_walk (c : Ctx) (n : Bytes) (h1 : lower n ≠ lower sXFFor) (h2 : lower n ≠ lower sForwarded)
    (h3 : lower n ≠ lower sXRealIp) (fs : List Field) :
    namedFields n (editRequest c fs) = namedFields n (walkRequest c false fs) ++ namedFields n (tailAdditions c fs) := by
  unfold editRequest
  cases hp : c.peer with
  | none => simp only; rw [namedFields_append]
  | some p =>
    simp only
    rw [namedFields_append, namedFields_append, peerAdditions_named_nil c p _ _ n h1 h2 h3,
      namedFields_modifyLast_other n sForwarded _ h2, namedFields_modifyLast_other n sXFFor _ h1]
    simp

theorem named_edit (c : Ctx) (n : Bytes) (hn : Plain c n) (fs : List Field) :
    namedFields n (editRequest c fs) = namedFields n fs ++ namedFields n (tailAdditions c fs) := by
  rw [named_edit_walk c n hn.2.1 hn.2.2 hn.1.2.1, namedFields_walk_other c n hn.1]

theorem hasHdr_iff (n : Bytes) (fs : List Field) : hasHdr n fs = !(namedFields n fs).isEmpty := by
  induction fs with
  | nil => rfl
  | cons f tl ih =>
    simp only [hasHdr, namedFields, List.any_cons, List.filter_cons] at ih ⊢
    cases hf : isHdrNamed n f <;> simp [hf, ih]

theorem id_not_named (c : Ctx) (hid : IdNameOK c) (m : Bytes)
    (hm : m ∈ [sXFFor, sForwarded, sXRealIp, sXFProto, sXFPort, sXRequestId, sConnection, sUserAgent]) :
    isHdrNamed m (.hdr c.sozuIdHeader c.requestId) = false := by
  simpa [isHdrNamed] using hid m hm

theorem named_else (n k v : Bytes) (cond : Bool) :
    namedFields n (if cond = true then [] else [Field.hdr k v]) = if !cond && eqNoCase k n then [.hdr k v] else [] := by
  cases cond <;> cases h : eqNoCase k n <;> simp [namedFields, isHdrNamed, h]

theorem named_then (n k v : Bytes) (cond : Bool) :
    namedFields n (if cond = true then [Field.hdr k v] else []) = if cond && eqNoCase k n then [.hdr k v] else [] := by
  cases cond <;> cases h : eqNoCase k n <;> simp [namedFields, isHdrNamed, h]

theorem named_one (n k v : Bytes) :
    namedFields n [Field.hdr k v] = if eqNoCase k n then [.hdr k v] else [] := by
  cases h : eqNoCase k n <;> simp [namedFields, isHdrNamed, h]

/-- which of the always-pushed headers are named `n`, given how the five names compare with `n` -/
theorem tail_named (c : Ctx) (fs : List Field) (n : Bytes) (b1 b2 b3 b4 b5 : Bool)
    (e1 : eqNoCase cXFPort n = b1) (e2 : eqNoCase cXFProto n = b2) (e3 : eqNoCase cConnection n = b3)
    (e4 : eqNoCase cXRequestId n = b4) (e5 : eqNoCase c.sozuIdHeader n = b5) :
    namedFields n (tailAdditions c fs) =
      (if !hasHdr sXFPort fs && b1 then [.hdr cXFPort c.publicAddr.port] else []) ++
      (if !hasHdr sXFProto fs && b2 then [.hdr cXFProto c.proto] else []) ++
      (if (!hasHdr sConnection fs && c.closing) && b3 then [.hdr cConnection sClose] else []) ++
      (if !hasHdr sXRequestId fs && b4 then [.hdr cXRequestId c.requestId] else []) ++
      (if b5 then [.hdr c.sozuIdHeader c.requestId] else []) := by
  subst e1 e2 e3 e4 e5
  simp only [tailAdditions, namedFields_append, named_else, named_then, named_one]

theorem named_nil_of_not_has {n : Bytes} {fs : List Field} (h : hasHdr n fs = false) : namedFields n fs = [] := by
  have := hasHdr_iff n fs
  rw [h] at this
  cases hl : namedFields n fs with
  | nil => rfl
  | cons a t => simp [hl] at this

theorem proto_when_absent (c : Ctx) (fs : List Field) (hid : IdNameOK c) :
    namedFields sXFProto (editRequest c fs) =
      (if hasHdr sXFProto fs then namedFields sXFProto fs else [.hdr cXFProto c.proto]) := by
  rw [named_edit c sXFProto ⟨⟨by decide, by decide, by decide, hid _ (by simp)⟩, by decide, by decide⟩,
    tail_named c fs sXFProto false true false false false (by decide) (by decide) (by decide) (by decide) (hid _ (by simp))]
  cases h : hasHdr sXFProto fs
  · simp [named_nil_of_not_has h]
  · simp

theorem port_when_absent (c : Ctx) (fs : List Field) (hid : IdNameOK c) :
    namedFields sXFPort (editRequest c fs) =
      (if hasHdr sXFPort fs then namedFields sXFPort fs else [.hdr cXFPort c.publicAddr.port]) := by
  rw [named_edit c sXFPort ⟨⟨by decide, by decide, by decide, hid _ (by simp)⟩, by decide, by decide⟩,
    tail_named c fs sXFPort true false false false false (by decide) (by decide) (by decide) (by decide) (hid _ (by simp))]
  cases h : hasHdr sXFPort fs
  · simp [named_nil_of_not_has h]
  · simp

theorem const_vs_id (c : Ctx) (hid : IdNameOK c) {cm m : Bytes} (hc : lower cm = lower m)
    (hm : m ∈ [sXFFor, sForwarded, sXRealIp, sXFProto, sXFPort, sXRequestId, sConnection, sUserAgent]) :
    eqNoCase cm c.sozuIdHeader = false := by
  have := hid m hm
  simp only [eqNoCase, beq_eq_false_iff_ne, ne_eq] at this ⊢
  rw [hc]
  exact fun e => this e.symm

theorem idne (c : Ctx) (hid : IdNameOK c) (m : Bytes)
    (hm : m ∈ [sXFFor, sForwarded, sXRealIp, sXFProto, sXFPort, sXRequestId, sConnection, sUserAgent]) :
    lower c.sozuIdHeader ≠ lower m := by
  have := hid m hm
  simpa [eqNoCase] using this

/-- the walk keeps exactly the first `X-Request-Id` -/
theorem walk_request_id (c : Ctx) (seen : Bool) (fs : List Field) :
    namedFields sXRequestId (walkRequest c seen fs) = if seen then [] else (namedFields sXRequestId fs).take 1 := by
  induction fs generalizing seen with
  | nil => cases seen <;> rfl
  | cons f tl ih =>
    cases f with
    | cookies => have := ih seen; simp only [namedFields] at this; simp [walkRequest, namedFields, List.filter_cons, isHdrNamed, this]
    | hdr k v =>
      have other : ∀ sn, eqNoCase k sXRequestId = false →
          namedFields sXRequestId (walkRequest c sn tl) = (if sn then [] else (namedFields sXRequestId (Field.hdr k v :: tl)).take 1) ∧
          namedFields sXRequestId (Field.hdr k v :: walkRequest c sn tl) = (if sn then [] else (namedFields sXRequestId (Field.hdr k v :: tl)).take 1) := by
        intro sn hk
        have := ih sn
        simp only [namedFields] at this
        simp [namedFields, List.filter_cons, isHdrNamed, hk, this]
      simp only [walkRequest]
      split
      · next hk =>
        have hkn := eqNoCase_false_of_lower (n := sXRequestId) hk (by decide)
        have := ih seen
        simp only [namedFields] at this
        split <;> simp [namedFields, List.filter_cons, isHdrNamed, hkn, this]
      · split
        · next hk => exact (other seen (kept_not_named hk (by decide))).2
        · split
          · next hk =>
            simp only [Bool.and_eq_true] at hk
            exact (other seen (eqNoCase_false_of_lower (n := sXRequestId) hk.1 (by decide))).1
          · split
            · next hk =>
              have := ih true
              simp only [namedFields] at this
              cases seen <;> simp [namedFields, List.filter_cons, isHdrNamed, hk, this]
            · next hk =>
              have hk' : eqNoCase k sXRequestId = false := by simpa using hk
              split
              · exact (other seen hk').1
              · exact (other seen hk').2

/-- the walk removes every client field named like the correlation header -/
theorem walk_correlation (c : Ctx) (hid : IdNameOK c) (seen : Bool) (fs : List Field) :
    namedFields c.sozuIdHeader (walkRequest c seen fs) = [] := by
  induction fs generalizing seen with
  | nil => rfl
  | cons f tl ih =>
    cases f with
    | cookies => have := ih seen; simp only [namedFields] at this; simp [walkRequest, namedFields, List.filter_cons, isHdrNamed, this]
    | hdr k v =>
      have notn : ∀ sn, eqNoCase k c.sozuIdHeader = false →
          namedFields c.sozuIdHeader (Field.hdr k v :: walkRequest c sn tl) = [] := by
        intro sn hk; have := ih sn; simp only [namedFields] at this
        simp [namedFields, List.filter_cons, isHdrNamed, hk, this]
      simp only [walkRequest]
      split
      · next hk =>
        have hkn := eqNoCase_false_of_lower hk (idne c hid _ (by simp))
        have := ih seen
        simp only [namedFields] at this
        split <;> simp [namedFields, List.filter_cons, isHdrNamed, hkn, this]
      · split
        · next hk =>
          exact notn seen (kept_not_named hk (by
            intro m hm
            simp only [List.mem_cons, List.mem_nil_iff, or_false] at hm
            rcases hm with rfl | rfl | rfl | rfl | rfl <;> exact idne c hid _ (by simp)))
        · split
          · exact ih seen
          · split
            · next hk =>
              have hkn := eqNoCase_false_of_lower hk (idne c hid _ (by simp))
              split
              · exact ih true
              · exact notn true hkn
            · split
              · exact ih seen
              · next hk => exact notn seen (by simpa using hk)

theorem single_ids (c : Ctx) (fs : List Field) (hid : IdNameOK c) :
    (namedFields sXRequestId (editRequest c fs)).length = 1 ∧
    namedFields c.sozuIdHeader (editRequest c fs) = [.hdr c.sozuIdHeader c.requestId] := by
  constructor
  · rw [named_edit_walk c sXRequestId (by decide) (by decide) (by decide), walk_request_id,
      tail_named c fs sXRequestId false false false true false (by decide) (by decide) (by decide) (by decide) (hid _ (by simp))]
    cases h : hasHdr sXRequestId fs
    · simp [named_nil_of_not_has h]
    · have := hasHdr_iff sXRequestId fs
      rw [h] at this
      cases hl : namedFields sXRequestId fs with
      | nil => simp [hl] at this
      | cons a t => simp
  · rw [named_edit_walk c c.sozuIdHeader (idne c hid _ (by simp)) (idne c hid _ (by simp)) (idne c hid _ (by simp)),
      walk_correlation c hid,
      tail_named c fs c.sozuIdHeader false false false false true
        (const_vs_id c hid (m := sXFPort) (by decide) (by simp)) (const_vs_id c hid (m := sXFProto) (by decide) (by simp))
        (const_vs_id c hid (m := sConnection) (by decide) (by simp)) (const_vs_id c hid (m := sXRequestId) (by decide) (by simp))
        (eqNoCase_refl _)]
    simp

-- ----------------------------------------------- truthful forwarding ids --

theorem tail_not_named (c : Ctx) (fs : List Field) (n : Bytes)
    (e1 : eqNoCase cXFPort n = false) (e2 : eqNoCase cXFProto n = false) (e3 : eqNoCase cConnection n = false)
    (e4 : eqNoCase cXRequestId n = false) (e5 : eqNoCase c.sozuIdHeader n = false) :
    ∀ f ∈ tailAdditions c fs, isHdrNamed n f = false := by
  have := tail_named c fs n false false false false false e1 e2 e3 e4 e5
  simp only [Bool.and_false, Bool.false_eq_true, ↓reduceIte, List.append_nil, namedFields,
    List.filter_eq_nil_iff, Bool.not_eq_true] at this
  exact this

theorem lastValue_peer_xff (c : Ctx) (p : Addr) (a b : Bool) :
    lastValue sXFFor (peerAdditions c p a b) = if a then none else some p.ip := by
  cases a <;> cases b <;> cases hs : c.sendXRealIp <;>
    simp [peerAdditions, lastValue, hs, show eqNoCase cXFFor sXFFor = true by decide,
      show eqNoCase cForwarded sXFFor = false by decide, show eqNoCase cXRealIp sXFFor = false by decide]

theorem lastValue_peer_fwd (c : Ctx) (p : Addr) (a b : Bool) :
    lastValue sForwarded (peerAdditions c p a b) =
      if b then none else some (sProtoEq ++ c.proto ++ forBy p c.publicAddr) := by
  cases a <;> cases b <;> cases hs : c.sendXRealIp <;>
    simp [peerAdditions, lastValue, hs, show eqNoCase cXFFor sForwarded = false by decide,
      show eqNoCase cForwarded sForwarded = true by decide, show eqNoCase cXRealIp sForwarded = false by decide]

theorem lastValue_peer_xri (c : Ctx) (p : Addr) (a b : Bool) (hs : c.sendXRealIp = true) :
    lastValue sXRealIp (peerAdditions c p a b) = some p.ip := by
  cases a <;> cases b <;>
    simp [peerAdditions, lastValue, hs, show eqNoCase cXRealIp sXRealIp = true by decide]

theorem xff_last (c : Ctx) (p : Addr) (fs : List Field) (hp : c.peer = some p) (hid : IdNameOK c) :
    ∃ pre, lastValue sXFFor (editRequest c fs) = some (pre ++ p.ip) := by
  unfold editRequest
  simp only [hp]
  rw [lastValue_append, lastValue_none_of_not_named sXFFor _
    (tail_not_named c fs sXFFor (by decide) (by decide) (by decide) (by decide) (hid _ (by simp)))]
  simp only
  rw [lastValue_append, lastValue_peer_xff]
  obtain ⟨m1, m2⟩ := lastValue_modifyLast_same sXFFor (sCommaSp ++ p.ip) (walkRequest c false fs)
  cases hx : (modifyLast (isHdrNamed sXFFor) (appendVal (sCommaSp ++ p.ip)) (walkRequest c false fs)).2 with
  | false => exact ⟨[], by simp⟩
  | true =>
    simp only [↓reduceIte]
    rw [lastValue_modifyLast_other sXFFor sForwarded _ (by decide), m1]
    rw [hx] at m2
    cases hl : lastValue sXFFor (walkRequest c false fs) with
    | none => simp [hl] at m2
    | some v => exact ⟨v ++ sCommaSp, by simp⟩

theorem forwarded_last (c : Ctx) (p : Addr) (fs : List Field) (hp : c.peer = some p) (hid : IdNameOK c) :
    ∃ pre, lastValue sForwarded (editRequest c fs) = some (pre ++ sProtoEq ++ c.proto ++ forBy p c.publicAddr) := by
  unfold editRequest
  simp only [hp]
  rw [lastValue_append, lastValue_none_of_not_named sForwarded _
    (tail_not_named c fs sForwarded (by decide) (by decide) (by decide) (by decide) (hid _ (by simp)))]
  simp only
  rw [lastValue_append, lastValue_peer_fwd]
  obtain ⟨m1, m2⟩ := lastValue_modifyLast_same sForwarded (sCommaProto ++ c.proto ++ forBy p c.publicAddr)
    (modifyLast (isHdrNamed sXFFor) (appendVal (sCommaSp ++ p.ip)) (walkRequest c false fs)).1
  cases hx : (modifyLast (isHdrNamed sForwarded) (appendVal (sCommaProto ++ c.proto ++ forBy p c.publicAddr))
      (modifyLast (isHdrNamed sXFFor) (appendVal (sCommaSp ++ p.ip)) (walkRequest c false fs)).1).2 with
  | false => exact ⟨[], by simp⟩
  | true =>
    simp only [↓reduceIte]
    rw [m1]
    rw [hx] at m2
    cases hl : lastValue sForwarded (modifyLast (isHdrNamed sXFFor) (appendVal (sCommaSp ++ p.ip)) (walkRequest c false fs)).1 with
    | none => simp [hl] at m2
    | some v =>
      refine ⟨v ++ sCommaSp, ?_⟩
      have : sCommaProto = sCommaSp ++ sProtoEq := by decide
      simp [this]

theorem xrealip_last (c : Ctx) (p : Addr) (fs : List Field) (hp : c.peer = some p) (hid : IdNameOK c)
    (hs : c.sendXRealIp = true) : lastValue sXRealIp (editRequest c fs) = some p.ip := by
  unfold editRequest
  simp only [hp]
  rw [lastValue_append, lastValue_none_of_not_named sXRealIp _
    (tail_not_named c fs sXRealIp (by decide) (by decide) (by decide) (by decide) (hid _ (by simp)))]
  simp only
  rw [lastValue_append, lastValue_peer_xri c p _ _ hs]

theorem walk_elides (c : Ctx) (seen : Bool) (fs : List Field) (he : c.elideXRealIp = true) :
    namedFields sXRealIp (walkRequest c seen fs) = [] := by
  induction fs generalizing seen with
  | nil => rfl
  | cons f tl ih =>
    cases f with
    | cookies => have := ih seen; simp only [namedFields] at this; simp [walkRequest, namedFields, List.filter_cons, isHdrNamed, this]
    | hdr k v =>
      have notn : ∀ sn, eqNoCase k sXRealIp = false → namedFields sXRealIp (Field.hdr k v :: walkRequest c sn tl) = [] := by
        intro sn hk; have := ih sn; simp only [namedFields] at this
        simp [namedFields, List.filter_cons, isHdrNamed, hk, this]
      simp only [walkRequest]
      split
      · next hk =>
        have hkn := eqNoCase_false_of_lower (n := sXRealIp) hk (by decide)
        have := ih seen
        simp only [namedFields] at this
        split <;> simp [namedFields, List.filter_cons, isHdrNamed, hkn, this]
      · split
        · next hk => exact notn seen (kept_not_named hk (by decide))
        · split
          · exact ih seen
          · next hx =>
            have hkn : eqNoCase k sXRealIp = false := by simpa [he] using hx
            split
            · split
              · exact ih true
              · exact notn true hkn
            · split
              · exact ih seen
              · exact notn seen hkn

theorem xrealip_elided (c : Ctx) (p : Addr) (fs : List Field) (hp : c.peer = some p) (hid : IdNameOK c)
    (he : c.elideXRealIp = true) :
    namedFields sXRealIp (editRequest c fs) = if c.sendXRealIp then [.hdr cXRealIp p.ip] else [] := by
  unfold editRequest
  simp only [hp]
  rw [namedFields_append, namedFields_append,
    tail_named c fs sXRealIp false false false false false (by decide) (by decide) (by decide) (by decide) (hid _ (by simp)),
    namedFields_modifyLast_other sXRealIp sForwarded _ (by decide),
    namedFields_modifyLast_other sXRealIp sXFFor _ (by decide), walk_elides c false fs he]
  cases hs : c.sendXRealIp <;>
    cases (modifyLast (isHdrNamed sXFFor) (appendVal (sCommaSp ++ p.ip)) (walkRequest c false fs)).2 <;>
    cases (modifyLast (isHdrNamed sForwarded) (appendVal (sCommaProto ++ c.proto ++ forBy p c.publicAddr))
      (modifyLast (isHdrNamed sXFFor) (appendVal (sCommaSp ++ p.ip)) (walkRequest c false fs)).1).2 <;>
    simp [peerAdditions, hs, namedFields, List.filter_cons, isHdrNamed,
      show eqNoCase cXFFor sXRealIp = false by decide, show eqNoCase cForwarded sXRealIp = false by decide,
      show eqNoCase cXRealIp sXRealIp = true by decide]

-- --------------------------------------------------- toward HTTP/2 --

theorem lowerB_idem (b : Nat) : lowerB (lowerB b) = lowerB b := by
  unfold lowerB isUpper
  by_cases h : (65 ≤ b ∧ b ≤ 90)
  · have h' : ¬ (65 ≤ b + 32 ∧ b + 32 ≤ 90) := by omega
    simp [h, h'] <;> (intros; omega)
  · simp [h] <;> (intros; omega)

theorem lower_idem (k : Bytes) : lower (lower k) = lower k := by
  simp [lower, lowerB_idem]

theorem eqNoCase_lower_left (k n : Bytes) : eqNoCase (lower k) n = eqNoCase k n := by
  simp [eqNoCase, lower_idem]

theorem lowerB_not_upper (b : Nat) : isUpper (lowerB b) = false := by
  unfold lowerB isUpper
  by_cases h : (65 ≤ b ∧ b ≤ 90)
  · have h' : ¬ (65 ≤ b + 32 ∧ b + 32 ≤ 90) := by omega
    simp [h, h'] <;> (intros; omega)
  · simp [h] <;> (intros; omega)

theorem toH2Header_clean {k v : Bytes} {kv : Bytes × Bytes} (h : toH2Header k v = some kv) :
    isConnectionSpecific kv.1 = false ∧ eqNoCase kv.1 sHost = false ∧ eqNoCase kv.1 sTrailer = false ∧
    (eqNoCase kv.1 sTe = true → eqNoCase kv.2 sTrailers = true) ∧ (∀ b ∈ kv.1, isUpper b = false) := by
  unfold toH2Header at h
  split at h; · cases h
  next hs =>
  split at h; · cases h
  split at h; · cases h
  cases h
  simp only [h2Skip, Bool.or_eq_true, Bool.and_eq_true, Bool.not_eq_true', not_or, Bool.not_eq_true, not_and,
    Bool.not_eq_false] at hs
  obtain ⟨⟨⟨⟨h1, h2⟩, h3⟩, h4⟩, h5⟩ := hs
  refine ⟨?_, by simpa [eqNoCase_lower_left] using h2, by simpa [eqNoCase_lower_left] using h4, ?_, ?_⟩
  · simp only [isConnectionSpecific, List.any_eq_false] at h1 ⊢
    intro x hx; simpa [eqNoCase_lower_left] using h1 x hx
  · intro hte; exact h5 (by simpa [eqNoCase_lower_left] using hte)
  · intro b hb
    simp only [lower, List.mem_map] at hb
    obtain ⟨a, _, rfl⟩ := hb
    exact lowerB_not_upper a

theorem h2Fields_clean (fs : List Field) (jar : List Crumb) :
    ∀ kv ∈ h2Fields fs jar,
      isConnectionSpecific kv.1 = false ∧ eqNoCase kv.1 sHost = false ∧ eqNoCase kv.1 sTrailer = false ∧
      (eqNoCase kv.1 sTe = true → eqNoCase kv.2 sTrailers = true) ∧ (∀ b ∈ kv.1, isUpper b = false) := by
  induction fs generalizing jar with
  | nil => intro kv h; simp [h2Fields] at h
  | cons f tl ih =>
    intro kv h
    cases f with
    | hdr k v =>
      simp only [h2Fields] at h
      cases ht : toH2Header k v with
      | none => simp only [ht] at h; exact ih jar kv h
      | some x =>
        simp only [ht, List.mem_cons] at h
        rcases h with rfl | h
        · exact toH2Header_clean ht
        · exact ih jar kv h
    | cookies =>
      simp only [h2Fields, List.mem_append, List.mem_map] at h
      rcases h with ⟨c, _, rfl⟩ | h
      · have h1 : isConnectionSpecific sCookie = false := by decide
        have h2 : eqNoCase sCookie sHost = false := by decide
        have h3 : eqNoCase sCookie sTrailer = false := by decide
        have h4 : eqNoCase sCookie sTe = false := by decide
        have h5 : ∀ b ∈ sCookie, isUpper b = false := by decide
        exact ⟨h1, h2, h3, fun e => by simp [h4] at e, h5⟩
      · exact ih [] kv h

theorem trailer_not_elided (lim : Limits) (hl t : List (Bytes × Bytes)) (h : handleTrailer lim true hl = .ok t) :
    ∀ kv ∈ t, kv.1 ∉ Consts.hdrTrailerElided := fun kv hkv => (trailer_clean lim hl t h kv hkv).2

-- ------------------------------------------------------------ response --

theorem walkResponse_length (c : Ctx) (fs : List Field) : (walkResponse c fs).length = fs.length := by
  induction fs with
  | nil => rfl
  | cons f tl ih =>
    cases f with
    | cookies => simp [walkResponse, ih]
    | hdr k v => simp only [walkResponse]; split <;> simp [ih]

theorem walkResponse_id (c : Ctx) (fs : List Field) (h : c.closing = false) : walkResponse c fs = fs := by
  induction fs with
  | nil => rfl
  | cons f tl ih =>
    cases f with
    | cookies => simp [walkResponse, ih]
    | hdr k v => simp [walkResponse, h, ih]

theorem editResponse_additions (c : Ctx) (fs : List Field) :
    ∃ adds, editResponse c fs = walkResponse c fs ++ adds ∧
      (c.closing = false → walkResponse c fs = fs) ∧
      (walkResponse c fs).length = fs.length ∧
      (∀ f ∈ adds, f = .hdr c.sozuIdHeader c.requestId ∨
        ∃ s, c.stickySession = some s ∧ c.stickySession ≠ c.stickyFound ∧ f = .hdr cSetCookie (c.stickyName ++ [61] ++ s ++ sPathSlash)) ∧
      (adds.filter (· == Field.hdr c.sozuIdHeader c.requestId)).length ≥ 1 := by
  refine ⟨(match c.stickySession with
      | some s => if c.stickySession != c.stickyFound then [.hdr cSetCookie (c.stickyName ++ [61] ++ s ++ sPathSlash)] else []
      | none => []) ++ [.hdr c.sozuIdHeader c.requestId], by first | rfl | (simp only [editResponse, List.append_assoc]; rfl) | simp only [editResponse, List.append_assoc], walkResponse_id c fs,
    walkResponse_length c fs, ?_, ?_⟩
  · intro f hf
    simp only [List.mem_append, List.mem_cons, List.mem_nil_iff, or_false] at hf
    rcases hf with hf | hf
    · cases hs : c.stickySession with
      | none => simp [hs] at hf
      | some s =>
        simp only [hs] at hf
        split at hf
        · next hne =>
          simp only [List.mem_cons, List.mem_nil_iff, or_false] at hf
          exact .inr ⟨s, rfl, by simpa [hs] using hne, hf⟩
        · simp at hf
    · exact .inl hf
  · simp [List.filter_append]

theorem applyEdits_keeps (es : List HeaderEdit) (fs : List Field) (f : Field) (hf : f ∈ fs)
    (h : ∀ e ∈ es, e.drops = true → fieldKeyLower f ≠ some (lower e.key)) : f ∈ applyEdits es fs := by
  unfold applyEdits
  split
  · exact hf
  · simp only [List.mem_append, List.mem_filter]
    refine .inl ⟨hf, ?_⟩
    cases hk : fieldKeyLower f with
    | none => rfl
    | some k =>
      simp only [Bool.not_eq_true', List.contains_eq_mem, List.mem_map, List.mem_filter, decide_eq_false_iff_not,
        not_exists, not_and, and_imp]
      intro e he hd hke
      exact h e he hd (by rw [hk, hke])

theorem request_id_first (c : Ctx) (fs : List Field) (hid : IdNameOK c) (k v : Bytes) (rest : List Field)
    (h : namedFields sXRequestId fs = .hdr k v :: rest) :
    namedFields sXRequestId (editRequest c fs) = [.hdr k v] := by
  rw [named_edit_walk c sXRequestId (by decide) (by decide) (by decide), walk_request_id,
    tail_named c fs sXRequestId false false false true false (by decide) (by decide) (by decide) (by decide) (hid _ (by simp)), h]
  have hh := hasHdr_iff sXRequestId fs
  rw [h] at hh
  have : hasHdr sXRequestId fs = true := by simpa using hh
  simp [this]

-- ------------------------------------------- request-side router pass --

theorem routerPass_dropped (rh og rp : Option Bytes) (edits : List ReqEdit) (fs : List Field)
    (hact : (rh.isNone && rp.isNone && edits.isEmpty) = false) (f : Field)
    (hf : f ∈ routerPass rh og rp edits fs) (n : Bytes) (hn : n ∈ reqDropKeys rh.isSome edits)
    (hk : fieldKeyLower f = some n) : f ∈ reqInserted rh og edits := by
  simp only [routerPass, hact, Bool.false_eq_true, ↓reduceIte, List.mem_append, List.mem_filter, reqKeep] at hf
  rcases hf with ⟨_, hkeep⟩ | hins
  · rw [hk] at hkeep
    simp only [Bool.not_eq_true', List.contains_eq_mem, decide_eq_false_iff_not] at hkeep
    exact (hkeep hn).elim
  · exact hins

theorem named_key {n : Bytes} {f : Field} (h : isHdrNamed n f = true) : fieldKeyLower f = some (lower n) := by
  cases f with
  | cookies => simp [isHdrNamed] at h
  | hdr k v =>
    simp only [isHdrNamed, eqNoCase, beq_iff_eq] at h
    simp [fieldKeyLower, h]

theorem request_edits_all_copies (rh og rp : Option Bytes) (edits : List ReqEdit) (fs : List Field) :
    (∀ e ∈ edits, e.val = [] → ∀ f ∈ routerPass rh og rp edits fs, isHdrNamed e.key f = true →
        f ∈ reqInserted rh og edits) ∧
    (rh.isSome = true → ∀ f ∈ routerPass rh og rp edits fs,
        (isHdrNamed sHost f = true ∨ isHdrNamed sXFHost f = true) → f ∈ reqInserted rh og edits) ∧
    (∀ f ∈ fs, (∀ n ∈ reqDropKeys rh.isSome edits, fieldKeyLower f ≠ some n) → f ∈ routerPass rh og rp edits fs) := by
  refine ⟨?_, ?_, ?_⟩
  · intro e he hv f hf hnamed
    have hact : (rh.isNone && rp.isNone && edits.isEmpty) = false := by
      cases edits with
      | nil => simp at he
      | cons a t => simp
    refine routerPass_dropped rh og rp edits fs hact f hf (lower e.key) ?_ (named_key hnamed)
    simp only [reqDropKeys, List.mem_append, List.mem_map, List.mem_filter]
    exact .inl (.inl ⟨e, ⟨he, by simp [hv]⟩, rfl⟩)
  · intro hrh f hf hnamed
    have hact : (rh.isNone && rp.isNone && edits.isEmpty) = false := by
      cases rh with
      | none => simp at hrh
      | some x => simp
    rcases hnamed with hnamed | hnamed
    · refine routerPass_dropped rh og rp edits fs hact f hf sHost ?_ (by
        have := named_key hnamed; rwa [show lower sHost = sHost by decide] at this)
      simp [reqDropKeys, hrh]
    · refine routerPass_dropped rh og rp edits fs hact f hf sXFHost ?_ (by
        have := named_key hnamed; rwa [show lower sXFHost = sXFHost by decide] at this)
      simp [reqDropKeys, hrh]
  · intro f hf hno
    unfold routerPass
    split
    · exact hf
    · simp only [List.mem_append, List.mem_filter, reqKeep]
      refine .inl ⟨hf, ?_⟩
      cases hk : fieldKeyLower f with
      | none => rfl
      | some k =>
        simp only [Bool.not_eq_true', List.contains_eq_mem, decide_eq_false_iff_not]
        intro hmem
        exact hno k hmem hk

-- ------------------------------------------------ end-to-end fidelity --

/-- names a frontend's request rules touch: everything the delete pass
    removes and everything the router inserts (lower-cased) -/
def ruleNames (rh : Option Bytes) (edits : List ReqEdit) : List Bytes :=
  reqDropKeys rh.isSome edits ++ edits.map (lower ·.key)

/-- a header name that neither the editor nor the frontend's rules own -/
def keepName (c : Ctx) (rh : Option Bytes) (edits : List ReqEdit) (k : Bytes) : Bool :=
  !(ownedNames c).any (eqNoCase k ·) && !(ruleNames rh edits).contains (lower k)

/-- the end-to-end part of a block list across editor and router -/
def keepField (c : Ctx) (rh : Option Bytes) (edits : List ReqEdit) : Field → Bool
  | .hdr k _ => keepName c rh edits k
  | .cookies => true

theorem keepField_not_owned {c : Ctx} {rh : Option Bytes} {edits : List ReqEdit} {f : Field}
    (h : keepField c rh edits f = true) : (!owned c f) = true := by
  cases f with
  | cookies => rfl
  | hdr k v => simp only [keepField, keepName, Bool.and_eq_true] at h; simpa [owned] using h.1

theorem filter_keep_of_e2e {c : Ctx} {rh : Option Bytes} {edits : List ReqEdit} {a b : List Field}
    (h : e2e c a = e2e c b) : a.filter (keepField c rh edits) = b.filter (keepField c rh edits) := by
  have e : ∀ l : List Field, l.filter (keepField c rh edits) = (e2e c l).filter (keepField c rh edits) := by
    intro l
    simp only [e2e, List.filter_filter]
    apply List.filter_congr
    intro f _
    cases hk : keepField c rh edits f with
    | false => simp
    | true => simp [keepField_not_owned hk]
  rw [e a, e b, h]

theorem inserted_not_kept (c : Ctx) (rh og : Option Bytes) (edits : List ReqEdit) :
    (reqInserted rh og edits).filter (keepField c rh edits) = [] := by
  simp only [List.filter_eq_nil_iff, Bool.not_eq_true]
  intro f hf
  simp only [reqInserted, List.mem_append, List.mem_map, List.mem_filter] at hf
  have drop_in : ∀ k v n, lower k = n → n ∈ ruleNames rh edits → keepField c rh edits (.hdr k v) = false := by
    intro k v n hk hn
    simp only [keepField, keepName, Bool.and_eq_false_iff, Bool.not_eq_false', List.contains_eq_mem, decide_eq_true_eq]
    exact .inr (hk ▸ hn)
  rcases hf with hf | ⟨e, ⟨he, _⟩, rfl⟩
  · cases rh with
    | none => simp at hf
    | some h =>
      simp only [List.mem_append, List.mem_cons, List.mem_nil_iff, or_false] at hf
      rcases hf with rfl | hf
      · exact drop_in _ _ sHost (by decide) (by simp [ruleNames, reqDropKeys])
      · cases og with
        | none => simp at hf
        | some o =>
          simp only [List.mem_cons, List.mem_nil_iff, or_false] at hf
          subst hf
          exact drop_in _ _ sXFHost (by decide) (by simp [ruleNames, reqDropKeys])
  · exact drop_in _ _ (lower e.key) rfl (by
      simp only [ruleNames, List.mem_append, List.mem_map]
      exact .inr ⟨e, he, rfl⟩)

theorem routerPass_keep (c : Ctx) (rh og rp : Option Bytes) (edits : List ReqEdit) (fs : List Field) :
    (routerPass rh og rp edits fs).filter (keepField c rh edits) = fs.filter (keepField c rh edits) := by
  unfold routerPass
  split
  · rfl
  · rw [List.filter_append, inserted_not_kept, List.append_nil, List.filter_filter]
    apply List.filter_congr
    intro f _
    cases hk : keepField c rh edits f with
    | false => simp
    | true =>
      cases f with
      | cookies => simp [fieldKeyLower, reqKeep]
      | hdr k v =>
        simp only [keepField, keepName, Bool.and_eq_true, Bool.not_eq_true', List.contains_eq_mem,
          decide_eq_false_iff_not] at hk
        have : lower k ∉ reqDropKeys rh.isSome edits := fun hm => hk.2 (by simp [ruleNames, hm])
        simp [fieldKeyLower, reqKeep, this]

/-- editor then router: the end-to-end headers are exactly the client's -/
theorem fidelity_blocks (c : Ctx) (rh og rp : Option Bytes) (edits : List ReqEdit) (fs : List Field) :
    (routerPass rh og rp edits (editRequest c fs)).filter (keepField c rh edits) = fs.filter (keepField c rh edits) := by
  rw [routerPass_keep]
  exact filter_keep_of_e2e (e2e_editRequest c fs)

/-- the same predicate on emitted `(name, value)` lines -/
def keepLine (c : Ctx) (rh : Option Bytes) (edits : List ReqEdit) (kv : Bytes × Bytes) : Bool :=
  keepName c rh edits kv.1

theorem keepName_lower (c : Ctx) (rh : Option Bytes) (edits : List ReqEdit) (k : Bytes) :
    keepName c rh edits (lower k) = keepName c rh edits k := by
  simp [keepName, eqNoCase_lower_left, lower_idem]

theorem emitFields_filter (c : Ctx) (rh : Option Bytes) (edits : List ReqEdit)
    (hck : keepName c rh edits cCookie = true) (fs : List Field) (jar : List Crumb) :
    (emitFields fs jar).filter (keepLine c rh edits) = emitFields (fs.filter (keepField c rh edits)) jar := by
  induction fs generalizing jar with
  | nil => rfl
  | cons f tl ih =>
    cases f with
    | hdr k v =>
      cases hk : keepName c rh edits k <;>
        simp [emitFields, List.filter_cons, keepLine, keepField, hk, ih jar]
    | cookies =>
      simp only [emitFields, List.filter_cons, keepField, ↓reduceIte]
      split
      · exact ih jar
      · simp [List.filter_cons, keepLine, hck, ih []]

theorem h2Fields_filter (c : Ctx) (rh : Option Bytes) (edits : List ReqEdit)
    (hck : keepName c rh edits sCookie = true) (fs : List Field) (jar : List Crumb) :
    (h2Fields fs jar).filter (keepLine c rh edits) = h2Fields (fs.filter (keepField c rh edits)) jar := by
  induction fs generalizing jar with
  | nil => rfl
  | cons f tl ih =>
    cases f with
    | hdr k v =>
      have hlow : ∀ x, toH2Header k v = some x → keepLine c rh edits x = keepName c rh edits k := by
        intro x hx
        unfold toH2Header at hx
        split at hx; · cases hx
        split at hx; · cases hx
        split at hx; · cases hx
        cases hx
        simp [keepLine, keepName_lower]
      cases ht : toH2Header k v with
      | none => cases hk : keepName c rh edits k <;> simp [h2Fields, List.filter_cons, keepField, hk, ht, ih jar]
      | some x =>
        have := hlow x ht
        cases hk : keepName c rh edits k <;>
          simp [h2Fields, List.filter_cons, keepField, hk, ht, ih jar, this]
    | cookies =>
      simp only [h2Fields, List.filter_cons, keepField, ↓reduceIte, List.filter_append, ih []]
      congr 1
      simp only [List.filter_eq_self, List.mem_map]
      rintro kv ⟨cr, _, rfl⟩
      simpa [keepLine] using hck

/-- end to end toward an HTTP/1.1 backend -/
theorem fidelity_h1 (c : Ctx) (rh og rp : Option Bytes) (edits : List ReqEdit) (fs : List Field) (jar : List Crumb)
    (hck : keepName c rh edits cCookie = true) :
    (emitFields (routerPass rh og rp edits (editRequest c fs)) jar).filter (keepLine c rh edits)
      = (emitFields fs jar).filter (keepLine c rh edits) := by
  rw [emitFields_filter c rh edits hck, emitFields_filter c rh edits hck, fidelity_blocks]

/-- end to end toward an HTTP/2 backend -/
theorem fidelity_h2 (c : Ctx) (rh og rp : Option Bytes) (edits : List ReqEdit) (fs : List Field) (jar : List Crumb)
    (hck : keepName c rh edits sCookie = true) :
    (h2Fields (routerPass rh og rp edits (editRequest c fs)) jar).filter (keepLine c rh edits)
      = (h2Fields fs jar).filter (keepLine c rh edits) := by
  rw [h2Fields_filter c rh edits hck, h2Fields_filter c rh edits hck, fidelity_blocks]

-- ------------------------------- rewrite_host: the proxy-owned pair --

theorem rewrite_host_owned (h o : Bytes) (rp : Option Bytes) (edits : List ReqEdit) (fs : List Field)
    (hno : ∀ e ∈ edits, eqNoCase e.key sHost = false ∧ eqNoCase e.key sXFHost = false) :
    namedFields sHost (routerPass (some h) (some o) rp edits fs) = [.hdr cHost h] ∧
    namedFields sXFHost (routerPass (some h) (some o) rp edits fs) = [.hdr cXFHost o] := by
  have hins : ∀ n, (n = sHost ∨ n = sXFHost) →
      namedFields n ((edits.filter (!·.val.isEmpty)).map fun e => Field.hdr e.key e.val) = [] := by
    intro n hn
    simp only [namedFields, List.filter_eq_nil_iff, Bool.not_eq_true, List.mem_map, List.mem_filter]
    rintro f ⟨e, ⟨he, _⟩, rfl⟩
    rcases hn with rfl | rfl
    · simpa [isHdrNamed] using (hno e he).1
    · simpa [isHdrNamed] using (hno e he).2
  have hkept : ∀ n, (n = sHost ∨ n = sXFHost) →
      namedFields n (fs.filter (reqKeep (reqDropKeys true edits))) = [] := by
    intro n hn
    simp only [namedFields, List.filter_filter, List.filter_eq_nil_iff, Bool.and_eq_true, not_and, Bool.not_eq_true, reqKeep]
    intro f _ hnamed
    have hk := named_key hnamed
    have hl : lower n = n := by rcases hn with rfl | rfl <;> decide
    rw [hl] at hk
    have hm : n ∈ reqDropKeys true edits := by rcases hn with rfl | rfl <;> simp [reqDropKeys]
    simp [hk, hm]
  constructor
  · simp only [routerPass, Option.isNone_some, Bool.false_and, Bool.false_eq_true, ↓reduceIte, Option.isSome_some,
      namedFields_append, reqInserted]
    rw [hkept sHost (.inl rfl), hins sHost (.inl rfl)]
    simp [namedFields, isHdrNamed, show eqNoCase cHost sHost = true by decide, show eqNoCase cXFHost sHost = false by decide]
  · simp only [routerPass, Option.isNone_some, Bool.false_and, Bool.false_eq_true, ↓reduceIte, Option.isSome_some,
      namedFields_append, reqInserted]
    rw [hkept sXFHost (.inr rfl), hins sXFHost (.inr rfl)]
    simp [namedFields, isHdrNamed, show eqNoCase cHost sXFHost = false by decide, show eqNoCase cXFHost sXFHost = true by decide]

end Sozu.Headers
