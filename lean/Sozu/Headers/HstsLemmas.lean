import Sozu.Headers.Hsts
/-
Lemmas about the HSTS route state (`Hsts.lean`): how one configuration step
moves the route of a given frontend, and the invariants used by the
`C13_hsts_*` statements.
-/
set_option linter.unusedSimpArgs false
set_option linter.unusedVariables false
namespace Sozu.Headers

def findR (rs : List (Nat × RouteM)) (id : Nat) : Option RouteM := (rs.find? (·.1 == id)).map (·.2)

def respOf : RouteM → List HeaderEdit
  | .light => []
  | .front _ resp => resp

theorem hLookup_eq (s : HState) (id : Nat) : hLookup s id = (findR s.routes id).map respOf := by
  unfold hLookup findR
  cases h : s.routes.find? (·.1 == id) with
  | none => rfl
  | some p => cases hp : p.2 <;> simp [respOf, hp]

theorem findR_any {rs : List (Nat × RouteM)} {id : Nat} {r : RouteM} (h : findR rs id = some r) :
    rs.any (·.1 == id) = true := by
  unfold findR at h
  cases hf : rs.find? (·.1 == id) with
  | none => simp [hf] at h
  | some p =>
    have := List.find?_some hf
    have hm := List.mem_of_find?_eq_some hf
    exact List.any_eq_true.mpr ⟨p, hm, this⟩

theorem findR_append_other (rs : List (Nat × RouteM)) (id id' : Nat) (r : RouteM) (h : id' ≠ id) :
    findR (rs ++ [(id', r)]) id = findR rs id := by
  unfold findR
  rw [List.find?_append]
  have hb : (id' == id) = false := by simpa using h
  cases hf : rs.find? (·.1 == id) with
  | some p => simp
  | none => simp [List.find?, hb]

theorem findR_append_new (rs : List (Nat × RouteM)) (id : Nat) (r : RouteM) (h : rs.any (·.1 == id) = false) :
    findR (rs ++ [(id, r)]) id = some r := by
  unfold findR
  rw [List.find?_append]
  have : rs.find? (·.1 == id) = none := by
    simp only [List.find?_eq_none]
    simp only [List.any_eq_false] at h
    exact h
  simp [this, List.find?]

theorem findR_map (rs : List (Nat × RouteM)) (f : RouteM → RouteM) (id : Nat) :
    findR (rs.map fun p => (p.1, f p.2)) id = (findR rs id).map f := by
  induction rs with
  | nil => rfl
  | cons p tl ih =>
    unfold findR at ih ⊢
    simp only [List.map_cons, List.find?_cons]
    cases hp : p.1 == id
    · simpa using ih
    · simp

theorem findR_filter_ne (rs : List (Nat × RouteM)) (id id' : Nat) (h : id' ≠ id) :
    findR (rs.filter (·.1 != id')) id = findR rs id := by
  induction rs with
  | nil => rfl
  | cons p tl ih =>
    unfold findR at ih ⊢
    by_cases hq : p.1 = id'
    · have hp : (p.1 == id) = false := by rw [hq]; simpa using h
      have hq' : (p.1 != id') = false := by simp [hq]
      simp only [List.filter_cons, hq', Bool.false_eq_true, ↓reduceIte, List.find?_cons, hp]
      exact ih
    · have hq' : (p.1 != id') = true := by simp [hq]
      simp only [List.filter_cons, hq', ↓reduceIte, List.find?_cons]
      cases hp : (p.1 == id)
      · simpa using ih
      · rfl

def removes (id : Nat) : HOp → Bool
  | .remove j => j == id
  | _ => false

/-- what a step does to the route of a frontend it does not remove -/
def stepRoute (s : HState) (r : RouteM) : HOp → RouteM
  | .patch c => (refreshRoute (stsEdit c) r).1
  | _ => r

theorem hPatch_routes (s : HState) (c : HstsCfg) :
    (hPatch s c).1.routes = s.routes.map fun p => (p.1, (refreshRoute (stsEdit c) p.2).1) := by
  simp [hPatch, hRefresh, List.map_map, Function.comp_def]

theorem hPatch_default (s : HState) (c : HstsCfg) : (hPatch s c).1.default = some c := by
  simp [hPatch, hRefresh]

theorem step_route (s : HState) (op : HOp) (id : Nat) (r : RouteM) (hnr : removes id op = false)
    (h : findR s.routes id = some r) : findR (hStep s op).routes id = some (stepRoute s r op) := by
  cases op with
  | add id' b p o d =>
    simp only [hStep, stepRoute, hAdd]
    split
    · simpa using h
    · next hany =>
      have hne : id' ≠ id := by
        intro e; subst e
        exact hany (findR_any h)
      simp only [Option.getD_some]
      rw [findR_append_other _ _ _ _ hne]; exact h
  | patch c =>
    simp only [hStep, stepRoute, hPatch_routes]
    rw [findR_map _ (fun r => (refreshRoute (stsEdit c) r).1), h]; rfl
  | remove id' =>
    have hne : id' ≠ id := by simpa [removes] using hnr
    simp only [hStep, stepRoute, hRemove]
    split
    · simp only [Option.getD_some]; rw [findR_filter_ne _ _ _ hne]; exact h
    · simpa using h

theorem step_default (s : HState) (op : HOp) :
    (hStep s op).default = match op with | .patch c => some c | _ => s.default := by
  cases op with
  | add id' b p o d => simp only [hStep, hAdd]; split <;> simp
  | patch c => simp [hStep, hPatch_default]
  | remove id' => simp only [hStep, hRemove]; split <;> simp

/-- an invariant `P (route of id) (listener default)` kept by every step that does not remove `id` -/
theorem run_inv (P : RouteM → Option HstsCfg → Prop) (id : Nat)
    (hP : ∀ r d op, P r d → P (match op with | HOp.patch c => (refreshRoute (stsEdit c) r).1 | _ => r)
                              (match op with | HOp.patch c => some c | _ => d))
    (ops : List HOp) (hnr : ∀ op ∈ ops, removes id op = false) :
    ∀ (s : HState) (r : RouteM), findR s.routes id = some r → P r s.default →
      ∃ r', findR (hRun s ops).routes id = some r' ∧ P r' (hRun s ops).default := by
  induction ops with
  | nil => intro s r h hp; exact ⟨r, h, hp⟩
  | cons op tl ih =>
    intro s r h hp
    have h1 := step_route s op id r (hnr op (by simp)) h
    have hd := step_default s op
    have hp' := hP r s.default op hp
    simp only [hRun, List.foldl_cons]
    refine ih (fun o ho => hnr o (by simp [ho])) (hStep s op) (stepRoute s r op) h1 ?_
    rw [hd]
    cases op <;> simpa [stepRoute] using hp'

theorem hRun_append (s : HState) (a b : List HOp) : hRun s (a ++ b) = hRun (hRun s a) b := by
  simp [hRun, List.foldl_append]

theorem isStsEdit_stsEdit {c : HstsCfg} {e : HeaderEdit} (h : stsEdit c = some e) : isStsEdit e = true := by
  unfold stsEdit at h
  split at h
  · cases hr : renderHsts c with
    | none => simp [hr] at h
    | some v => simp [hr] at h; subst h; simp [isStsEdit, eqNoCase]
  · cases h

theorem filter_sts_toList (o : Option HeaderEdit) (h : ∀ e, o = some e → isStsEdit e = true) :
    o.toList.filter isStsEdit = o.toList := by
  cases o with
  | none => rfl
  | some e => simp [h e rfl]

theorem rebuild_sts (resp : List HeaderEdit) (o : Option HeaderEdit) (h : ∀ e, o = some e → isStsEdit e = true) :
    (rebuildResp resp o).filter isStsEdit = o.toList := by
  unfold rebuildResp
  rw [List.filter_append, List.filter_filter, filter_sts_toList o h]
  have : resp.filter (fun a => isStsEdit a && !isStsEdit a) = [] := by
    simp only [List.filter_eq_nil_iff]; intro a _; cases isStsEdit a <;> simp
  simp [this]

/-- the route a successful add gives a frontend -/
theorem add_route (s : HState) (id : Nat) (b : Option HstsCfg) (p : Bool) (o : List HeaderEdit) (d : Bool)
    (hfresh : s.routes.any (·.1 == id) = false) :
    ∃ r, findR (hStep s (.add id b p o d)).routes id = some r ∧ (hStep s (.add id b p o d)).default = s.default ∧
      r = (let inherited := b.isNone && s.default.isSome
           let hsts := if inherited then s.default else b
           if p || !o.isEmpty || hsts.isSome then
             RouteM.front (inherited && hsts.isSome)
               ((if d then [] else o) ++ (match hsts with | some c => (stsEdit c).toList | none => []))
           else RouteM.light) := by
  simp only [hStep, hAdd, hfresh, Bool.false_eq_true, ↓reduceIte, Option.getD_some]
  refine ⟨_, findR_append_new _ _ _ hfresh, ?_, ?_⟩ <;> first | rfl | trivial | simp

-- ------------------------------------------------------------ the statements --

/-- an explicit block wins for ever -/
theorem explicit_block_wins (s0 : HState) (pre post : List HOp) (id : Nat) (c : HstsCfg) (p : Bool)
    (o : List HeaderEdit) (d : Bool)
    (hfresh : (hRun s0 pre).routes.any (·.1 == id) = false)
    (ho : ∀ e ∈ o, isStsEdit e = false) (hnr : ∀ op ∈ post, removes id op = false) :
    stsOf (hRun s0 (pre ++ [.add id (some c) p o d] ++ post)) id = (stsEdit c).toList := by
  rw [hRun_append, hRun_append]
  obtain ⟨r, hr, hdef, hre⟩ := add_route (hRun s0 pre) id (some c) p o d hfresh
  simp only [Option.isNone_some, Bool.false_and, Bool.false_eq_true, ↓reduceIte, Option.isSome_some, Bool.or_true] at hre
  have hstep : hRun (hRun s0 pre) [.add id (some c) p o d] = hStep (hRun s0 pre) (.add id (some c) p o d) := by
    simp [hRun]
  rw [hstep]
  obtain ⟨r', hr', hp'⟩ := run_inv (fun r _ => r = RouteM.front false ((if d then [] else o) ++ (stsEdit c).toList)) id
    (by intro r dd op hP; subst hP; cases op <;> simp [refreshRoute]) post hnr _ r hr hre
  unfold stsOf
  rw [hLookup_eq, hr', hp']
  simp only [Option.map_some, Option.getD_some, respOf, List.filter_append]
  have h1 : (if d then [] else o).filter isStsEdit = [] := by
    cases d
    · simp only [Bool.false_eq_true, ↓reduceIte, List.filter_eq_nil_iff, Bool.not_eq_true]; exact ho
    · simp
  rw [h1, filter_sts_toList _ (fun e he => isStsEdit_stsEdit he)]
  simp

/-- the invariant of a frontend that follows the listener default -/
def Follows (r : RouteM) (d : Option HstsCfg) : Prop :=
  (r = .light ∧ d.bind stsEdit = none) ∨ (∃ resp, r = .front true resp ∧ resp.filter isStsEdit = (d.bind stsEdit).toList)

theorem follows_step (r : RouteM) (d : Option HstsCfg) (op : HOp) (h : Follows r d) :
    Follows (match op with | HOp.patch c => (refreshRoute (stsEdit c) r).1 | _ => r)
            (match op with | HOp.patch c => some c | _ => d) := by
  cases op with
  | add _ _ _ _ _ => exact h
  | remove _ => exact h
  | patch c =>
    simp only
    rcases h with ⟨rfl, _⟩ | ⟨resp, rfl, _⟩
    · cases he : stsEdit c with
      | none => exact .inl ⟨by simp [refreshRoute], by simp [he]⟩
      | some e =>
        refine .inr ⟨rebuildResp [] (some e), by simp [refreshRoute], ?_⟩
        rw [rebuild_sts _ _ (fun e' he' => by cases he'; exact isStsEdit_stsEdit he)]
        simp [he]
    · refine .inr ⟨rebuildResp resp (stsEdit c), by simp [refreshRoute], ?_⟩
      rw [rebuild_sts _ _ (fun e he => isStsEdit_stsEdit he)]
      simp

theorem follows_default (s0 : HState) (pre post : List HOp) (id : Nat) (p : Bool) (o : List HeaderEdit) (d : Bool)
    (hfresh : (hRun s0 pre).routes.any (·.1 == id) = false)
    (ho : ∀ e ∈ o, isStsEdit e = false) (hnr : ∀ op ∈ post, removes id op = false)
    (hcond : (p = false ∧ o = []) ∨ (hRun s0 pre).default.isSome = true) :
    stsOf (hRun s0 (pre ++ [.add id none p o d] ++ post)) id =
      ((hRun s0 (pre ++ [.add id none p o d] ++ post)).default.bind stsEdit).toList := by
  rw [hRun_append, hRun_append]
  obtain ⟨r, hr, hdef, hre⟩ := add_route (hRun s0 pre) id none p o d hfresh
  have hstep : hRun (hRun s0 pre) [.add id none p o d] = hStep (hRun s0 pre) (.add id none p o d) := by
    simp [hRun]
  rw [hstep]
  have hfol : Follows r (hStep (hRun s0 pre) (.add id none p o d)).default := by
    rw [hdef]
    simp only [Option.isNone_none, Bool.true_and] at hre
    cases hdv : (hRun s0 pre).default with
    | none =>
      rcases hcond with ⟨rfl, rfl⟩ | hc
      · simp [hdv] at hre; exact .inl ⟨hre, by simp⟩
      · simp [hdv] at hc
    | some c =>
      simp only [hdv, Option.isSome_some, ↓reduceIte, Bool.or_true, Bool.and_self] at hre
      refine .inr ⟨_, hre, ?_⟩
      rw [List.filter_append]
      have h1 : (if d then [] else o).filter isStsEdit = [] := by
        cases d
        · simp only [Bool.false_eq_true, ↓reduceIte, List.filter_eq_nil_iff, Bool.not_eq_true]; exact ho
        · simp
      rw [h1, filter_sts_toList _ (fun e he => isStsEdit_stsEdit he)]
      simp
  obtain ⟨r', hr', hp'⟩ := run_inv Follows id follows_step post hnr _ r hr hfol
  unfold stsOf
  rw [hLookup_eq, hr']
  simp only [Option.map_some, Option.getD_some]
  rcases hp' with ⟨rfl, hn⟩ | ⟨resp, rfl, hf⟩
  · simp [respOf, hn]
  · simpa [respOf] using hf

theorem stsEdit_optout {c : HstsCfg} (h : c.enabled ≠ some true) : stsEdit c = none := by
  unfold stsEdit
  have : (c.enabled == some true) = false := by simpa using h
  simp [this]

theorem optout_never (s0 : HState) (pre post : List HOp) (id : Nat) (c : HstsCfg) (p : Bool)
    (o : List HeaderEdit) (d : Bool) (hc : c.enabled ≠ some true)
    (hfresh : (hRun s0 pre).routes.any (·.1 == id) = false)
    (ho : ∀ e ∈ o, isStsEdit e = false) (hnr : ∀ op ∈ post, removes id op = false) :
    stsOf (hRun s0 (pre ++ [.add id (some c) p o d] ++ post)) id = [] := by
  rw [explicit_block_wins s0 pre post id c p o d hfresh ho hnr, stsEdit_optout hc]; rfl

def exOn : HstsCfg := { enabled := some true, maxAge := some 300 }
def exOn2 : HstsCfg := { enabled := some true, maxAge := some 60, includeSub := true }
def exOff : HstsCfg := { enabled := some false, maxAge := none }

end Sozu.Headers
