import Sozu.Headers.Editor
/-
Headers area, part 4: where the `Strict-Transport-Security` response edit of a
frontend comes from, over a configuration history.

Transcribes
  * `lib/src/router/mod.rs`: the `has_policy` choice between the lightweight
    route shapes and `Route::Frontend` in `add_http_front_with_hsts_origin`,
    `Frontend::new` (inheritance bit, HSTS materialisation), `render_hsts`,
    `build_listener_hsts_edit`, `rebuild_with_listener_hsts`,
    `refresh_inheriting_hsts`, and `lookup` as far as `headers_response` goes;
  * the two pieces of glue in `lib/src/https.rs` that drive them:
    `add_https_frontend` (a frontend without an `hsts` block takes the
    listener default with origin `InheritedFromListenerDefault`) and
    `update_config` (a patch stores the new default and refreshes).
Frontends are identified by a `Nat` (distinct hostnames in the tie).
-/
namespace Sozu.Headers

def sSts : Bytes := [115, 116, 114, 105, 99, 116, 45, 116, 114, 97, 110, 115, 112, 111, 114, 116, 45, 115, 101, 99, 117, 114, 105, 116, 121]  -- 'strict-transport-security'
def sMaxAge : Bytes := [109, 97, 120, 45, 97, 103, 101, 61]  -- 'max-age='
def sIncludeSub : Bytes := [59, 32, 105, 110, 99, 108, 117, 100, 101, 83, 117, 98, 68, 111, 109, 97, 105, 110, 115]  -- '; includeSubDomains'
def sPreload : Bytes := [59, 32, 112, 114, 101, 108, 111, 97, 100]  -- '; preload'

/-- `HstsConfig` -/
structure HstsCfg where
  enabled : Option Bool
  maxAge : Option Nat
  includeSub : Bool := false
  preload : Bool := false
  forceReplace : Bool := false
deriving DecidableEq, Repr

def decDigits : Nat → Nat → Bytes
  | 0, _ => []
  | f + 1, n => if n < 10 then [48 + n] else decDigits f (n / 10) ++ [48 + n % 10]

/-- `format!("{n}")` -/
def decOf (n : Nat) : Bytes := decDigits (n + 1) n

/-- `render_hsts` -/
def renderHsts (c : HstsCfg) : Option Bytes :=
  match c.maxAge with
  | none => none
  | some m => some (sMaxAge ++ decOf m ++ (if c.includeSub then sIncludeSub else []) ++ (if c.preload then sPreload else []))

/-- the response edit of an HSTS block: `build_listener_hsts_edit`, and the
    same materialisation inside `Frontend::new` -/
def stsEdit (c : HstsCfg) : Option HeaderEdit :=
  if c.enabled == some true then
    (renderHsts c).map fun v => { key := sSts, val := v, mode := if c.forceReplace then .set else .setIfAbsent }
  else none

inductive RouteM
  /-- `Route::ClusterId` / `Route::Deny` -/
  | light
  /-- `Route::Frontend`: inheritance bit and `headers_response` -/
  | front (inherits : Bool) (resp : List HeaderEdit)
deriving DecidableEq, Repr

structure HState where
  /-- `HttpsListenerConfig.hsts` -/
  default : Option HstsCfg := none
  routes : List (Nat × RouteM) := []
deriving Repr

def isStsEdit (e : HeaderEdit) : Bool := eqNoCase e.key sSts

/-- `add_https_frontend` + `add_http_front_with_hsts_origin`: `block` is the
    frontend's own `hsts`, `other` its operator response edits, `policy`
    whether any other policy field is set, `deny` = clusterless (the
    Unauthorized shape keeps no operator edit, only HSTS). `none` = the router
    refused (the same rule exists already). -/
def hAdd (s : HState) (id : Nat) (block : Option HstsCfg) (policy : Bool) (other : List HeaderEdit)
    (deny : Bool := false) : Option HState :=
  if s.routes.any (·.1 == id) then none else
  let inherited := block.isNone && s.default.isSome
  let hsts := if inherited then s.default else block
  let hasPolicy := policy || !other.isEmpty || hsts.isSome
  let route :=
    if hasPolicy then
      RouteM.front (inherited && hsts.isSome)
        ((if deny then [] else other) ++ (match hsts with | some c => (stsEdit c).toList | none => []))
    else RouteM.light
  some { s with routes := s.routes ++ [(id, route)] }

/-- `rebuild_with_listener_hsts` on `headers_response` -/
def rebuildResp (resp : List HeaderEdit) (edit : Option HeaderEdit) : List HeaderEdit :=
  resp.filter (!isStsEdit ·) ++ edit.toList

/-- the per-route visit of `refresh_inheriting_hsts` -/
def refreshRoute (edit : Option HeaderEdit) : RouteM → RouteM × Bool
  | .front true resp => (.front true (rebuildResp resp edit), true)
  | .front false resp => (.front false resp, false)
  | .light => if edit.isSome then (.front true (rebuildResp [] edit), true) else (.light, false)

/-- `refresh_inheriting_hsts`: the new routes and the number refreshed -/
def hRefresh (s : HState) (new : Option HstsCfg) : HState × Nat :=
  let edit := new.bind stsEdit
  let rs := s.routes.map fun p => (p.1, refreshRoute edit p.2)
  ({ s with routes := rs.map fun p => (p.1, p.2.1) }, (rs.filter (·.2.2)).length)

/-- `HttpsListener::update_config` with an `hsts` patch -/
def hPatch (s : HState) (c : HstsCfg) : HState × Nat :=
  hRefresh { s with default := some c } (some c)

def hRemove (s : HState) (id : Nat) : Option HState :=
  if s.routes.any (·.1 == id) then some { s with routes := s.routes.filter (·.1 != id) } else none

/-- `lookup(..).headers_response` -/
def hLookup (s : HState) (id : Nat) : Option (List HeaderEdit) :=
  (s.routes.find? (·.1 == id)).map fun p =>
    match p.2 with
    | .light => []
    | .front _ resp => resp

inductive HOp
  | add (id : Nat) (block : Option HstsCfg) (policy : Bool) (other : List HeaderEdit) (deny : Bool)
  | patch (c : HstsCfg)
  | remove (id : Nat)
deriving Repr

def hStep (s : HState) : HOp → HState
  | .add id b p o d => (hAdd s id b p o d).getD s
  | .patch c => (hPatch s c).1
  | .remove id => (hRemove s id).getD s

def hRun (s : HState) (ops : List HOp) : HState := ops.foldl hStep s

/-- the `Strict-Transport-Security` edits a frontend's responses get -/
def stsOf (s : HState) (id : Nat) : List HeaderEdit := ((hLookup s id).getD []).filter isStsEdit

end Sozu.Headers
