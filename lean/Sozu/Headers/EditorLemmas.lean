import Sozu.Headers.Lemmas
/-
Lemmas about the request / response editor model (`Editor.lean`) used by the
C13 statements.
-/
set_option linter.unusedSimpArgs false
set_option linter.unusedVariables false
namespace Sozu.Headers

/-- the header names the proxy owns on the request path -/
def ownedNames (c : Ctx) : List Bytes :=
  [sXFFor, sForwarded, sXRealIp, sXFProto, sXFPort, sXRequestId, sConnection, c.sozuIdHeader]

def owned (c : Ctx) : Field → Bool
  | .hdr k _ => (ownedNames c).any (eqNoCase k ·)
  | .cookies => false

/-- the end-to-end part of a header block list (the cookie marker is end-to-end) -/
def e2e (c : Ctx) (fs : List Field) : List Field := fs.filter (!owned c ·)

/-- value of the last header named `name` -/
def lastValue (name : Bytes) : List Field → Option Bytes
  | [] => none
  | f :: rest =>
    match lastValue name rest with
    | some v => some v
    | none => match f with
      | .hdr k v => if eqNoCase k name then some v else none
      | .cookies => none

def namedFields (name : Bytes) (fs : List Field) : List Field := fs.filter (isHdrNamed name)

/-- the listener's correlation header name does not collide with a forwarding header -/
def IdNameOK (c : Ctx) : Prop :=
  ∀ n ∈ [sXFFor, sForwarded, sXRealIp, sXFProto, sXFPort, sXRequestId, sConnection, sUserAgent], eqNoCase c.sozuIdHeader n = false

theorem eqNoCase_refl (k : Bytes) : eqNoCase k k = true := by simp [eqNoCase]

theorem eqNoCase_lower_const {k : Bytes} {n : Bytes} (h : eqNoCase k n = true) (m : Bytes) :
    eqNoCase k m = (lower n == lower m) := by
  simp only [eqNoCase, beq_iff_eq] at h
  simp [eqNoCase, h]

theorem owned_of_named {c : Ctx} {n : Bytes} (hn : n ∈ ownedNames c) {f : Field} (h : isHdrNamed n f = true) :
    owned c f = true := by
  cases f with
  | cookies => simp [isHdrNamed] at h
  | hdr k v =>
    simp only [isHdrNamed] at h
    simp only [owned, List.any_eq_true]
    exact ⟨n, hn, h⟩

-- ------------------------------------------------------------ the walk --

theorem e2e_walkRequest (c : Ctx) (seen : Bool) (fs : List Field) : e2e c (walkRequest c seen fs) = e2e c fs := by
  induction fs generalizing seen with
  | nil => rfl
  | cons f tl ih =>
    cases f with
    | cookies =>
      have := ih seen
      simp only [walkRequest, e2e, List.filter_cons, owned] at this ⊢
      simp [this]
    | hdr k v =>
      have keep : ∀ sn, e2e c (Field.hdr k v :: walkRequest c sn tl) = e2e c (Field.hdr k v :: tl) := by
        intro sn
        have := ih sn
        simp only [e2e, List.filter_cons] at this ⊢
        rw [this]
      have drop : ∀ sn, owned c (.hdr k v) = true → e2e c (walkRequest c sn tl) = e2e c (Field.hdr k v :: tl) := by
        intro sn ho
        have := ih sn
        simp only [e2e, List.filter_cons, ho, Bool.not_true, Bool.false_eq_true, ↓reduceIte] at this ⊢
        exact this
      simp only [walkRequest]
      split
      · next hk =>
        have ho : ∀ v', owned c (.hdr k v') = true := fun v' =>
          owned_of_named (n := sConnection) (by simp [ownedNames]) (by simpa [isHdrNamed] using hk)
        have := ih seen
        split <;> simp [e2e, List.filter_cons, ho] at this ⊢ <;> exact this
      · split
        · exact keep seen
        · split
          · next hk =>
            simp only [Bool.and_eq_true] at hk
            exact drop seen (owned_of_named (n := sXRealIp) (by simp [ownedNames]) (by simpa [isHdrNamed] using hk.1))
          · split
            · next hk =>
              have ho : owned c (.hdr k v) = true :=
                owned_of_named (n := sXRequestId) (by simp [ownedNames]) (by simpa [isHdrNamed] using hk)
              split
              · exact drop true ho
              · exact keep true
            · split
              · next hk =>
                exact drop seen (owned_of_named (n := c.sozuIdHeader) (by simp [ownedNames]) (by simpa [isHdrNamed] using hk))
              · exact keep seen

theorem e2e_modifyLast (c : Ctx) (n suf : Bytes) (hn : n ∈ ownedNames c) (fs : List Field) :
    e2e c (modifyLast (isHdrNamed n) (appendVal suf) fs).1 = e2e c fs := by
  induction fs with
  | nil => rfl
  | cons f tl ih =>
    simp only [modifyLast]
    split
    · simp only [e2e, List.filter_cons] at ih ⊢; rw [ih]
    · split
      · next hp =>
        have ho : owned c f = true := owned_of_named hn hp
        have ho' : owned c (appendVal suf f) = true := by
          cases f with
          | cookies => simp [isHdrNamed] at hp
          | hdr k v => exact owned_of_named hn (by simpa [appendVal, isHdrNamed] using hp)
        simp only [e2e, List.filter_cons, ho, ho', Bool.not_true, Bool.false_eq_true, ↓reduceIte] at ih ⊢
        exact ih
      · simp only [e2e, List.filter_cons] at ih ⊢; rw [ih]

theorem e2e_append_owned (c : Ctx) (fs adds : List Field) (h : ∀ f ∈ adds, owned c f = true) :
    e2e c (fs ++ adds) = e2e c fs := by
  simp only [e2e, List.filter_append]
  have : adds.filter (fun f => !owned c f) = [] := by
    simp only [List.filter_eq_nil_iff, Bool.not_eq_true, Bool.not_eq_false']
    intro f hf; simp [h f hf]
  simp [this]

theorem owned_const (c : Ctx) (k n v : Bytes) (hn : n ∈ ownedNames c) (hk : eqNoCase k n = true) :
    owned c (.hdr k v) = true := owned_of_named hn (by simpa [isHdrNamed] using hk)

theorem peerAdditions_owned (c : Ctx) (p : Addr) (a b : Bool) : ∀ f ∈ peerAdditions c p a b, owned c f = true := by
  intro f hf
  simp only [peerAdditions, List.mem_append] at hf
  rcases hf with (hf | hf) | hf
  · split at hf
    · simp at hf
    · simp at hf; subst hf; exact owned_const c _ sXFFor _ (by simp [ownedNames]) (by decide)
  · split at hf
    · simp at hf
    · simp at hf; subst hf; exact owned_const c _ sForwarded _ (by simp [ownedNames]) (by decide)
  · split at hf
    · simp at hf; subst hf; exact owned_const c _ sXRealIp _ (by simp [ownedNames]) (by decide)
    · simp at hf

theorem tailAdditions_owned (c : Ctx) (fs0 : List Field) : ∀ f ∈ tailAdditions c fs0, owned c f = true := by
  intro f hf
  simp only [tailAdditions, List.mem_append, List.mem_cons, List.mem_nil_iff, or_false] at hf
  rcases hf with (((hf | hf) | hf) | hf) | hf
  · split at hf
    · simp at hf
    · simp at hf; subst hf; exact owned_const c _ sXFPort _ (by simp [ownedNames]) (by decide)
  · split at hf
    · simp at hf
    · simp at hf; subst hf; exact owned_const c _ sXFProto _ (by simp [ownedNames]) (by decide)
  · split at hf
    · simp at hf; subst hf; exact owned_const c _ sConnection _ (by simp [ownedNames]) (by decide)
    · simp at hf
  · split at hf
    · simp at hf
    · simp at hf; subst hf; exact owned_const c _ sXRequestId _ (by simp [ownedNames]) (by decide)
  · subst hf; exact owned_const c _ c.sozuIdHeader _ (by simp [ownedNames]) (eqNoCase_refl _)

theorem e2e_editRequest (c : Ctx) (fs : List Field) : e2e c (editRequest c fs) = e2e c fs := by
  unfold editRequest
  cases hp : c.peer with
  | none =>
    simp only
    rw [e2e_append_owned c _ _ (tailAdditions_owned c fs), e2e_walkRequest]
  | some p =>
    simp only
    rw [e2e_append_owned c _ _ (tailAdditions_owned c fs), e2e_append_owned c _ _ (peerAdditions_owned c p _ _),
      e2e_modifyLast c sForwarded _ (by simp [ownedNames]), e2e_modifyLast c sXFFor _ (by simp [ownedNames]),
      e2e_walkRequest]

-- ---------------------------------------------------------- last value --

theorem lastValue_append (n : Bytes) (a b : List Field) :
    lastValue n (a ++ b) = match lastValue n b with | some v => some v | none => lastValue n a := by
  induction a with
  | nil => simp [lastValue]; cases lastValue n b <;> rfl
  | cons f tl ih =>
    simp only [List.cons_append, lastValue, ih]
    cases hb : lastValue n b with
    | some v => simp
    | none => simp

theorem lastValue_modifyLast_same (n suf : Bytes) (fs : List Field) :
    lastValue n (modifyLast (isHdrNamed n) (appendVal suf) fs).1 = (lastValue n fs).map (· ++ suf) ∧
    (modifyLast (isHdrNamed n) (appendVal suf) fs).2 = (lastValue n fs).isSome := by
  induction fs with
  | nil => simp [modifyLast, lastValue]
  | cons f tl ih =>
    obtain ⟨ih1, ih2⟩ := ih
    simp only [modifyLast]
    cases hl : lastValue n tl with
    | some v =>
      simp only [hl, Option.isSome_some] at ih1 ih2
      simp [ih2, lastValue, ih1, hl]
    | none =>
      simp only [hl, Option.isSome_none] at ih1 ih2
      simp only [ih2, Bool.false_eq_true, ↓reduceIte]
      cases f with
      | cookies => simp [isHdrNamed, lastValue, ih1, hl, ih2]
      | hdr k v =>
        by_cases hk : eqNoCase k n = true
        · simp [isHdrNamed, hk, lastValue, ih1, hl, appendVal]
        · simp [isHdrNamed, hk, lastValue, ih1, hl, ih2]

theorem lastValue_modifyLast_other (n m suf : Bytes) (hnm : lower n ≠ lower m) (fs : List Field) :
    lastValue n (modifyLast (isHdrNamed m) (appendVal suf) fs).1 = lastValue n fs := by
  induction fs with
  | nil => simp [modifyLast]
  | cons f tl ih =>
    simp only [modifyLast]
    split
    · simp [lastValue, ih]
    · split
      · next hp =>
        cases f with
        | cookies => simp [isHdrNamed] at hp
        | hdr k v =>
          simp only [isHdrNamed] at hp
          have : eqNoCase k n = false := by
            rw [eqNoCase_lower_const hp n]
            simp only [beq_eq_false_iff_ne, ne_eq]
            exact fun e => hnm e.symm
          simp [lastValue, ih, appendVal, this]
      · simp [lastValue, ih]

theorem lastValue_none_of_not_named (n : Bytes) (fs : List Field) (h : ∀ f ∈ fs, isHdrNamed n f = false) :
    lastValue n fs = none := by
  induction fs with
  | nil => rfl
  | cons f tl ih =>
    have := ih (fun x hx => h x (by simp [hx]))
    have hf := h f (by simp)
    cases f with
    | cookies => simp [lastValue, this]
    | hdr k v => simp only [isHdrNamed] at hf; simp [lastValue, this, hf]

end Sozu.Headers
