import Sozu.Headers.Model
/-
Headers area, part 3: a strict RFC 9112 request reader — the yardstick a
conforming HTTP/1.1 backend is assumed to be at least as lenient as *on
well-formed input*, and which rejects everything ambiguous:

  * request-line = token SP request-target SP "HTTP/1." ("0" / "1") CRLF, the
    target non-empty without SP / CTL / DEL;
  * field lines = token ":" OWS value OWS CRLF, values without CTL (HTAB
    allowed) or DEL; no whitespace before the colon, no obs-fold, CRLF only
    (a bare CR or LF anywhere in the header section rejects);
  * exactly one `Host`;
  * framing: no `Transfer-Encoding` and at most one `Content-Length` (1*DIGIT),
    or exactly one `Transfer-Encoding: chunked` and no `Content-Length`;
    anything else rejects;
  * chunked bodies: `1*HEXDIG CRLF data CRLF`, last chunk `0`, trailer
    section of field lines, no chunk extensions.

It is independent of everything sozu does (it only shares the token table).
-/
namespace Sozu.Headers

structure Parsed where
  method : Bytes
  target : Bytes
  /-- HTTP/1.`minor` -/
  minor : Nat
  /-- field lines in order, values with OWS trimmed -/
  headers : List (Bytes × Bytes)
  chunked : Bool
  /-- decoded payload -/
  body : Bytes
  trailers : List (Bytes × Bytes)
deriving DecidableEq, Repr

def isEol (b : Nat) : Bool := b == 13 || b == 10

/-- split at the first CRLF; a bare CR or bare LF before it rejects -/
def untilCrlf (inp : Bytes) : Option (Bytes × Bytes) :=
  match inp.dropWhile (!isEol ·) with
  | 13 :: 10 :: rest => some (inp.takeWhile (!isEol ·), rest)
  | _ => none

def isTargetByte (b : Nat) : Bool := b > 32 && b != 127
def isFieldValueByte (b : Nat) : Bool := b == 9 || (b ≥ 32 && b != 127)

def parseRequestLine (line : Bytes) : Option (Bytes × Bytes × Nat) :=
  let m := line.takeWhile isTchar
  match line.dropWhile isTchar with
  | 32 :: r1 =>
    let t := r1.takeWhile isTargetByte
    match r1.dropWhile isTargetByte with
    | [32, 72, 84, 84, 80, 47, 49, 46, d] =>
      if m.isEmpty || t.isEmpty then none
      else if d == 49 then some (m, t, 1) else if d == 48 then some (m, t, 0) else none
    | _ => none
  | _ => none

def parseFieldLine (line : Bytes) : Option (Bytes × Bytes) :=
  let n := line.takeWhile isTchar
  match line.dropWhile isTchar with
  | 58 :: raw =>
    if n.isEmpty || !raw.all isFieldValueByte then none else some (n, trimOws raw)
  | _ => none

/-- field lines up to and including the blank line -/
def readFields : Nat → Bytes → Option (List (Bytes × Bytes) × Bytes)
  | 0, _ => none
  | fuel + 1, inp =>
    match untilCrlf inp with
    | none => none
    | some (line, rest) =>
      if line.isEmpty then some ([], rest)
      else match parseFieldLine line with
        | none => none
        | some kv =>
          match readFields fuel rest with
          | none => none
          | some (kvs, rest') => some (kv :: kvs, rest')

inductive Framing | length (n : Nat) | chunked
deriving DecidableEq, Repr

def named (name : Bytes) (hs : List (Bytes × Bytes)) : List (Bytes × Bytes) := hs.filter (eqNoCase ·.1 name)

/-- RFC 9112 §6.3 without the lenient options -/
def framingOf (hs : List (Bytes × Bytes)) : Option Framing :=
  match named sTransferEncoding hs, named sContentLength hs with
  | [], [] => some (.length 0)
  | [], [cl] => if cl.2.isEmpty || !cl.2.all isDigit then none else some (.length (decVal cl.2))
  | [te], [] => if eqNoCase te.2 sChunked then some .chunked else none
  | _, _ => none

def isHexDigit (b : Nat) : Bool := isDigit b || (97 ≤ b && b ≤ 102) || (65 ≤ b && b ≤ 70)
def hexDigitVal (b : Nat) : Nat := if isDigit b then b - 48 else if 97 ≤ b then b - 87 else b - 55
def hexVal (s : Bytes) : Nat := s.foldl (fun acc b => acc * 16 + hexDigitVal b) 0

/-- chunked body: payload, trailer section, rest -/
def readChunks : Nat → Bytes → Option (Bytes × List (Bytes × Bytes) × Bytes)
  | 0, _ => none
  | fuel + 1, inp =>
    match untilCrlf inp with
    | none => none
    | some (line, rest) =>
      if line.isEmpty || !line.all isHexDigit then none
      else
        let n := hexVal line
        if n == 0 then
          match readFields (rest.length + 1) rest with
          | none => none
          | some (tr, rest') => some ([], tr, rest')
        else if rest.length < n then none
        else match rest.drop n with
          | 13 :: 10 :: rest' =>
            match readChunks fuel rest' with
            | none => none
            | some (p, tr, rest'') => some (rest.take n ++ p, tr, rest'')
          | _ => none

/-- read exactly one request from the front of `inp` -/
def parseStrict (inp : Bytes) : Option (Parsed × Bytes) :=
  match untilCrlf inp with
  | none => none
  | some (line, r1) =>
    match parseRequestLine line with
    | none => none
    | some (m, t, minor) =>
      match readFields (r1.length + 1) r1 with
      | none => none
      | some (hs, r2) =>
        if (named sHost hs).length != 1 then none
        else match framingOf hs with
          | none => none
          | some (.length n) =>
            if r2.length < n then none
            else some ({ method := m, target := t, minor := minor, headers := hs, chunked := false,
                         body := r2.take n, trailers := [] }, r2.drop n)
          | some .chunked =>
            match readChunks (r2.length + 1) r2 with
            | none => none
            | some (p, tr, r3) =>
              some ({ method := m, target := t, minor := minor, headers := hs, chunked := true,
                      body := p, trailers := tr }, r3)

/-- read requests until the input is exhausted or unreadable: the requests
    read and what was left -/
def parseSeq : Nat → Bytes → List Parsed × Bytes
  | 0, inp => ([], inp)
  | fuel + 1, inp =>
    if inp.isEmpty then ([], [])
    else match parseStrict inp with
      | none => ([], inp)
      | some (p, rest) =>
        let r := parseSeq fuel rest
        (p :: r.1, r.2)

def parseAll (inp : Bytes) : List Parsed × Bytes := parseSeq (inp.length + 1) inp

/-- the `Host` value the strict reader read -/
def Parsed.host (p : Parsed) : Bytes := ((named sHost p.headers).head?.map (·.2)).getD []

end Sozu.Headers
